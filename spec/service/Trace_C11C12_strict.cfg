\* generated by gen_cfgs.py
CONSTANTS
  Mode = "svc"
  Depth = 0
  RootOps = {}
  RK = {0}
  RR = {"ok"}
  CK = {0}
  CR = {"ok"}
  FK = {0}
  FR = {"ok"}
  Kinds = {"cfg"}
  Reqs = {"a"}
  Cfgs = {"k"}
  Emit = FALSE
  Strict = TRUE
  AndThenCallsBOnErr = FALSE
  AndThenReadyShortCircuit = FALSE
  MapAppliedToErr = FALSE
  MapErrAppliedTwice = FALSE
  FactoryBuildsTwice = FALSE
  FirstInitErrorSwallowed = FALSE
  RepollAfterComplete = FALSE
  AndThenFactorySequential = FALSE
SPECIFICATION TSpec
POSTCONDITION TraceAccepted
CHECK_DEADLOCK FALSE
