---- MODULE Combinators_TTrace_1790443298 ----
EXTENDS Sequences, TLCExt, Toolbox, Naturals, TLC, Combinators

_expression ==
    LET Combinators_TEExpression == INSTANCE Combinators_TEExpression
    IN Combinators_TEExpression!expression
----

_trace ==
    LET Combinators_TETrace == INSTANCE Combinators_TETrace
    IN Combinators_TETrace!trace
----

_inv ==
    ~(
        TLCGet("level") = Len(_TETrace)
        /\
        phase = ("done")
        /\
        svc = ([o |-> "none", id |-> 0])
        /\
        wid = (3)
        /\
        act = ([res |-> [k |-> "err", v |-> "IE3(k)"], op |-> "poll_init"])
        /\
        T = ([a |-> [o |-> "fleaf", id |-> 2, rk |-> 0, rr |-> "ok", ck |-> 0, cr |-> "ok", fk |-> 0, fr |-> "err", kind |-> "cfg"], o |-> "fand_then", id |-> 1, b |-> [o |-> "fleaf", id |-> 3, rk |-> 0, rr |-> "ok", ck |-> 0, cr |-> "ok", fk |-> 1, fr |-> "err", kind |-> "cfg"]])
        /\
        fut = ([o |-> "nofut"])
        /\
        cfg = ("k")
        /\
        log = (<<[w |-> 0, ph |-> "new", res |-> [k |-> "ok", v |-> ""], acc |-> <<[e |-> "new", id |-> 2, w |-> 0, r |-> "", x |-> "k"], [e |-> "new", id |-> 3, w |-> 0, r |-> "", x |-> "k"]>>], [w |-> 1, ph |-> "init", res |-> [k |-> "pending", v |-> ""], acc |-> <<[e |-> "pi", id |-> 2, w |-> 1, r |-> "err", x |-> ""], [e |-> "pi", id |-> 3, w |-> 1, r |-> "pending", x |-> ""]>>], [w |-> 2, ph |-> "init", res |-> [k |-> "err", v |-> "IE3(k)"], acc |-> <<[e |-> "pi", id |-> 3, w |-> 2, r |-> "err", x |-> ""]>>]>>)
        /\
        ifut = ([a |-> [o |-> "none", id |-> 0], o |-> "iat", id |-> 1, b |-> [o |-> "none", id |-> 0], fa |-> [err |-> "IE2(k)", k |-> 0, svc |-> [o |-> "leaf", id |-> 2, rk |-> 0, rr |-> "ok", ck |-> 0, cr |-> "ok", kind |-> "svc"], o |-> "iscr", id |-> 2, r |-> "err", n |-> 0, done |-> TRUE, quiet |-> FALSE], fb |-> [err |-> "IE3(k)", k |-> 1, svc |-> [o |-> "leaf", id |-> 3, rk |-> 0, rr |-> "ok", ck |-> 0, cr |-> "ok", kind |-> "svc"], o |-> "iscr", id |-> 3, r |-> "err", n |-> 1, done |-> TRUE, quiet |-> FALSE], ea |-> "IE2(k)"])
        /\
        rp = (<<0, 0, 0, 0, 0, 0, 0, 0, 0, 0, 0, 0, 0, 0, 0, 0, 0, 0, 0, 0, 0, 0, 0, 0, 0, 0, 0, 0, 0, 0, 0, 0, 0, 0, 0, 0, 0, 0, 0, 0, 0, 0, 0, 0, 0, 0, 0, 0, 0, 0, 0, 0, 0, 0, 0, 0, 0, 0, 0, 0, 0, 0, 0>>)
        /\
        req = ("a")
    )
----

_init ==
    /\ req = _TETrace[1].req
    /\ T = _TETrace[1].T
    /\ cfg = _TETrace[1].cfg
    /\ wid = _TETrace[1].wid
    /\ phase = _TETrace[1].phase
    /\ fut = _TETrace[1].fut
    /\ act = _TETrace[1].act
    /\ rp = _TETrace[1].rp
    /\ log = _TETrace[1].log
    /\ ifut = _TETrace[1].ifut
    /\ svc = _TETrace[1].svc
----

_next ==
    /\ \E i,j \in DOMAIN _TETrace:
        /\ \/ /\ j = i + 1
              /\ i = TLCGet("level")
        /\ req  = _TETrace[i].req
        /\ req' = _TETrace[j].req
        /\ T  = _TETrace[i].T
        /\ T' = _TETrace[j].T
        /\ cfg  = _TETrace[i].cfg
        /\ cfg' = _TETrace[j].cfg
        /\ wid  = _TETrace[i].wid
        /\ wid' = _TETrace[j].wid
        /\ phase  = _TETrace[i].phase
        /\ phase' = _TETrace[j].phase
        /\ fut  = _TETrace[i].fut
        /\ fut' = _TETrace[j].fut
        /\ act  = _TETrace[i].act
        /\ act' = _TETrace[j].act
        /\ rp  = _TETrace[i].rp
        /\ rp' = _TETrace[j].rp
        /\ log  = _TETrace[i].log
        /\ log' = _TETrace[j].log
        /\ ifut  = _TETrace[i].ifut
        /\ ifut' = _TETrace[j].ifut
        /\ svc  = _TETrace[i].svc
        /\ svc' = _TETrace[j].svc

\* Uncomment the ASSUME below to write the states of the error trace
\* to the given file in Json format. Note that you can pass any tuple
\* to `JsonSerialize`. For example, a sub-sequence of _TETrace.
    \* ASSUME
    \*     LET J == INSTANCE Json
    \*         IN J!JsonSerialize("Combinators_TTrace_1790443298.json", _TETrace)

=============================================================================

 Note that you can extract this module `Combinators_TEExpression`
  to a dedicated file to reuse `expression` (the module in the 
  dedicated `Combinators_TEExpression.tla` file takes precedence 
  over the module `Combinators_TEExpression` below).

---- MODULE Combinators_TEExpression ----
EXTENDS Sequences, TLCExt, Toolbox, Naturals, TLC, Combinators

expression == 
    [
        \* To hide variables of the `Combinators` spec from the error trace,
        \* remove the variables below.  The trace will be written in the order
        \* of the fields of this record.
        req |-> req
        ,T |-> T
        ,cfg |-> cfg
        ,wid |-> wid
        ,phase |-> phase
        ,fut |-> fut
        ,act |-> act
        ,rp |-> rp
        ,log |-> log
        ,ifut |-> ifut
        ,svc |-> svc
        
        \* Put additional constant-, state-, and action-level expressions here:
        \* ,_stateNumber |-> _TEPosition
        \* ,_reqUnchanged |-> req = req'
        
        \* Format the `req` variable as Json value.
        \* ,_reqJson |->
        \*     LET J == INSTANCE Json
        \*     IN J!ToJson(req)
        
        \* Lastly, you may build expressions over arbitrary sets of states by
        \* leveraging the _TETrace operator.  For example, this is how to
        \* count the number of times a spec variable changed up to the current
        \* state in the trace.
        \* ,_reqModCount |->
        \*     LET F[s \in DOMAIN _TETrace] ==
        \*         IF s = 1 THEN 0
        \*         ELSE IF _TETrace[s].req # _TETrace[s-1].req
        \*             THEN 1 + F[s-1] ELSE F[s-1]
        \*     IN F[_TEPosition - 1]
    ]

=============================================================================



Parsing and semantic processing can take forever if the trace below is long.
 In this case, it is advised to uncomment the module below to deserialize the
 trace from a generated binary file.

\*
\*---- MODULE Combinators_TETrace ----
\*EXTENDS IOUtils, TLC, Combinators
\*
\*trace == IODeserialize("Combinators_TTrace_1790443298.bin", TRUE)
\*
\*=============================================================================
\*

---- MODULE Combinators_TETrace ----
EXTENDS TLC, Combinators

trace == 
    <<
    ([phase |-> "new",svc |-> [o |-> "none", id |-> 0],wid |-> 1,act |-> [res |-> [k |-> "pending", v |-> ""], op |-> "init"],T |-> [a |-> [o |-> "fleaf", id |-> 2, rk |-> 0, rr |-> "ok", ck |-> 0, cr |-> "ok", fk |-> 0, fr |-> "err", kind |-> "cfg"], o |-> "fand_then", id |-> 1, b |-> [o |-> "fleaf", id |-> 3, rk |-> 0, rr |-> "ok", ck |-> 0, cr |-> "ok", fk |-> 1, fr |-> "err", kind |-> "cfg"]],fut |-> [o |-> "nofut"],cfg |-> "k",log |-> <<>>,ifut |-> [o |-> "nofut"],rp |-> <<0, 0, 0, 0, 0, 0, 0, 0, 0, 0, 0, 0, 0, 0, 0, 0, 0, 0, 0, 0, 0, 0, 0, 0, 0, 0, 0, 0, 0, 0, 0, 0, 0, 0, 0, 0, 0, 0, 0, 0, 0, 0, 0, 0, 0, 0, 0, 0, 0, 0, 0, 0, 0, 0, 0, 0, 0, 0, 0, 0, 0, 0, 0>>,req |-> "a"]),
    ([phase |-> "init",svc |-> [o |-> "none", id |-> 0],wid |-> 1,act |-> [res |-> [k |-> "ok", v |-> ""], op |-> "new_service"],T |-> [a |-> [o |-> "fleaf", id |-> 2, rk |-> 0, rr |-> "ok", ck |-> 0, cr |-> "ok", fk |-> 0, fr |-> "err", kind |-> "cfg"], o |-> "fand_then", id |-> 1, b |-> [o |-> "fleaf", id |-> 3, rk |-> 0, rr |-> "ok", ck |-> 0, cr |-> "ok", fk |-> 1, fr |-> "err", kind |-> "cfg"]],fut |-> [o |-> "nofut"],cfg |-> "k",log |-> <<[w |-> 0, ph |-> "new", res |-> [k |-> "ok", v |-> ""], acc |-> <<[e |-> "new", id |-> 2, w |-> 0, r |-> "", x |-> "k"], [e |-> "new", id |-> 3, w |-> 0, r |-> "", x |-> "k"]>>]>>,ifut |-> [a |-> [o |-> "none", id |-> 0], o |-> "iat", id |-> 1, b |-> [o |-> "none", id |-> 0], fa |-> [err |-> "IE2(k)", k |-> 0, svc |-> [o |-> "leaf", id |-> 2, rk |-> 0, rr |-> "ok", ck |-> 0, cr |-> "ok", kind |-> "svc"], o |-> "iscr", id |-> 2, r |-> "err", n |-> 0, done |-> FALSE, quiet |-> FALSE], fb |-> [err |-> "IE3(k)", k |-> 1, svc |-> [o |-> "leaf", id |-> 3, rk |-> 0, rr |-> "ok", ck |-> 0, cr |-> "ok", kind |-> "svc"], o |-> "iscr", id |-> 3, r |-> "err", n |-> 0, done |-> FALSE, quiet |-> FALSE], ea |-> ""],rp |-> <<0, 0, 0, 0, 0, 0, 0, 0, 0, 0, 0, 0, 0, 0, 0, 0, 0, 0, 0, 0, 0, 0, 0, 0, 0, 0, 0, 0, 0, 0, 0, 0, 0, 0, 0, 0, 0, 0, 0, 0, 0, 0, 0, 0, 0, 0, 0, 0, 0, 0, 0, 0, 0, 0, 0, 0, 0, 0, 0, 0, 0, 0, 0>>,req |-> "a"]),
    ([phase |-> "init",svc |-> [o |-> "none", id |-> 0],wid |-> 2,act |-> [res |-> [k |-> "pending", v |-> ""], op |-> "poll_init"],T |-> [a |-> [o |-> "fleaf", id |-> 2, rk |-> 0, rr |-> "ok", ck |-> 0, cr |-> "ok", fk |-> 0, fr |-> "err", kind |-> "cfg"], o |-> "fand_then", id |-> 1, b |-> [o |-> "fleaf", id |-> 3, rk |-> 0, rr |-> "ok", ck |-> 0, cr |-> "ok", fk |-> 1, fr |-> "err", kind |-> "cfg"]],fut |-> [o |-> "nofut"],cfg |-> "k",log |-> <<[w |-> 0, ph |-> "new", res |-> [k |-> "ok", v |-> ""], acc |-> <<[e |-> "new", id |-> 2, w |-> 0, r |-> "", x |-> "k"], [e |-> "new", id |-> 3, w |-> 0, r |-> "", x |-> "k"]>>], [w |-> 1, ph |-> "init", res |-> [k |-> "pending", v |-> ""], acc |-> <<[e |-> "pi", id |-> 2, w |-> 1, r |-> "err", x |-> ""], [e |-> "pi", id |-> 3, w |-> 1, r |-> "pending", x |-> ""]>>]>>,ifut |-> [a |-> [o |-> "none", id |-> 0], o |-> "iat", id |-> 1, b |-> [o |-> "none", id |-> 0], fa |-> [err |-> "IE2(k)", k |-> 0, svc |-> [o |-> "leaf", id |-> 2, rk |-> 0, rr |-> "ok", ck |-> 0, cr |-> "ok", kind |-> "svc"], o |-> "iscr", id |-> 2, r |-> "err", n |-> 0, done |-> TRUE, quiet |-> FALSE], fb |-> [err |-> "IE3(k)", k |-> 1, svc |-> [o |-> "leaf", id |-> 3, rk |-> 0, rr |-> "ok", ck |-> 0, cr |-> "ok", kind |-> "svc"], o |-> "iscr", id |-> 3, r |-> "err", n |-> 1, done |-> FALSE, quiet |-> FALSE], ea |-> "IE2(k)"],rp |-> <<0, 0, 0, 0, 0, 0, 0, 0, 0, 0, 0, 0, 0, 0, 0, 0, 0, 0, 0, 0, 0, 0, 0, 0, 0, 0, 0, 0, 0, 0, 0, 0, 0, 0, 0, 0, 0, 0, 0, 0, 0, 0, 0, 0, 0, 0, 0, 0, 0, 0, 0, 0, 0, 0, 0, 0, 0, 0, 0, 0, 0, 0, 0>>,req |-> "a"]),
    ([phase |-> "done",svc |-> [o |-> "none", id |-> 0],wid |-> 3,act |-> [res |-> [k |-> "err", v |-> "IE3(k)"], op |-> "poll_init"],T |-> [a |-> [o |-> "fleaf", id |-> 2, rk |-> 0, rr |-> "ok", ck |-> 0, cr |-> "ok", fk |-> 0, fr |-> "err", kind |-> "cfg"], o |-> "fand_then", id |-> 1, b |-> [o |-> "fleaf", id |-> 3, rk |-> 0, rr |-> "ok", ck |-> 0, cr |-> "ok", fk |-> 1, fr |-> "err", kind |-> "cfg"]],fut |-> [o |-> "nofut"],cfg |-> "k",log |-> <<[w |-> 0, ph |-> "new", res |-> [k |-> "ok", v |-> ""], acc |-> <<[e |-> "new", id |-> 2, w |-> 0, r |-> "", x |-> "k"], [e |-> "new", id |-> 3, w |-> 0, r |-> "", x |-> "k"]>>], [w |-> 1, ph |-> "init", res |-> [k |-> "pending", v |-> ""], acc |-> <<[e |-> "pi", id |-> 2, w |-> 1, r |-> "err", x |-> ""], [e |-> "pi", id |-> 3, w |-> 1, r |-> "pending", x |-> ""]>>], [w |-> 2, ph |-> "init", res |-> [k |-> "err", v |-> "IE3(k)"], acc |-> <<[e |-> "pi", id |-> 3, w |-> 2, r |-> "err", x |-> ""]>>]>>,ifut |-> [a |-> [o |-> "none", id |-> 0], o |-> "iat", id |-> 1, b |-> [o |-> "none", id |-> 0], fa |-> [err |-> "IE2(k)", k |-> 0, svc |-> [o |-> "leaf", id |-> 2, rk |-> 0, rr |-> "ok", ck |-> 0, cr |-> "ok", kind |-> "svc"], o |-> "iscr", id |-> 2, r |-> "err", n |-> 0, done |-> TRUE, quiet |-> FALSE], fb |-> [err |-> "IE3(k)", k |-> 1, svc |-> [o |-> "leaf", id |-> 3, rk |-> 0, rr |-> "ok", ck |-> 0, cr |-> "ok", kind |-> "svc"], o |-> "iscr", id |-> 3, r |-> "err", n |-> 1, done |-> TRUE, quiet |-> FALSE], ea |-> "IE2(k)"],rp |-> <<0, 0, 0, 0, 0, 0, 0, 0, 0, 0, 0, 0, 0, 0, 0, 0, 0, 0, 0, 0, 0, 0, 0, 0, 0, 0, 0, 0, 0, 0, 0, 0, 0, 0, 0, 0, 0, 0, 0, 0, 0, 0, 0, 0, 0, 0, 0, 0, 0, 0, 0, 0, 0, 0, 0, 0, 0, 0, 0, 0, 0, 0, 0>>,req |-> "a"])
    >>
----


=============================================================================

---- CONFIG Combinators_TTrace_1790443298 ----
CONSTANTS
    Mode = "fac"
    Depth = 1
    RootOps = { "fleaf" , "fand_then" , "fmap" , "fmap_err" , "fmap_init_err" , "fmap_config" , "funit_config" , "fapply_fn" , "fboxed" , "fapply_cfg" , "fapply_cfg_factory" , "ftransform" }
    RK = { 0 , 1 }
    RR = { "ok" , "err" }
    CK = { 0 }
    CR = { "ok" , "err" }
    FK = { 0 , 1 , 2 }
    FR = { "ok" , "err" }
    Kinds = { "cfg" }
    Reqs = { "a" }
    Cfgs = { "k" }
    Emit = FALSE
    AndThenCallsBOnErr = FALSE
    AndThenReadyShortCircuit = FALSE
    MapAppliedToErr = FALSE
    MapErrAppliedTwice = FALSE
    FactoryBuildsTwice = FALSE
    FirstInitErrorSwallowed = TRUE
    RepollAfterComplete = FALSE
    AndThenFactorySequential = FALSE

INVARIANT
    _inv

CHECK_DEADLOCK
    \* CHECK_DEADLOCK off because of PROPERTY or INVARIANT above.
    FALSE

INIT
    _init

NEXT
    _next

CONSTANT
    _TETrace <- _trace

ALIAS
    _expression
=============================================================================
\* Generated on Sat Sep 26 17:21:40 UTC 2026