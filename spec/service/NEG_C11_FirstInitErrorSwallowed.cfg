\* generated by gen_cfgs.py
CONSTANTS
  Mode = "fac"
  Depth = 1
  RootOps = {"fleaf", "fand_then", "fmap", "fmap_err", "fmap_init_err", "fmap_config", "funit_config", "fapply_fn", "fboxed", "fapply_cfg", "fapply_cfg_factory", "ftransform"}
  RK = {0, 1}
  RR = {"ok", "err"}
  CK = {0}
  CR = {"ok", "err"}
  FK = {0, 1, 2}
  FR = {"ok", "err"}
  Kinds = {"cfg"}
  Reqs = {"a"}
  Cfgs = {"k"}
  Emit = FALSE
  AndThenCallsBOnErr = FALSE
  AndThenReadyShortCircuit = FALSE
  MapAppliedToErr = FALSE
  MapErrAppliedTwice = FALSE
  FactoryBuildsTwice = FALSE
  FirstInitErrorSwallowed = TRUE
  RepollAfterComplete = FALSE
  AndThenFactorySequential = FALSE
SPECIFICATION Spec
INVARIANTS
  I_C11_ResultIsEval I_C11_SecondOnlyAfterFirstOk I_C11_MapperOnceOnMatchingVariant I_C11_WrappersTransparent
  I_C11_FactoryBuildsEachOnceWithCfg I_C11_FirstInitErrorWins C11_BuiltIsReference
CHECK_DEADLOCK FALSE
