-------------------------- MODULE CombinatorsTrace --------------------------
(* Validation of runs RECORDED FROM THE REAL actix-service combinators against Combinators.tla.       *)
(* File (ndjson): a run is a record {"ev":"reset","run":n,"t":term,"req":..,"cfg":..} followed by one  *)
(* record per root operation {"ev":"round","ph":..,"w":..,"res":{k,v},"acc":[accesses]} as observed.   *)
(*  Strict = FALSE (predicate mode, raises alarms): the step relation is free - a round record is     *)
(*    appended to `log` - and the C11_/C12_ predicates are evaluated on every recorded prefix;        *)
(*    every failing (run, predicate) is printed as <<"JUDGE", "{l, run, failing: [names]}">>.         *)
(*  Strict = TRUE (binds the spec): each round record must be the machine's next action with the same *)
(*    phase, waker id, root result and the same MULTISET of accesses (intra-round order is free).     *)
EXTENDS Combinators, TLCExt, Integers
CONSTANT Strict
Rec == ndJsonDeserialize(IOEnv.TRACE)
VARIABLES l, run
tvars == <<vars, l, run>>
R == Rec[l + 1]

Count(e, s) == Cardinality({i \in 1..Len(s) : s[i] = e})
SameBag(s1, s2) == /\ Len(s1) = Len(s2)
                   /\ \A e \in Seq2Set(s1) : Count(e, s1) = Count(e, s2)
SameRound(m, r) == m.ph = r.ph /\ m.w = r.w /\ m.res = r.res /\ SameBag(m.acc, r.acc)

Reset(r) == /\ T' = r.t /\ req' = r.req /\ cfg' = r.cfg /\ run' = r.run
            /\ phase' = (IF IsFactory(r.t) THEN "new" ELSE "ready")
            /\ svc' = (IF IsFactory(r.t) THEN NoSvc ELSE r.t)
            /\ rp' = [i \in 1..MaxId |-> 0] /\ ifut' = NoFut /\ fut' = NoFut /\ log' = <<>> /\ wid' = 1 /\ act' = NoAct

Observed(r) == Round(r.ph, r.w, r.res, r.acc)
FreeRound(r) == /\ log' = Append(log, Observed(r))
                /\ UNCHANGED <<T, req, cfg, phase, svc, rp, ifut, fut, wid, act, run>>
StrictRound(r) == /\ Next /\ UNCHANGED run
                  /\ SameRound(log'[Len(log')], r)

TInit == /\ T = NoSvc /\ req = "" /\ cfg = "" /\ phase = "done" /\ svc = NoSvc /\ rp = [i \in 1..MaxId |-> 0]
         /\ ifut = NoFut /\ fut = NoFut /\ log = <<>> /\ wid = 1 /\ act = NoAct /\ l = 0 /\ run = -1
TNext == /\ l < Len(Rec) /\ l' = l + 1
         /\ \/ R.ev = "reset" /\ Reset(R)
            \/ R.ev = "round" /\ (IF Strict THEN StrictRound(R) ELSE FreeRound(R))
TSpec == TInit /\ [][TNext]_tvars

\* predicate mode: report, do not stop (all recorded runs are judged in one pass)
Judge == \/ run < 0 \/ Strict
         \/ LET f == Failing(T, req, cfg, log) IN f = <<>> \/ PrintT(<<"JUDGE", ToJson([l |-> l, run |-> run, failing |-> f])>>)

TraceAccepted ==
  LET n == TLCGet("stats").diameter - 1 IN
    /\ PrintT(<<"TRACE_MATCHED", n, Len(Rec)>>)
    /\ (n < Len(Rec) => PrintT(<<"UNMATCHED", ToJson(Rec[n + 1])>>))
    /\ n = Len(Rec)
=============================================================================
