\* generated by gen_cfgs.py
CONSTANTS
  Mode = "svc"
  Depth = 1
  RootOps = {"leaf", "and_then", "map", "map_err", "apply_fn", "boxed", "rc_boxed", "rc", "refcell", "ref"}
  RK = {0, 1}
  RR = {"ok", "err"}
  CK = {0, 1}
  CR = {"ok", "err"}
  FK = {0}
  FR = {"ok"}
  Kinds = {"cfg"}
  Reqs = {"a"}
  Cfgs = {"k"}
  Emit = FALSE
  AndThenCallsBOnErr = FALSE
  AndThenReadyShortCircuit = FALSE
  MapAppliedToErr = FALSE
  MapErrAppliedTwice = TRUE
  FactoryBuildsTwice = FALSE
  FirstInitErrorSwallowed = FALSE
  RepollAfterComplete = FALSE
  AndThenFactorySequential = FALSE
SPECIFICATION Spec
INVARIANTS
  I_C11_ResultIsEval I_C11_SecondOnlyAfterFirstOk I_C11_MapperOnceOnMatchingVariant I_C11_WrappersTransparent
  I_C11_FactoryBuildsEachOnceWithCfg I_C11_FirstInitErrorWins C11_BuiltIsReference
CHECK_DEADLOCK FALSE
