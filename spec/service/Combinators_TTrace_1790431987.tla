---- MODULE Combinators_TTrace_1790431987 ----
EXTENDS Sequences, TLCExt, Toolbox, Naturals, TLC, Combinators

_expression ==
    LET Combinators_TEExpression == INSTANCE Combinators_TEExpression
    IN Combinators_TEExpression!expression
----

_trace ==
    LET Combinators_TETrace == INSTANCE Combinators_TETrace
    IN Combinators_TETrace!trace
----

_inv ==
    ~(
        TLCGet("level") = Len(_TETrace)
        /\
        phase = ("done")
        /\
        svc = ([a |-> [o |-> "leaf", id |-> 2, rk |-> 0, rr |-> "ok", ck |-> 0, cr |-> "err"], o |-> "map_err", id |-> 1])
        /\
        wid = (3)
        /\
        act = ([res |-> [k |-> "err", v |-> "g1(g1(E2(a)))"], op |-> "poll"])
        /\
        T = ([a |-> [o |-> "leaf", id |-> 2, rk |-> 0, rr |-> "ok", ck |-> 0, cr |-> "err"], o |-> "map_err", id |-> 1])
        /\
        fut = ([fut |-> [k |-> 0, o |-> "lf", id |-> 2, r |-> "err", n |-> 0, arg |-> "a", done |-> TRUE], o |-> "maperrf", id |-> 1])
        /\
        log = (<<[w |-> 1, ph |-> "ready", res |-> [k |-> "ok", v |-> ""], acc |-> <<[e |-> "pr", id |-> 2, w |-> 1, r |-> "ok", x |-> ""]>>], [w |-> 0, ph |-> "call", res |-> [k |-> "ok", v |-> ""], acc |-> <<[e |-> "call", id |-> 2, w |-> 0, r |-> "", x |-> "a"]>>], [w |-> 2, ph |-> "fut", res |-> [k |-> "err", v |-> "g1(g1(E2(a)))"], acc |-> <<[e |-> "pf", id |-> 2, w |-> 2, r |-> "err", x |-> ""]>>]>>)
        /\
        cfg = ("-")
        /\
        ifut = ([o |-> "nofut"])
        /\
        rp = (<<0, 1, 0, 0, 0, 0, 0, 0, 0, 0, 0, 0, 0, 0, 0, 0, 0, 0, 0, 0, 0, 0, 0, 0, 0, 0, 0, 0, 0, 0, 0, 0, 0, 0, 0, 0, 0, 0, 0, 0, 0, 0, 0, 0, 0, 0, 0, 0, 0, 0, 0, 0, 0, 0, 0, 0, 0, 0, 0, 0, 0, 0, 0>>)
        /\
        req = ("a")
    )
----

_init ==
    /\ phase = _TETrace[1].phase
    /\ T = _TETrace[1].T
    /\ log = _TETrace[1].log
    /\ wid = _TETrace[1].wid
    /\ svc = _TETrace[1].svc
    /\ req = _TETrace[1].req
    /\ rp = _TETrace[1].rp
    /\ act = _TETrace[1].act
    /\ fut = _TETrace[1].fut
    /\ cfg = _TETrace[1].cfg
    /\ ifut = _TETrace[1].ifut
----

_next ==
    /\ \E i,j \in DOMAIN _TETrace:
        /\ \/ /\ j = i + 1
              /\ i = TLCGet("level")
        /\ phase  = _TETrace[i].phase
        /\ phase' = _TETrace[j].phase
        /\ T  = _TETrace[i].T
        /\ T' = _TETrace[j].T
        /\ log  = _TETrace[i].log
        /\ log' = _TETrace[j].log
        /\ wid  = _TETrace[i].wid
        /\ wid' = _TETrace[j].wid
        /\ svc  = _TETrace[i].svc
        /\ svc' = _TETrace[j].svc
        /\ req  = _TETrace[i].req
        /\ req' = _TETrace[j].req
        /\ rp  = _TETrace[i].rp
        /\ rp' = _TETrace[j].rp
        /\ act  = _TETrace[i].act
        /\ act' = _TETrace[j].act
        /\ fut  = _TETrace[i].fut
        /\ fut' = _TETrace[j].fut
        /\ cfg  = _TETrace[i].cfg
        /\ cfg' = _TETrace[j].cfg
        /\ ifut  = _TETrace[i].ifut
        /\ ifut' = _TETrace[j].ifut

\* Uncomment the ASSUME below to write the states of the error trace
\* to the given file in Json format. Note that you can pass any tuple
\* to `JsonSerialize`. For example, a sub-sequence of _TETrace.
    \* ASSUME
    \*     LET J == INSTANCE Json
    \*         IN J!JsonSerialize("Combinators_TTrace_1790431987.json", _TETrace)

=============================================================================

 Note that you can extract this module `Combinators_TEExpression`
  to a dedicated file to reuse `expression` (the module in the 
  dedicated `Combinators_TEExpression.tla` file takes precedence 
  over the module `Combinators_TEExpression` below).

---- MODULE Combinators_TEExpression ----
EXTENDS Sequences, TLCExt, Toolbox, Naturals, TLC, Combinators

expression == 
    [
        \* To hide variables of the `Combinators` spec from the error trace,
        \* remove the variables below.  The trace will be written in the order
        \* of the fields of this record.
        phase |-> phase
        ,T |-> T
        ,log |-> log
        ,wid |-> wid
        ,svc |-> svc
        ,req |-> req
        ,rp |-> rp
        ,act |-> act
        ,fut |-> fut
        ,cfg |-> cfg
        ,ifut |-> ifut
        
        \* Put additional constant-, state-, and action-level expressions here:
        \* ,_stateNumber |-> _TEPosition
        \* ,_phaseUnchanged |-> phase = phase'
        
        \* Format the `phase` variable as Json value.
        \* ,_phaseJson |->
        \*     LET J == INSTANCE Json
        \*     IN J!ToJson(phase)
        
        \* Lastly, you may build expressions over arbitrary sets of states by
        \* leveraging the _TETrace operator.  For example, this is how to
        \* count the number of times a spec variable changed up to the current
        \* state in the trace.
        \* ,_phaseModCount |->
        \*     LET F[s \in DOMAIN _TETrace] ==
        \*         IF s = 1 THEN 0
        \*         ELSE IF _TETrace[s].phase # _TETrace[s-1].phase
        \*             THEN 1 + F[s-1] ELSE F[s-1]
        \*     IN F[_TEPosition - 1]
    ]

=============================================================================



Parsing and semantic processing can take forever if the trace below is long.
 In this case, it is advised to uncomment the module below to deserialize the
 trace from a generated binary file.

\*
\*---- MODULE Combinators_TETrace ----
\*EXTENDS IOUtils, TLC, Combinators
\*
\*trace == IODeserialize("Combinators_TTrace_1790431987.bin", TRUE)
\*
\*=============================================================================
\*

---- MODULE Combinators_TETrace ----
EXTENDS TLC, Combinators

trace == 
    <<
    ([phase |-> "ready",svc |-> [a |-> [o |-> "leaf", id |-> 2, rk |-> 0, rr |-> "ok", ck |-> 0, cr |-> "err"], o |-> "map_err", id |-> 1],wid |-> 1,act |-> [res |-> [k |-> "pending", v |-> ""], op |-> "init"],T |-> [a |-> [o |-> "leaf", id |-> 2, rk |-> 0, rr |-> "ok", ck |-> 0, cr |-> "err"], o |-> "map_err", id |-> 1],fut |-> [o |-> "nofut"],log |-> <<>>,cfg |-> "-",ifut |-> [o |-> "nofut"],rp |-> <<0, 0, 0, 0, 0, 0, 0, 0, 0, 0, 0, 0, 0, 0, 0, 0, 0, 0, 0, 0, 0, 0, 0, 0, 0, 0, 0, 0, 0, 0, 0, 0, 0, 0, 0, 0, 0, 0, 0, 0, 0, 0, 0, 0, 0, 0, 0, 0, 0, 0, 0, 0, 0, 0, 0, 0, 0, 0, 0, 0, 0, 0, 0>>,req |-> "a"]),
    ([phase |-> "call",svc |-> [a |-> [o |-> "leaf", id |-> 2, rk |-> 0, rr |-> "ok", ck |-> 0, cr |-> "err"], o |-> "map_err", id |-> 1],wid |-> 2,act |-> [res |-> [k |-> "ok", v |-> ""], op |-> "poll_ready"],T |-> [a |-> [o |-> "leaf", id |-> 2, rk |-> 0, rr |-> "ok", ck |-> 0, cr |-> "err"], o |-> "map_err", id |-> 1],fut |-> [o |-> "nofut"],log |-> <<[w |-> 1, ph |-> "ready", res |-> [k |-> "ok", v |-> ""], acc |-> <<[e |-> "pr", id |-> 2, w |-> 1, r |-> "ok", x |-> ""]>>]>>,cfg |-> "-",ifut |-> [o |-> "nofut"],rp |-> <<0, 1, 0, 0, 0, 0, 0, 0, 0, 0, 0, 0, 0, 0, 0, 0, 0, 0, 0, 0, 0, 0, 0, 0, 0, 0, 0, 0, 0, 0, 0, 0, 0, 0, 0, 0, 0, 0, 0, 0, 0, 0, 0, 0, 0, 0, 0, 0, 0, 0, 0, 0, 0, 0, 0, 0, 0, 0, 0, 0, 0, 0, 0>>,req |-> "a"]),
    ([phase |-> "fut",svc |-> [a |-> [o |-> "leaf", id |-> 2, rk |-> 0, rr |-> "ok", ck |-> 0, cr |-> "err"], o |-> "map_err", id |-> 1],wid |-> 2,act |-> [res |-> [k |-> "ok", v |-> ""], op |-> "call"],T |-> [a |-> [o |-> "leaf", id |-> 2, rk |-> 0, rr |-> "ok", ck |-> 0, cr |-> "err"], o |-> "map_err", id |-> 1],fut |-> [fut |-> [k |-> 0, o |-> "lf", id |-> 2, r |-> "err", n |-> 0, arg |-> "a", done |-> FALSE], o |-> "maperrf", id |-> 1],log |-> <<[w |-> 1, ph |-> "ready", res |-> [k |-> "ok", v |-> ""], acc |-> <<[e |-> "pr", id |-> 2, w |-> 1, r |-> "ok", x |-> ""]>>], [w |-> 0, ph |-> "call", res |-> [k |-> "ok", v |-> ""], acc |-> <<[e |-> "call", id |-> 2, w |-> 0, r |-> "", x |-> "a"]>>]>>,cfg |-> "-",ifut |-> [o |-> "nofut"],rp |-> <<0, 1, 0, 0, 0, 0, 0, 0, 0, 0, 0, 0, 0, 0, 0, 0, 0, 0, 0, 0, 0, 0, 0, 0, 0, 0, 0, 0, 0, 0, 0, 0, 0, 0, 0, 0, 0, 0, 0, 0, 0, 0, 0, 0, 0, 0, 0, 0, 0, 0, 0, 0, 0, 0, 0, 0, 0, 0, 0, 0, 0, 0, 0>>,req |-> "a"]),
    ([phase |-> "done",svc |-> [a |-> [o |-> "leaf", id |-> 2, rk |-> 0, rr |-> "ok", ck |-> 0, cr |-> "err"], o |-> "map_err", id |-> 1],wid |-> 3,act |-> [res |-> [k |-> "err", v |-> "g1(g1(E2(a)))"], op |-> "poll"],T |-> [a |-> [o |-> "leaf", id |-> 2, rk |-> 0, rr |-> "ok", ck |-> 0, cr |-> "err"], o |-> "map_err", id |-> 1],fut |-> [fut |-> [k |-> 0, o |-> "lf", id |-> 2, r |-> "err", n |-> 0, arg |-> "a", done |-> TRUE], o |-> "maperrf", id |-> 1],log |-> <<[w |-> 1, ph |-> "ready", res |-> [k |-> "ok", v |-> ""], acc |-> <<[e |-> "pr", id |-> 2, w |-> 1, r |-> "ok", x |-> ""]>>], [w |-> 0, ph |-> "call", res |-> [k |-> "ok", v |-> ""], acc |-> <<[e |-> "call", id |-> 2, w |-> 0, r |-> "", x |-> "a"]>>], [w |-> 2, ph |-> "fut", res |-> [k |-> "err", v |-> "g1(g1(E2(a)))"], acc |-> <<[e |-> "pf", id |-> 2, w |-> 2, r |-> "err", x |-> ""]>>]>>,cfg |-> "-",ifut |-> [o |-> "nofut"],rp |-> <<0, 1, 0, 0, 0, 0, 0, 0, 0, 0, 0, 0, 0, 0, 0, 0, 0, 0, 0, 0, 0, 0, 0, 0, 0, 0, 0, 0, 0, 0, 0, 0, 0, 0, 0, 0, 0, 0, 0, 0, 0, 0, 0, 0, 0, 0, 0, 0, 0, 0, 0, 0, 0, 0, 0, 0, 0, 0, 0, 0, 0, 0, 0>>,req |-> "a"])
    >>
----


=============================================================================

---- CONFIG Combinators_TTrace_1790431987 ----
CONSTANTS
    Mode = "svc"
    Depth = 1
    RootOps = { "leaf" , "and_then" , "map" , "map_err" , "apply_fn" , "boxed" , "rc_boxed" , "rc" , "refcell" , "ref" }
    RK = { 0 , 1 }
    RR = { "ok" , "err" }
    CK = { 0 , 1 }
    CR = { "ok" , "err" }
    FK = { 0 }
    FR = { "ok" }
    Kinds = { "cfg" }
    Reqs = { "a" }
    Cfgs = { "k" }
    Emit = FALSE
    AndThenCallsBOnErr = FALSE
    AndThenReadyShortCircuit = FALSE
    MapAppliedToErr = FALSE
    MapErrAppliedTwice = TRUE
    FactoryBuildsTwice = FALSE
    FirstInitErrorSwallowed = FALSE
    RepollAfterComplete = FALSE

INVARIANT
    _inv

CHECK_DEADLOCK
    \* CHECK_DEADLOCK off because of PROPERTY or INVARIANT above.
    FALSE

INIT
    _init

NEXT
    _next

CONSTANT
    _TETrace <- _trace

ALIAS
    _expression
=============================================================================
\* Generated on Sat Sep 26 14:13:09 UTC 2026