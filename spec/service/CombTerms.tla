----------------------------- MODULE CombTerms -----------------------------
(* actix-service combinators (C11, C12): term language, tagging functions and the DENOTATIONAL layer *)
(* (the reference composition of C11).  Nothing in this module talks about polls.                  *)
(*                                                                                                  *)
(* Values, errors, configs are strings; every mapper is an injective tagging function named after   *)
(* the node that owns it ("f5(x)" = the map closure of node 5 applied to x), so "applied exactly     *)
(* once to the matching variant" and "which leaf saw which argument" are visible in results.        *)
(* Node ids are heap indices: root 1, first child 2p, second child 2p+1.                            *)
(*                                                                                                  *)
(* service terms  [o |-> "leaf", id, kind, rk, rr, ck, cr]  readiness Pending^rk.rr, call Pending^ck.cr *)
(*                  (kind "svc": scripted leaf service; "fn": FnService built by fn_service, always ready) *)
(*                [o |-> "and_then", id, a, b]                                                      *)
(*                [o |-> u, id, a]  u \in map, map_err, apply_fn, boxed, rc_boxed, rc, refcell, ref  *)
(*                [o |-> "mw", id, tag, a]  middleware built by a Transform / apply_cfg closure      *)
(* factory terms  [o |-> "fleaf", id, kind, fk, fr, rk, rr, ck, cr]   kind: cfg | nocfg | fnsvc      *)
(*                [o |-> "fand_then", id, a, b]                                                     *)
(*                [o |-> u, id, a] u \in fmap, fmap_err, fmap_init_err, fmap_config, funit_config,   *)
(*                                      fapply_fn, fboxed                                           *)
(*                [o |-> "fapply_cfg", id, s, fk, fr]            s: service term                     *)
(*                [o |-> "fapply_cfg_factory", id, a, fk, fr]   [o |-> "ftransform", id, a, fk, fr]  *)
EXTENDS Naturals, Sequences, FiniteSets, TLC

Tag(f, v)  == f \o "(" \o v \o ")"
TagN(f, id, v) == Tag(f \o ToString(id), v)

LeafOk(id, arg)  == TagN("L", id, arg)
LeafErr(id, arg) == TagN("E", id, arg)
ReadyErr(id)     == "RE" \o ToString(id)
InitErr(id, c)   == TagN("IE", id, c)
CfgFnErr(id, c)  == TagN("CE", id, c)
XformErr(id)     == "TE" \o ToString(id)
MapF(id, v)      == TagN("f", id, v)
MapG(id, e)      == TagN("g", id, e)
MapH(id, e)      == TagN("h", id, e)
MapC(id, c)      == TagN("c", id, c)
FromErr(e)       == Tag("from", e)
MwTag(pfx, id, c) == pfx \o ToString(id) \o "[" \o c \o "]"
MwIn(tag, v)     == Tag(tag \o "i", v)
MwOk(tag, v)     == Tag(tag \o "o", v)
MwErr(tag, e)    == Tag(tag \o "e", e)
ApplyTag(id)     == "w" \o ToString(id)

Res(k, v) == [k |-> k, v |-> v]
Pending   == Res("pending", "")
ReadyOk   == Res("ok", "")

Fwd == {"boxed", "rc_boxed", "rc", "refcell", "ref"}      \* transparent wrappers
NoSvc == [o |-> "none", id |-> 0]

(* ------------------------------------------------------------------------------------------------ *)
(* reference composition                                                                            *)
(* ------------------------------------------------------------------------------------------------ *)
MwOf(t) == IF t.o = "apply_fn" THEN ApplyTag(t.id) ELSE t.tag

RECURSIVE Eval(_, _)
Eval(t, req) ==
  CASE t.o = "leaf"     -> (IF t.cr = "ok" THEN Res("ok", LeafOk(t.id, req)) ELSE Res("err", LeafErr(t.id, req)))
    [] t.o = "and_then" -> LET r == Eval(t.a, req) IN (IF r.k = "ok" THEN Eval(t.b, r.v) ELSE r)
    [] t.o = "map"      -> LET r == Eval(t.a, req) IN (IF r.k = "ok" THEN Res("ok", MapF(t.id, r.v)) ELSE r)
    [] t.o = "map_err"  -> LET r == Eval(t.a, req) IN (IF r.k = "err" THEN Res("err", MapG(t.id, r.v)) ELSE r)
    [] t.o \in {"apply_fn", "mw"} ->
          LET r == Eval(t.a, MwIn(MwOf(t), req)) IN
            (IF r.k = "ok" THEN Res("ok", MwOk(MwOf(t), r.v)) ELSE Res("err", MwErr(MwOf(t), r.v)))
    [] t.o \in Fwd      -> Eval(t.a, req)

\* which leaf is called with which argument (the second stage of and_then only if the first succeeded)
RECURSIVE Calls(_, _)
Calls(t, req) ==
  CASE t.o = "leaf"     -> {<<t.id, req>>}
    [] t.o = "and_then" -> LET r == Eval(t.a, req) IN
                             Calls(t.a, req) \cup (IF r.k = "ok" THEN Calls(t.b, r.v) ELSE {})
    [] t.o \in {"apply_fn", "mw"} -> Calls(t.a, MwIn(MwOf(t), req))
    [] OTHER            -> Calls(t.a, req)

RECURSIVE Leaves(_)
Leaves(t) == CASE t.o = "leaf" -> {t}
               [] t.o = "and_then" -> Leaves(t.a) \cup Leaves(t.b)
               [] OTHER -> Leaves(t.a)
LeafIds(t) == {x.id : x \in Leaves(t)}
ObsLeafIds(t) == {x.id : x \in {y \in Leaves(t) : y.kind = "svc"}}     \* leaves whose poll_ready is scripted/observable

\* all and_then nodes of a service term
RECURSIVE AndThens(_)
AndThens(t) == CASE t.o = "leaf" -> {}
                 [] t.o = "and_then" -> {t} \cup AndThens(t.a) \cup AndThens(t.b)
                 [] OTHER -> AndThens(t.a)

\* the term with every transparent wrapper removed
RECURSIVE Strip(_)
Strip(t) == CASE t.o = "leaf" -> t
              [] t.o = "and_then" -> [t EXCEPT !.a = Strip(t.a), !.b = Strip(t.b)]
              [] t.o \in Fwd -> Strip(t.a)
              [] OTHER -> [t EXCEPT !.a = Strip(t.a)]

\* readiness error of leaf `id` as the root reports it: mapped by every map_err on the path
RECURSIVE ReadyErrs(_)
ReadyErrs(t) ==
  CASE t.o = "leaf"     -> (IF t.rr = "err" THEN {[id |-> t.id, e |-> ReadyErr(t.id)]} ELSE {})
    [] t.o = "and_then" -> ReadyErrs(t.a) \cup ReadyErrs(t.b)
    [] t.o = "map_err"  -> {[x EXCEPT !.e = MapG(t.id, x.e)] : x \in ReadyErrs(t.a)}
    [] OTHER            -> ReadyErrs(t.a)

(* ------------------------------------------------------------------------------------------------ *)
(* factories: the service a factory term must build from config c, who is created with what config, *)
(* and which init errors the root may report for which inner node                                   *)
(* ------------------------------------------------------------------------------------------------ *)
\* fn_service(f) builds an FnService: always ready, its poll_ready is not observable (kind "fn")
LeafOfF(t) == [o |-> "leaf", id |-> t.id, kind |-> (IF t.kind = "fnsvc" THEN "fn" ELSE "svc"),
               rk |-> t.rk, rr |-> t.rr, ck |-> t.ck, cr |-> t.cr]

RECURSIVE Build(_, _)
Build(t, c) ==
  CASE t.o = "fleaf"         -> LeafOfF(t)
    [] t.o = "fand_then"     -> [o |-> "and_then", id |-> t.id, a |-> Build(t.a, c), b |-> Build(t.b, c)]
    [] t.o = "fmap"          -> [o |-> "map", id |-> t.id, a |-> Build(t.a, c)]
    [] t.o = "fmap_err"      -> [o |-> "map_err", id |-> t.id, a |-> Build(t.a, c)]
    [] t.o = "fapply_fn"     -> [o |-> "apply_fn", id |-> t.id, a |-> Build(t.a, c)]
    [] t.o = "fboxed"        -> [o |-> "boxed", id |-> t.id, a |-> Build(t.a, c)]
    [] t.o = "fmap_init_err" -> Build(t.a, c)
    [] t.o = "fmap_config"   -> Build(t.a, MapC(t.id, c))
    [] t.o = "funit_config"  -> Build(t.a, "()")
    [] t.o = "fapply_cfg"    -> [o |-> "mw", id |-> t.id, tag |-> MwTag("ac", t.id, c), a |-> t.s]
    [] t.o = "fapply_cfg_factory" -> [o |-> "mw", id |-> t.id, tag |-> MwTag("cf", t.id, c), a |-> Build(t.a, "()")]
    [] t.o = "ftransform"    -> [o |-> "mw", id |-> t.id, tag |-> "t" \o ToString(t.id), a |-> Build(t.a, c)]

\* creation events every run must contain exactly once (until the first init error stops the run):
\* <<node id, config seen>>; fn_factory leaves (kind nocfg) cannot see the config, transforms get none
LeafCfg(t, c) == IF t.kind = "cfg" THEN c ELSE "-"
RECURSIVE Creates(_, _)
Creates(t, c) ==
  CASE t.o = "fleaf"         -> {<<t.id, LeafCfg(t, c)>>}
    [] t.o = "fand_then"     -> Creates(t.a, c) \cup Creates(t.b, c)
    [] t.o = "fmap_config"   -> Creates(t.a, MapC(t.id, c))
    [] t.o = "funit_config"  -> Creates(t.a, "()")
    [] t.o = "fapply_cfg"    -> {<<t.id, c>>}
    [] t.o = "fapply_cfg_factory" -> {<<t.id, c>>} \cup Creates(t.a, "()")
    [] t.o = "ftransform"    -> {<<t.id, "">>} \cup Creates(t.a, c)
    [] OTHER                 -> Creates(t.a, c)

\* init errors as the root reports them: [id |-> inner node, e |-> error mapped by every map_init_err above]
RECURSIVE InitErrs(_, _)
InitErrs(t, c) ==
  CASE t.o = "fleaf"         -> (IF t.fr = "err" THEN {[id |-> t.id, e |-> InitErr(t.id, LeafCfg(t, c))]} ELSE {})
    [] t.o = "fand_then"     -> InitErrs(t.a, c) \cup InitErrs(t.b, c)
    [] t.o = "fmap_init_err" -> {[x EXCEPT !.e = MapH(t.id, x.e)] : x \in InitErrs(t.a, c)}
    [] t.o = "fmap_config"   -> InitErrs(t.a, MapC(t.id, c))
    [] t.o = "funit_config"  -> InitErrs(t.a, "()")
    [] t.o = "fapply_cfg"    -> (IF t.fr = "err" THEN {[id |-> t.id, e |-> CfgFnErr(t.id, c)]} ELSE {})
    [] t.o = "fapply_cfg_factory" ->
          InitErrs(t.a, "()")
          \cup (IF t.fr = "err" THEN {[id |-> t.id, e |-> CfgFnErr(t.id, c)]} ELSE {})
          \cup {[id |-> x.id, e |-> FromErr(x.e)] : x \in ReadyErrs(Build(t.a, "()"))}   \* readiness wait failed
    [] t.o = "ftransform"    -> InitErrs(t.a, c)
                                \cup (IF t.fr = "err" THEN {[id |-> t.id, e |-> XformErr(t.id)]} ELSE {})
    [] OTHER                 -> InitErrs(t.a, c)

(* reference TIMING of a factory: "the first init error".  Time = index of the root poll of the init     *)
(* future (1, 2, ..); a scripted future first polled in round s with k pending polls completes in round *)
(* s + k.  and_then drives both inner factory futures together, so the error of the EARLIER round wins   *)
(* (same-round ties: either, both are kept); transform / apply_cfg_factory continue in the round in      *)
(* which their inner factory completed.                                                                 *)
RECURSIVE ReadyAt(_, _)      \* answer of the j-th (0-based) poll_ready of a fresh service, all earlier ones Pending
ReadyAt(t, j) ==
  CASE t.o = "leaf" -> (IF t.kind = "fn" THEN ReadyOk
                        ELSE IF j < t.rk THEN Pending
                        ELSE IF t.rr = "ok" THEN ReadyOk ELSE Res("err", ReadyErr(t.id)))
    [] t.o = "and_then" -> LET ra == ReadyAt(t.a, j) IN
                             IF ra.k = "err" THEN ra
                             ELSE LET rb == ReadyAt(t.b, j) IN
                                    (IF rb.k = "err" THEN rb
                                     ELSE IF ra.k = "pending" \/ rb.k = "pending" THEN Pending ELSE ReadyOk)
    [] t.o = "map_err" -> LET r == ReadyAt(t.a, j) IN (IF r.k = "err" THEN Res("err", MapG(t.id, r.v)) ELSE r)
    [] OTHER -> ReadyAt(t.a, j)
MaxRk(t) == LET S == {x.rk : x \in Leaves(t)} \cup {0} IN CHOOSE m \in S : \A x \in S : x <= m
ReadyFirst(t) == CHOOSE j \in 0..MaxRk(t) : ReadyAt(t, j).k # "pending" /\ \A i \in 0..(j - 1) : ReadyAt(t, i).k = "pending"

IRef(at, k, errs) == [at |-> at, k |-> k, errs |-> errs]
RECURSIVE InitRef(_, _, _)
InitRef(t, c, s) ==
  CASE t.o = "fleaf" -> (IF t.fr = "ok" THEN IRef(s + t.fk, "ok", {}) ELSE IRef(s + t.fk, "err", {InitErr(t.id, LeafCfg(t, c))}))
    [] t.o = "fand_then" ->
         LET ra == InitRef(t.a, c, s)
             rb == InitRef(t.b, c, s) IN
           IF ra.k = "ok" /\ rb.k = "ok" THEN IRef((IF ra.at > rb.at THEN ra.at ELSE rb.at), "ok", {})
           ELSE IF rb.k = "ok" THEN ra
           ELSE IF ra.k = "ok" THEN rb
           ELSE IF ra.at < rb.at THEN ra
           ELSE IF rb.at < ra.at THEN rb
           ELSE ra      \* both fail in the same round: the first stage is driven first and its error is the first one
    [] t.o = "fmap_init_err" -> LET r == InitRef(t.a, c, s) IN IRef(r.at, r.k, {MapH(t.id, e) : e \in r.errs})
    [] t.o = "fmap_config"   -> InitRef(t.a, MapC(t.id, c), s)
    [] t.o = "funit_config"  -> InitRef(t.a, "()", s)
    [] t.o = "fapply_cfg"    -> (IF t.fr = "ok" THEN IRef(s + t.fk, "ok", {}) ELSE IRef(s + t.fk, "err", {CfgFnErr(t.id, c)}))
    [] t.o = "ftransform"    ->
         LET r == InitRef(t.a, c, s) IN
           IF r.k = "err" THEN r
           ELSE IF t.fr = "ok" THEN IRef(r.at + t.fk, "ok", {}) ELSE IRef(r.at + t.fk, "err", {XformErr(t.id)})
    [] t.o = "fapply_cfg_factory" ->
         LET r == InitRef(t.a, "()", s) IN
           IF r.k = "err" THEN r
           ELSE LET S == Build(t.a, "()")
                    j == ReadyFirst(S)
                    rd == ReadyAt(S, j) IN
                  IF rd.k = "err" THEN IRef(r.at + j, "err", {FromErr(rd.v)})
                  ELSE IF t.fr = "ok" THEN IRef(r.at + j + t.fk, "ok", {})
                  ELSE IRef(r.at + j + t.fk, "err", {CfgFnErr(t.id, c)})
    [] OTHER -> InitRef(t.a, c, s)

IsFactory(t) == t.o \in {"fleaf", "fand_then", "fmap", "fmap_err", "fmap_init_err", "fmap_config",
                         "funit_config", "fapply_fn", "fboxed", "fapply_cfg", "fapply_cfg_factory", "ftransform"}

(* ------------------------------------------------------------------------------------------------ *)
(* bounded enumeration of terms                                                                     *)
(* ------------------------------------------------------------------------------------------------ *)
SvcUnary == {"map", "map_err", "apply_fn", "boxed", "rc_boxed", "rc", "refcell", "ref"}
FacUnary == {"fmap", "fmap_err", "fmap_init_err", "fmap_config", "funit_config", "fapply_fn", "fboxed"}
FacScripted == {"fapply_cfg_factory", "ftransform"}

\* S: record of script domains [rk, rr, ck, cr, fk, fr, kinds]
SvcLeavesAt(p, S) == {[o |-> "leaf", id |-> p, kind |-> "svc", rk |-> rk, rr |-> rr, ck |-> ck, cr |-> cr] :
                        rk \in S.rk, rr \in S.rr, ck \in S.ck, cr \in S.cr}

RECURSIVE SvcTerms(_, _, _, _)
\* ops: operators allowed at THIS node (root split), deeper nodes use all operators
SvcTerms(p, d, ops, S) ==
  (IF "leaf" \in ops THEN SvcLeavesAt(p, S) ELSE {})
  \cup (IF d = 0 THEN {} ELSE
         LET all == SvcUnary \cup {"leaf", "and_then"}
             A == SvcTerms(2 * p, d - 1, all, S) IN
           {[o |-> u, id |-> p, a |-> x] : u \in (ops \cap SvcUnary), x \in A}
           \cup (IF "and_then" \in ops
                   THEN {[o |-> "and_then", id |-> p, a |-> x, b |-> y] : x \in A, y \in SvcTerms(2 * p + 1, d - 1, all, S)}
                   ELSE {}))

FacLeavesAt(p, S) ==
  {[o |-> "fleaf", id |-> p, kind |-> kd, fk |-> fk, fr |-> fr, rk |-> rk, rr |-> rr, ck |-> ck, cr |-> cr] :
      kd \in (S.kinds \ {"fnsvc"}), fk \in S.fk, fr \in S.fr, rk \in S.rk, rr \in S.rr, ck \in S.ck, cr \in S.cr}
  \cup (IF "fnsvc" \in S.kinds      \* fn_service(f): ready at once, always ready
          THEN {[o |-> "fleaf", id |-> p, kind |-> "fnsvc", fk |-> 0, fr |-> "ok", rk |-> 0, rr |-> "ok",
                 ck |-> ck, cr |-> cr] : ck \in S.ck, cr \in S.cr}
          ELSE {})

RECURSIVE FacTerms(_, _, _, _)
FacTerms(p, d, ops, S) ==
  (IF "fleaf" \in ops THEN FacLeavesAt(p, S) ELSE {})
  \cup (IF d = 0 THEN {} ELSE
         LET all == FacUnary \cup FacScripted \cup {"fleaf", "fand_then", "fapply_cfg"}
             A == FacTerms(2 * p, d - 1, all, S) IN
           {[o |-> u, id |-> p, a |-> x] : u \in (ops \cap FacUnary), x \in A}
           \cup {[o |-> u, id |-> p, a |-> x, fk |-> fk, fr |-> fr] :
                   u \in (ops \cap FacScripted), x \in A, fk \in S.fk, fr \in S.fr}
           \cup (IF "fapply_cfg" \in ops
                   THEN {[o |-> "fapply_cfg", id |-> p, s |-> x, fk |-> fk, fr |-> fr] :
                           x \in SvcTerms(2 * p, d - 1, SvcUnary \cup {"leaf", "and_then"}, S), fk \in S.fk, fr \in S.fr}
                   ELSE {})
           \cup (IF "fand_then" \in ops
                   THEN {[o |-> "fand_then", id |-> p, a |-> x, b |-> y] : x \in A, y \in FacTerms(2 * p + 1, d - 1, all, S)}
                   ELSE {}))
=============================================================================
