\* generated by gen_cfgs.py
CONSTANTS
  Mode = "fac"
  Depth = 2
  RootOps = {"fmap"}
  RK = {0, 1}
  RR = {"ok", "err"}
  CK = {0}
  CR = {"ok"}
  FK = {0, 1}
  FR = {"ok", "err"}
  Kinds = {"cfg", "nocfg"}
  Reqs = {"a"}
  Cfgs = {"k"}
  Emit = TRUE
  AndThenCallsBOnErr = FALSE
  AndThenReadyShortCircuit = FALSE
  MapAppliedToErr = FALSE
  MapErrAppliedTwice = FALSE
  FactoryBuildsTwice = FALSE
  FirstInitErrorSwallowed = FALSE
  RepollAfterComplete = FALSE
  AndThenFactorySequential = FALSE
SPECIFICATION Spec
INVARIANTS
  I_C11_ResultIsEval I_C11_SecondOnlyAfterFirstOk I_C11_MapperOnceOnMatchingVariant I_C11_WrappersTransparent
  I_C11_FactoryBuildsEachOnceWithCfg I_C11_FirstInitErrorWins C11_BuiltIsReference
  I_C12_ReadyIsConjunction I_C12_ReadyErrPropagates I_C12_PendingPolledAllWithCurrentWaker
  I_C12_NoPollAfterCompletion I_C12_NoStageTwice I_C12_PendingOnlyWhileInnerPending C12_Terminates
  EmitVec
CHECK_DEADLOCK FALSE
