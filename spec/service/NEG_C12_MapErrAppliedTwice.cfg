\* generated by gen_cfgs.py
CONSTANTS
  Mode = "svc"
  Depth = 1
  RootOps = {"leaf", "and_then", "map", "map_err", "apply_fn", "boxed", "rc_boxed", "rc", "refcell", "ref"}
  RK = {0, 1}
  RR = {"ok", "err"}
  CK = {0, 1}
  CR = {"ok", "err"}
  FK = {0}
  FR = {"ok"}
  Kinds = {"cfg"}
  Reqs = {"a"}
  Cfgs = {"k"}
  Emit = FALSE
  AndThenCallsBOnErr = FALSE
  AndThenReadyShortCircuit = FALSE
  MapAppliedToErr = FALSE
  MapErrAppliedTwice = TRUE
  FactoryBuildsTwice = FALSE
  FirstInitErrorSwallowed = FALSE
  RepollAfterComplete = FALSE
  AndThenFactorySequential = FALSE
SPECIFICATION Spec
INVARIANTS
  I_C12_ReadyIsConjunction I_C12_ReadyErrPropagates I_C12_PendingPolledAllWithCurrentWaker
  I_C12_NoPollAfterCompletion I_C12_NoStageTwice I_C12_PendingOnlyWhileInnerPending C12_Terminates
CHECK_DEADLOCK FALSE
