----------------------------- MODULE Combinators -----------------------------
(* actix-service combinators at POLL granularity (properties C11, C12).                             *)
(*                                                                                                  *)
(* Layer 1 (CombTerms): denotational reference  Eval / Calls / Build / Creates / InitErrs.          *)
(* Layer 2 (here): the operational machine, shaped like the code: one action per public operation   *)
(*   NewService(cfg), PollInit(w), PollReady(w), Call(req), PollFut(w); every poll uses a fresh      *)
(*   waker id; each action appends one ROUND [ph, w, res, acc] to `log`, acc = leaf accesses in code  *)
(*   order: pr (poll_ready), call, pf (poll of a call future), new (new_service / closure / transform *)
(*   invocation, x = config), pi (poll of an init future).                                          *)
(* Layer 3: the property predicates C11_* / C12_*, written over (T, req, cfg, log) ONLY, so the very  *)
(*   same predicates judge the machine's log (TLC, exhaustive) and logs recorded from the real       *)
(*   crate (CombinatorsTrace).  They never constrain the order of accesses inside one round except   *)
(*   the stage order the property names (first stage of and_then before the second).                *)
(* Variant constants (design value FALSE) switch the operational layer to a plausible wrong design.  *)
EXTENDS CombTerms, Json, IOUtils

CONSTANTS Mode,          \* "svc" | "fac" : enumerate terms;  "file": terms read from IOEnv.TERMS (ndjson)
          Depth, RootOps, RK, RR, CK, CR, FK, FR, Kinds, Reqs, Cfgs, Emit,
          AndThenCallsBOnErr, AndThenReadyShortCircuit, MapAppliedToErr, MapErrAppliedTwice,
          FactoryBuildsTwice, FirstInitErrorSwallowed, RepollAfterComplete,
          AndThenFactorySequential   \* TRUE: fut_b is polled only after fut_a completed (ready!(fut_a.poll(cx))?)

VARIABLES T, req, cfg, phase, svc, rp, ifut, fut, log, wid, act
vars == <<T, req, cfg, phase, svc, rp, ifut, fut, log, wid, act>>
View == <<T, req, cfg, phase, svc, rp, ifut, fut, log, wid>>

MaxId == 63
NoFut == [o |-> "nofut"]
Ev(e, id, w, r, x) == [e |-> e, id |-> id, w |-> w, r |-> r, x |-> x]
Round(ph, w, res, acc) == [ph |-> ph, w |-> w, res |-> res, acc |-> acc]
Scripts == [rk |-> RK, rr |-> RR, ck |-> CK, cr |-> CR, fk |-> FK, fr |-> FR, kinds |-> Kinds]

(* ================================================================================================ *)
(* operational layer: services                                                                      *)
(* ================================================================================================ *)
GErr(id, e) == IF MapErrAppliedTwice THEN MapG(id, MapG(id, e)) ELSE MapG(id, e)

\* poll_ready: and_then polls BOTH halves (`?` returns early only on an error), wrappers forward
RECURSIVE PollReadyOp(_, _, _)
PollReadyOp(t, r0, w) ==
  CASE t.o = "leaf" /\ t.kind = "fn" -> [res |-> ReadyOk, acc |-> <<>>, rp |-> r0]        \* always_ready!()
    [] t.o = "leaf" ->
         LET r == IF r0[t.id] < t.rk THEN "pending" ELSE t.rr IN
           [res |-> (IF r = "err" THEN Res("err", ReadyErr(t.id)) ELSE Res(r, "")),
            acc |-> <<Ev("pr", t.id, w, r, "")>>, rp |-> [r0 EXCEPT ![t.id] = @ + 1]]
    [] t.o = "and_then" ->
         LET ra == PollReadyOp(t.a, r0, w) IN
           IF ra.res.k = "err" \/ (AndThenReadyShortCircuit /\ ra.res.k = "pending") THEN ra
           ELSE LET rb == PollReadyOp(t.b, ra.rp, w) IN
                  [res |-> (IF rb.res.k = "err" THEN rb.res
                            ELSE IF rb.res.k = "pending" \/ ra.res.k = "pending" THEN Pending ELSE ReadyOk),
                   acc |-> ra.acc \o rb.acc, rp |-> rb.rp]
    [] t.o = "map_err" ->
         LET r == PollReadyOp(t.a, r0, w) IN
           IF r.res.k = "err" THEN [r EXCEPT !.res = Res("err", GErr(t.id, r.res.v))] ELSE r
    [] OTHER -> PollReadyOp(t.a, r0, w)      \* forward_ready! / (**self).poll_ready / borrow().poll_ready

\* call: returns the response future (a state tree) and the leaf calls made synchronously
RECURSIVE CallOp(_, _)
CallOp(t, rq) ==
  CASE t.o = "leaf" ->
         [fut |-> [o |-> "lf", id |-> t.id, n |-> 0, k |-> t.ck, r |-> t.cr, arg |-> rq, done |-> FALSE],
          acc |-> <<Ev("call", t.id, 0, "", rq)>>]
    [] t.o = "and_then" ->          \* State::A { fut: a.call(req), b: Some(rc) }
         LET c == CallOp(t.a, rq) IN
           [fut |-> [o |-> "at", st |-> "A", fa |-> c.fut, fb |-> NoFut, b |-> t.b], acc |-> c.acc]
    [] t.o = "map" ->     LET c == CallOp(t.a, rq) IN [fut |-> [o |-> "mapf", id |-> t.id, fut |-> c.fut], acc |-> c.acc]
    [] t.o = "map_err" -> LET c == CallOp(t.a, rq) IN [fut |-> [o |-> "maperrf", id |-> t.id, fut |-> c.fut], acc |-> c.acc]
    [] t.o \in {"apply_fn", "mw"} ->    \* wrap_fn(req, &service): calls the inner service with the tagged request
         LET c == CallOp(t.a, MwIn(MwOf(t), rq)) IN [fut |-> [o |-> "mwf", tag |-> MwOf(t), fut |-> c.fut], acc |-> c.acc]
    [] t.o \in {"boxed", "rc_boxed"} -> \* Box::pin(inner.call(req))
         LET c == CallOp(t.a, rq) IN [fut |-> [o |-> "boxf", fut |-> c.fut], acc |-> c.acc]
    [] OTHER -> CallOp(t.a, rq)         \* Rc<S>, RefCell<S>, &S : type Future = S::Future

RECURSIVE PollFutOp(_, _)
PollFutOp(f, w) ==
  CASE f.o = "lf" ->
         IF f.done THEN [fut |-> f, res |-> Res("panic", ""), acc |-> <<Ev("pf", f.id, w, "panic", "")>>]
         ELSE IF f.n < f.k THEN [fut |-> [f EXCEPT !.n = @ + 1], res |-> Pending, acc |-> <<Ev("pf", f.id, w, "pending", "")>>]
         ELSE [fut |-> [f EXCEPT !.done = TRUE],
               res |-> (IF f.r = "ok" THEN Res("ok", LeafOk(f.id, f.arg)) ELSE Res("err", LeafErr(f.id, f.arg))),
               acc |-> <<Ev("pf", f.id, w, f.r, "")>>]
    [] f.o = "at" /\ f.st = "A" ->
         LET pa == PollFutOp(f.fa, w) IN
           IF pa.res.k = "pending" THEN [fut |-> [f EXCEPT !.fa = pa.fut], res |-> Pending, acc |-> pa.acc]
           ELSE IF pa.res.k = "err" /\ ~AndThenCallsBOnErr THEN [fut |-> [f EXCEPT !.fa = pa.fut], res |-> pa.res, acc |-> pa.acc]
           ELSE \* ready!(fut.poll(cx))?; b.take().unwrap().1.call(res); state.set(B); self.poll(cx)
                LET cb == CallOp(f.b, pa.res.v)
                    pb == PollFutOp(cb.fut, w) IN
                  [fut |-> [f EXCEPT !.st = "B", !.fa = pa.fut, !.fb = pb.fut, !.b = NoSvc], res |-> pb.res,
                   acc |-> pa.acc \o cb.acc \o pb.acc]
    [] f.o = "at" /\ f.st = "B" ->
         LET pre == IF RepollAfterComplete THEN PollFutOp(f.fa, w).acc ELSE <<>>
             pb == PollFutOp(f.fb, w) IN
           [fut |-> [f EXCEPT !.fb = pb.fut], res |-> pb.res, acc |-> pre \o pb.acc]
    [] f.o = "mapf" ->
         LET p == PollFutOp(f.fut, w) IN
           [fut |-> [f EXCEPT !.fut = p.fut], acc |-> p.acc,
            res |-> (IF p.res.k = "ok" \/ (MapAppliedToErr /\ p.res.k = "err") THEN Res(p.res.k, MapF(f.id, p.res.v)) ELSE p.res)]
    [] f.o = "maperrf" ->
         LET p == PollFutOp(f.fut, w) IN
           [fut |-> [f EXCEPT !.fut = p.fut], acc |-> p.acc,
            res |-> (IF p.res.k = "err" THEN Res("err", GErr(f.id, p.res.v)) ELSE p.res)]
    [] f.o = "mwf" ->
         LET p == PollFutOp(f.fut, w) IN
           [fut |-> [f EXCEPT !.fut = p.fut], acc |-> p.acc,
            res |-> (IF p.res.k = "ok" THEN Res("ok", MwOk(f.tag, p.res.v))
                     ELSE IF p.res.k = "err" THEN Res("err", MwErr(f.tag, p.res.v)) ELSE p.res)]
    [] f.o = "boxf" ->
         LET p == PollFutOp(f.fut, w) IN [fut |-> [f EXCEPT !.fut = p.fut], acc |-> p.acc, res |-> p.res]

(* ================================================================================================ *)
(* operational layer: factories                                                                     *)
(* ================================================================================================ *)
\* a scripted init future (fn_factory closure, apply_cfg closure, Transform::new_transform)
Scr(id, k, r, err, s) == [o |-> "iscr", id |-> id, n |-> 0, k |-> k, r |-> r, err |-> err, svc |-> s, done |-> FALSE,
                          quiet |-> FALSE]
Twice(acc) == IF FactoryBuildsTwice THEN acc \o acc ELSE acc

RECURSIVE NewServiceOp(_, _)
NewServiceOp(t, c) ==
  CASE t.o = "fleaf" ->
         \* fn_service(f).new_service(_) = ok(FnService::new(f.clone())): the crate's own Ready future, no poll visible
         [ifut |-> [Scr(t.id, t.fk, t.fr, InitErr(t.id, LeafCfg(t, c)), LeafOfF(t)) EXCEPT !.quiet = (t.kind = "fnsvc")],
          acc |-> <<Ev("new", t.id, 0, "", LeafCfg(t, c))>>]
    [] t.o = "fand_then" ->       \* new(a.new_service(cfg.clone()), b.new_service(cfg))
         LET na == NewServiceOp(t.a, c)
             nb == NewServiceOp(t.b, c) IN
           [ifut |-> [o |-> "iat", id |-> t.id, fa |-> na.ifut, fb |-> nb.ifut, a |-> NoSvc, b |-> NoSvc, ea |-> ""],
            acc |-> na.acc \o nb.acc]
    [] t.o \in {"fmap", "fmap_err", "fapply_fn", "fboxed"} ->
         LET n == NewServiceOp(t.a, c)
             op == CASE t.o = "fmap" -> "map" [] t.o = "fmap_err" -> "map_err"
                     [] t.o = "fapply_fn" -> "apply_fn" [] OTHER -> "boxed" IN
           [ifut |-> [o |-> "iwrap", id |-> t.id, op |-> op, fut |-> n.ifut], acc |-> Twice(n.acc)]
    [] t.o = "fmap_init_err" ->
         LET n == NewServiceOp(t.a, c) IN [ifut |-> [o |-> "imie", id |-> t.id, fut |-> n.ifut], acc |-> n.acc]
    [] t.o = "fmap_config"  -> NewServiceOp(t.a, MapC(t.id, c))      \* type Future = SF::Future
    [] t.o = "funit_config" -> NewServiceOp(t.a, "()")
    [] t.o = "fapply_cfg" ->      \* f(cfg, &srv)
         [ifut |-> Scr(t.id, t.fk, t.fr, CfgFnErr(t.id, c), [o |-> "mw", id |-> t.id, tag |-> MwTag("ac", t.id, c), a |-> t.s]),
          acc |-> <<Ev("new", t.id, 0, "", c)>>]
    [] t.o = "fapply_cfg_factory" ->   \* State::A { fut: factory.new_service(()) }, cfg: Some(cfg)
         LET n == NewServiceOp(t.a, "()") IN
           [ifut |-> [o |-> "iacf", id |-> t.id, st |-> "A", fut |-> n.ifut, svc |-> NoSvc, cfg |-> c,
                      k |-> t.fk, r |-> t.fr, c2 |-> NoFut],
            acc |-> Twice(n.acc)]
    [] t.o = "ftransform" ->      \* State::A { fut: factory.new_service(cfg) }
         LET n == NewServiceOp(t.a, c) IN
           [ifut |-> [o |-> "itr", id |-> t.id, st |-> "A", fut |-> n.ifut, k |-> t.fk, r |-> t.fr, c2 |-> NoFut],
            acc |-> n.acc]

IRes(g, res, s, acc, r1) == [ifut |-> g, res |-> res, svc |-> s, acc |-> acc, rp |-> r1]

RECURSIVE PollInitOp(_, _, _)
\* apply_cfg_factory, State::C (and the tail of B): poll the closure's future
AcfC(g, r0, w, pre) ==
  LET p == PollInitOp(g.c2, r0, w) IN IRes([g EXCEPT !.c2 = p.ifut], p.res, p.svc, pre \o p.acc, p.rp)
\* State::B { svc }: ready!(svc.poll_ready(cx))?; f(cfg.take().unwrap(), svc); state.set(C); self.poll(cx)
AcfB(g, r0, w, pre) ==
  LET r == PollReadyOp(g.svc, r0, w) IN
    IF r.res.k = "pending" THEN IRes(g, Pending, NoSvc, pre \o r.acc, r.rp)
    ELSE IF r.res.k = "err" THEN IRes(g, Res("err", FromErr(r.res.v)), NoSvc, pre \o r.acc, r.rp)
    ELSE LET c2 == Scr(g.id, g.k, g.r, CfgFnErr(g.id, g.cfg),
                       [o |-> "mw", id |-> g.id, tag |-> MwTag("cf", g.id, g.cfg), a |-> g.svc]) IN
           AcfC([g EXCEPT !.st = "C", !.c2 = c2], r.rp, w, pre \o r.acc \o <<Ev("new", g.id, 0, "", g.cfg)>>)

PollInitOp(g, r0, w) ==
  CASE g.o = "iscr" ->
         LET A(r) == IF g.quiet THEN <<>> ELSE <<Ev("pi", g.id, w, r, "")>> IN
         IF g.done THEN IRes(g, Res("panic", ""), NoSvc, A("panic"), r0)
         ELSE IF g.n < g.k THEN IRes([g EXCEPT !.n = @ + 1], Pending, NoSvc, A("pending"), r0)
         ELSE IF g.r = "ok" THEN IRes([g EXCEPT !.done = TRUE], ReadyOk, g.svc, A("ok"), r0)
         ELSE IRes([g EXCEPT !.done = TRUE], Res("err", g.err), NoSvc, A("err"), r0)
    [] g.o = "iat" ->
         \* if a.is_none() { if let Ready(s) = fut_a.poll(cx)? { a = Some(s) } }  -- same for b -- both => Ready
         LET pollA == g.a.o = "none" /\ g.ea = ""
             pa == IF pollA THEN PollInitOp(g.fa, r0, w) ELSE IRes(g.fa, Pending, g.a, <<>>, r0)
             aErr == pollA /\ pa.res.k = "err"
             g1 == [g EXCEPT !.fa = pa.ifut, !.a = (IF pollA /\ pa.res.k = "ok" THEN pa.svc ELSE g.a),
                             !.ea = (IF aErr THEN pa.res.v ELSE g.ea)] IN
           IF aErr /\ ~FirstInitErrorSwallowed THEN IRes(g1, pa.res, NoSvc, pa.acc, pa.rp)
           ELSE IF AndThenFactorySequential /\ pollA /\ pa.res.k = "pending" THEN IRes(g1, Pending, NoSvc, pa.acc, pa.rp)
           ELSE
             LET pollB == g1.b.o = "none"
                 pb == IF pollB THEN PollInitOp(g1.fb, pa.rp, w) ELSE IRes(g1.fb, Pending, g1.b, <<>>, pa.rp)
                 g2 == [g1 EXCEPT !.fb = pb.ifut, !.b = (IF pollB /\ pb.res.k = "ok" THEN pb.svc ELSE g1.b)]
                 acc == pa.acc \o pb.acc IN
               IF pollB /\ pb.res.k = "err" THEN IRes(g2, pb.res, NoSvc, acc, pb.rp)
               ELSE IF g2.a.o # "none" /\ g2.b.o # "none"
                      THEN IRes([g2 EXCEPT !.a = NoSvc, !.b = NoSvc], ReadyOk,
                                [o |-> "and_then", id |-> g.id, a |-> g2.a, b |-> g2.b], acc, pb.rp)
               ELSE IF g2.ea # "" /\ g2.b.o # "none" THEN IRes(g2, Res("err", g2.ea), NoSvc, acc, pb.rp)  \* variant only
               ELSE IRes(g2, Pending, NoSvc, acc, pb.rp)
    [] g.o = "iwrap" ->
         LET p == PollInitOp(g.fut, r0, w) IN
           IRes([g EXCEPT !.fut = p.ifut], p.res,
                (IF p.res.k = "ok" THEN [o |-> g.op, id |-> g.id, a |-> p.svc] ELSE NoSvc), p.acc, p.rp)
    [] g.o = "imie" ->
         LET p == PollInitOp(g.fut, r0, w) IN
           IRes([g EXCEPT !.fut = p.ifut], (IF p.res.k = "err" THEN Res("err", MapH(g.id, p.res.v)) ELSE p.res),
                p.svc, p.acc, p.rp)
    [] g.o = "iacf" /\ g.st = "A" ->
         LET p == PollInitOp(g.fut, r0, w) IN
           IF p.res.k # "ok" THEN IRes([g EXCEPT !.fut = p.ifut], p.res, NoSvc, p.acc, p.rp)
           ELSE AcfB([g EXCEPT !.st = "B", !.fut = p.ifut, !.svc = p.svc], p.rp, w, p.acc)
    [] g.o = "iacf" /\ g.st = "B" -> AcfB(g, r0, w, <<>>)
    [] g.o = "iacf" /\ g.st = "C" -> AcfC(g, r0, w, <<>>)
    [] g.o = "itr" /\ g.st = "A" ->
         LET p == PollInitOp(g.fut, r0, w) IN
           IF p.res.k # "ok" THEN IRes([g EXCEPT !.fut = p.ifut], p.res, NoSvc, p.acc, p.rp)
           ELSE \* let fut = store.0.new_transform(srv); state.set(B { fut }); self.poll(cx)
                LET c2 == Scr(g.id, g.k, g.r, XformErr(g.id),
                              [o |-> "mw", id |-> g.id, tag |-> "t" \o ToString(g.id), a |-> p.svc])
                    q == PollInitOp(c2, p.rp, w) IN
                  IRes([g EXCEPT !.st = "B", !.fut = p.ifut, !.c2 = q.ifut], q.res, q.svc,
                       p.acc \o <<Ev("new", g.id, 0, "", "")>> \o q.acc, q.rp)
    [] g.o = "itr" /\ g.st = "B" ->
         LET q == PollInitOp(g.c2, r0, w) IN IRes([g EXCEPT !.c2 = q.ifut], q.res, q.svc, q.acc, q.rp)

(* ================================================================================================ *)
(* the machine: the driver protocol  new -> init* -> ready* -> call -> fut* -> done                  *)
(* ================================================================================================ *)
Inputs == ndJsonDeserialize(IOEnv.TERMS)
RootTerms == IF Mode = "svc" THEN SvcTerms(1, Depth, RootOps, Scripts) ELSE FacTerms(1, Depth, RootOps, Scripts)

NoAct == [op |-> "init", res |-> Pending]
InitCommon == /\ phase = (IF IsFactory(T) THEN "new" ELSE "ready")
              /\ svc = (IF IsFactory(T) THEN NoSvc ELSE T)
              /\ rp = [i \in 1..MaxId |-> 0] /\ ifut = NoFut /\ fut = NoFut /\ log = <<>> /\ wid = 1 /\ act = NoAct
Init == /\ IF Mode = "file"
             THEN \E i \in 1..Len(Inputs) : T = Inputs[i].t /\ req = Inputs[i].req /\ cfg = Inputs[i].cfg
             ELSE T \in RootTerms /\ req \in Reqs /\ cfg \in (IF Mode = "fac" THEN Cfgs ELSE {"-"})
        /\ InitCommon

NewService == /\ phase = "new"
              /\ LET n == NewServiceOp(T, cfg) IN
                   /\ ifut' = n.ifut /\ log' = Append(log, Round("new", 0, ReadyOk, n.acc))
                   /\ act' = [op |-> "new_service", res |-> ReadyOk]
              /\ phase' = "init" /\ UNCHANGED <<T, req, cfg, svc, rp, fut, wid>>

PollInit == /\ phase = "init"
            /\ LET p == PollInitOp(ifut, rp, wid) IN
                 /\ ifut' = p.ifut /\ rp' = p.rp /\ log' = Append(log, Round("init", wid, p.res, p.acc))
                 /\ act' = [op |-> "poll_init", res |-> p.res]
                 /\ phase' = (IF p.res.k = "pending" THEN "init" ELSE IF p.res.k = "ok" THEN "ready" ELSE "done")
                 /\ svc' = (IF p.res.k = "ok" THEN p.svc ELSE svc)
            /\ wid' = wid + 1 /\ UNCHANGED <<T, req, cfg, fut>>

PollReady == /\ phase = "ready"
             /\ LET p == PollReadyOp(svc, rp, wid) IN
                  /\ rp' = p.rp /\ log' = Append(log, Round("ready", wid, p.res, p.acc))
                  /\ act' = [op |-> "poll_ready", res |-> p.res]
                  /\ phase' = (IF p.res.k = "pending" THEN "ready" ELSE "call")
             /\ wid' = wid + 1 /\ UNCHANGED <<T, req, cfg, svc, ifut, fut>>

Call == /\ phase = "call"
        /\ LET c == CallOp(svc, req) IN
             /\ fut' = c.fut /\ log' = Append(log, Round("call", 0, ReadyOk, c.acc))
             /\ act' = [op |-> "call", res |-> ReadyOk]
        /\ phase' = "fut" /\ UNCHANGED <<T, req, cfg, svc, rp, ifut, wid>>

PollFut == /\ phase = "fut"
           /\ LET p == PollFutOp(fut, wid) IN
                /\ fut' = p.fut /\ log' = Append(log, Round("fut", wid, p.res, p.acc))
                /\ act' = [op |-> "poll", res |-> p.res]
                /\ phase' = (IF p.res.k = "pending" THEN "fut" ELSE "done")
           /\ wid' = wid + 1 /\ UNCHANGED <<T, req, cfg, svc, rp, ifut>>

Next == NewService \/ PollInit \/ PollReady \/ Call \/ PollFut
Spec == Init /\ [][Next]_vars

(* ================================================================================================ *)
(* property predicates over (term, request, config, log)                                            *)
(* ================================================================================================ *)
\* the service whose behaviour is prescribed: the term itself, or what the factory must have built
SvcOf(t, c) == IF IsFactory(t) THEN Build(t, c) ELSE t
Seq2Set(s) == {s[i] : i \in 1..Len(s)}
RECURSIVE Flat(_, _)       \* all accesses in order, each with its round index
Flat(lg, i) == IF i > Len(lg) THEN <<>>
               ELSE [j \in 1..Len(lg[i].acc) |-> [rd |-> i, ev |-> lg[i].acc[j]]] \o Flat(lg, i + 1)
Polls == {"ready", "fut", "init"}
Completed(lg) == Len(lg) > 0 /\ lg[Len(lg)].ph = "fut" /\ lg[Len(lg)].res.k # "pending"
Served(lg) == \E i \in 1..Len(lg) : lg[i].ph = "call"
InitFailed(lg) == \E i \in 1..Len(lg) : lg[i].ph = "init" /\ lg[i].res.k = "err"
InitOk(lg) == \E i \in 1..Len(lg) : lg[i].ph = "init" /\ lg[i].res.k = "ok"
CallEvs(lg) == {x \in Seq2Set(Flat(lg, 1)) : x.ev.e = "call"}

(* ---------------------------------------- C11 ---------------------------------------- *)
C11_ResultIsEval(t, rq, c, lg) ==
  Completed(lg) => lg[Len(lg)].res = Eval(SvcOf(t, c), rq)

\* the second stage of every and_then runs only after, and only if, the first succeeded
C11_SecondOnlyAfterFirstOk(t, rq, c, lg) ==
  LET S == SvcOf(t, c)
      F == Flat(lg, 1)
      stage == {"call", "pf"} IN
    /\ {<<x.ev.id, x.ev.x>> : x \in CallEvs(lg)} \subseteq Calls(S, rq)
    /\ (Completed(lg) => {<<x.ev.id, x.ev.x>> : x \in CallEvs(lg)} = Calls(S, rq))
    /\ \A n \in AndThens(S) :
         LET A == LeafIds(n.a)
             B == LeafIds(n.b) IN
           \A i \in 1..Len(F), j \in 1..Len(F) :
             (F[i].ev.e \in stage /\ F[j].ev.e \in stage /\ F[i].ev.id \in B /\ F[j].ev.id \in A) => j < i

\* a mapper at the root is applied exactly once, to the matching variant only
C11_MapperOnceOnMatchingVariant(t, rq, c, lg) ==
  LET S == SvcOf(t, c) IN
    (Completed(lg) /\ S.o \in {"map", "map_err"}) =>
      LET ra == Eval(S.a, rq)
          r == lg[Len(lg)].res IN
        r = (IF S.o = "map" THEN (IF ra.k = "ok" THEN Res("ok", MapF(S.id, ra.v)) ELSE ra)
                            ELSE (IF ra.k = "err" THEN Res("err", MapG(S.id, ra.v)) ELSE ra))

\* ... and the request reaches the first stage when `call` is invoked, not when the response future is first polled (two
\* responses in flight reach an order-sensitive inner service in call order): the leftmost leaf is called in the `call` round
RECURSIVE FirstLeafId(_)
FirstLeafId(t) == IF t.o = "leaf" THEN t.id ELSE FirstLeafId(t.a)
C11_WrappersTransparent(t, rq, c, lg) ==
  /\ Completed(lg) => lg[Len(lg)].res = Eval(Strip(SvcOf(t, c)), rq)
  /\ \A i \in 1..Len(lg) : lg[i].ph = "call" =>
        \E e \in Seq2Set(lg[i].acc) : e.e = "call" /\ e.id = FirstLeafId(SvcOf(t, c))

\* every inner factory / closure / transform is invoked at most once, with the config the composition
\* prescribes; all of them exactly once when the factory succeeds
C11_FactoryBuildsEachOnceWithCfg(t, rq, c, lg) ==
  IsFactory(t) =>
    LET F == Flat(lg, 1)
        news == {i \in 1..Len(F) : F[i].ev.e = "new"}
        pairs == {<<F[i].ev.id, F[i].ev.x>> : i \in news} IN
      /\ Cardinality(news) = Cardinality(pairs)
      /\ pairs \subseteq Creates(t, c)
      /\ \A p \in pairs, q \in pairs : p[1] = q[1] => p = q
      /\ (InitOk(lg) => pairs = Creates(t, c))

\* "fail with the first init error":
\*  (1) by the reference timing InitRef (and_then drives both inner factories together): the factory fails iff the
\*      reference composition fails, and with the error of the EARLIEST failing round (same-round ties: the first stage's) -
\*      also when the implementation never polled the future that fails first;
\*  (2) an init error that an inner future (or the readiness wait of apply_cfg_factory) was SEEN to return is
\*      reported in that very round (mapped by the map_init_err's above it), and an error is reported only then
C11_FirstInitErrorWins(t, rq, c, lg) ==
  IsFactory(t) =>
    /\ \A i \in 1..Len(lg) : (lg[i].ph = "init" /\ lg[i].res.k # "pending") =>
         LET ref == InitRef(t, c, 1) IN
           IF ref.k = "err" THEN lg[i].res.k = "err" /\ lg[i].res.v \in ref.errs
           ELSE lg[i].res.k = "ok"
    /\ \A i \in 1..Len(lg) : lg[i].ph = "init" =>
         LET errs == {e \in Seq2Set(lg[i].acc) : e.e \in {"pi", "pr"} /\ e.r = "err"} IN
           /\ (errs # {}) <=> (lg[i].res.k = "err")
           /\ (lg[i].res.k = "err" => \E e \in errs : [id |-> e.id, e |-> lg[i].res.v] \in InitErrs(t, c))

(* ---------------------------------------- C12 ---------------------------------------- *)
ReadyRounds(lg) == {i \in 1..Len(lg) : lg[i].ph = "ready"}
\* leaf `id` has answered a poll_ready with Ready in a round before round i
ReadyBefore(lg, i, id) == \E j \in 1..(i - 1) : \E e \in Seq2Set(lg[j].acc) : e.e = "pr" /\ e.id = id /\ e.r # "pending"

RECURSIVE QuietIds(_)      \* fn_service leaves: their init future is the crate's Ready, not observable
QuietIds(t) == CASE t.o = "fleaf" -> (IF t.kind = "fnsvc" THEN {t.id} ELSE {})
                 [] t.o = "fapply_cfg" -> {}
                 [] t.o = "fand_then" -> QuietIds(t.a) \cup QuietIds(t.b)
                 [] OTHER -> QuietIds(t.a)

RECURSIVE AcfNodes(_)      \* apply_cfg_factory nodes of a factory term
AcfNodes(t) == CASE t.o \in {"fleaf", "fapply_cfg"} -> {}
                 [] t.o = "fand_then" -> AcfNodes(t.a) \cup AcfNodes(t.b)
                 [] t.o = "fapply_cfg_factory" -> {t} \cup AcfNodes(t.a)
                 [] OTHER -> AcfNodes(t.a)

\* ready only if every inner service was polled in this round and answered Ready(Ok);
\* apply_cfg_factory invokes its closure only in a round in which the built service answered ready
C12_ReadyIsConjunction(t, rq, c, lg) ==
  LET S == SvcOf(t, c) IN
    /\ \A i \in ReadyRounds(lg) : lg[i].res.k = "ok" =>
         \A id \in ObsLeafIds(S) :
           /\ \E e \in Seq2Set(lg[i].acc) : e.e = "pr" /\ e.id = id /\ e.r = "ok"
           /\ \A e \in Seq2Set(lg[i].acc) : (e.e = "pr" /\ e.id = id) => e.r = "ok"
    /\ (IsFactory(t) =>
          \A n \in AcfNodes(t) : \A i \in 1..Len(lg) :
            (\E e \in Seq2Set(lg[i].acc) : e.e = "new" /\ e.id = n.id) =>
               \A id \in ObsLeafIds(Build(n.a, "()")) :
                 \E k \in 1..Len(lg[i].acc) :
                   /\ lg[i].acc[k].e = "pr" /\ lg[i].acc[k].id = id /\ lg[i].acc[k].r = "ok"
                   /\ \E m \in (k + 1)..Len(lg[i].acc) : lg[i].acc[m].e = "new" /\ lg[i].acc[m].id = n.id)

\* an inner readiness error is reported (mapped by the map_err's above it) instead of ready, and only then
C12_ReadyErrPropagates(t, rq, c, lg) ==
  LET S == SvcOf(t, c) IN
    \A i \in ReadyRounds(lg) :
      LET errs == {e \in Seq2Set(lg[i].acc) : e.e = "pr" /\ e.r = "err"} IN
        /\ (errs # {}) <=> (lg[i].res.k = "err")
        /\ (lg[i].res.k = "err" => \E e \in errs : [id |-> e.id, e |-> lg[i].res.v] \in ReadyErrs(S))

\* inner futures alive at the end of round i: created (call / new) and not yet answered Ready
LiveAfter(lg, i, mk, pk) ==
  LET F == Flat(lg, 1)
      upto == {x \in Seq2Set(F) : x.rd <= i} IN
    {x.ev.id : x \in {y \in upto : y.ev.e = mk}} \ {x.ev.id : x \in {y \in upto : y.ev.e = pk /\ y.ev.r # "pending"}}

\* apply_cfg_factory node n waits for readiness in round i: its inner factory is done, the closure not yet invoked
AcfWaiting(n, lg, i) ==
  LET F == Flat(lg, 1)
      upto == {x \in Seq2Set(F) : x.rd <= i} IN
    /\ \A pr \in Creates(n.a, "()") :
         pr[1] \in QuietIds(n.a) \/ \E x \in upto : x.ev.e = "pi" /\ x.ev.id = pr[1] /\ x.ev.r = "ok"
    /\ ~\E x \in upto : x.ev.e = "new" /\ x.ev.id = n.id

\* whenever the root answers Pending, every still-pending inner service / future has been polled in
\* this round with the round's (fresh) waker - no lost wake-up
C12_PendingPolledAllWithCurrentWaker(t, rq, c, lg) ==
  LET S == SvcOf(t, c)
      Polled(i, kind, id) == \E e \in Seq2Set(lg[i].acc) : e.e = kind /\ e.id = id /\ e.w = lg[i].w IN
    \A i \in 1..Len(lg) : (lg[i].ph \in Polls /\ lg[i].res.k = "pending") =>
      /\ (lg[i].ph = "ready" => \A id \in ObsLeafIds(S) : ~ReadyBefore(lg, i, id) => Polled(i, "pr", id))
      /\ (lg[i].ph = "fut" => \A id \in LiveAfter(lg, i, "call", "pf") : Polled(i, "pf", id))
      /\ (lg[i].ph = "init" =>
            /\ \A id \in (LiveAfter(lg, i, "new", "pi") \ QuietIds(t)) : Polled(i, "pi", id)
            /\ \A n \in AcfNodes(t) : AcfWaiting(n, lg, i) =>
                 \A id \in ObsLeafIds(Build(n.a, "()")) : ~ReadyBefore(lg, i, id) => Polled(i, "pr", id))

\* no inner future is polled again after it completed (scripted leaves panic if that happens)
C12_NoPollAfterCompletion(t, rq, c, lg) ==
  LET F == Flat(lg, 1) IN
    /\ \A i \in 1..Len(F) : F[i].ev.r # "panic"
    \* (a wrapper written as an `async fn` panics itself, before the leaf can log anything: the round ends in that panic)
    /\ \A i \in 1..Len(lg) : ~(lg[i].res.k = "panic" /\ lg[i].res.v = "poll after completion")
    /\ \A i \in 1..Len(F), j \in 1..Len(F) :
         (i < j /\ F[i].ev.e \in {"pf", "pi"} /\ F[j].ev.e = F[i].ev.e /\ F[j].ev.id = F[i].ev.id) => F[i].ev.r = "pending"

\* no stage is invoked twice: every leaf service is called at most once per request
C12_NoStageTwice(t, rq, c, lg) ==
  \A x \in CallEvs(lg), y \in CallEvs(lg) : x.ev.id = y.ev.id => x = y
C12_NoStageTwiceCount(t, rq, c, lg) ==
  LET F == Flat(lg, 1) IN
    \A i \in 1..Len(F), j \in 1..Len(F) : (F[i].ev.e = "call" /\ F[j].ev.e = "call" /\ F[i].ev.id = F[j].ev.id) => i = j

\* the root answers Pending only in a round in which some inner poll answered Pending
C12_PendingOnlyWhileInnerPending(t, rq, c, lg) ==
  \A i \in 1..Len(lg) : (lg[i].ph \in Polls /\ lg[i].res.k = "pending") =>
    \E e \in Seq2Set(lg[i].acc) : e.r = "pending"

C11Names == <<"C11_ResultIsEval", "C11_SecondOnlyAfterFirstOk", "C11_MapperOnceOnMatchingVariant",
              "C11_WrappersTransparent", "C11_FactoryBuildsEachOnceWithCfg", "C11_FirstInitErrorWins">>
C12Names == <<"C12_ReadyIsConjunction", "C12_ReadyErrPropagates", "C12_PendingPolledAllWithCurrentWaker",
              "C12_NoPollAfterCompletion", "C12_NoStageTwice", "C12_PendingOnlyWhileInnerPending">>
Holds(name, t, rq, c, lg) ==
  CASE name = "C11_ResultIsEval" -> C11_ResultIsEval(t, rq, c, lg)
    [] name = "C11_SecondOnlyAfterFirstOk" -> C11_SecondOnlyAfterFirstOk(t, rq, c, lg)
    [] name = "C11_MapperOnceOnMatchingVariant" -> C11_MapperOnceOnMatchingVariant(t, rq, c, lg)
    [] name = "C11_WrappersTransparent" -> C11_WrappersTransparent(t, rq, c, lg)
    [] name = "C11_FactoryBuildsEachOnceWithCfg" -> C11_FactoryBuildsEachOnceWithCfg(t, rq, c, lg)
    [] name = "C11_FirstInitErrorWins" -> C11_FirstInitErrorWins(t, rq, c, lg)
    [] name = "C12_ReadyIsConjunction" -> C12_ReadyIsConjunction(t, rq, c, lg)
    [] name = "C12_ReadyErrPropagates" -> C12_ReadyErrPropagates(t, rq, c, lg)
    [] name = "C12_PendingPolledAllWithCurrentWaker" -> C12_PendingPolledAllWithCurrentWaker(t, rq, c, lg)
    [] name = "C12_NoPollAfterCompletion" -> C12_NoPollAfterCompletion(t, rq, c, lg)
    [] name = "C12_NoStageTwice" -> C12_NoStageTwiceCount(t, rq, c, lg)
    [] name = "C12_PendingOnlyWhileInnerPending" -> C12_PendingOnlyWhileInnerPending(t, rq, c, lg)
AllNames == C11Names \o C12Names
Failing(t, rq, c, lg) == SelectSeq(AllNames, LAMBDA n : ~Holds(n, t, rq, c, lg))

(* ---------------- state invariants of the machine (the complete log is judged at the terminal state) - *)
Inv(name) == phase = "done" => Holds(name, T, req, cfg, log)   \* every run ends (C12_Terminates); the whole log is judged
I_C11_ResultIsEval == Inv("C11_ResultIsEval")
I_C11_SecondOnlyAfterFirstOk == Inv("C11_SecondOnlyAfterFirstOk")
I_C11_MapperOnceOnMatchingVariant == Inv("C11_MapperOnceOnMatchingVariant")
I_C11_WrappersTransparent == Inv("C11_WrappersTransparent")
I_C11_FactoryBuildsEachOnceWithCfg == Inv("C11_FactoryBuildsEachOnceWithCfg")
I_C11_FirstInitErrorWins == Inv("C11_FirstInitErrorWins")
I_C12_ReadyIsConjunction == Inv("C12_ReadyIsConjunction")
I_C12_ReadyErrPropagates == Inv("C12_ReadyErrPropagates")
I_C12_PendingPolledAllWithCurrentWaker == Inv("C12_PendingPolledAllWithCurrentWaker")
I_C12_NoPollAfterCompletion == Inv("C12_NoPollAfterCompletion")
I_C12_NoStageTwice == Inv("C12_NoStageTwice")
I_C12_PendingOnlyWhileInnerPending == Inv("C12_PendingOnlyWhileInnerPending")
\* the service the operational factory future hands out is the reference composition
C11_BuiltIsReference == (IsFactory(T) /\ svc.o # "none") => svc = Build(T, cfg)
\* the run ends (scripts are finite): a bound on the number of rounds
C12_Terminates == Len(log) <= 40

\* one vector per (term, scripts, request, config): the complete expected log, printed at the terminal state
EmitVec == (Emit /\ phase = "done") => PrintT(<<"VEC", ToJson([t |-> T, req |-> req, cfg |-> cfg, log |-> log])>>)
=============================================================================
