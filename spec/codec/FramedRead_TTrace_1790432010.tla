---- MODULE FramedRead_TTrace_1790432010 ----
EXTENDS Sequences, TLCExt, FramedRead, Toolbox, Naturals, TLC

_expression ==
    LET FramedRead_TEExpression == INSTANCE FramedRead_TEExpression
    IN FramedRead_TEExpression!expression
----

_trace ==
    LET FramedRead_TETrace == INSTANCE FramedRead_TETrace
    IN FramedRead_TETrace!trace
----

_inv ==
    ~(
        TLCGet("level") = Len(_TETrace)
        /\
        lastPend = (FALSE)
        /\
        readable = (TRUE)
        /\
        input = (<<1>>)
        /\
        act = ([res |-> [k |-> "none", v |-> <<>>], io |-> <<[k |-> 0, a |-> "eof"]>>, op |-> "poll"])
        /\
        rbuf = (<<>>)
        /\
        pos = (1)
        /\
        done = (TRUE)
        /\
        eof = (TRUE)
        /\
        errUsed = (FALSE)
        /\
        out = (<<[k |-> "none", v |-> <<>>]>>)
    )
----

_init ==
    /\ done = _TETrace[1].done
    /\ lastPend = _TETrace[1].lastPend
    /\ readable = _TETrace[1].readable
    /\ out = _TETrace[1].out
    /\ pos = _TETrace[1].pos
    /\ input = _TETrace[1].input
    /\ errUsed = _TETrace[1].errUsed
    /\ eof = _TETrace[1].eof
    /\ act = _TETrace[1].act
    /\ rbuf = _TETrace[1].rbuf
----

_next ==
    /\ \E i,j \in DOMAIN _TETrace:
        /\ \/ /\ j = i + 1
              /\ i = TLCGet("level")
        /\ done  = _TETrace[i].done
        /\ done' = _TETrace[j].done
        /\ lastPend  = _TETrace[i].lastPend
        /\ lastPend' = _TETrace[j].lastPend
        /\ readable  = _TETrace[i].readable
        /\ readable' = _TETrace[j].readable
        /\ out  = _TETrace[i].out
        /\ out' = _TETrace[j].out
        /\ pos  = _TETrace[i].pos
        /\ pos' = _TETrace[j].pos
        /\ input  = _TETrace[i].input
        /\ input' = _TETrace[j].input
        /\ errUsed  = _TETrace[i].errUsed
        /\ errUsed' = _TETrace[j].errUsed
        /\ eof  = _TETrace[i].eof
        /\ eof' = _TETrace[j].eof
        /\ act  = _TETrace[i].act
        /\ act' = _TETrace[j].act
        /\ rbuf  = _TETrace[i].rbuf
        /\ rbuf' = _TETrace[j].rbuf

\* Uncomment the ASSUME below to write the states of the error trace
\* to the given file in Json format. Note that you can pass any tuple
\* to `JsonSerialize`. For example, a sub-sequence of _TETrace.
    \* ASSUME
    \*     LET J == INSTANCE Json
    \*         IN J!JsonSerialize("FramedRead_TTrace_1790432010.json", _TETrace)

=============================================================================

 Note that you can extract this module `FramedRead_TEExpression`
  to a dedicated file to reuse `expression` (the module in the 
  dedicated `FramedRead_TEExpression.tla` file takes precedence 
  over the module `FramedRead_TEExpression` below).

---- MODULE FramedRead_TEExpression ----
EXTENDS Sequences, TLCExt, FramedRead, Toolbox, Naturals, TLC

expression == 
    [
        \* To hide variables of the `FramedRead` spec from the error trace,
        \* remove the variables below.  The trace will be written in the order
        \* of the fields of this record.
        done |-> done
        ,lastPend |-> lastPend
        ,readable |-> readable
        ,out |-> out
        ,pos |-> pos
        ,input |-> input
        ,errUsed |-> errUsed
        ,eof |-> eof
        ,act |-> act
        ,rbuf |-> rbuf
        
        \* Put additional constant-, state-, and action-level expressions here:
        \* ,_stateNumber |-> _TEPosition
        \* ,_doneUnchanged |-> done = done'
        
        \* Format the `done` variable as Json value.
        \* ,_doneJson |->
        \*     LET J == INSTANCE Json
        \*     IN J!ToJson(done)
        
        \* Lastly, you may build expressions over arbitrary sets of states by
        \* leveraging the _TETrace operator.  For example, this is how to
        \* count the number of times a spec variable changed up to the current
        \* state in the trace.
        \* ,_doneModCount |->
        \*     LET F[s \in DOMAIN _TETrace] ==
        \*         IF s = 1 THEN 0
        \*         ELSE IF _TETrace[s].done # _TETrace[s-1].done
        \*             THEN 1 + F[s-1] ELSE F[s-1]
        \*     IN F[_TEPosition - 1]
    ]

=============================================================================



Parsing and semantic processing can take forever if the trace below is long.
 In this case, it is advised to uncomment the module below to deserialize the
 trace from a generated binary file.

\*
\*---- MODULE FramedRead_TETrace ----
\*EXTENDS IOUtils, FramedRead, TLC
\*
\*trace == IODeserialize("FramedRead_TTrace_1790432010.bin", TRUE)
\*
\*=============================================================================
\*

---- MODULE FramedRead_TETrace ----
EXTENDS FramedRead, TLC

trace == 
    <<
    ([lastPend |-> FALSE,readable |-> FALSE,input |-> <<1>>,act |-> [res |-> [k |-> "none", v |-> <<>>], io |-> <<>>, op |-> "init"],rbuf |-> <<>>,pos |-> 0,done |-> FALSE,eof |-> FALSE,errUsed |-> FALSE,out |-> <<>>]),
    ([lastPend |-> TRUE,readable |-> FALSE,input |-> <<1>>,act |-> [res |-> [k |-> "pending", v |-> <<>>], io |-> <<[k |-> 1, a |-> "data"], [k |-> 0, a |-> "pending"]>>, op |-> "poll"],rbuf |-> <<>>,pos |-> 1,done |-> FALSE,eof |-> FALSE,errUsed |-> FALSE,out |-> <<>>]),
    ([lastPend |-> FALSE,readable |-> TRUE,input |-> <<1>>,act |-> [res |-> [k |-> "none", v |-> <<>>], io |-> <<[k |-> 0, a |-> "eof"]>>, op |-> "poll"],rbuf |-> <<>>,pos |-> 1,done |-> TRUE,eof |-> TRUE,errUsed |-> FALSE,out |-> <<[k |-> "none", v |-> <<>>]>>])
    >>
----


=============================================================================

---- CONFIG FramedRead_TTrace_1790432010 ----
CONSTANTS
    Codec = "lp"
    Alpha = { 0 , 1 , 2 , 9 }
    MaxLen = 3
    LpBad = 9
    LpScale = 1
    EofDecodes = TRUE
    KeepBufOnPending = FALSE
    SurfaceIoErr = TRUE

INVARIANT
    _inv

CHECK_DEADLOCK
    \* CHECK_DEADLOCK off because of PROPERTY or INVARIANT above.
    FALSE

INIT
    _init

NEXT
    _next

CONSTANT
    _TETrace <- _trace

ALIAS
    _expression
=============================================================================
\* Generated on Sat Sep 26 14:13:32 UTC 2026