CONSTANTS
  Codec = "lpe"
  Alpha = {0, 1, 2, 9}
  MaxLen = 2
  LpBad = 9
  LpScale = 1
  EofDecodes = TRUE
  KeepBufOnPending = TRUE
  SurfaceIoErr = TRUE
  EofFastPath = TRUE
SPECIFICATION Spec
VIEW View
INVARIANTS C13_Frames C13_Prefix C13_TerminalLast C13_Progress 
PROPERTIES C13_IoErrSurfaced

CHECK_DEADLOCK FALSE
