CONSTANTS
  N = 4
  RtLen = 2
  RtTuple = 2
  Emit = FALSE
  StripAllCR = FALSE
  SplitAtCR = FALSE
  DropFinal = FALSE
  LossyUtf8 = TRUE
  EncodeLFs = 1
  EofSkipsDecode = FALSE
SPECIFICATION Spec
CHECK_DEADLOCK FALSE
