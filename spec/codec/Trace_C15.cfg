CONSTANTS
  StripAllCR = FALSE
  SplitAtCR = FALSE
  DropFinal = FALSE
  LossyUtf8 = FALSE
  EncodeLFs = 1
  EofSkipsDecode = FALSE
SPECIFICATION TSpec
POSTCONDITION TraceAccepted
CHECK_DEADLOCK FALSE
