CONSTANTS
  N = 5
  RtLen = 2
  RtTuple = 3
  Emit = TRUE
  StripAllCR = FALSE
  SplitAtCR = FALSE
  DropFinal = FALSE
  LossyUtf8 = FALSE
  EncodeLFs = 1
  EofSkipsDecode = FALSE
SPECIFICATION Spec
CHECK_DEADLOCK FALSE
