----------------------------- MODULE FramedRead -----------------------------
(* Read half of actix_codec::Framed: next_item (actix-codec/src/framed.rs 177-234) transcribed      *)
(* branch by branch - property C13.                                                                *)
(*   input     the whole byte stream the transport will deliver (chosen in Init)                   *)
(*   pos       bytes delivered so far;  rbuf = read_buf;  eof / readable = Flags::EOF / READABLE   *)
(*   out       items yielded so far (Pending results are not items); done = None was yielded.  An  *)
(*             I/O error item does NOT end the stream: the transport is read again by the next     *)
(*             poll and the frames behind the error still have to come, in order.                  *)
(* The environment chooses the result of every poll_read: a chunk of every possible length of the  *)
(* remaining input, Pending (not in two consecutive polls), one I/O error per run, EOF at the end. *)
(* One poll_next makes several reads: the action chooses them as a script `io` that the call       *)
(* consumes entirely.  The codec is a parameter: "lp" (1-byte length prefix test codec with an     *)
(* invalid header byte and a tail frame at end of stream), "lpe" (the same codec, stateful: its     *)
(* decode_eof additionally yields exactly one "end" frame once the buffer is empty, i.e. an         *)
(* end-of-stream frame produced from codec state on an EMPTY buffer), "lines" (LinesCodec.tla),     *)
(* "bytes".   cended = codec state of "lpe": the end frame has been emitted.                        *)
EXTENDS Naturals, Sequences, FiniteSets, TLC, Json

CONSTANTS Codec, Alpha, MaxLen, LpBad, LpScale,
          EofDecodes,        \* design TRUE: at EOF decode_eof is called until it returns None (FALSE: None at once)
          KeepBufOnPending,  \* design TRUE: a Pending read leaves read_buf alone (FALSE: partial frame dropped)
          SurfaceIoErr,      \* design TRUE: a read error is yielded as an item (FALSE: swallowed, poll returns Pending)
          EofFastPath        \* design FALSE: a 0-byte read always sets EOF and goes through decode_eof
                             \* (TRUE: with an empty read_buf the stream ends at once - decode_eof never runs)

VARIABLES input, pos, rbuf, eof, readable, cended, out, done, errUsed, lastPend, act
vars == <<input, pos, rbuf, eof, readable, cended, out, done, errUsed, lastPend, act>>
View == <<input, pos, rbuf, eof, readable, cended, out, done, errUsed, lastPend>>

L == INSTANCE LinesCodec WITH StripAllCR <- FALSE, SplitAtCR <- FALSE, DropFinal <- FALSE, LossyUtf8 <- FALSE, EncodeLFs <- 1, EofSkipsDecode <- FALSE

None == [k |-> "none", v |-> <<>>]
Ok(f) == [k |-> "ok", v |-> f]
Tail_(f) == [k |-> "tail", v |-> f]
Err == [k |-> "err", v |-> <<>>]
End == [k |-> "end", v |-> <<>>]
IoErr == [k |-> "ioerr", v |-> <<>>]
Pending == [k |-> "pending", v |-> <<>>]

\* ---- codecs: Dec(buf) returns <<result, rest of buffer>>; DecEof(buf, ce) returns <<result, rest, ce'>> ----
LpDec(b) == IF b = <<>> THEN <<None, b>>
            ELSE IF b[1] = LpBad THEN <<Err, Tail(b)>>
            ELSE LET need == b[1] * LpScale IN
                 IF Len(b) < 1 + need THEN <<None, b>>
                 ELSE <<Ok(SubSeq(b, 2, 1 + need)), SubSeq(b, 2 + need, Len(b))>>
LpDecEof(b) == LET d == LpDec(b) IN
               IF d[1].k # "none" THEN d ELSE IF b = <<>> THEN <<None, b>> ELSE <<Tail_(b), <<>>>>
BytesDec(b) == IF b = <<>> THEN <<None, b>> ELSE <<Ok(b), <<>>>>
\* "lpe": decode as lp; decode_eof: frame / tail as lp, then on the empty buffer one End frame, then None
LpeDecEof(b, ce) == LET d == LpDecEof(b) IN
                    IF d[1].k # "none" THEN <<d[1], d[2], ce>>
                    ELSE IF ~ce THEN <<End, b, TRUE>> ELSE <<None, b, ce>>
Dec(b) == IF Codec \in {"lp", "lpe"} THEN LpDec(b) ELSE IF Codec = "lines" THEN L!Decode(b) ELSE BytesDec(b)
DecEof(b, ce) == IF Codec = "lpe" THEN LpeDecEof(b, ce)
                 ELSE LET d == IF Codec = "lp" THEN LpDecEof(b) ELSE IF Codec = "lines" THEN L!DecodeEof(b) ELSE BytesDec(b)
                      IN <<d[1], d[2], ce>>

\* the codec's decoding of the whole stream: decode until None, then decode_eof until None
RECURSIVE Phase(_, _, _)
Phase(src, e, ce) == LET d == IF e THEN DecEof(src, ce) ELSE <<Dec(src)[1], Dec(src)[2], ce>> IN
                     IF d[1].k = "none" THEN <<<<>>, d[2]>>
                     ELSE LET r == Phase(d[2], e, d[3]) IN <<<<d[1]>> \o r[1], r[2]>>
WholeStreamFrames(s) == LET p == Phase(s, FALSE, FALSE) IN p[1] \o Phase(p[2], TRUE, FALSE)[1]

\* ---- next_item ----
NoHint == [on |-> FALSE, s |-> <<>>]
Rd(a, k) == [a |-> a, k |-> k]
St(b, p, e, r, ce) == [rbuf |-> b, pos |-> p, eof |-> e, rd |-> r, ce |-> ce]
Outc(st, res, io) == [st |-> st, res |-> res, io |-> io]
Pre(a, o) == [o EXCEPT !.io = <<a>> \o o.io]

ReadAns(st, i, h) ==
  IF h.on THEN (IF i <= Len(h.s) /\ (h.s[i].a = "data" => h.s[i].k \in 1..(Len(input) - st.pos))
                   /\ (h.s[i].a = "eof" => st.pos = Len(input)) THEN {h.s[i]} ELSE {})
  ELSE {Rd("data", k) : k \in 1..(Len(input) - st.pos)}
       \cup (IF st.pos = Len(input) THEN {Rd("eof", 0)} ELSE {})
       \cup (IF ~lastPend THEN {Rd("pending", 0)} ELSE {})
       \cup (IF ~errUsed THEN {Rd("err", 0)} ELSE {})

RECURSIVE Outs(_, _, _)
\* lines 217-232: poll_read_buf, Pending / Err / Ok(cnt); cnt = 0 sets EOF; READABLE is set; loop
ReadOuts(st, i, h) ==
  UNION {LET a == x IN
    IF a.a = "pending" THEN {Outc(IF KeepBufOnPending THEN st ELSE [st EXCEPT !.rbuf = <<>>], Pending, <<a>>)}
    ELSE IF a.a = "err" THEN {Outc(st, IF SurfaceIoErr THEN IoErr ELSE Pending, <<a>>)}
    ELSE IF a.a = "eof" THEN
           (IF EofFastPath /\ st.rbuf = <<>> THEN {Outc(st, None, <<a>>)}
            ELSE {Pre(a, o) : o \in Outs([st EXCEPT !.eof = TRUE, !.rd = TRUE], i + 1, h)})
    ELSE {Pre(a, o) : o \in Outs([st EXCEPT !.rbuf = @ \o SubSeq(input, st.pos + 1, st.pos + a.k),
                                            !.pos = @ + a.k, !.rd = TRUE], i + 1, h)}
    : x \in ReadAns(st, i, h)}
\* lines 192-213: while READABLE: at EOF decode_eof (frame / None / error), otherwise decode; None clears READABLE
Outs(st, i, h) ==
  IF st.rd THEN
    IF st.eof THEN
      IF ~EofDecodes THEN {Outc(st, None, <<>>)}
      ELSE LET d == DecEof(st.rbuf, st.ce) IN {Outc([st EXCEPT !.rbuf = d[2], !.ce = d[3]], d[1], <<>>)}
    ELSE LET d == Dec(st.rbuf) IN
      IF d[1].k # "none" THEN {Outc([st EXCEPT !.rbuf = d[2]], d[1], <<>>)}
      ELSE ReadOuts([st EXCEPT !.rd = FALSE], i, h)
  ELSE ReadOuts(st, i, h)

Inputs == UNION {[1..n -> Alpha] : n \in 0..MaxLen}
NoAct == [op |-> "init", io |-> <<>>, res |-> None]
Init == /\ input \in Inputs /\ pos = 0 /\ rbuf = <<>> /\ eof = FALSE /\ readable = FALSE /\ cended = FALSE
        /\ out = <<>> /\ done = FALSE /\ errUsed = FALSE /\ lastPend = FALSE /\ act = NoAct

Cur == St(rbuf, pos, eof, readable, cended)
IoHas(io, a) == \E i \in 1..Len(io) : io[i].a = a
PollNext(h) ==
  /\ ~done
  /\ \E o \in Outs(Cur, 1, h) :
       /\ (h.on => o.io = h.s)
       /\ rbuf' = o.st.rbuf /\ pos' = o.st.pos /\ eof' = o.st.eof /\ readable' = o.st.rd /\ cended' = o.st.ce
       /\ out' = (IF o.res.k = "pending" THEN out ELSE Append(out, o.res))
       /\ done' = (o.res.k = "none")
       /\ errUsed' = (errUsed \/ IoHas(o.io, "err"))
       /\ lastPend' = (o.res.k = "pending")
       /\ act' = [op |-> "poll", io |-> o.io, res |-> o.res]
  /\ UNCHANGED input
Next == PollNext(NoHint)
Spec == Init /\ [][Next]_vars

(* ---------------- property predicates (C13) ---------------- *)
RECURSIVE Concat(_)
Concat(items) == IF items = <<>> THEN <<>> ELSE Head(items).v \o Concat(Tail(items))
\* BytesCodec frames are whatever is buffered: only their concatenation is independent of the chunking
Norm(items) == IF Codec = "bytes" THEN Concat(items) ELSE items
IsPrefix(a, b) == Len(a) <= Len(b) /\ a = SubSeq(b, 1, Len(a))
Yielded == SelectSeq(out, LAMBDA x : x.k \notin {"none", "ioerr"})
\* the items yielded up to and including None are exactly the whole-stream frames, whatever the script was
NIoErr == Len(SelectSeq(out, LAMBDA x : x.k = "ioerr"))
C13_Frames == (done /\ out # <<>> /\ out[Len(out)].k = "none") => (Norm(Yielded) = Norm(WholeStreamFrames(input)) /\ Len(Yielded) = Len(out) - 1 - NIoErr)
\* at any time: nothing lost, duplicated or reordered so far
C13_Prefix == IsPrefix(Norm(Yielded), Norm(WholeStreamFrames(input)))
\* None ends the run: it appears only last (an I/O error item does not end it)
C13_TerminalLast == \A i \in 1..(Len(out) - 1) : out[i].k # "none"
\* an I/O error is surfaced where it occurs: every frame completed by the bytes delivered before the failing read has
\* been yielded before the error item (frames are not reordered around the error, none is held back behind it)
C13_ErrAfterFrames ==
  (out # <<>> /\ out[Len(out)].k = "ioerr") =>
     Norm(Yielded) = Norm(Phase(SubSeq(input, 1, pos), FALSE, FALSE)[1])
\* every run can go on until it is done
C13_Progress == done \/ Outs(Cur, 1, NoHint) # {}
\* a read error is yielded by the poll that met it
C13_IoErrSurfacedStep == IoHas(act'.io, "err") => act'.res = IoErr
C13_IoErrSurfaced == [][C13_IoErrSurfacedStep]_vars

LogEdge == PrintT(<<"EDGE", ToJson([from |-> View, act |-> act', to |-> View'])>>)
LogInit == TLCGet("level") > 1 \/ PrintT(<<"INIT", ToJson([from |-> View, want |-> WholeStreamFrames(input)])>>)
=============================================================================
