------------------------------- MODULE Lines -------------------------------
(* Property C15 on the bounded domain: for every byte string of length <= N over the alphabet the *)
(* transcribed codec equals the independent reference; encode appends one LF; round trip on all    *)
(* sequences of <= RtTuple valid-UTF-8 strings of length <= RtLen.  The checks are ASSUMEs (TLC    *)
(* evaluates them before Init); with Emit = TRUE every case is printed as a vector for the driver. *)
EXTENDS LinesCodec, TLC, Json

CONSTANTS N, RtLen, RtTuple, Emit

Dom == Strings(N)
C15_DecodeIsRef(s) == All(s) = RefLines(s)
\* decode_eof alone yields the same lines (it is also called on buffers that still hold complete lines)
C15_EofOnlyIsRef(s) == EofOnly(s) = RefLines(s)[1] \o RefLines(s)[2]
Vec(s) == [in |-> s, dec |-> All(s)[1], eof |-> All(s)[2]]

\* round trip
RtStrings == {s \in Strings(RtLen) : RefUtf8(s)}
Tuples == UNION {[1..k -> RtStrings] : k \in 0..RtTuple}
RECURSIVE EncAll(_)
EncAll(t) == IF t = <<>> THEN <<>> ELSE Encode(t[1]) \o EncAll(Tail(t))
Clean(s) == (\A i \in 1..Len(s) : s[i] # LF) /\ (s = <<>> \/ s[Len(s)] # CR)
C15_EncodeOneLF(s) == Encode(s) = s \o <<LF>>
C15_RoundTrip(t) == (\A i \in 1..Len(t) : Clean(t[i])) => AllFlat(EncAll(t)) = [i \in 1..Len(t) |-> Ok(t[i])]
RtVec(t) == [items |-> t, enc |-> EncAll(t), dec |-> AllFlat(EncAll(t)),
             clean |-> \A i \in 1..Len(t) : Clean(t[i])]

ASSUME PrintT(<<"COUNTS", ToJson([strings |-> Cardinality(Dom), rtstrings |-> Cardinality(RtStrings),
                                  tuples |-> Cardinality(Tuples)])>>)
ASSUME C15_Decode == \A s \in Dom : C15_DecodeIsRef(s) /\ (Emit => PrintT(<<"VEC", ToJson(Vec(s))>>))
ASSUME C15_EofOnly == \A s \in Dom : C15_EofOnlyIsRef(s)
ASSUME C15_Encode == \A s \in RtStrings : C15_EncodeOneLF(s)
ASSUME C15_RT == \A t \in Tuples : C15_RoundTrip(t) /\ (Emit => PrintT(<<"RT", ToJson(RtVec(t))>>))

VARIABLE x
Init == x = 0
Next == x' = x
Spec == Init /\ [][Next]_x
=============================================================================
