---- MODULE FramedWrite_TTrace_1790431699 ----
EXTENDS Sequences, TLCExt, Toolbox, Naturals, TLC, FramedWrite

_expression ==
    LET FramedWrite_TEExpression == INSTANCE FramedWrite_TEExpression
    IN FramedWrite_TEExpression!expression
----

_trace ==
    LET FramedWrite_TETrace == INSTANCE FramedWrite_TETrace
    IN FramedWrite_TETrace!trace
----

_inv ==
    ~(
        TLCGet("level") = Len(_TETrace)
        /\
        nitems = (1)
        /\
        nshut = (0)
        /\
        nflush = (0)
        /\
        act = ([op |-> "flush", n |-> 0, io |-> <<[a |-> "zero", k |-> 0, c |-> "w"]>>, res |-> "ok", held |-> 0, empty |-> FALSE, full |-> FALSE])
        /\
        depth = (2)
        /\
        taken = (0)
        /\
        accepted = (1)
        /\
        wbuf = (1)
    )
----

_init ==
    /\ nflush = _TETrace[1].nflush
    /\ accepted = _TETrace[1].accepted
    /\ taken = _TETrace[1].taken
    /\ nitems = _TETrace[1].nitems
    /\ act = _TETrace[1].act
    /\ nshut = _TETrace[1].nshut
    /\ wbuf = _TETrace[1].wbuf
    /\ depth = _TETrace[1].depth
----

_next ==
    /\ \E i,j \in DOMAIN _TETrace:
        /\ \/ /\ j = i + 1
              /\ i = TLCGet("level")
        /\ nflush  = _TETrace[i].nflush
        /\ nflush' = _TETrace[j].nflush
        /\ accepted  = _TETrace[i].accepted
        /\ accepted' = _TETrace[j].accepted
        /\ taken  = _TETrace[i].taken
        /\ taken' = _TETrace[j].taken
        /\ nitems  = _TETrace[i].nitems
        /\ nitems' = _TETrace[j].nitems
        /\ act  = _TETrace[i].act
        /\ act' = _TETrace[j].act
        /\ nshut  = _TETrace[i].nshut
        /\ nshut' = _TETrace[j].nshut
        /\ wbuf  = _TETrace[i].wbuf
        /\ wbuf' = _TETrace[j].wbuf
        /\ depth  = _TETrace[i].depth
        /\ depth' = _TETrace[j].depth

\* Uncomment the ASSUME below to write the states of the error trace
\* to the given file in Json format. Note that you can pass any tuple
\* to `JsonSerialize`. For example, a sub-sequence of _TETrace.
    \* ASSUME
    \*     LET J == INSTANCE Json
    \*         IN J!JsonSerialize("FramedWrite_TTrace_1790431699.json", _TETrace)

=============================================================================

 Note that you can extract this module `FramedWrite_TEExpression`
  to a dedicated file to reuse `expression` (the module in the 
  dedicated `FramedWrite_TEExpression.tla` file takes precedence 
  over the module `FramedWrite_TEExpression` below).

---- MODULE FramedWrite_TEExpression ----
EXTENDS Sequences, TLCExt, Toolbox, Naturals, TLC, FramedWrite

expression == 
    [
        \* To hide variables of the `FramedWrite` spec from the error trace,
        \* remove the variables below.  The trace will be written in the order
        \* of the fields of this record.
        nflush |-> nflush
        ,accepted |-> accepted
        ,taken |-> taken
        ,nitems |-> nitems
        ,act |-> act
        ,nshut |-> nshut
        ,wbuf |-> wbuf
        ,depth |-> depth
        
        \* Put additional constant-, state-, and action-level expressions here:
        \* ,_stateNumber |-> _TEPosition
        \* ,_nflushUnchanged |-> nflush = nflush'
        
        \* Format the `nflush` variable as Json value.
        \* ,_nflushJson |->
        \*     LET J == INSTANCE Json
        \*     IN J!ToJson(nflush)
        
        \* Lastly, you may build expressions over arbitrary sets of states by
        \* leveraging the _TETrace operator.  For example, this is how to
        \* count the number of times a spec variable changed up to the current
        \* state in the trace.
        \* ,_nflushModCount |->
        \*     LET F[s \in DOMAIN _TETrace] ==
        \*         IF s = 1 THEN 0
        \*         ELSE IF _TETrace[s].nflush # _TETrace[s-1].nflush
        \*             THEN 1 + F[s-1] ELSE F[s-1]
        \*     IN F[_TEPosition - 1]
    ]

=============================================================================



Parsing and semantic processing can take forever if the trace below is long.
 In this case, it is advised to uncomment the module below to deserialize the
 trace from a generated binary file.

\*
\*---- MODULE FramedWrite_TETrace ----
\*EXTENDS IOUtils, TLC, FramedWrite
\*
\*trace == IODeserialize("FramedWrite_TTrace_1790431699.bin", TRUE)
\*
\*=============================================================================
\*

---- MODULE FramedWrite_TETrace ----
EXTENDS TLC, FramedWrite

trace == 
    <<
    ([nitems |-> 0,nshut |-> 0,nflush |-> 0,act |-> [op |-> "init", n |-> 0, io |-> <<>>, res |-> "", held |-> 0, empty |-> TRUE, full |-> FALSE],depth |-> 0,taken |-> 0,accepted |-> 0,wbuf |-> 0]),
    ([nitems |-> 1,nshut |-> 0,nflush |-> 0,act |-> [op |-> "send", n |-> 1, io |-> <<>>, res |-> "ok", held |-> 0, empty |-> FALSE, full |-> FALSE],depth |-> 1,taken |-> 0,accepted |-> 1,wbuf |-> 1]),
    ([nitems |-> 1,nshut |-> 0,nflush |-> 0,act |-> [op |-> "flush", n |-> 0, io |-> <<[a |-> "zero", k |-> 0, c |-> "w"]>>, res |-> "ok", held |-> 0, empty |-> FALSE, full |-> FALSE],depth |-> 2,taken |-> 0,accepted |-> 1,wbuf |-> 1])
    >>
----


=============================================================================

---- CONFIG FramedWrite_TTrace_1790431699 ----
CONSTANTS
    HW = 8192
    Sizes = { 1 , 1024 , 8191 , 8193 }
    MaxItems = 2
    MaxDepth = 4
    MaxWrites = 2
    PartialMode = 1
    CloseFlushesBuffer = TRUE
    ReadyThresholdLe = FALSE
    FlushIgnoresLeftover = FALSE
    ZeroIsOk = TRUE
    AdvanceWholeBuffer = FALSE

INVARIANT
    _inv

CHECK_DEADLOCK
    \* CHECK_DEADLOCK off because of PROPERTY or INVARIANT above.
    FALSE

INIT
    _init

NEXT
    _next

CONSTANT
    _TETrace <- _trace

ALIAS
    _expression
=============================================================================
\* Generated on Sat Sep 26 14:08:20 UTC 2026