CONSTANTS
  Codec = "lpe"
  Alpha = {0, 1, 2, 9}
  MaxLen = 4
  LpBad = 9
  LpScale = 1
  EofDecodes = TRUE
  KeepBufOnPending = TRUE
  SurfaceIoErr = TRUE
  EofFastPath = FALSE
SPECIFICATION Spec
VIEW View
INVARIANTS C13_Frames C13_Prefix C13_ErrAfterFrames C13_TerminalLast C13_Progress LogInit
PROPERTIES C13_IoErrSurfaced
ACTION_CONSTRAINT LogEdge
CHECK_DEADLOCK FALSE
