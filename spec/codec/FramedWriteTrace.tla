------------------------- MODULE FramedWriteTrace -------------------------
(* Strict trace validation of histories recorded from the real Framed sink against FramedWrite:    *)
(* every record must be explained by the spec action of the same operation run with the transport  *)
(* answers that were really given (the record's `io` is the hint), with equal result, equal number *)
(* of bytes held by the transport, equal empty/full observations, and the held bytes byte-identical *)
(* to the prefix of the accepted stream (prefix_ok, measured by the driver).                       *)
EXTENDS FramedWrite, IOUtils, TLCExt

Rec == ndJsonDeserialize(IOEnv.TRACE)
VARIABLE l
tvars == <<vars, l>>
R == Rec[l + 1]
Hint(r) == [on |-> TRUE, s |-> r.io]
Matches(r) == /\ act'.res = r.res /\ act'.held = r.held /\ act'.empty = r.empty /\ act'.full = r.full
              /\ r.prefix_ok = TRUE
Reset == /\ wbuf' = 0 /\ accepted' = 0 /\ taken' = 0 /\ nflush' = 0 /\ nshut' = 0 /\ nitems' = 0 /\ depth' = 0
         /\ act' = NoAct
Step(r) == \/ r.ev = "reset" /\ Reset
           \/ r.ev = "send" /\ StartSend(r.n) /\ Matches(r)
           \/ r.ev = "ready" /\ PollReady(Hint(r)) /\ Matches(r)
           \/ r.ev = "flush" /\ PollFlush(Hint(r)) /\ Matches(r)
           \/ r.ev = "close" /\ PollClose(Hint(r)) /\ Matches(r)
TInit == Init /\ l = 0
TNext == l < Len(Rec) /\ l' = l + 1 /\ Step(R)
TSpec == TInit /\ [][TNext]_tvars
TraceAccepted ==
  LET n == TLCGet("stats").diameter - 1 IN
    /\ PrintT(<<"TRACE_MATCHED", n, Len(Rec)>>)
    /\ (n < Len(Rec) => PrintT(<<"UNMATCHED", ToJson(Rec[n + 1])>>))
    /\ n = Len(Rec)
=============================================================================
