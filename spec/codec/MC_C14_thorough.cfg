CONSTANTS
  HW = 8192
  Sizes = {1, 1023, 1024, 1025, 8191, 8192, 8193}
  MaxItems = 3
  MaxDepth = 6
  MaxWrites = 2
  PartialMode = 2
  CloseFlushesBuffer = TRUE
  ReadyThresholdLe = FALSE
  FlushIgnoresLeftover = FALSE
  ZeroIsOk = FALSE
  AdvanceWholeBuffer = FALSE
SPECIFICATION Spec
VIEW View
INVARIANTS C14_PrefixOrder LogInit
PROPERTIES C14_FlushMeansEmpty C14_CloseMeansEmptyAndShutdown C14_Backpressure C14_WriteZero C14_ErrSurfaced
ACTION_CONSTRAINT LogEdge
CHECK_DEADLOCK FALSE
