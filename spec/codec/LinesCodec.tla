---------------------------- MODULE LinesCodec ----------------------------
(* actix_codec::LinesCodec (actix-codec/src/lines.rs) as operators over sequences of byte codes.  *)
(* Decode / DecodeEof / Encode are transcribed branch by branch from the code; RefLines is an      *)
(* independent statement of property C15 (split at every LF, strip one trailing CR, final          *)
(* unterminated non-empty line at end of stream, invalid UTF-8 is an error).                       *)
(* Variant constants (design value FALSE / 1) switch the transcription to a plausible wrong design.*)
EXTENDS Naturals, Sequences, FiniteSets

CONSTANTS StripAllCR,   \* design FALSE: exactly one trailing CR is stripped (TRUE: all of them)
          SplitAtCR,    \* design FALSE: lines end at LF only (TRUE: a lone CR also ends a line)
          DropFinal,    \* design FALSE: decode_eof yields the final unterminated line (TRUE: drops it)
          LossyUtf8,    \* design FALSE: invalid UTF-8 is an error (TRUE: bad bytes replaced by '?')
          EncodeLFs,    \* design 1: encode appends exactly one LF
          EofSkipsDecode \* design FALSE: decode_eof first decodes a complete line if one is buffered (TRUE: tail logic only)

A == 97  CR == 13  LF == 10  C3 == 195  A9 == 169  FF == 255  QM == 63
Alphabet == {A, CR, LF, C3, A9, FF}
Strings(n) == UNION {[1..k -> Alphabet] : k \in 0..n}

\* UTF-8 validity restricted to the alphabet: ASCII bytes, and the one two-byte scalar C3 A9
RECURSIVE Utf8Ok(_)
Utf8Ok(s) == IF s = <<>> THEN TRUE
             ELSE IF Head(s) \in {A, CR, LF, QM} THEN Utf8Ok(Tail(s))
             ELSE IF Head(s) = C3 /\ Len(s) >= 2 /\ s[2] = A9 THEN Utf8Ok(SubSeq(s, 3, Len(s)))
             ELSE FALSE
RECURSIVE Lossy(_)
Lossy(s) == IF s = <<>> THEN <<>>
            ELSE IF Head(s) \in {A, CR, LF, QM} THEN <<Head(s)>> \o Lossy(Tail(s))
            ELSE IF Head(s) = C3 /\ Len(s) >= 2 /\ s[2] = A9 THEN <<C3, A9>> \o Lossy(SubSeq(s, 3, Len(s)))
            ELSE <<QM>> \o Lossy(Tail(s))

None == [k |-> "none", v |-> <<>>]
Ok(line) == [k |-> "ok", v |-> line]
Err == [k |-> "err", v |-> <<>>]

\* memchr(b'\n', src): 1-based index of the first delimiter, 0 if absent
IsDelim(b) == b = LF \/ (SplitAtCR /\ b = CR)
IndexOfDelim(s) == IF \E i \in 1..Len(s) : IsDelim(s[i])
                   THEN CHOOSE i \in 1..Len(s) : IsDelim(s[i]) /\ \A j \in 1..(i - 1) : ~IsDelim(s[j])
                   ELSE 0
RECURSIVE StripCRs(_)
StripCRs(line) == IF line # <<>> /\ line[Len(line)] = CR THEN StripCRs(SubSeq(line, 1, Len(line) - 1)) ELSE line
StripCR(line) == IF StripAllCR THEN StripCRs(line)
                 ELSE IF line # <<>> /\ line[Len(line)] = CR THEN SubSeq(line, 1, Len(line) - 1) ELSE line
\* try_into_utf8
Item(line) == IF Utf8Ok(line) THEN Ok(line) ELSE IF LossyUtf8 THEN Ok(Lossy(line)) ELSE Err

\* decode(src) -> <<result, rest of src>>      (lines.rs 33-63)
Decode(src) == IF src = <<>> THEN <<None, src>>
               ELSE LET n == IndexOfDelim(src) IN
                    IF n = 0 THEN <<None, src>>
                    ELSE <<Item(StripCR(SubSeq(src, 1, n - 1))), SubSeq(src, n + 1, Len(src))>>
\* decode_eof(src)                             (lines.rs 65-86)
DecodeEof(src) == LET d == Decode(src) IN
                  IF d[1].k # "none" /\ ~EofSkipsDecode THEN d
                  ELSE IF src = <<>> THEN <<None, src>>
                  ELSE LET cr == src[Len(src)] = CR
                           buf == IF cr THEN SubSeq(src, 1, Len(src) - 1) ELSE src
                           rest == IF cr THEN <<CR>> ELSE <<>> IN
                       IF buf = <<>> \/ DropFinal THEN <<None, rest>> ELSE <<Item(buf), rest>>
\* encode(item, dst): appended bytes           (lines.rs 16-27)
Encode(item) == item \o [i \in 1..EncodeLFs |-> LF]

\* the codec's whole-buffer decoding: decode until None, then decode_eof until None.
\* Returns <<items of the decode phase, items of the decode_eof phase>>
RECURSIVE Phase(_, _)
Phase(src, eof) == LET d == IF eof THEN DecodeEof(src) ELSE Decode(src) IN
                   IF d[1].k = "none" THEN <<<<>>, d[2]>>
                   ELSE LET r == Phase(d[2], eof) IN <<<<d[1]>> \o r[1], r[2]>>
All(src) == LET p == Phase(src, FALSE) IN <<p[1], Phase(p[2], TRUE)[1]>>
AllFlat(src) == All(src)[1] \o All(src)[2]
\* a caller that drains the buffer with decode_eof alone (the last read arrived together with the end of the stream)
EofOnly(src) == Phase(src, TRUE)[1]

\* ---- independent reference (property C15), never touched by the variants ----
RefIndexOf(s, b) == IF \E i \in 1..Len(s) : s[i] = b
                    THEN CHOOSE i \in 1..Len(s) : s[i] = b /\ \A j \in 1..(i - 1) : s[j] # b ELSE 0
RECURSIVE RefSplit(_)
RefSplit(s) == LET n == RefIndexOf(s, LF) IN
               IF n = 0 THEN <<s>> ELSE <<SubSeq(s, 1, n - 1)>> \o RefSplit(SubSeq(s, n + 1, Len(s)))
RefStrip(line) == IF line # <<>> /\ line[Len(line)] = CR THEN SubSeq(line, 1, Len(line) - 1) ELSE line
RECURSIVE RefUtf8(_)
RefUtf8(s) == \/ s = <<>>
              \/ Head(s) < 128 /\ RefUtf8(Tail(s))
              \/ Len(s) >= 2 /\ s[1] = C3 /\ s[2] = A9 /\ RefUtf8(SubSeq(s, 3, Len(s)))
RefItem(line) == IF RefUtf8(line) THEN Ok(line) ELSE Err
\* <<terminated lines, final unterminated line (0 or 1 item)>>
RefLines(s) == LET parts == RefSplit(s)
                   k == Len(parts)
                   last == RefStrip(parts[k]) IN
               << [i \in 1..(k - 1) |-> RefItem(RefStrip(parts[i]))],
                  IF last = <<>> THEN <<>> ELSE <<RefItem(last)>> >>
=============================================================================
