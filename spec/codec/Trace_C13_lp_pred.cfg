CONSTANTS
  Codec = "lp"
  Alpha = {}
  MaxLen = 0
  LpBad = 9
  LpScale = 1
  EofDecodes = TRUE
  KeepBufOnPending = TRUE
  SurfaceIoErr = TRUE
  EofFastPath = FALSE
  Strict = FALSE
SPECIFICATION TSpec
INVARIANTS C13_Frames C13_Prefix C13_ErrAfterFrames C13_TerminalLast C13_NoPanic
PROPERTIES C13_IoErrSurfaced
POSTCONDITION TraceAccepted
CHECK_DEADLOCK FALSE
