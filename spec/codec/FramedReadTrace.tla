-------------------------- MODULE FramedReadTrace --------------------------
(* Trace validation of histories recorded from the real Framed stream against FramedRead.          *)
(* reset record: {"ev":"reset","input":[bytes]};  poll record: {"ev":"poll","io":[{a,k}..] = the   *)
(* read results the transport really gave during that poll_next, "res":{k,v} the item returned,    *)
(* "pos": bytes delivered so far (measured)}.                                                      *)
(* Strict = TRUE : every record must be the spec's PollNext run with the recorded reads (hint) and *)
(*                 return the same item (binds the spec; a rejection alone is DRIFT).              *)
(* Strict = FALSE: predicate mode - the step relation is free, the observed items are installed    *)
(*                 and the C13 predicates are evaluated on what was observed (raises the alarm).   *)
EXTENDS FramedRead, IOUtils, TLCExt
CONSTANT Strict

Rec == ndJsonDeserialize(IOEnv.TRACE)
VARIABLE l
tvars == <<vars, l>>
R == Rec[l + 1]
Hint(r) == [on |-> TRUE, s |-> r.io]
Reset(r) == /\ input' = r.input /\ pos' = 0 /\ rbuf' = <<>> /\ eof' = FALSE /\ readable' = FALSE /\ cended' = FALSE
            /\ out' = <<>> /\ done' = FALSE /\ errUsed' = FALSE /\ lastPend' = FALSE /\ act' = NoAct
\* predicate mode: only what was observed is installed; polls after the end of the run are not judged
Free(r) == IF done THEN UNCHANGED vars
           ELSE /\ out' = (IF r.res.k = "pending" THEN out ELSE Append(out, r.res))
                /\ done' = (r.res.k = "none")
                /\ pos' = r.pos /\ eof' = IoHas(r.io, "eof") /\ errUsed' = (errUsed \/ IoHas(r.io, "err"))
                /\ lastPend' = (r.res.k = "pending")
                /\ act' = [op |-> "poll", io |-> r.io, res |-> r.res]
                /\ UNCHANGED <<input, rbuf, readable, cended>>
Step(r) == \/ r.ev = "reset" /\ Reset(r)
           \/ r.ev = "poll" /\ (IF Strict THEN PollNext(Hint(r)) /\ act'.res = r.res /\ pos' = r.pos ELSE Free(r))
TInit == /\ input = <<>> /\ pos = 0 /\ rbuf = <<>> /\ eof = FALSE /\ readable = FALSE /\ cended = FALSE
         /\ out = <<>> /\ done = TRUE /\ errUsed = FALSE /\ lastPend = FALSE /\ act = NoAct /\ l = 0
TNext == l < Len(Rec) /\ l' = l + 1 /\ Step(R)
TSpec == TInit /\ [][TNext]_tvars
\* predicate-mode form of C13_Progress: an observed run never panics or runs away
C13_NoPanic == act.res.k \in {"none", "ok", "tail", "end", "err", "ioerr", "pending"}
TraceAccepted ==
  LET n == TLCGet("stats").diameter - 1 IN
    /\ PrintT(<<"TRACE_MATCHED", n, Len(Rec)>>)
    /\ (n < Len(Rec) => PrintT(<<"UNMATCHED", ToJson(Rec[n + 1])>>))
    /\ n = Len(Rec)
=============================================================================
