---- MODULE FramedReadTrace_TTrace_1790433614 ----
EXTENDS Sequences, TLCExt, FramedReadTrace, Toolbox, Naturals, TLC

_expression ==
    LET FramedReadTrace_TEExpression == INSTANCE FramedReadTrace_TEExpression
    IN FramedReadTrace_TEExpression!expression
----

_trace ==
    LET FramedReadTrace_TETrace == INSTANCE FramedReadTrace_TETrace
    IN FramedReadTrace_TETrace!trace
----

_inv ==
    ~(
        TLCGet("level") = Len(_TETrace)
        /\
        lastPend = (FALSE)
        /\
        readable = (FALSE)
        /\
        input = (<<2, 9, 2, 1>>)
        /\
        act = ([io |-> <<[k |-> 0, a |-> "eof"]>>, res |-> [k |-> "none", v |-> <<>>], op |-> "poll"])
        /\
        rbuf = (<<>>)
        /\
        pos = (4)
        /\
        l = (4)
        /\
        done = (TRUE)
        /\
        eof = (TRUE)
        /\
        errUsed = (FALSE)
        /\
        out = (<<[k |-> "ok", v |-> <<9, 2>>], [k |-> "none", v |-> <<>>]>>)
    )
----

_init ==
    /\ done = _TETrace[1].done
    /\ lastPend = _TETrace[1].lastPend
    /\ readable = _TETrace[1].readable
    /\ l = _TETrace[1].l
    /\ out = _TETrace[1].out
    /\ pos = _TETrace[1].pos
    /\ input = _TETrace[1].input
    /\ errUsed = _TETrace[1].errUsed
    /\ eof = _TETrace[1].eof
    /\ act = _TETrace[1].act
    /\ rbuf = _TETrace[1].rbuf
----

_next ==
    /\ \E i,j \in DOMAIN _TETrace:
        /\ \/ /\ j = i + 1
              /\ i = TLCGet("level")
        /\ done  = _TETrace[i].done
        /\ done' = _TETrace[j].done
        /\ lastPend  = _TETrace[i].lastPend
        /\ lastPend' = _TETrace[j].lastPend
        /\ readable  = _TETrace[i].readable
        /\ readable' = _TETrace[j].readable
        /\ l  = _TETrace[i].l
        /\ l' = _TETrace[j].l
        /\ out  = _TETrace[i].out
        /\ out' = _TETrace[j].out
        /\ pos  = _TETrace[i].pos
        /\ pos' = _TETrace[j].pos
        /\ input  = _TETrace[i].input
        /\ input' = _TETrace[j].input
        /\ errUsed  = _TETrace[i].errUsed
        /\ errUsed' = _TETrace[j].errUsed
        /\ eof  = _TETrace[i].eof
        /\ eof' = _TETrace[j].eof
        /\ act  = _TETrace[i].act
        /\ act' = _TETrace[j].act
        /\ rbuf  = _TETrace[i].rbuf
        /\ rbuf' = _TETrace[j].rbuf

\* Uncomment the ASSUME below to write the states of the error trace
\* to the given file in Json format. Note that you can pass any tuple
\* to `JsonSerialize`. For example, a sub-sequence of _TETrace.
    \* ASSUME
    \*     LET J == INSTANCE Json
    \*         IN J!JsonSerialize("FramedReadTrace_TTrace_1790433614.json", _TETrace)

=============================================================================

 Note that you can extract this module `FramedReadTrace_TEExpression`
  to a dedicated file to reuse `expression` (the module in the 
  dedicated `FramedReadTrace_TEExpression.tla` file takes precedence 
  over the module `FramedReadTrace_TEExpression` below).

---- MODULE FramedReadTrace_TEExpression ----
EXTENDS Sequences, TLCExt, FramedReadTrace, Toolbox, Naturals, TLC

expression == 
    [
        \* To hide variables of the `FramedReadTrace` spec from the error trace,
        \* remove the variables below.  The trace will be written in the order
        \* of the fields of this record.
        done |-> done
        ,lastPend |-> lastPend
        ,readable |-> readable
        ,l |-> l
        ,out |-> out
        ,pos |-> pos
        ,input |-> input
        ,errUsed |-> errUsed
        ,eof |-> eof
        ,act |-> act
        ,rbuf |-> rbuf
        
        \* Put additional constant-, state-, and action-level expressions here:
        \* ,_stateNumber |-> _TEPosition
        \* ,_doneUnchanged |-> done = done'
        
        \* Format the `done` variable as Json value.
        \* ,_doneJson |->
        \*     LET J == INSTANCE Json
        \*     IN J!ToJson(done)
        
        \* Lastly, you may build expressions over arbitrary sets of states by
        \* leveraging the _TETrace operator.  For example, this is how to
        \* count the number of times a spec variable changed up to the current
        \* state in the trace.
        \* ,_doneModCount |->
        \*     LET F[s \in DOMAIN _TETrace] ==
        \*         IF s = 1 THEN 0
        \*         ELSE IF _TETrace[s].done # _TETrace[s-1].done
        \*             THEN 1 + F[s-1] ELSE F[s-1]
        \*     IN F[_TEPosition - 1]
    ]

=============================================================================



Parsing and semantic processing can take forever if the trace below is long.
 In this case, it is advised to uncomment the module below to deserialize the
 trace from a generated binary file.

\*
\*---- MODULE FramedReadTrace_TETrace ----
\*EXTENDS IOUtils, FramedReadTrace, TLC
\*
\*trace == IODeserialize("FramedReadTrace_TTrace_1790433614.bin", TRUE)
\*
\*=============================================================================
\*

---- MODULE FramedReadTrace_TETrace ----
EXTENDS FramedReadTrace, TLC

trace == 
    <<
    ([lastPend |-> FALSE,readable |-> FALSE,input |-> <<>>,act |-> [io |-> <<>>, res |-> [k |-> "none", v |-> <<>>], op |-> "init"],rbuf |-> <<>>,pos |-> 0,l |-> 0,done |-> TRUE,eof |-> FALSE,errUsed |-> FALSE,out |-> <<>>]),
    ([lastPend |-> FALSE,readable |-> FALSE,input |-> <<2, 9, 2, 1>>,act |-> [io |-> <<>>, res |-> [k |-> "none", v |-> <<>>], op |-> "init"],rbuf |-> <<>>,pos |-> 0,l |-> 1,done |-> FALSE,eof |-> FALSE,errUsed |-> FALSE,out |-> <<>>]),
    ([lastPend |-> FALSE,readable |-> FALSE,input |-> <<2, 9, 2, 1>>,act |-> [io |-> <<[k |-> 1, a |-> "data"], [k |-> 1, a |-> "data"], [k |-> 1, a |-> "data"]>>, res |-> [k |-> "ok", v |-> <<9, 2>>], op |-> "poll"],rbuf |-> <<>>,pos |-> 3,l |-> 2,done |-> FALSE,eof |-> FALSE,errUsed |-> FALSE,out |-> <<[k |-> "ok", v |-> <<9, 2>>]>>]),
    ([lastPend |-> TRUE,readable |-> FALSE,input |-> <<2, 9, 2, 1>>,act |-> [io |-> <<[k |-> 1, a |-> "data"], [k |-> 0, a |-> "pending"]>>, res |-> [k |-> "pending", v |-> <<>>], op |-> "poll"],rbuf |-> <<>>,pos |-> 4,l |-> 3,done |-> FALSE,eof |-> FALSE,errUsed |-> FALSE,out |-> <<[k |-> "ok", v |-> <<9, 2>>]>>]),
    ([lastPend |-> FALSE,readable |-> FALSE,input |-> <<2, 9, 2, 1>>,act |-> [io |-> <<[k |-> 0, a |-> "eof"]>>, res |-> [k |-> "none", v |-> <<>>], op |-> "poll"],rbuf |-> <<>>,pos |-> 4,l |-> 4,done |-> TRUE,eof |-> TRUE,errUsed |-> FALSE,out |-> <<[k |-> "ok", v |-> <<9, 2>>], [k |-> "none", v |-> <<>>]>>])
    >>
----


=============================================================================

---- CONFIG FramedReadTrace_TTrace_1790433614 ----
CONSTANTS
    Codec = "lp"
    Alpha = { }
    MaxLen = 0
    LpBad = 9
    LpScale = 1
    EofDecodes = TRUE
    KeepBufOnPending = TRUE
    SurfaceIoErr = TRUE
    Strict = FALSE

INVARIANT
    _inv

CHECK_DEADLOCK
    \* CHECK_DEADLOCK off because of PROPERTY or INVARIANT above.
    FALSE

INIT
    _init

NEXT
    _next

CONSTANT
    _TETrace <- _trace

ALIAS
    _expression
=============================================================================
\* Generated on Sat Sep 26 14:40:17 UTC 2026