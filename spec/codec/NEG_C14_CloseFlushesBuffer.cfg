CONSTANTS
  HW = 8192
  Sizes = {1, 1024, 8191, 8193}
  MaxItems = 2
  MaxDepth = 4
  MaxWrites = 2
  PartialMode = 1
  CloseFlushesBuffer = FALSE
  ReadyThresholdLe = FALSE
  FlushIgnoresLeftover = FALSE
  ZeroIsOk = FALSE
  AdvanceWholeBuffer = FALSE
SPECIFICATION Spec
VIEW View
INVARIANTS C14_PrefixOrder 
PROPERTIES C14_FlushMeansEmpty C14_CloseMeansEmptyAndShutdown C14_Backpressure C14_WriteZero C14_ErrSurfaced

CHECK_DEADLOCK FALSE
