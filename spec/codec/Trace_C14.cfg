CONSTANTS
  HW = 8192
  Sizes = {}
  MaxItems = 100000000
  MaxDepth = 0
  MaxWrites = 0
  PartialMode = 1
  CloseFlushesBuffer = TRUE
  ReadyThresholdLe = FALSE
  FlushIgnoresLeftover = FALSE
  ZeroIsOk = FALSE
  AdvanceWholeBuffer = FALSE
SPECIFICATION TSpec
INVARIANTS C14_PrefixOrder
PROPERTIES C14_FlushMeansEmpty C14_CloseMeansEmptyAndShutdown C14_Backpressure C14_WriteZero C14_ErrSurfaced
POSTCONDITION TraceAccepted
CHECK_DEADLOCK FALSE
