CONSTANTS
  N = 4
  RtLen = 2
  RtTuple = 2
  Emit = FALSE
  StripAllCR = FALSE
  SplitAtCR = TRUE
  DropFinal = FALSE
  LossyUtf8 = FALSE
  EncodeLFs = 1
  EofSkipsDecode = FALSE
SPECIFICATION Spec
CHECK_DEADLOCK FALSE
