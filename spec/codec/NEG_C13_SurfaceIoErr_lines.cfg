CONSTANTS
  Codec = "lines"
  Alpha = {97, 13, 10}
  MaxLen = 3
  LpBad = 9
  LpScale = 1
  EofDecodes = TRUE
  KeepBufOnPending = TRUE
  SurfaceIoErr = FALSE
  EofFastPath = FALSE
SPECIFICATION Spec
VIEW View
INVARIANTS C13_Frames C13_Prefix C13_TerminalLast C13_Progress 
PROPERTIES C13_IoErrSurfaced

CHECK_DEADLOCK FALSE
