----------------------------- MODULE LinesTrace -----------------------------
(* Validation of outputs recorded from the real LinesCodec against the LinesCodec operators:      *)
(* record {"ev":"vec","in":bytes,"dec":items of repeated decode,"eof":items of repeated decode_eof,   *)
(* "eofonly": items of repeated decode_eof on a fresh codec and the whole input}                   *)
(* must equal All(in) and the reference RefLines(in); record {"ev":"rt","items","enc","dec"} must  *)
(* equal the encoding / whole-buffer decoding of the spec.  One record per step.                   *)
EXTENDS LinesCodec, TLC, Json, IOUtils

Rec == ndJsonDeserialize(IOEnv.TRACE)
VARIABLE l
RECURSIVE EncAll(_)
EncAll(t) == IF t = <<>> THEN <<>> ELSE Encode(t[1]) \o EncAll(Tail(t))
RecOK(r) == \/ r.ev = "reset"
            \/ r.ev = "vec" /\ <<r.dec, r.eof>> = All(r.in) /\ <<r.dec, r.eof>> = RefLines(r.in)
                          /\ r.eofonly = EofOnly(r.in) /\ r.eofonly = r.dec \o r.eof
            \/ r.ev = "rt" /\ r.enc = EncAll(r.items) /\ r.dec = AllFlat(r.enc)
TInit == l = 0
TNext == l < Len(Rec) /\ RecOK(Rec[l + 1]) /\ l' = l + 1
TSpec == TInit /\ [][TNext]_l
TraceAccepted ==
  LET n == TLCGet("stats").diameter - 1 IN
    /\ PrintT(<<"TRACE_MATCHED", n, Len(Rec)>>)
    /\ (n < Len(Rec) => PrintT(<<"UNMATCHED", ToJson(Rec[n + 1])>>))
    /\ n = Len(Rec)
=============================================================================
