---------------------------- MODULE FramedWrite ----------------------------
(* Write half of actix_codec::Framed (actix-codec/src/framed.rs: write 161-174, flush 237-267,     *)
(* close 270-280, Sink impl 303-321) - property C14.  Counters instead of contents:                *)
(*   wbuf      write_buf.len()                                                                     *)
(*   accepted  bytes appended by start_send so far                                                 *)
(*   taken     bytes the transport accepted so far (poll_write returned Ok(k))                     *)
(*   nflush / nshut   successful transport poll_flush / poll_shutdown calls                        *)
(* One action per Sink operation.  One operation makes several transport calls; the action chooses *)
(* the transport's answers as a script `io` (sequence of [c, a, k]: call kind "w"/"f"/"s", answer, *)
(* byte count) that the operation consumes entirely; `act` carries op, size, io and the result.    *)
(* A hint h = [on, s] restricts the script to a recorded one (used by the trace spec).             *)
EXTENDS Naturals, Sequences, FiniteSets, TLC, Json

CONSTANTS HW,              \* high-water mark (8192)
          Sizes,           \* item sizes offered to start_send
          MaxItems, MaxDepth, MaxWrites,   \* bounds: start_sends, operations, poll_write calls per operation
          PartialMode,     \* which partial takes the design run enumerates: 1 = {1, w-1}; 2 = {1, 1024, w \div 2, w-1}
          CloseFlushesBuffer,   \* design TRUE: close runs the write-buffer flush loop before shutdown
          ReadyThresholdLe,     \* design FALSE: poll_ready is ready iff wbuf < HW      (TRUE: wbuf <= HW)
          FlushIgnoresLeftover, \* design FALSE: a Pending write ends flush with Pending (TRUE: goes on to flush the io, reports Ok)
          ZeroIsOk,             \* design FALSE: poll_write -> Ok(0) is a WriteZero error (TRUE: flush reports Ok)
          AdvanceWholeBuffer    \* design FALSE: the buffer advances by the n the transport took (TRUE: by everything)

VARIABLES wbuf, accepted, taken, nflush, nshut, nitems, depth, act
vars == <<wbuf, accepted, taken, nflush, nshut, nitems, depth, act>>
View == <<wbuf, accepted, taken, nitems, depth>>

NoAct == [op |-> "init", n |-> 0, io |-> <<>>, res |-> "", held |-> 0, empty |-> TRUE, full |-> FALSE]
NoHint == [on |-> FALSE, s |-> <<>>]
Bounded == MaxDepth = 0 \/ depth < MaxDepth

W(a, k) == [c |-> "w", a |-> a, k |-> k]
F(a) == [c |-> "f", a |-> a, k |-> 0]
S(a) == [c |-> "s", a |-> a, k |-> 0]

Partials(w) == IF PartialMode = 1 THEN {1, w - 1} ELSE {1, 1024, w \div 2, w - 1}
\* answers the transport may give to the i-th call (over all calls of this operation) when offered w bytes
WriteAns(w, i, h) ==
  IF h.on THEN (IF i <= Len(h.s) /\ h.s[i].c = "w" /\ (h.s[i].a = "take" => h.s[i].k \in 1..w) THEN {h.s[i]} ELSE {})
  ELSE {W("take", w), W("pending", 0), W("zero", 0), W("err", 0)}
       \cup (IF i < MaxWrites THEN {W("take", k) : k \in {x \in Partials(w) : x >= 1 /\ x < w}} ELSE {})
CtlAns(kind, i, h) ==
  IF h.on THEN (IF i <= Len(h.s) /\ h.s[i].c = kind THEN {h.s[i]} ELSE {})
  ELSE {[c |-> kind, a |-> a, k |-> 0] : a \in {"ok", "pending", "err"}}

\* outcome of (part of) an operation: buffer, bytes taken, flush/shutdown successes, result, script consumed
Out(w, tk, fl, sh, res, io) == [w |-> w, tk |-> tk, fl |-> fl, sh |-> sh, res |-> res, io |-> io]
Pre(a, o) == [o EXCEPT !.io = <<a>> \o o.io]
AddTk(k, o) == [o EXCEPT !.tk = o.tk + k]

\* "ready!(this.io.poll_flush(cx))?" at the end of flush (263-266)
IoFlushOuts(w, i, h) ==
  {LET a == x IN
     IF a.a = "ok" THEN Out(w, 0, 1, 0, "ok", <<a>>)
     ELSE IF a.a = "pending" THEN Out(w, 0, 0, 0, "pending", <<a>>)
     ELSE Out(w, 0, 0, 0, "ioerr", <<a>>) : x \in CtlAns("f", i, h)}

\* flush (237-267): while !write_buf.is_empty() { n = ready!(poll_write)?; n == 0 => WriteZero; advance(n) }
RECURSIVE FlushOuts(_, _, _)
FlushOuts(w, i, h) ==
  IF w = 0 THEN IoFlushOuts(w, i, h)
  ELSE UNION {LET a == x IN
     IF a.a = "take" THEN {Pre(a, AddTk(a.k, o)) : o \in FlushOuts(IF AdvanceWholeBuffer THEN 0 ELSE w - a.k, i + 1, h)}
     ELSE IF a.a = "pending" THEN
            (IF FlushIgnoresLeftover THEN {Pre(a, o) : o \in IoFlushOuts(w, i + 1, h)}
             ELSE {Out(w, 0, 0, 0, "pending", <<a>>)})
     ELSE IF a.a = "zero" THEN {Out(w, 0, 0, 0, IF ZeroIsOk THEN "ok" ELSE "writezero", <<a>>)}
     ELSE {Out(w, 0, 0, 0, "ioerr", <<a>>)} : x \in WriteAns(w, i, h)}

\* "ready!(this.io.poll_shutdown(cx))?" (278-279)
ShutOuts(o, h) ==
  {LET a == x IN
     IF a.a = "ok" THEN [o EXCEPT !.sh = 1, !.res = "ok", !.io = o.io \o <<a>>]
     ELSE IF a.a = "pending" THEN [o EXCEPT !.res = "pending", !.io = o.io \o <<a>>]
     ELSE [o EXCEPT !.res = "ioerr", !.io = o.io \o <<a>>] : x \in CtlAns("s", Len(o.io) + 1, h)}
\* close (270-280): flush first, then shutdown
CloseOuts(w, h) ==
  LET first == IF CloseFlushesBuffer THEN FlushOuts(w, 1, h) ELSE IoFlushOuts(w, 1, h) IN
    UNION {IF o.res = "ok" THEN ShutOuts(o, h) ELSE {o} : o \in first}

Apply(op, n, o) ==
  /\ wbuf' = o.w /\ taken' = taken + o.tk /\ nflush' = nflush + o.fl /\ nshut' = nshut + o.sh
  /\ act' = [op |-> op, n |-> n, io |-> o.io, res |-> o.res, held |-> taken + o.tk,
             empty |-> (o.w = 0), full |-> (o.w >= HW)]
  /\ depth' = depth + 1

Init == /\ wbuf = 0 /\ accepted = 0 /\ taken = 0 /\ nflush = 0 /\ nshut = 0 /\ nitems = 0 /\ depth = 0
        /\ act = NoAct

IsReady(w) == IF ReadyThresholdLe THEN w <= HW ELSE w < HW
\* Sink::poll_ready (303-309)
PollReady(h) == /\ Bounded
                /\ \E o \in (IF IsReady(wbuf) THEN {Out(wbuf, 0, 0, 0, "ok", <<>>)} ELSE FlushOuts(wbuf, 1, h)) :
                     /\ (h.on => o.io = h.s) /\ Apply("ready", 0, o)
                /\ UNCHANGED <<accepted, nitems>>
\* Sink::start_send = write (161-174): encode appends n bytes, never fails for the codecs used
StartSend(n) == /\ Bounded /\ nitems < MaxItems
                /\ wbuf' = wbuf + n /\ accepted' = accepted + n /\ nitems' = nitems + 1
                /\ act' = [op |-> "send", n |-> n, io |-> <<>>, res |-> "ok", held |-> taken,
                           empty |-> (wbuf + n = 0), full |-> (wbuf + n >= HW)]
                /\ depth' = depth + 1 /\ UNCHANGED <<taken, nflush, nshut>>
PollFlush(h) == /\ Bounded
                /\ \E o \in FlushOuts(wbuf, 1, h) : (h.on => o.io = h.s) /\ Apply("flush", 0, o)
                /\ UNCHANGED <<accepted, nitems>>
PollClose(h) == /\ Bounded
                /\ \E o \in CloseOuts(wbuf, h) : (h.on => o.io = h.s) /\ Apply("close", 0, o)
                /\ UNCHANGED <<accepted, nitems>>

Next == PollReady(NoHint) \/ PollFlush(NoHint) \/ PollClose(NoHint) \/ \E n \in Sizes : StartSend(n)
Spec == Init /\ [][Next]_vars

(* ---------------- property predicates (C14) ---------------- *)
IoHas(io, c, a) == \E i \in 1..Len(io) : io[i].c = c /\ io[i].a = a
\* lossless + ordered, in counters: what the transport holds plus what is buffered is what was accepted
\* (the driver checks that the held bytes are byte-identical to that prefix of the accepted concatenation)
C14_PrefixOrder == taken + wbuf = accepted /\ act.held = taken
C14_FlushMeansEmptyStep == (act'.op = "flush" /\ act'.res = "ok") => (wbuf' = 0 /\ taken' = accepted' /\ IoHas(act'.io, "f", "ok"))
C14_CloseMeansEmptyAndShutdownStep ==
   (act'.op = "close" /\ act'.res = "ok") => (wbuf' = 0 /\ taken' = accepted' /\ IoHas(act'.io, "s", "ok"))
\* back-pressure: ready without I/O iff fewer than HW bytes were buffered before the call; otherwise success means flushed
C14_BackpressureStep == (act'.op = "ready") => (/\ ((act'.io = <<>>) <=> (wbuf < HW))
                                                /\ ((wbuf >= HW /\ act'.res = "ok") => (wbuf' = 0))
                                                /\ ((wbuf < HW) => (act'.res = "ok")))
C14_WriteZeroStep == IoHas(act'.io, "w", "zero") => act'.res = "writezero"
C14_ErrSurfacedStep == (IoHas(act'.io, "w", "err") \/ IoHas(act'.io, "f", "err") \/ IoHas(act'.io, "s", "err")) => act'.res = "ioerr"
C14_FlushMeansEmpty == [][C14_FlushMeansEmptyStep]_vars
C14_CloseMeansEmptyAndShutdown == [][C14_CloseMeansEmptyAndShutdownStep]_vars
C14_Backpressure == [][C14_BackpressureStep]_vars
C14_WriteZero == [][C14_WriteZeroStep]_vars
C14_ErrSurfaced == [][C14_ErrSurfacedStep]_vars

LogEdge == PrintT(<<"EDGE", ToJson([from |-> View, act |-> act', to |-> View'])>>)
LogInit == TLCGet("level") > 1 \/ PrintT(<<"INIT", ToJson([from |-> View])>>)
=============================================================================
