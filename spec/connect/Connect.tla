------------------------------ MODULE Connect ------------------------------
(* Property C19 - actix_tls::connect: resolution precedence, ordered fallback, hostname-verified TLS. *)
(*                                                                                                    *)
(* Two layers.                                                                                        *)
(*  (1) The PROPERTY, stated declaratively over an input vector `inp` and an observation `o` of one    *)
(*      service call:  C19_Holds(inp, o).  It never mentions how the connector works.                  *)
(*  (2) A MACHINE that mirrors the mechanism (ResolverService::call decision chain, TcpConnectorFut    *)
(*      popping addresses from the front, the TLS connectors deriving the verified name from the       *)
(*      request) with variant constants that switch one mechanism to a plausible wrong design.         *)
(* TLC runs the machine from every input vector of the configured families, checks at every final      *)
(* state that the machine's observation satisfies the property (NEG configs: must fail) and prints the *)
(* vector with the expected observation.  ConnectTrace.tla evaluates the same C19_Holds on              *)
(* observations recorded from the real services.                                                       *)
EXTENDS Naturals, Sequences, FiniteSets, TLC, Json

CONSTANTS
  MaxAddrs,       \* longest address list (quantifier: 0..4)
  V4Flavours,     \* statuses of an IPv4 list entry: subset of {"up","ref","unr"}
  V6MaxAddrs,     \* longest list that may contain IPv6 entries ("up6","ref6"); 0 = no IPv6
  Families,       \* subset of {"tcp","resolver","connector","tls"}
  Emit,           \* TRUE: print one VEC line per final state
  \* ---- variants (design value FALSE)
  ResolveEvenIfPreset,      \* resolver consulted although the request carries addresses
  IpLiteralGoesToResolver,  \* IP-literal host handed to the resolver
  IpLiteralLosesPort,       \* IP literal dialled at port 0 instead of the request's port
  EmptyIsOk,                \* empty resolver answer accepted as "resolved"
  DialStopsAtFirstFailure,  \* no fallback to the next address
  DialReturnsFirstError,    \* all fail: first I/O error reported instead of the last
  DialContactsAll,          \* keeps contacting later addresses after a success
  TlsSkipsNameCheck,        \* certificate chain verified, name not
  TlsFixedName              \* handshake for a fixed name instead of the request's hostname

\* ---------------------------------------------------------------------------------------------------
\* vocabulary
\* ---------------------------------------------------------------------------------------------------
\* An address is a record [fl, pos]: `fl` says what lives there, `pos` distinguishes addresses of one kind.
\*   up / up6   live loopback listener (127.0.0.1 / ::1)      ref / ref6  closed port (connection refused)
\*   tls        the in-process TLS server (svc = "tls")
\*   unr        address that fails with a different I/O error (network unreachable)
\*   pu4 / pu6  the "port slot" pu: a live listener reachable as 127.0.0.1:PU and [::1]:PU
\*   pd4 / pd6  the port slot pd: closed on both loopbacks      zero4 / zero6: port 0 (always fails)
Addr(fl, pos) == [fl |-> fl, pos |-> pos]
IsUp(a) == a.fl \in {"up", "up6", "pu4", "pu6", "tls"}
Entries(l) == [i \in 1..Len(l) |-> Addr(l[i], i)]          \* list of flavours -> list of addresses
PortSlots == {"none", "pu", "pd"}
Lit4(p) == Addr(p \o "4", 0)                               \* 127.0.0.1 at port slot p (pu, pd, zero)
Lit6(p) == Addr(p \o "6", 0)
Range(f) == {f[i] : i \in 1..Len(f)}
Last(f) == f[Len(f)]
Min(S) == CHOOSE x \in S : \A y \in S : x <= y

\* ---- TLS vocabulary: the server certificate's subjectAltName entries and candidate request names
SanDns == {<<"good", "verif", "test">>, <<"*", "wild", "verif", "test">>}
SanIps == {"127.0.0.1"}
\* id, syntactically valid?, IP literal?, case-folded labels (DNS) or text (IP)
Names == {
  [id |-> "good",        valid |-> TRUE,  ip |-> FALSE, labels |-> <<"good", "verif", "test">>,          text |-> "good.verif.test"],
  [id |-> "upper",       valid |-> TRUE,  ip |-> FALSE, labels |-> <<"good", "verif", "test">>,          text |-> "GOOD.Verif.test"],
  [id |-> "wild1",       valid |-> TRUE,  ip |-> FALSE, labels |-> <<"a", "wild", "verif", "test">>,     text |-> "a.wild.verif.test"],
  [id |-> "wildparent",  valid |-> TRUE,  ip |-> FALSE, labels |-> <<"wild", "verif", "test">>,          text |-> "wild.verif.test"],
  [id |-> "wild2",       valid |-> TRUE,  ip |-> FALSE, labels |-> <<"a", "b", "wild", "verif", "test">>, text |-> "a.b.wild.verif.test"],
  [id |-> "other",       valid |-> TRUE,  ip |-> FALSE, labels |-> <<"other", "verif", "test">>,         text |-> "other.verif.test"],
  [id |-> "suffix",      valid |-> TRUE,  ip |-> FALSE, labels |-> <<"verif", "test">>,                  text |-> "verif.test"],
  [id |-> "ipgood",      valid |-> TRUE,  ip |-> TRUE,  labels |-> <<>>,                                 text |-> "127.0.0.1"],
  [id |-> "ipother",     valid |-> TRUE,  ip |-> TRUE,  labels |-> <<>>,                                 text |-> "127.0.0.2"],
  [id |-> "space",       valid |-> FALSE, ip |-> FALSE, labels |-> <<>>,                                 text |-> "exa mple.com"],
  [id |-> "emptylabel",  valid |-> FALSE, ip |-> FALSE, labels |-> <<>>,                                 text |-> "good..verif.test"],
  [id |-> "toolong",     valid |-> FALSE, ip |-> FALSE, labels |-> <<>>,                                 text |-> "<a. repeated: 300 characters>"],
  [id |-> "empty",       valid |-> FALSE, ip |-> FALSE, labels |-> <<>>,                                 text |-> ""] }
NoName == [id |-> "none", valid |-> FALSE, ip |-> FALSE, labels |-> <<>>, text |-> ""]
\* RFC 6125 6.4: exact (case-insensitive) match, or a wildcard as the complete left-most label matching
\* exactly one label
LabelsMatch(ref, pat) == Len(ref) = Len(pat) /\ \A i \in 1..Len(pat) : pat[i] = ref[i] \/ (i = 1 /\ pat[i] = "*")
CertCovers(n) == IF n.ip THEN n.text \in SanIps ELSE \E p \in SanDns : LabelsMatch(n.labels, p)

\* ---------------------------------------------------------------------------------------------------
\* input vectors
\* ---------------------------------------------------------------------------------------------------
\* svc      which service is called: "tcp" TcpConnectorService, "resolver" ResolverService,
\*          "connector" ConnectorService, "tls" ConnectorService then a TLS connector service
\* hostKind "name" (verif.test: not an IP), "ip" (127.0.0.1), "localhost";  hostPort: ":<port>" suffix of the
\*          host string;  setPort: ConnectInfo::set_port;  via/preset: how addresses were pre-set
\* resolver custom resolver outcome "ok" (returns rlist) / "empty" / "err", or "default" (getaddrinfo)
\* bind     set_local_addr(127.0.0.2)
Base == [svc |-> "tcp", hostKind |-> "name", hostPort |-> "none", setPort |-> "none", via |-> "new",
         preset |-> <<>>, resolver |-> "err", rlist |-> <<>>, bind |-> FALSE,
         lib |-> "none", name |-> NoName, trusted |-> TRUE]

Lists(A, lo, hi) == UNION {IF n = 0 THEN {<<>>} ELSE [1..n -> A] : n \in lo..hi}
V4Lists(lo) == Lists(V4Flavours, lo, MaxAddrs)
V6Lists(lo) == {l \in Lists({"up", "ref", "up6", "ref6"}, lo, V6MaxAddrs) : \E i \in 1..Len(l) : l[i] \in {"up6", "ref6"}}
ViaFor(l) == IF Len(l) = 0 THEN {"new", "set_addr", "set_addrs"}
             ELSE IF Len(l) = 1 THEN {"with_addr", "set_addr", "set_addrs"} ELSE {"set_addrs"}

TcpInputs ==
  UNION {{[Base EXCEPT !.svc = "tcp", !.preset = l, !.via = v, !.bind = b] : v \in ViaFor(l), b \in BOOLEAN} : l \in V4Lists(0)}
  \cup UNION {{[Base EXCEPT !.svc = "tcp", !.preset = l, !.via = v] : v \in ViaFor(l)} : l \in V6Lists(1)}

\* the resolver service alone never touches the network: address flavours are only identities here
ResolverPresets == {<<>>, <<"up">>, <<"ref">>, <<"up", "ref">>} \cup {[i \in 1..MaxAddrs |-> "up"]}
ResolverAnswers == {<<"up">>, <<"ref", "up">>} \cup {[i \in 1..MaxAddrs |-> "ref"]}
ResolverInputs ==
  UNION {{[Base EXCEPT !.svc = "resolver", !.preset = l, !.via = v, !.hostKind = hk, !.hostPort = hp, !.setPort = sp,
                !.resolver = rk[1], !.rlist = rk[2]] :
     v \in ViaFor(l), hk \in {"name", "ip"}, hp \in PortSlots, sp \in PortSlots,
     rk \in ({<<"ok", a>> : a \in ResolverAnswers} \cup {<<"empty", <<>>>>, <<"err", <<>>>>})} : l \in ResolverPresets}

ConnectorInputs ==
  \* (a) pre-set addresses (with_addr / set_addr / set_addrs) win over an IP-literal host whose own
  \*     literal:port is a different address (live, closed or port 0) and over any resolver
  UNION {{[Base EXCEPT !.svc = "connector", !.preset = l, !.via = v, !.hostKind = hk[1], !.hostPort = hk[2],
                !.resolver = rk[1], !.rlist = rk[2]] :
     v \in ViaFor(l), hk \in {<<"name", "none">>, <<"ip", "pu">>, <<"ip", "pd">>, <<"ip", "none">>},
     rk \in {<<"ok", <<"up">>>>, <<"err", <<>>>>}} : l \in Lists(V4Flavours \cap {"up", "ref"}, 1, MaxAddrs)}
  \* (b) IP literal: dialled directly at the request's port
  \cup {[Base EXCEPT !.svc = "connector", !.hostKind = "ip", !.hostPort = hp, !.setPort = sp, !.bind = b,
                     !.resolver = rk[1], !.rlist = rk[2]] :
     hp \in PortSlots, sp \in PortSlots, b \in BOOLEAN, rk \in {<<"ok", <<"up">>>>, <<"err", <<>>>>}}
  \* (c) any other host: the configured resolver's answer is dialled in order
  \cup {[Base EXCEPT !.svc = "connector", !.hostPort = hp, !.bind = b, !.resolver = "ok", !.rlist = l] :
     l \in V4Lists(1), hp \in {"none", "pd"}, b \in BOOLEAN}
  \cup {[Base EXCEPT !.svc = "connector", !.resolver = "ok", !.rlist = l] : l \in V6Lists(1)}
  \* (d) empty answer / failing resolver
  \cup {[Base EXCEPT !.svc = "connector", !.hostPort = hp, !.setPort = sp, !.resolver = rk] :
     hp \in PortSlots, sp \in PortSlots, rk \in {"empty", "err"}}
  \* (e) the default resolver, exercised for "localhost" only
  \cup {[Base EXCEPT !.svc = "connector", !.hostKind = "localhost", !.hostPort = hp, !.setPort = sp, !.resolver = "default"] :
     hp \in PortSlots, sp \in PortSlots}
  \* (f) ... and for a name it cannot resolve (no-such-host.invalid): the failure is a Resolver error
  \cup {[Base EXCEPT !.svc = "connector", !.hostKind = "nxdomain", !.hostPort = hp, !.resolver = "default"] : hp \in {"none", "pu"}}

TlsInputs ==
  {[Base EXCEPT !.svc = "tls", !.lib = lb, !.name = n, !.trusted = t, !.hostPort = hp, !.via = "set_addr",
                !.hostKind = "tlsname", !.preset = <<"tls">>] :
     lb \in {"rustls", "openssl"}, n \in Names, t \in BOOLEAN, hp \in {"none", "pu"}}

Inputs == (IF "tcp" \in Families THEN TcpInputs ELSE {})
          \cup (IF "resolver" \in Families THEN ResolverInputs ELSE {})
          \cup (IF "connector" \in Families THEN ConnectorInputs ELSE {})
          \cup (IF "tls" \in Families THEN TlsInputs ELSE {})

\* ---- "the request's port" (info.rs / host.rs): the port in the host string, else set_port, else 0.
\* When the host string carries a port AND set_port was called the property does not say which one is the
\* request's port (the code lets the host string win, the set_port doc comment reads the other way): the
\* property then allows either, but the whole call must use the one ConnectInfo::port() reports (o.rport).
PortChoices(inp) == IF inp.hostPort # "none" /\ inp.setPort # "none" THEN {inp.hostPort, inp.setPort}
                    ELSE IF inp.hostPort # "none" THEN {inp.hostPort}
                    ELSE IF inp.setPort # "none" THEN {inp.setPort} ELSE {"zero"}
HasPreset(inp) == inp.preset # <<>>

\* ---------------------------------------------------------------------------------------------------
\* the property
\* ---------------------------------------------------------------------------------------------------
\* observation of one call:
\*   res "ok" | "err";  variant "" | "Io" | "Resolver" | "NoRecords" | "Unresolved" | "Tls"
\*   errfls   for Io errors: the address flavours whose connect error equals the reported error
\*   peer     address the returned stream is connected to (Addr or NoAddr)
\*   accepted set of live addresses that saw an incoming connection during the call
\*   rcalls   calls of the custom resolver: sequence of [host, port]
\*   addrs    svc = "resolver": the addresses of the returned ConnectInfo
\*   rport    the request's port as reported by ConnectInfo::port() (slot name)
NoAddr == Addr("none", 0)

\* list the TCP stage must dial, by the precedence rules; "none" when it is not determined by inp alone
DialList(inp, rp) ==
  IF inp.svc = "tcp" \/ HasPreset(inp) THEN Entries(inp.preset)
  ELSE IF inp.hostKind = "ip" THEN <<Lit4(rp)>>
  ELSE IF inp.resolver = "ok" THEN Entries(inp.rlist)
  ELSE <<>>
ResolverConsulted(inp) == inp.svc # "tcp" /\ ~HasPreset(inp) /\ inp.hostKind # "ip"

C19_Resolution(inp, o) ==
  /\ inp.svc # "tls" => o.rport \in PortChoices(inp)
  \* never re-resolved / IP literal direct / otherwise exactly one lookup of (hostname, request port)
  /\ (inp.resolver # "default") =>
        o.rcalls = (IF ResolverConsulted(inp) THEN <<[host |-> inp.hostKind, port |-> o.rport]>> ELSE <<>>)
  /\ (ResolverConsulted(inp) /\ inp.resolver = "empty") => (o.res = "err" /\ o.variant = "NoRecords" /\ o.accepted = {})
  /\ (ResolverConsulted(inp) /\ inp.resolver = "err") => (o.res = "err" /\ o.variant = "Resolver" /\ o.accepted = {})
  /\ (inp.svc = "tcp" /\ ~HasPreset(inp)) => (o.res = "err" /\ o.variant = "Unresolved" /\ o.accepted = {})
  /\ (inp.svc = "resolver" /\ ~(ResolverConsulted(inp) /\ inp.resolver \in {"empty", "err"})) =>
        (o.res = "ok" /\ o.addrs = DialList(inp, o.rport) /\ o.accepted = {})

C19_Fallback(inp, o) ==
  LET dl == DialList(inp, o.rport)
      ups == {i \in 1..Len(dl) : IsUp(dl[i])} IN
  (inp.svc \in {"tcp", "connector"} /\ dl # <<>>) =>
     IF ups # {}
     THEN o.res = "ok" /\ o.peer = dl[Min(ups)] /\ o.accepted = {dl[Min(ups)]}
     ELSE o.res = "err" /\ o.variant = "Io" /\ Last(dl).fl \in o.errfls /\ o.accepted = {}

\* default resolver ("localhost"): the answer is the environment's; whatever loopback addresses it
\* returns carry the request's port
C19_Localhost(inp, o) ==
  (inp.svc = "connector" /\ ~HasPreset(inp) /\ inp.resolver = "default" /\ inp.hostKind = "localhost") =>
     LET p == o.rport IN
       IF p = "pu" THEN o.res = "ok" /\ o.peer \in {Lit4(p), Lit6(p)} /\ o.accepted = {o.peer}
       ELSE o.res = "err" /\ o.variant = "Io" /\ o.accepted = {}

\* default resolver, a name that does not resolve: "failure: Resolver", nothing is dialled
C19_DefaultFails(inp, o) ==
  (inp.svc = "connector" /\ ~HasPreset(inp) /\ inp.resolver = "default" /\ inp.hostKind = "nxdomain") =>
     o.res = "err" /\ o.variant = "Resolver" /\ o.accepted = {}

C19_Tls(inp, o) ==
  inp.svc = "tls" =>
     \* the TCP stage went to the pre-set address of the TLS server and nowhere else
     /\ o.peer = Addr("tls", 1) /\ o.accepted = {Addr("tls", 1)}
     /\ IF inp.name.valid /\ CertCovers(inp.name) /\ inp.trusted
        THEN o.res = "ok" /\ o.echo = "intact"
        ELSE o.res = "err"

C19_Holds(inp, o) == C19_Resolution(inp, o) /\ C19_Fallback(inp, o) /\ C19_Localhost(inp, o) /\ C19_DefaultFails(inp, o) /\ C19_Tls(inp, o)

\* ---------------------------------------------------------------------------------------------------
\* the machine
\* ---------------------------------------------------------------------------------------------------
VARIABLES inp,        \* the input vector (fixed)
          rport,      \* the request's port (fixed; one of PortChoices(inp))
          pc,         \* "resolve" | "dial" | "tls" | "done"
          resolved,   \* the request carries addresses (ConnectAddrs is not None)
          addrs,      \* addresses still to be dialled
          dlist,      \* ghost: the list handed to the TCP stage
          contacted,  \* addresses contacted so far, in order
          rcalls,     \* custom resolver calls
          out,        \* [res, variant, errfl, peer]
          act
vars == <<inp, rport, pc, resolved, addrs, dlist, contacted, rcalls, out, act>>
View == <<inp, rport, pc, resolved, addrs, contacted, rcalls, out>>
Pending == [res |-> "pending", variant |-> "", errfl |-> "", peer |-> NoAddr]
Ok(a) == [res |-> "ok", variant |-> "", errfl |-> "", peer |-> a]
Err(v, fl) == [res |-> "err", variant |-> v, errfl |-> fl, peer |-> NoAddr]

Init == /\ inp \in Inputs
        /\ rport \in PortChoices(inp)
        /\ pc = (IF inp.svc = "tcp" THEN "dial" ELSE "resolve")
        /\ resolved = (inp.svc = "tcp" /\ HasPreset(inp))
        /\ addrs = (IF inp.svc = "tcp" THEN Entries(inp.preset) ELSE <<>>)
        /\ dlist = (IF inp.svc = "tcp" THEN Entries(inp.preset) ELSE <<>>)
        /\ contacted = <<>> /\ rcalls = <<>> /\ out = Pending
        /\ act = [op |-> "init"]

AfterResolve == IF inp.svc = "resolver" THEN "done" ELSE "dial"
Handed(l) == /\ addrs' = l /\ dlist' = l /\ resolved' = (l # <<>>)
             /\ pc' = AfterResolve
             /\ out' = (IF inp.svc = "resolver" THEN Ok(NoAddr) ELSE out)

\* ResolverService::call (resolver.rs:98-140)
Resolve ==
  /\ pc = "resolve"
  /\ UNCHANGED <<inp, rport, contacted>>
  /\ IF HasPreset(inp) /\ ~ResolveEvenIfPreset
     THEN Handed(Entries(inp.preset)) /\ UNCHANGED rcalls /\ act' = [op |-> "resolved_already"]
     ELSE IF inp.hostKind = "ip" /\ ~IpLiteralGoesToResolver
     THEN /\ Handed(<<Lit4(IF IpLiteralLosesPort THEN "zero" ELSE rport)>>)
          /\ UNCHANGED rcalls /\ act' = [op |-> "ip_literal"]
     ELSE /\ act' = [op |-> "lookup"]
          /\ rcalls' = (IF inp.resolver = "default" THEN rcalls
                        ELSE Append(rcalls, [host |-> inp.hostKind, port |-> rport]))
          /\ CASE inp.resolver = "ok" -> Handed(Entries(inp.rlist))
               [] inp.resolver = "empty" ->
                    (IF EmptyIsOk THEN Handed(<<>>)
                     ELSE out' = Err("NoRecords", "") /\ pc' = "done" /\ UNCHANGED <<addrs, dlist, resolved>>)
               [] inp.resolver = "err" ->
                    (out' = Err("Resolver", "") /\ pc' = "done" /\ UNCHANGED <<addrs, dlist, resolved>>)
               [] inp.resolver = "default" /\ inp.hostKind = "nxdomain" ->
                    (out' = Err("Resolver", "") /\ pc' = "done" /\ UNCHANGED <<addrs, dlist, resolved>>)
               [] inp.resolver = "default" ->
                    (\E l \in {<<Lit4(rport)>>, <<Lit6(rport), Lit4(rport)>>,
                               <<Lit4(rport), Lit6(rport)>>, <<Lit6(rport)>>} : Handed(l))

\* TcpConnectorFut (tcp.rs:78-175): one action per connect attempt
Dial ==
  /\ pc = "dial"
  /\ UNCHANGED <<inp, rport, rcalls, dlist, resolved>>
  /\ IF ~resolved /\ contacted = <<>>
     THEN out' = Err("Unresolved", "") /\ pc' = "done" /\ UNCHANGED <<addrs, contacted>> /\ act' = [op |-> "unresolved"]
     ELSE IF addrs = <<>>
     THEN /\ out' = (IF out.res = "ok" THEN out
                     ELSE Err("Io", IF DialReturnsFirstError THEN contacted[1].fl ELSE Last(contacted).fl))
          /\ pc' = (IF inp.svc = "tls" /\ out.res = "ok" THEN "tls" ELSE "done")
          /\ UNCHANGED <<addrs, contacted>> /\ act' = [op |-> "exhausted"]
     ELSE LET a == Head(addrs) IN
          /\ contacted' = Append(contacted, a)
          /\ act' = [op |-> "connect", a |-> a]
          /\ IF IsUp(a)
             THEN /\ out' = (IF out.res = "ok" THEN out ELSE Ok(a))
                  /\ IF DialContactsAll THEN addrs' = Tail(addrs) /\ pc' = pc
                     ELSE addrs' = <<>> /\ pc' = (IF inp.svc = "tls" THEN "tls" ELSE "done")
             ELSE /\ out' = out /\ pc' = pc
                  /\ addrs' = (IF DialStopsAtFirstFailure THEN <<>> ELSE Tail(addrs))

\* TLS connector services (rustls_0_23.rs:104-119, openssl.rs:96-118): the name that is verified is the
\* request's hostname (host string without port)
Tls ==
  /\ pc = "tls"
  /\ UNCHANGED <<inp, rport, rcalls, dlist, resolved, addrs, contacted>>
  /\ LET n == IF TlsFixedName THEN (CHOOSE m \in Names : m.id = "good") ELSE inp.name
         ok == n.valid /\ inp.trusted /\ (TlsSkipsNameCheck \/ CertCovers(n)) IN
       out' = (IF ok THEN out ELSE [out EXCEPT !.res = "err", !.variant = "Tls"])
  /\ pc' = "done" /\ act' = [op |-> "handshake"]

Next == Resolve \/ Dial \/ Tls
Spec == Init /\ [][Next]_vars

\* the machine's observation of a finished call
MachineObs ==
  [res |-> out.res, variant |-> out.variant, errfls |-> {out.errfl}, peer |-> out.peer,
   accepted |-> {a \in Range(contacted) : IsUp(a)}, rcalls |-> rcalls,
   addrs |-> (IF inp.svc = "resolver" /\ out.res = "ok" THEN dlist ELSE <<>>),
   rport |-> rport, echo |-> (IF inp.svc = "tls" /\ out.res = "ok" THEN "intact" ELSE "")]

\* ---- invariants: the machine satisfies the property (each clause separately, for NEG diagnostics)
Done == pc = "done"
C19_ResolutionPrecedence == Done => C19_Resolution(inp, MachineObs)
C19_OrderedFallback == Done => C19_Fallback(inp, MachineObs)
C19_DefaultResolver == Done => (C19_Localhost(inp, MachineObs) /\ C19_DefaultFails(inp, MachineObs))
C19_TlsHostnameVerified == Done => C19_Tls(inp, MachineObs)
\* no later address is contacted after a success; every address before the winner was contacted
C19_ContactedIsPrefix ==
  (Done /\ inp.svc # "resolver" /\ inp.resolver # "default") =>
     /\ \E k \in 0..Len(dlist) : contacted = SubSeq(dlist, 1, k)
     /\ out.res = "ok" => Last(contacted) = out.peer /\ \A i \in 1..(Len(contacted) - 1) : ~IsUp(contacted[i])
     /\ (out.res = "err" /\ out.variant = "Io") => contacted = dlist

EmitVec ==
  (Done /\ Emit) =>
    PrintT(<<"VEC", ToJson([inp |-> inp,
                            exp |-> [res |-> out.res, variant |-> out.variant, errfl |-> out.errfl, peer |-> out.peer,
                                     rcalls |-> rcalls, dial |-> dlist, ncontacted |-> Len(contacted),
                                     rport |-> rport,
                                     echo |-> (IF inp.svc = "tls" /\ out.res = "ok" THEN "intact" ELSE "")]])>>)
=============================================================================
