\* address lists 0..4 over live / refused / unreachable, IPv6 entries in lists up to 3, all four families
CONSTANTS
  MaxAddrs = 4
  V4Flavours = {"up", "ref", "unr"}
  V6MaxAddrs = 3
  Families = {"tcp", "resolver", "connector", "tls"}
  Emit = TRUE
  ResolveEvenIfPreset = FALSE
  IpLiteralGoesToResolver = FALSE
  IpLiteralLosesPort = FALSE
  EmptyIsOk = FALSE
  DialStopsAtFirstFailure = FALSE
  DialReturnsFirstError = FALSE
  DialContactsAll = FALSE
  TlsSkipsNameCheck = FALSE
  TlsFixedName = FALSE
SPECIFICATION Spec
VIEW View
INVARIANTS C19_ResolutionPrecedence C19_OrderedFallback C19_DefaultResolver C19_TlsHostnameVerified C19_ContactedIsPrefix EmitVec
CHECK_DEADLOCK FALSE
