---------------------------- MODULE ConnectTrace ----------------------------
(* Predicate-mode check of observations recorded on the real actix_tls::connect services (C19).      *)
(* Each "call" record carries the input vector and the observation of one real service call in the    *)
(* vocabulary of Connect.tla; the property C19_Holds (the same predicate the machine is checked        *)
(* against) is evaluated by TLC on every recorded call.                                                *)
EXTENDS Connect, IOUtils, TLCExt
Rec == ndJsonDeserialize(IOEnv.TRACE)
VARIABLES l, obs
tvars == <<vars, l, obs>>
R == Rec[l + 1]
NoObs == [ev |-> "reset"]
AnyInp == Base
TInit == /\ l = 0 /\ obs = NoObs /\ inp = AnyInp /\ rport = "zero" /\ pc = "observed" /\ resolved = FALSE /\ addrs = <<>>
         /\ dlist = <<>> /\ contacted = <<>> /\ rcalls = <<>> /\ out = Pending /\ act = [op |-> "init"]
TNext == /\ l < Len(Rec) /\ l' = l + 1
         /\ obs' = R
         /\ inp' = (IF R.ev = "call" THEN R.inp ELSE AnyInp)
         /\ UNCHANGED <<rport, pc, resolved, addrs, dlist, contacted, rcalls, out, act>>
TSpec == TInit /\ [][TNext]_tvars
\* JSON arrays that stand for sets
O == [obs.obs EXCEPT !.accepted = Range(@), !.errfls = Range(@)]
IsCall == obs.ev = "call"
C19_ObsResolution == IsCall => C19_Resolution(inp, O)
C19_ObsFallback == IsCall => C19_Fallback(inp, O)
C19_ObsLocalhost == IsCall => (C19_Localhost(inp, O) /\ C19_DefaultFails(inp, O))
C19_ObsTls == IsCall => C19_Tls(inp, O)
TraceAccepted ==
  LET n == TLCGet("stats").diameter - 1 IN
    /\ PrintT(<<"TRACE_MATCHED", n, Len(Rec)>>)
    /\ (n < Len(Rec) => PrintT(<<"UNMATCHED", ToJson(Rec[n + 1])>>))
    /\ n = Len(Rec)
=============================================================================
