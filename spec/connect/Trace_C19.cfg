CONSTANTS
  MaxAddrs = 0
  V4Flavours = {}
  V6MaxAddrs = 0
  Families = {}
  Emit = FALSE
  ResolveEvenIfPreset = FALSE
  IpLiteralGoesToResolver = FALSE
  IpLiteralLosesPort = FALSE
  EmptyIsOk = FALSE
  DialStopsAtFirstFailure = FALSE
  DialReturnsFirstError = FALSE
  DialContactsAll = FALSE
  TlsSkipsNameCheck = FALSE
  TlsFixedName = FALSE
SPECIFICATION TSpec
INVARIANTS C19_ObsResolution C19_ObsFallback C19_ObsLocalhost C19_ObsTls
POSTCONDITION TraceAccepted
CHECK_DEADLOCK FALSE
