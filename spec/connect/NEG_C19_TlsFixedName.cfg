\* NEG: handshake for a fixed name -- TLC must report a C19 invariant violated
CONSTANTS
  MaxAddrs = 4
  V4Flavours = {"up", "ref", "unr"}
  V6MaxAddrs = 3
  Families = {"tcp", "resolver", "connector", "tls"}
  Emit = FALSE
  ResolveEvenIfPreset = FALSE
  IpLiteralGoesToResolver = FALSE
  IpLiteralLosesPort = FALSE
  EmptyIsOk = FALSE
  DialStopsAtFirstFailure = FALSE
  DialReturnsFirstError = FALSE
  DialContactsAll = FALSE
  TlsSkipsNameCheck = FALSE
  TlsFixedName = TRUE
SPECIFICATION Spec
VIEW View
INVARIANTS C19_ResolutionPrecedence C19_OrderedFallback C19_DefaultResolver C19_TlsHostnameVerified C19_ContactedIsPrefix
CHECK_DEADLOCK FALSE
