CONSTANTS
  K = 2
  MaxConns = 2
  MaxNonReady = 1
  MaxCreatePend = 0
  MaxTicks = 0
  MaxStops = 0
  Timeout = 2
  ReadyCheckOnce = TRUE
  RestartAll = FALSE
  DrainCalls = FALSE
  GracefulRepliesEarly = FALSE
  IgnoreTimeout = FALSE
  ForcedWaits = FALSE
  LifoQueue = FALSE
  DrainOnlyAtStop = FALSE
  ErrKeepsPolling = FALSE
  MaxPerPoll = 0
  Rewake = FALSE
SPECIFICATION Spec
VIEW View
INVARIANTS C07_Fifo C07_AllAccounted C07_QueuedMeansOwed C01_DrainReleases
PROPERTIES Steps
CHECK_DEADLOCK FALSE
