--------------------------- MODULE Availability ---------------------------
(* actix-server availability.rs: 512 availability bits kept in four 128-bit words (second half of   *)
(* property C04: every worker index up to 512 is tracked independently of all others).              *)
(* Abstract state `bits` (set of available indices) next to the code's representation `words`       *)
(* (word number -> set of bit positions) with the code's offset arithmetic transcribed; the          *)
(* refinement between the two is an invariant, the injectivity of the offset function an ASSUME      *)
(* over all 512^2 pairs.                                                                              *)
EXTENDS Naturals, Sequences, FiniteSets, TLC, Json

CONSTANTS N,           \* 512
          WordBits,    \* 128
          Probe,       \* the indices exercised by the state machine (boundaries of every word)
          MaxDepth,
          SharedWord   \* NEG (design FALSE): indices of the last two words share one word

Words == 0..((N \div WordBits) - 1)
\* transcription of Availability::offset (a chain of range tests)
Offset(i) == IF i < WordBits THEN <<0, i>>
             ELSE IF i < WordBits * 2 THEN <<1, i - WordBits>>
             ELSE IF i < WordBits * 3 THEN <<2, i - WordBits * 2>>
             ELSE IF i < WordBits * 4 THEN <<(IF SharedWord THEN 2 ELSE 3), i - WordBits * 3>>
             ELSE <<99, 0>>      \* the code panics ("Max WorkerHandle count is 512")

VARIABLES bits, words, depth, act
vars == <<bits, words, depth, act>>
View == <<bits, words>>


Init == bits = {} /\ words = [w \in Words |-> {}] /\ depth = 0
        /\ act = [op |-> "init", i |-> 0, b |-> FALSE, after |-> {}, any |-> FALSE]

Set(i, b) ==
  /\ depth < MaxDepth /\ depth' = depth + 1
  /\ bits' = (IF b THEN bits \cup {i} ELSE bits \ {i})
  /\ LET o == Offset(i) IN
       words' = [words EXCEPT ![o[1]] = IF b THEN @ \cup {o[2]} ELSE @ \ {o[2]}]
  /\ act' = [op |-> "set", i |-> i, b |-> b, after |-> bits', any |-> bits' # {}]

Next == \E i \in Probe, b \in BOOLEAN : Set(i, b)
Spec == Init /\ [][Next]_vars

Get(i) == LET o == Offset(i) IN o[2] \in words[o[1]]
AnyWord == \E w \in Words : words[w] # {}

\* the representation refines the abstract set: each index is tracked independently of all others
C04_BitsIndependent == \A i \in Probe : Get(i) <=> (i \in bits)
C04_AnyIffSome == AnyWord <=> (bits # {})

\* all 512 indices: in range, and no two indices share a (word, bit) pair
ASSUME C04_OffsetInRange == \A i \in 0..(N - 1) : Offset(i)[1] \in Words /\ Offset(i)[2] \in 0..(WordBits - 1)
ASSUME C04_OffsetInjective == \A i \in 0..(N - 1) : \A j \in 0..(N - 1) : i # j => Offset(i) # Offset(j)
\* the offset table, for the comparison with the real Availability::offset
ASSUME PrintT(<<"VEC", ToJson([table |-> [i \in 1..N |-> Offset(i - 1)]])>>)

LogEdge == PrintT(<<"EDGE", ToJson([from |-> View, act |-> act', to |-> View'])>>)
LogInit == TLCGet("level") > 1 \/ PrintT(<<"INIT", ToJson([from |-> View])>>)
=============================================================================
