CONSTANTS
  W = 3
  MaxFaults = 5
  ByPosition = FALSE
SPECIFICATION Spec
INVARIANTS H_AllLiveOnce C06_EveryWorkerHearsStop
CHECK_DEADLOCK FALSE
