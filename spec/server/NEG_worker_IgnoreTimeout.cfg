CONSTANTS
  K = 1
  MaxConns = 1
  MaxNonReady = 0
  MaxCreatePend = 0
  MaxTicks = 4
  MaxStops = 1
  Timeout = 2
  ReadyCheckOnce = FALSE
  RestartAll = FALSE
  DrainCalls = FALSE
  GracefulRepliesEarly = FALSE
  IgnoreTimeout = TRUE
  ForcedWaits = FALSE
  LifoQueue = FALSE
  DrainOnlyAtStop = FALSE
  ErrKeepsPolling = FALSE
  MaxPerPoll = 0
  Rewake = FALSE
SPECIFICATION FairSpec
PROPERTIES C06w_StopAnswered
CHECK_DEADLOCK FALSE
