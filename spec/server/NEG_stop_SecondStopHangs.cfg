CONSTANTS
  NW = 1
  MaxLive = 1
  MaxStops = 2
  Timeout = 2
  MaxBlocks = 0
  ForcedAwaitsWorkers = FALSE
  GracefulSkipsAwait = FALSE
  CompleteBeforeJoin = FALSE
  TermIsForced = FALSE
  SecondStopHangs = TRUE
  AwaitsLastWorkerOnly = FALSE
  WakeAcceptFirst = FALSE
  MidPollIgnoresStop = FALSE
SPECIFICATION FairSpec
PROPERTIES C06_AlwaysCompletes
CHECK_DEADLOCK FALSE
