--------------------------- MODULE Builder ---------------------------
(* ServerBuilder -> Accept -> ServerWorker wiring of several listeners (C01: "its listener's service"; C07: "rebuilds   *)
(* only it"; C08: "replaced").  builder.rs allocates one TOKEN per bound socket and pushes one factory record and one    *)
(* socket record per token; accept.rs registers socket p under the mio token sockets[p].token, and on a readiness event   *)
(* for token t accepts from `sockets[t]` (POSITION t) and stamps the connection with t; worker.rs builds `services` from   *)
(* the factories in order (asserting that the tokens are dense: token = position), indexes it with the connection's token  *)
(* and rebuilds a failed service from `factories[factory_idx]`.  The whole chain is right only because token = position    *)
(* in all three vectors - which is what this module states and what the variants break.                                   *)
(* One behaviour = one builder call sequence (bind with 1..MaxAddrs resolved addresses, some of them already in use;       *)
(* listen; listen_uds) followed by `run` and a few events (a client on socket p; a readiness failure of a service of call  *)
(* c; the death of the worker).  Every complete behaviour is printed as a vector and executed on the real ServerBuilder.   *)
EXTENDS Naturals, Sequences, FiniteSets, TLC, Json

CONSTANTS MaxCalls, MaxAddrs, MaxEvents, MaxSockets, MaxWorkers,
          TokenPerCall,       \* NEG (design FALSE): `bind` allocates ONE token and one factory per call (not per socket)
          TokenForFailed,     \* NEG (design FALSE): a token is consumed for every RESOLVED address, also those whose bind failed
          UdsKeepsToken,      \* NEG (design FALSE): listen_uds reads the counter without advancing it
          ServeWhilePending,  \* NEG (design FALSE): a worker calls the ready services although another one is pending
          StopServesQueued    \* NEG (design FALSE): connections queued at a worker are served (not released) when the server stops

VARIABLES phase,      \* "build" | "failed" (a bind call returned Err) | "running" | "panicked" | "stopped"
          calls,      \* the builder calls so far: [kind, addrs (Seq of BOOLEAN: TRUE = the address can be bound)]
          tok,        \* ServerBuilder.token
          factories,  \* Seq of [tok, call]
          sockets,    \* Seq of [tok, call]
          nw,         \* number of workers (chosen at run)
          svc,        \* a worker's services vector: Seq of [call, fidx] (the same in every worker)
          made,       \* call -> service instances built by that call's factory so far (all workers)
          failNext,   \* call whose next readiness check fails (0 = none)
          pend,       \* calls whose services currently answer Pending to the readiness check (application back-pressure)
          waiting,    \* sockets of the clients that connected while some service was pending (in arrival order)
          dead,       \* number of workers that have died unnoticed by the accept thread (it notices when a send to one fails)
          events,     \* events so far: [k |-> "conn", s, by] | [k |-> "fail", c] | [k |-> "die"] | [k |-> "die2"]
          done
vars == <<phase, calls, tok, factories, sockets, nw, svc, made, failNext, pend, waiting, dead, events, done>>

Init == /\ phase = "build" /\ calls = <<>> /\ tok = 0 /\ factories = <<>> /\ sockets = <<>> /\ nw = 0 /\ svc = <<>>
        /\ made = [c \in 1..MaxCalls |-> 0] /\ failNext = 0 /\ pend = {} /\ waiting = <<>> /\ dead = 0 /\ events = <<>> /\ done = FALSE

AddrLists == UNION {[1..n -> BOOLEAN] : n \in 1..MaxAddrs}
Oks(a) == {j \in 1..Len(a) : a[j]}
RECURSIVE SeqOf(_, _)
\* k copies of r
SeqOf(r, k) == IF k = 0 THEN <<>> ELSE Append(SeqOf(r, k - 1), r)
\* records for the bound addresses of a bind call: tokens t0, t0+1, .. (design) / t0 for all (TokenPerCall) /
\* t0 + (position among the resolved addresses) (TokenForFailed)
RECURSIVE BindRecs(_, _, _, _)
BindRecs(a, j, t, c) ==
  IF j > Len(a) THEN <<>>
  ELSE IF a[j] THEN <<[tok |-> t, call |-> c]>> \o BindRecs(a, j + 1, IF TokenPerCall THEN t ELSE t + 1, c)
       ELSE BindRecs(a, j + 1, IF TokenForFailed /\ ~TokenPerCall THEN t + 1 ELSE t, c)

Bind(a) ==
  /\ phase = "build" /\ Len(calls) < MaxCalls /\ Len(sockets) + Cardinality(Oks(a)) <= MaxSockets
  /\ LET c == Len(calls) + 1
         recs == BindRecs(a, 1, tok, c) IN
       /\ calls' = Append(calls, [kind |-> "bind", addrs |-> a])
       /\ IF Oks(a) = {} THEN /\ phase' = "failed" /\ done' = TRUE      \* `bind` returns Err: the builder is gone
                               /\ UNCHANGED <<tok, factories, sockets>>
          ELSE /\ sockets' = sockets \o recs
               /\ factories' = (IF TokenPerCall THEN Append(factories, [tok |-> tok, call |-> c]) ELSE factories \o recs)
               /\ tok' = (IF TokenPerCall THEN tok + 1
                          ELSE IF TokenForFailed THEN tok + Len(a) ELSE tok + Cardinality(Oks(a)))
               /\ UNCHANGED <<phase, done>>
  /\ UNCHANGED <<nw, svc, made, failNext, pend, waiting, dead, events>>

Listen(kind) ==
  /\ phase = "build" /\ Len(calls) < MaxCalls /\ Len(sockets) < MaxSockets
  /\ LET c == Len(calls) + 1
         r == [tok |-> tok, call |-> c] IN
       /\ calls' = Append(calls, [kind |-> kind, addrs |-> <<TRUE>>])
       /\ sockets' = Append(sockets, r) /\ factories' = Append(factories, r)
       /\ tok' = (IF kind = "uds" /\ UdsKeepsToken THEN tok ELSE tok + 1)
  /\ UNCHANGED <<phase, nw, svc, made, failNext, pend, waiting, dead, events, done>>

\* ServerWorker::start -> wrap_worker_services: the factories are created in order; `assert_eq!(token, services.len())`
Dense == \A i \in 1..Len(factories) : factories[i].tok = i - 1
Build == [i \in 1..Len(factories) |-> [call |-> factories[i].call, fidx |-> i]]
MadeBy(m, w) == [c \in 1..MaxCalls |-> m[c] + w * Cardinality({i \in 1..Len(factories) : factories[i].call = c})]
Run(w) ==
  /\ phase = "build" /\ sockets # <<>> /\ nw' = w
  /\ IF Dense THEN phase' = "running" /\ svc' = Build /\ made' = MadeBy(made, w) /\ done' = done
              ELSE phase' = "panicked" /\ done' = TRUE /\ UNCHANGED <<svc, made>>
  /\ UNCHANGED <<calls, tok, factories, sockets, failNext, pend, waiting, dead, events>>

\* a pending readiness failure is consumed by the first readiness pass (= before the next connection is served): the
\* failed service, and only it, is rebuilt from factories[its factory_idx]
AfterFail(s) ==
  IF failNext = 0 \/ ~\E i \in 1..Len(s) : s[i].call = failNext THEN s
  ELSE LET i == CHOOSE i \in 1..Len(s) : s[i].call = failNext /\ \A j \in 1..Len(s) : s[j].call = failNext => i <= j
       IN [s EXCEPT ![i] = [call |-> factories[s[i].fidx].call, fidx |-> s[i].fidx]]
MadeAfterFail == IF failNext = 0 \/ ~\E i \in 1..Len(svc) : svc[i].call = failNext THEN made
                 ELSE [made EXCEPT ![failNext] = @ + 1]

\* a client connects to socket p: mio reports sockets[p].tok = t; accept() reads from sockets[t] (position t, 0-based)
\* and the worker calls services[t]
\* `by`: the call whose factory built the service that answers (0 = nobody answers).  `disc`: this dispatch is the one that
\* finds the dead worker (the send fails): the server starts a replacement (one new instance per socket) and the connection
\* is re-routed to a live worker - or dropped when none is left (C08).  With two workers the rotation decides whether a
\* dispatch meets the dead one, so `disc` is free; with a single worker it is forced.
Lost(disc) == disc /\ (nw = 1 \/ dead = 2)
\* a worker calls a service only when EVERY service of the worker is ready: while some call's services are pending a
\* dispatched connection waits in the worker's queue (C07)
Waits == pend # {}
ModelBy(p, disc) == LET t == sockets[p].tok IN
                      IF t + 1 > Len(sockets) \/ t + 1 > Len(svc) \/ t + 1 # p \/ Lost(disc) \/ (Waits /\ ~ServeWhilePending) THEN 0
                      ELSE AfterFail(svc)[t + 1].call
ConnObs(p, by, disc) ==
  /\ phase = "running" /\ ~done /\ Len(events) < MaxEvents /\ p \in 1..Len(sockets)
  /\ (disc => dead >= 1) /\ ((dead = 1 /\ nw = 1) \/ dead = 2 => disc)
  /\ events' = Append(events, [k |-> "conn", s |-> p, by |-> by, lost |-> Lost(disc), wait |-> Waits /\ ~Lost(disc)])
  /\ LET t == sockets[p].tok IN
       IF t + 1 > Len(sockets) \/ t + 1 > Len(svc)
         THEN /\ phase' = "panicked" /\ done' = TRUE            \* index out of bounds in the accept thread / worker
              /\ UNCHANGED <<svc, made, failNext, dead, waiting>>
       ELSE IF t + 1 # p
         THEN UNCHANGED <<phase, svc, made, failNext, dead, done, waiting>>     \* accept() on another socket: WouldBlock; the client is stranded
       ELSE IF Waits
         THEN /\ waiting' = (IF Lost(disc) THEN waiting ELSE Append(waiting, p))
              /\ made' = (IF disc THEN MadeBy(made, dead) ELSE made)
              /\ dead' = (IF disc THEN 0 ELSE dead)
              /\ UNCHANGED <<phase, svc, failNext, done>>
       ELSE /\ svc' = AfterFail(svc) /\ failNext' = 0
            /\ made' = (IF disc THEN MadeBy(MadeAfterFail, dead) ELSE MadeAfterFail)
            /\ dead' = (IF disc THEN 0 ELSE dead)
            /\ UNCHANGED <<phase, done, waiting>>
  /\ UNCHANGED <<calls, tok, factories, sockets, nw, pend>>
Conn(p) == \E disc \in BOOLEAN : ConnObs(p, ModelBy(p, disc), disc)

FailReady(c) ==
  /\ phase = "running" /\ ~done /\ Len(events) < MaxEvents - 1 /\ failNext = 0 /\ dead = 0 /\ pend = {} /\ c \in 1..Len(calls)
  /\ \E i \in 1..Len(svc) : svc[i].call = c
  /\ failNext' = c /\ events' = Append(events, [k |-> "fail", c |-> c])
  /\ UNCHANGED <<phase, calls, tok, factories, sockets, nw, svc, made, pend, waiting, dead, done>>

\* a worker dies (a service call panics).  Nothing else happens until a dispatch finds out (ConnObs with disc):
\* handle_cmd(WorkerFaulted) then builds a new worker from clone_factory() of every factory
Die ==
  /\ phase = "running" /\ ~done /\ Len(events) < MaxEvents - 1 /\ failNext = 0 /\ dead = 0 /\ pend = {}
  /\ ~\E k \in 1..Len(events) : events[k].k \in {"die", "die2"}
  /\ dead' = 1 /\ events' = Append(events, [k |-> "die"])
  /\ UNCHANGED <<phase, calls, tok, factories, sockets, nw, svc, made, failNext, pend, waiting, done>>
\* both workers die before anything is dispatched again: the next connection fails at the first, is re-routed, fails at
\* the second and is dropped (no handle is left); BOTH faults are reported and the server starts a replacement for each
DieBoth ==
  /\ phase = "running" /\ ~done /\ Len(events) < MaxEvents - 1 /\ failNext = 0 /\ dead = 0 /\ pend = {} /\ nw = 2
  /\ ~\E k \in 1..Len(events) : events[k].k \in {"die", "die2"}
  /\ dead' = 2 /\ events' = Append(events, [k |-> "die2"])
  /\ UNCHANGED <<phase, calls, tok, factories, sockets, nw, svc, made, failNext, pend, waiting, done>>

\* the services of call c start / stop answering Pending.  When the last pending call becomes ready again the workers
\* serve what has been waiting, in arrival order, each by its own listener's service
Pend(c) ==
  /\ phase = "running" /\ ~done /\ Len(events) < MaxEvents - 2 /\ failNext = 0 /\ dead = 0 /\ c \in 1..Len(calls) \ pend
  /\ \E i \in 1..Len(svc) : svc[i].call = c
  /\ pend' = pend \cup {c} /\ events' = Append(events, [k |-> "pend", c |-> c])
  /\ UNCHANGED <<phase, calls, tok, factories, sockets, nw, svc, made, failNext, waiting, dead, done>>
ModelLate == [k \in 1..Len(waiting) |-> svc[sockets[waiting[k]].tok + 1].call]
\* `bys`: what the waiting clients are answered with (the model's value is ModelLate)
UnpendObs(c, bys) ==
  /\ phase = "running" /\ ~done /\ c \in pend
  /\ pend' = pend \ {c}
  /\ IF pend' = {}
       THEN /\ Len(bys) = Len(waiting)
            /\ events' = Append(events, [k |-> "unpend", c |-> c]) \o
                           [k \in 1..Len(waiting) |-> [k |-> "late", s |-> waiting[k], by |-> bys[k]]]
            /\ waiting' = <<>>
       ELSE /\ events' = Append(events, [k |-> "unpend", c |-> c]) /\ UNCHANGED waiting
  /\ UNCHANGED <<phase, calls, tok, factories, sockets, nw, svc, made, failNext, dead, done>>
Unpend(c) == UnpendObs(c, ModelLate)

\* the server is stopped while clients wait in the workers' queues: every queued connection is released (closed), none is
\* served, whether the stop is graceful or forced.  `released` / `served`: what the waiting clients saw (model: all / none)
StopObs(released, served) ==
  /\ phase = "running" /\ ~done /\ failNext = 0 /\ dead = 0 /\ pend # {}
  /\ phase' = "stopped" /\ done' = TRUE /\ waiting' = <<>>
  /\ events' = Append(events, [k |-> "stop", nwait |-> Len(waiting), released |-> released, served |-> served])
  /\ UNCHANGED <<calls, tok, factories, sockets, nw, svc, made, failNext, pend, dead>>
Stop == Len(events) < MaxEvents /\ (IF StopServesQueued THEN StopObs(0, Len(waiting)) ELSE StopObs(Len(waiting), 0))

Finish == /\ phase = "running" /\ ~done /\ failNext = 0 /\ pend = {} /\ events # <<>> /\ done' = TRUE
          /\ UNCHANGED <<phase, calls, tok, factories, sockets, nw, svc, made, failNext, pend, waiting, dead, events>>

Next == (\E a \in AddrLists : Bind(a)) \/ Listen("listen") \/ Listen("uds") \/ (\E w \in 1..MaxWorkers : Run(w))
        \/ (\E p \in 1..MaxSockets : Conn(p)) \/ (\E c \in 1..MaxCalls : FailReady(c) \/ Pend(c) \/ Unpend(c)) \/ Die \/ DieBoth \/ Stop \/ Finish
Spec == Init /\ [][Next]_vars

(* ---- properties ---- *)
\* token = position in all three vectors
B_TokensArePositions ==
  /\ \A i \in 1..Len(sockets) : sockets[i].tok = i - 1
  /\ \A i \in 1..Len(factories) : factories[i].tok = i - 1
  /\ Len(sockets) = Len(factories)
  /\ phase \in {"build", "failed"} => tok = Len(sockets)
\* C01: every client is served, by a service built by the factory given in the SAME builder call as its socket
\* (C08: except the one whose dispatch finds the only worker dead - it is dropped)
C01_OwnListenersService ==
  \A k \in 1..Len(events) : (events[k].k = "conn" /\ ~events[k].wait) =>
       events[k].by = (IF events[k].lost THEN 0 ELSE sockets[events[k].s].call)
\* C07: while a service of the worker is pending nothing is called: a client that connects then gets no answer yet
C07_NoCallWhilePending ==
  \A k \in 1..Len(events) : (events[k].k = "conn" /\ events[k].wait) => events[k].by = 0
\* C07: nothing is called while a service of the worker is pending, and what waited is served - by its own listener's
\* service - once every service is ready again
C07_WaitsThenServed ==
  \A k \in 1..Len(events) : events[k].k = "late" => events[k].by = sockets[events[k].s].call
\* C01: connections still queued at a worker when the server stops are released, not served and not leaked
C01_QueuedReleasedAtStop ==
  \A k \in 1..Len(events) : events[k].k = "stop" => (events[k].released = events[k].nwait /\ events[k].served = 0)
\* the worker starts and nothing panics
B_NoPanic == phase # "panicked"
\* C07 / C08: a failed service is rebuilt from its own factory (the tag survives) and only it (one more instance)
B_SvcOwner == phase = "running" => \A i \in 1..Len(svc) : svc[i].call = sockets[i].call

\* one line per complete behaviour (quick tier: sampled by the check script)
\* one line per builder call sequence (the layouts the conformance driver executes on the real ServerBuilder)
EmitLayout == (phase # "build" /\ events = <<>> /\ nw <= 1) =>
                 PrintT(<<"LAYOUT", ToJson([calls |-> calls, phase |-> phase, nsockets |-> Len(sockets)])>>)
=============================================================================
