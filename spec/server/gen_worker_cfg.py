#!/usr/bin/env python3
import os
HERE = os.path.dirname(os.path.abspath(__file__))
VARS = ["ReadyCheckOnce", "RestartAll", "DrainCalls", "GracefulRepliesEarly", "IgnoreTimeout", "ForcedWaits", "LifoQueue", "DrainOnlyAtStop", "ErrKeepsPolling"]
INVS = "C07_Fifo C07_AllAccounted C07_QueuedMeansOwed C01_DrainReleases"


def cfg(name, K, conns, nr, cp, ticks, stops, timeout, flip=None, edges=False, spec="Spec", props="Steps", invs=INVS, per_poll=0, rewake=False):
    lines = ["CONSTANTS", "  K = %d" % K, "  MaxConns = %d" % conns, "  MaxNonReady = %d" % nr, "  MaxCreatePend = %d" % cp,
             "  MaxTicks = %d" % ticks, "  MaxStops = %d" % stops, "  Timeout = %d" % timeout]
    lines += ["  %s = %s" % (v, "TRUE" if v in (flip or []) else "FALSE") for v in VARS]
    lines += ["  MaxPerPoll = %d" % per_poll, "  Rewake = %s" % ("TRUE" if rewake else "FALSE")]
    lines += ["SPECIFICATION " + spec]
    if spec == "Spec":
        lines += ["VIEW View"]
    if invs:
        lines += ["INVARIANTS " + invs + (" LogInit" if edges else "")]
    if props:
        lines += ["PROPERTIES " + props]
    if edges:
        lines += ["ACTION_CONSTRAINT LogEdge"]
    lines += ["CHECK_DEADLOCK FALSE"]
    open(os.path.join(HERE, name + ".cfg"), "w").write("\n".join(lines) + "\n")


cfg("MC_worker_ready", 2, 2, 2, 1, 0, 0, 2, edges=True)          # C07: readiness scripts, no stop
cfg("MC_worker_ready3", 3, 3, 2, 1, 0, 0, 2)
cfg("MC_worker_ready_k1", 1, 3, 3, 2, 0, 0, 2, edges=True)
cfg("MC_worker_stop", 1, 2, 0, 0, 4, 1, 2, edges=True)            # C06w: stop, ticks, completions
cfg("MC_worker_stop2", 2, 3, 1, 0, 5, 2, 2)
cfg("MC_worker_stop_t3", 1, 3, 0, 0, 6, 1, 3)
cfg("LIVE_worker_stop", 1, 2, 0, 0, 4, 1, 2, spec="FairSpec", props="C06w_StopAnswered", invs="")
cfg("NEG_worker_ReadyCheckOnce", 2, 2, 1, 0, 0, 0, 2, flip=["ReadyCheckOnce"])
cfg("NEG_worker_RestartAll", 2, 1, 1, 0, 0, 0, 2, flip=["RestartAll"])
cfg("NEG_worker_LifoQueue", 1, 2, 0, 0, 0, 0, 2, flip=["LifoQueue"])
cfg("NEG_worker_DrainCalls", 1, 2, 0, 0, 4, 1, 2, flip=["DrainCalls"])
cfg("NEG_worker_GracefulRepliesEarly", 1, 1, 0, 0, 4, 1, 2, flip=["GracefulRepliesEarly"])
cfg("NEG_worker_IgnoreTimeout", 1, 1, 0, 0, 4, 1, 2, flip=["IgnoreTimeout"], spec="FairSpec", props="C06w_StopAnswered", invs="")
cfg("NEG_worker_ForcedWaits", 1, 1, 0, 0, 4, 1, 2, flip=["ForcedWaits"])
cfg("NEG_worker_DrainOnlyAtStop", 1, 2, 0, 0, 4, 1, 2, flip=["DrainOnlyAtStop"])
cfg("NEG_worker_ErrKeepsPolling", 2, 1, 2, 0, 0, 0, 2, flip=["ErrKeepsPolling"])
# a bounded batch per poll: without re-arming the wake-up the worker parks on a non-empty queue (NEG); with it the
# refactoring is harmless (must hold)
cfg("NEG_worker_BatchNoRewake", 1, 3, 0, 0, 0, 0, 2, per_poll=1, rewake=False, invs="C07_QueuedMeansOwed", props="")
cfg("MC_worker_batch_rewake", 1, 3, 1, 0, 0, 0, 2, per_poll=1, rewake=True)
print("worker configs written")
