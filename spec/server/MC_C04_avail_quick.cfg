CONSTANTS
  N = 512
  WordBits = 128
  Probe = {0, 127, 128, 255, 256, 383, 384, 511}
  MaxDepth = 1000000
  SharedWord = FALSE
SPECIFICATION Spec
VIEW View
INVARIANTS C04_BitsIndependent C04_AnyIffSome LogInit
CHECK_DEADLOCK FALSE
ACTION_CONSTRAINT LogEdge
