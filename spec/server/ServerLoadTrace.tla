------------------------ MODULE ServerLoadTrace ------------------------
(* Predicate-mode check of end-to-end "load" runs of a REAL actix_server::Server built through the public  *)
(* ServerBuilder (real ServerWorker::start, accept thread, worker threads, TCP and UDS sockets).  These runs  *)
(* cover the wiring the stepped engine bypasses (builder -> worker limit, token/factory plumbing of several    *)
(* listeners, worker restart by the server).  Each record is one observed event with cumulative state; the     *)
(* predicates are the observable, per-worker-thread counterparts of AcceptDispatch.tla's C01/C02/C03/C04/C05/  *)
(* C08 predicates.  Real-time waits are generous (seconds) and a rejection is re-run before it is believed.     *)
EXTENDS Integers, Sequences, FiniteSets, TLC, Json, IOUtils, TLCExt
Rec == ndJsonDeserialize(IOEnv.TRACE)
VARIABLES pos, obs
tvars == <<pos, obs>>
TInit == pos = 0 /\ obs = [ev |-> "none"]
TNext == pos < Len(Rec) /\ pos' = pos + 1 /\ obs' = Rec[pos + 1]
TSpec == TInit /\ [][TNext]_tvars
Step == obs.ev = "step"
StepDone(d) == Step /\ obs.e = "Step" /\ obs.stepDo = d
\* C01_ServedOnce / right service: one service call per connection, by the service of the listener it connected to
T_C01_ServedOnceRightService == Step => (~obs.dupServed /\ ~obs.wrongService)
T_C01_AllServed == (StepDone("await_started") \/ StepDone("stress") \/ StepDone("await_called") \/ StepDone("connect_rst")) => obs.stepOk
\* C02_Bound: per worker thread, connections in progress never exceed max_concurrent_connections
\* (stressMaxLive: the largest number of service futures alive at once on one worker thread, counted inside the services
\* during the stress phases)
\* (claimed while no worker has died, as the property says: a connection re-routed after a fault may be forced onto a
\* saturated worker)
T_C02_Bound == (Step /\ obs.poisoned = 0) => (obs.maxLivePerWorker <= obs.limit /\ obs.stressMaxLive <= obs.limit)
\* C03_NoLostWake: whenever the scenario waits for a waiting connection to be served after a release, it is
T_C03_NoLostWake == (StepDone("await_started") \/ StepDone("stress")) => obs.stepOk
\* C04: with nobody saturated k connections spread evenly over the workers
T_C04_EvenSpread == (StepDone("await_started") /\ obs.limit >= 8) =>
                       obs.maxLivePerWorker * obs.workers <= obs.nstarted + obs.workers - 1
\* C04: after real-thread races (stress phase) every worker still takes its turn: workers x limit held connections all
\* start (a worker whose release notification was lost is skipped for good)
T_C04_EveryWorkerTakesItsTurn == (StepDone("await_started") \/ StepDone("stress")) => obs.stepOk
\* C05: nothing starts while paused; connects succeed (UDS path present); everything waiting is served after resume
T_C05_PauseResume == (StepDone("quiet") \/ StepDone("connect") \/ StepDone("await_started") \/ StepDone("stress")) => obs.stepOk
\* C08: after a worker died service continues and a replacement instance of the service is created
T_C08_ServiceContinues == (StepDone("await_started") \/ StepDone("await_finished")) => obs.stepOk
\* (a worker died = its service instances were destroyed while the server was running)
T_C08_Replaced == (Step /\ obs.e = "End" /\ obs.poisoned > 0 /\ obs.died > 0) => obs.factoriesA > obs.workers
TraceAccepted ==
  LET n == TLCGet("stats").diameter - 1 IN
    /\ PrintT(<<"TRACE_MATCHED", n, Len(Rec)>>)
    /\ n = Len(Rec)
=============================================================================
