CONSTANTS
  W = 3
  Limit = 3
  L = 1
  Uds = {}
  MaxConns = 5
  MaxFaults = 1
  MaxCmds = 0
  MaxErrs = 0
  MaxBare = 0
  WakeAt = 4
  IgnoreUnknownIdx = TRUE
  UnlinkOnDeregister = FALSE
  ResumeClearsBackoff = TRUE
  IncBeforeSend = FALSE
  NoClearOnLimit = FALSE
  ResumeSkipsAcceptAll = FALSE
  BackoffNeverReregisters = FALSE
  RoundRobinStuck = FALSE
  ConnErrIsFatal = FALSE
  WakeSkipsAcceptAll = FALSE
  PauseKeepsRegistered = FALSE
  RejoinPausedNoAvail = FALSE
  ResetSeparate = FALSE
  JumpToFirstAvailable = FALSE
  ReportOnlyIfBitSet = FALSE
  ResendWithoutCheck = FALSE
  RejoinAtIndex = TRUE
  DropPausePair = FALSE
  TrackRepeat = TRUE
SPECIFICATION Spec
VIEW View
PROPERTIES StepNoRepeat
CHECK_DEADLOCK FALSE
