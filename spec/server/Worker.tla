--------------------------- MODULE Worker ---------------------------
(* actix-server worker.rs: the ServerWorker future.  One `Poll` action = one poll of the real       *)
(* future, transcribed branch by branch (stop handler, Unavailable / Available / Restarting /        *)
(* Shutdown states, the recursion `self.poll(cx)` and the Available loop that re-checks readiness    *)
(* before every connection).  Environment actions feed it: readiness answers of the services (a      *)
(* script per service; an exhausted script answers Ready), factory answers for re-creation, queued   *)
(* connections, stop messages, connection completions and the clock (1 tick = the worker's 1 s       *)
(* shutdown timer).  Properties C07, the worker side of C06, and the shutdown drain of C01.          *)
EXTENDS Integers, Sequences, FiniteSets, TLC, Json

CONSTANTS K,            \* services (= listener tokens) 1..K
          MaxConns, MaxNonReady, MaxCreatePend, MaxTicks, MaxStops,
          Timeout,      \* shutdown_timeout in ticks
          \* variants (design value FALSE)
          ReadyCheckOnce,      \* the Available loop checks readiness once, then drains the queue
          RestartAll,          \* a failed readiness check re-creates every service
          DrainCalls,          \* connections queued at shutdown are served instead of released
          GracefulRepliesEarly,\* graceful stop replies at the first tick even with connections alive
          IgnoreTimeout,       \* graceful stop never gives up
          ForcedWaits,         \* forced stop waits like a graceful one
          LifoQueue,           \* connections are taken newest first
          DrainOnlyAtStop,     \* queued connections are released when the stop is received, not in the shutdown state
          ErrKeepsPolling,     \* a readiness pass goes on after a failed check: later failures are consumed, only the first is restarted
          MaxPerPoll,          \* 0 (design): a poll serves the whole queue; k > 0: at most k connections per poll, then Pending
          Rewake               \* with MaxPerPoll > 0: the worker wakes itself before it returns Pending with connections left

Svc == 1..K

VARIABLES ws, status, rs, fs, rk, cq, sq, live, since, due, waiting, replies, owed,
          calls, called, lastCalled, fifoOk, created, drained, nconn, nnr, ncp, nstops,     \* bookkeeping / ghosts
          pe, act                                                 \* events of the last poll, label
vars == <<ws, status, rs, fs, rk, cq, sq, live, since, due, waiting, replies, owed, calls, called, lastCalled, fifoOk,
          created, drained, nconn, nnr, ncp, nstops, pe, act>>
\* state-based predicates read only variables of the view; predicates over the events of a poll (pe) and over the
\* call history are action properties (evaluated by TLC on every generated transition, so the view cannot hide them)
View == <<ws, status, rs, fs, rk, cq, sq, live, since, due, waiting, replies, owed, created, drained, called, lastCalled,
          fifoOk, nconn, nnr, ncp, nstops>>

Init == /\ ws = "Unavailable" /\ status = [k \in Svc |-> "Unavailable"]
        /\ rs = [k \in Svc |-> <<>>] /\ fs = [k \in Svc |-> <<>>] /\ rk = 0
        /\ cq = <<>> /\ sq = <<>> /\ live = {} /\ since = 0 /\ due = FALSE
        /\ waiting = FALSE /\ replies = <<>> /\ owed = TRUE
        /\ calls = <<>> /\ called = {} /\ lastCalled = 0 /\ fifoOk = TRUE /\ created = [k \in Svc |-> 0] /\ drained = {} /\ nconn = 0 /\ nnr = 0 /\ ncp = 0
        /\ nstops = 0 /\ pe = <<>> /\ act = [n |-> "Init"]

(* ------------------------------------------------------------------------------------------- *)
(* the poll, as a function on a machine record                                                    *)
(* ------------------------------------------------------------------------------------------- *)
Machine == [ws |-> ws, status |-> status, rs |-> rs, fs |-> fs, rk |-> rk, cq |-> cq, sq |-> sq, live |-> live,
            since |-> since, due |-> due, waiting |-> waiting, replies |-> replies, calls |-> calls,
            called |-> called, lastCalled |-> lastCalled, fifoOk |-> fifoOk,
            created |-> created, drained |-> drained, ev |-> <<>>, yielded |-> FALSE]

Total(m) == Len(m.cq) + Cardinality(m.live)
Ev(m, e) == [m EXCEPT !.ev = Append(@, e)]

\* check_readiness from service k on; returns <<machine, "true" | "false" | "err", failing service>>
RECURSIVE CheckFromF(_, _, _, _)
CheckFromF(m, k, ready, fail) ==
  IF k > K THEN (IF fail # 0 THEN <<m, "err", fail>> ELSE <<m, IF ready THEN "true" ELSE "false", 0>>)
  ELSE IF m.status[k] \notin {"Available", "Unavailable"} THEN CheckFromF(m, k + 1, ready, fail)
  ELSE LET a  == IF m.rs[k] = <<>> THEN 1 ELSE Head(m.rs[k])
           m1 == Ev([m EXCEPT !.rs[k] = IF @ = <<>> THEN @ ELSE Tail(@)], [t |-> "ready", k |-> k, a |-> a])
       IN CASE a = 1 -> CheckFromF([m1 EXCEPT !.status[k] = "Available"], k + 1, ready, fail)
            [] a = 0 -> CheckFromF([m1 EXCEPT !.status[k] = "Unavailable"], k + 1, FALSE, fail)
            [] OTHER -> IF ErrKeepsPolling
                          THEN CheckFromF(IF fail = 0 THEN [m1 EXCEPT !.status[k] = "Failed"] ELSE m1, k + 1, ready,
                                          IF fail = 0 THEN k ELSE fail)
                          ELSE <<[m1 EXCEPT !.status[k] = "Failed"], "err", k>>     \* the pass ends at the first failure
CheckFrom(m, k, ready) == CheckFromF(m, k, ready, 0)

Restart(m, k) ==
  IF RestartAll
    THEN [m EXCEPT !.status = [j \in Svc |-> "Restarting"], !.ws = "Restarting", !.rk = k]
    ELSE [m EXCEPT !.status[k] = "Restarting", !.ws = "Restarting", !.rk = k]

RECURSIVE DrainQueue(_)
DrainQueue(m) ==
  IF m.cq = <<>> THEN m
  ELSE LET c == Head(m.cq) IN
       IF DrainCalls
         THEN DrainQueue(Ev([m EXCEPT !.cq = Tail(@), !.live = @ \cup {c[2]}, !.calls = Append(@, c), !.called = @ \cup {c[2]}],
                            [t |-> "call", k |-> c[1], c |-> c[2]]))
         ELSE DrainQueue(Ev([m EXCEPT !.cq = Tail(@), !.drained = @ \cup {c[2]}], [t |-> "drain", c |-> c[2]]))

\* `Stop` message handler at the top of every poll
HandleStop(m) ==
  IF m.sq = <<>> THEN m
  ELSE LET g == Head(m.sq)  m0 == [m EXCEPT !.sq = Tail(@)] IN
       IF Total(m) = 0
         THEN [Ev(m0, [t |-> "reply", v |-> "true"]) EXCEPT !.replies = Append(@, "true"), !.ws = "Done"]
       ELSE IF g \/ ForcedWaits
         THEN \* graceful: Available services stop accepting; a 1 s progress timer starts
              [(IF DrainOnlyAtStop THEN DrainQueue(m0) ELSE m0) EXCEPT !.status = [k \in Svc |-> IF @[k] = "Available" THEN "Stopping" ELSE @[k]],
                         !.ws = "Shutdown", !.due = FALSE, !.since = 0,       \* 1 s progress timer, start_from = now
                         !.replies = IF m.waiting THEN Append(@, "dropped") ELSE @,   \* a second stop replaces the first
                         !.waiting = TRUE]
         ELSE [Ev(m0, [t |-> "reply", v |-> "false"]) EXCEPT
                  !.status = [k \in Svc |-> IF @[k] = "Available" THEN "Stopped" ELSE @[k]],
                  !.replies = Append(@, "false"), !.ws = "Done"]

RECURSIVE PollTop(_), AvailLoop(_, _, _)
\* the Available loop: readiness pass, then one connection, again
AvailLoop(m, first, n) ==
  LET r == IF ReadyCheckOnce /\ ~first THEN <<m, "true", 0>> ELSE CheckFrom(m, 1, TRUE) IN
    CASE r[2] = "true" ->
           IF r[1].cq = <<>> THEN r[1]                                        \* Pending on the channel
           ELSE IF MaxPerPoll > 0 /\ n >= MaxPerPoll THEN [r[1] EXCEPT !.yielded = TRUE]   \* variant: the batch is used up
           ELSE LET idx == IF LifoQueue THEN Len(r[1].cq) ELSE 1
                    c   == r[1].cq[idx]
                    rest == [j \in 1..(Len(r[1].cq) - 1) |-> IF j < idx THEN r[1].cq[j] ELSE r[1].cq[j + 1]]
                    m1  == Ev([r[1] EXCEPT !.cq = rest, !.live = @ \cup {c[2]}, !.calls = Append(@, c),
                                            !.called = @ \cup {c[2]}, !.fifoOk = @ /\ c[2] > r[1].lastCalled,
                                            !.lastCalled = c[2]],
                              [t |-> "call", k |-> c[1], c |-> c[2]])
                IN AvailLoop(m1, FALSE, n + 1)
      [] r[2] = "false" -> PollTop([r[1] EXCEPT !.ws = "Unavailable"])
      [] OTHER -> PollTop(Restart(r[1], r[3]))

PollTop(m0) ==
  LET m == HandleStop(m0) IN
  CASE m.ws = "Done" -> m
    [] m.ws = "Unavailable" ->
         LET r == CheckFrom(m, 1, TRUE) IN
           CASE r[2] = "true"  -> PollTop([r[1] EXCEPT !.ws = "Available"])
             [] r[2] = "false" -> r[1]
             [] OTHER          -> PollTop(Restart(r[1], r[3]))
    [] m.ws = "Restarting" ->
         LET k == m.rk
             a == IF m.fs[k] = <<>> THEN 1 ELSE Head(m.fs[k])
             m1 == [m EXCEPT !.fs[k] = IF @ = <<>> THEN @ ELSE Tail(@)] IN
           IF a = 0 THEN m1                                                    \* factory future pending
           ELSE PollTop(Ev([m1 EXCEPT !.status = [j \in Svc |-> IF @[j] = "Restarting" THEN "Unavailable" ELSE @[j]],
                                       !.created = [j \in Svc |-> IF m1.status[j] = "Restarting" THEN @[j] + 1 ELSE @[j]],
                                       !.ws = "Unavailable"],
                           [t |-> "create", k |-> k]))
    [] m.ws = "Shutdown" ->
         LET m1 == IF DrainOnlyAtStop THEN m ELSE DrainQueue(m) IN
           IF ~m1.due THEN m1                                                 \* timer not elapsed: Pending
           ELSE IF Cardinality(m1.live) = 0 \/ GracefulRepliesEarly
             THEN [Ev(m1, [t |-> "reply", v |-> "true"]) EXCEPT !.replies = Append(@, "true"), !.ws = "Done", !.waiting = FALSE]
           ELSE IF m1.since >= Timeout /\ ~IgnoreTimeout
             THEN [Ev(m1, [t |-> "reply", v |-> "false"]) EXCEPT !.replies = Append(@, "false"), !.ws = "Done", !.waiting = FALSE]
           ELSE [m1 EXCEPT !.due = FALSE]                                      \* reset the timer: one more second
    [] OTHER -> AvailLoop(m, TRUE, 0)                                              \* "Available"

(* ------------------------------------------------------------------------------------------- *)
(* actions                                                                                        *)
(* ------------------------------------------------------------------------------------------- *)
Poll ==
  /\ ws # "Done"
  /\ LET m == PollTop(Machine) IN
       /\ ws' = m.ws /\ status' = m.status /\ rs' = m.rs /\ fs' = m.fs /\ rk' = m.rk /\ cq' = m.cq /\ sq' = m.sq
       /\ live' = m.live /\ since' = m.since /\ due' = m.due /\ waiting' = m.waiting /\ replies' = m.replies
       /\ owed' = (m.yielded /\ Rewake)      \* every source the poll waits on has its waker; nothing else is owed
       /\ calls' = m.calls /\ called' = m.called /\ lastCalled' = m.lastCalled /\ fifoOk' = m.fifoOk /\ created' = m.created /\ drained' = m.drained /\ pe' = m.ev
       /\ act' = [n |-> "Poll", ev |-> m.ev, ws |-> m.ws, replies |-> m.replies]
  /\ UNCHANGED <<nconn, nnr, ncp, nstops>>

\* the next poll_ready of service k answers a (0 Pending, 2 Err); appended to its script
PushAnswer(k, a) ==
  /\ nnr < MaxNonReady /\ nnr' = nnr + 1 /\ ws # "Done"
  /\ rs' = [rs EXCEPT ![k] = Append(@, a)]
  /\ act' = [n |-> "PushAnswer", k |-> k, a |-> a] /\ pe' = <<>>
  /\ UNCHANGED <<ws, status, fs, rk, cq, sq, live, since, due, waiting, replies, owed, calls, called, lastCalled, fifoOk, created, drained, nconn, ncp, nstops>>
\* a Ready answer placed explicitly (so that Pending / Ready / Pending scripts exist)
PushReady(k) ==
  /\ rs[k] # <<>> /\ Len(rs[k]) < 3 /\ ws # "Done"
  /\ rs' = [rs EXCEPT ![k] = Append(@, 1)]
  /\ act' = [n |-> "PushAnswer", k |-> k, a |-> 1] /\ pe' = <<>>
  /\ UNCHANGED <<ws, status, fs, rk, cq, sq, live, since, due, waiting, replies, owed, calls, called, lastCalled, fifoOk, created, drained, nconn, nnr, ncp, nstops>>
PushCreatePending(k) ==
  /\ ncp < MaxCreatePend /\ ncp' = ncp + 1 /\ ws # "Done"
  /\ fs' = [fs EXCEPT ![k] = Append(@, 0)]
  /\ act' = [n |-> "PushCreatePending", k |-> k] /\ pe' = <<>>
  /\ UNCHANGED <<ws, status, rs, rk, cq, sq, live, since, due, waiting, replies, owed, calls, called, lastCalled, fifoOk, created, drained, nconn, nnr, nstops>>
PushConn(k) ==
  /\ nconn < MaxConns /\ nconn' = nconn + 1 /\ ws # "Done"
  /\ cq' = Append(cq, <<k, nconn + 1>>)
  /\ act' = [n |-> "PushConn", k |-> k, c |-> nconn + 1] /\ pe' = <<>> /\ owed' = TRUE     \* the channel wakes its receiver
  /\ UNCHANGED <<ws, status, rs, fs, rk, sq, live, since, due, waiting, replies, calls, called, lastCalled, fifoOk, created, drained, nnr, ncp, nstops>>
PushStop(g) ==
  /\ nstops < MaxStops /\ nstops' = nstops + 1 /\ ws # "Done"
  /\ sq' = Append(sq, g)
  /\ act' = [n |-> "PushStop", g |-> g] /\ pe' = <<>> /\ owed' = TRUE
  /\ UNCHANGED <<ws, status, rs, fs, rk, cq, live, since, due, waiting, replies, calls, called, lastCalled, fifoOk, created, drained, nconn, nnr, ncp>>
Finish(c) ==
  /\ c \in live /\ live' = live \ {c}
  /\ act' = [n |-> "Finish", c |-> c] /\ pe' = <<>>
  /\ UNCHANGED <<ws, status, rs, fs, rk, cq, sq, since, due, waiting, replies, owed, calls, called, lastCalled, fifoOk, created, drained, nconn, nnr, ncp, nstops>>
\* one second passes (only observable while a graceful shutdown is waiting: the 1 s timer fires, time since the
\* start of the shutdown grows; capped at the timeout, beyond which nothing changes)
Tick ==
  /\ ws = "Shutdown" /\ (~due \/ since < Timeout)
  /\ due' = TRUE /\ since' = (IF since < Timeout THEN since + 1 ELSE since)
  /\ act' = [n |-> "Tick"] /\ pe' = <<>> /\ owed' = TRUE
  /\ UNCHANGED <<ws, status, rs, fs, rk, cq, sq, live, waiting, replies, calls, called, lastCalled, fifoOk, created, drained, nconn, nnr, ncp, nstops>>

Next == \/ Poll \/ Tick
        \/ \E k \in Svc : PushAnswer(k, 0) \/ PushAnswer(k, 2) \/ PushReady(k) \/ PushCreatePending(k) \/ PushConn(k)
        \/ \E g \in BOOLEAN : PushStop(g)
        \/ \E c \in live : Finish(c)
Spec == Init /\ [][Next]_vars
FairSpec == Spec /\ WF_vars(Poll) /\ WF_vars(Tick)

(* ------------------------------------------------------------------------------------------- *)
(* property predicates over the events of one poll (also evaluated on observed event lists)       *)
(* ------------------------------------------------------------------------------------------- *)
\* C07: immediately before every call there is a readiness pass in which every service answered Ready
ReadyBlockBefore(e, p) ==       \* positions of the maximal block of "ready" events right before position p
  LET startp == CHOOSE q \in 0..(p - 1) : (\A j \in (q + 1)..(p - 1) : e[j].t = "ready") /\ (q = 0 \/ e[q].t # "ready")
  IN (startp + 1)..(p - 1)
CallsAfterFullReadyPass(e, nsvc) ==
  \A p \in 1..Len(e) : e[p].t = "call" =>
     LET blk == ReadyBlockBefore(e, p) IN
       \A k \in 1..nsvc :
          /\ \E j \in blk : e[j].k = k                                   \* every service was asked ...
          /\ \A j \in blk : (e[j].k = k /\ \A i \in blk : e[i].k = k => i <= j) => e[j].a = 1   \* ... and its last answer was Ready
C07_CallOnlyAfterAllReadyStep == CallsAfterFullReadyPass(pe', K)
\* connections are served in queue order
C07_Fifo == fifoOk
\* only a service whose readiness check failed is re-created (once per failure)
Failures(e, k) == Cardinality({p \in 1..Len(e) : e[p].t = "ready" /\ e[p].k = k /\ e[p].a = 2})
C07_RestartOnlyFailedStep ==
  \A k \in Svc : created'[k] - created[k] <= Failures(pe', k) + (IF status[k] = "Restarting" THEN 1 ELSE 0)
\* a service whose readiness check failed is re-created: within the same poll, or it is left marked for re-creation
C07_FailedIsRecreatedStep ==
  \A p \in 1..Len(pe') : (pe'[p].t = "ready" /\ pe'[p].a = 2) =>
     \/ \E q \in (p + 1)..Len(pe') : pe'[q].t = "create" /\ pe'[q].k = pe'[p].k
     \/ status'[pe'[p].k] \in {"Failed", "Restarting"}
\* nothing queued is lost: after a poll that ends Available with every script exhausted the queue is empty
\* (a poll that leaves connections queued although every service is ready must have re-armed its own wake-up)
C07_NoneLostStep == (act'.n = "Poll" /\ ws' = "Available" /\ \A k \in Svc : rs'[k] = <<>>) => (cq' = <<>> \/ owed')
\* a worker that is Available and has connections queued is owed a poll
C07_QueuedMeansOwed == (ws = "Available" /\ cq # <<>>) => owed
C07_AllAccounted == \A c \in 1..nconn : Cardinality({x \in {"q", "called", "drained"} :
                       \/ x = "q" /\ \E j \in 1..Len(cq) : cq[j][2] = c
                       \/ x = "called" /\ c \in called
                       \/ x = "drained" /\ c \in drained}) = 1

\* C06 (worker side)
C06w_RepliesStep ==
  \A p \in 1..Len(pe') : pe'[p].t = "reply" =>
     \/ pe'[p].v = "true"  /\ (Cardinality(live) = 0)                        \* idle, or graceful and all finished
     \/ pe'[p].v = "false" /\ (Len(cq) + Cardinality(live) > 0)              \* forced, or timed out
C06w_GracefulNotEarlyStep ==   \* a waiting (graceful) stop is answered false only after the timeout
  (waiting /\ ~waiting' /\ Len(replies') > Len(replies) /\ replies'[Len(replies')] = "false") => since >= Timeout
\* a forced stop (and any stop of an idle worker) is answered by the poll that receives it
C06w_ForcedImmediateStep ==
  (act'.n = "Poll" /\ sq # <<>> /\ (~Head(sq) \/ Len(cq) + Cardinality(live) = 0)) => \E p \in 1..Len(pe') : pe'[p].t = "reply"
C06w_TrueMeansIdleStep == \A p \in 1..Len(pe') : (pe'[p].t = "reply" /\ pe'[p].v = "true") => live' = {}
\* C01: connections queued at shutdown are released, never served
C01_DrainReleases == drained \cap called = {}
C01_ShutdownDrainsQueueStep == (act'.n = "Poll" /\ ws' = "Shutdown") => cq' = <<>>
C01_NoCallInShutdownStep == (act'.n = "Poll" /\ waiting') => \A p \in 1..Len(pe') : pe'[p].t # "call"
\* liveness: every stop is answered
C06w_StopAnswered == [](sq # <<>> => <>(sq = <<>>)) /\ [](waiting => <>(~waiting))

Steps == [][/\ C07_CallOnlyAfterAllReadyStep /\ C07_RestartOnlyFailedStep /\ C07_FailedIsRecreatedStep /\ C07_NoneLostStep
            /\ C01_ShutdownDrainsQueueStep /\ C06w_RepliesStep /\ C06w_GracefulNotEarlyStep /\ C06w_ForcedImmediateStep /\ C06w_TrueMeansIdleStep /\ C01_NoCallInShutdownStep]_vars

LogEdge == PrintT(<<"EDGE", ToJson([from |-> View, act |-> act', to |-> View'])>>)
LogInit == TLCGet("level") > 1 \/ PrintT(<<"INIT", ToJson([from |-> View])>>)
=============================================================================
