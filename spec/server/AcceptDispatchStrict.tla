------------------------ MODULE AcceptDispatchStrict ------------------------
(* Strict-mode trace validation for AcceptDispatch: is every execution recorded by the stepped     *)
(* driver on the REAL accept loop a behaviour of the specification?                                 *)
(*                                                                                                   *)
(* The strict trace (vsrv replay --strict) is a flat event list per run:                            *)
(*   reset                          a new run (constants are fixed per trace file)                   *)
(*   env  {do, args, in_iter, [st]} an environment action; in_iter = it was applied INSIDE an        *)
(*                                  iteration of the accept loop, right after the preceding yield    *)
(*                                  point; st = state measured after it (top-level actions only)     *)
(*   pt   {kind, arg}               a yield point of the accept thread: "accepted" (accept(2)         *)
(*                                  returned: 0 connection, 1 WouldBlock, 2 error), "turn" (one turn  *)
(*                                  of the accept_one loop, arg = next), "sent" (channel send         *)
(*                                  succeeded, arg = worker idx), "inc" (counter incremented)          *)
(*   iterend {st}                   the iteration of Accept::poll_with ended; st = measured state      *)
(* Every env event must be explained by the specification's environment action with the logged       *)
(* arguments, every pt event by the accept-thread action that passes that yield point, iterend by     *)
(* the accept thread having reached "idle" / "exited" / "panicked"; accept-thread actions that pass    *)
(* no yield point (poll return, batch dispatch, waker-queue pop, loop head without an available        *)
(* worker, failed send, process_timeout) are silent steps; whenever a state was measured, every        *)
(* logged variable must be equal.  Unlogged variables (registered, edge, wakerPending, batch, ...)     *)
(* are chosen by the specification's actions.  A trace that cannot be explained is DRIFT (reported,    *)
(* exit 0): the alarm policy reserves VIOLATION for property predicates (AcceptDispatchTrace).          *)
EXTENDS AcceptDispatch, IOUtils, TLCExt

Rec == ndJsonDeserialize(IOEnv.TRACE)
N == Len(Rec)
VARIABLES pos, inIter,
          prefin      \* connections the schedule finished before they were served: they complete as soon as they are called
tvars == <<vars, pos, inIter, prefin>>

SetOf(s) == {s[k] : k \in 1..Len(s)}

\* every logged variable equals the measurement (evaluated after the action assigned the primed variables)
Match(st) ==
  /\ \A l \in Listeners : backlog'[l] = st.backlog[l]
  /\ \A i \in Workers : alive'[i] = st.alive[i + 1]
  /\ \A i \in Workers : alive'[i] =>
        /\ chan'[i] = st.chan[i + 1]
        /\ counter'[i] = st.counter[i + 1]
        /\ inprog'[i] = SetOf(st.inprog[i + 1])
  /\ \A i \in Workers : oldInprog'[i] = SetOf(st.oldInprog[i + 1])
  /\ \A i \in Workers : avail'[i] = st.avail[i + 1]
  /\ handles' = st.handles /\ (Len(handles') > 0 => next' = st.next)
  /\ paused' = st.paused
  /\ (~st.panicked /\ ~st.spin) => running' = st.running
  /\ (st.panicked \/ st.spin) = (apc' = "panicked")
  /\ wq' = st.wq
  /\ cmdq' = st.cmdq
  /\ \A l \in Listeners : lstTimer'[l] = st.lstTimer[l]
  /\ running' => timeoutSet' = st.timeoutSet
  /\ \A l \in Listeners : pathOk'[l] = st.pathOk[l]
  /\ \A l \in Listeners : (errq'[l] = <<>>) = (st.errq[l] = 0)

\* names of the logged variables that differ (diagnostics: printed for the candidate steps at the first unmatched event)
Diff(st) ==
  {f \in {"backlog", "alive", "chan", "counter", "inprog", "oldInprog", "avail", "handles", "next", "paused", "running",
          "panicked", "wq", "cmdq", "lstTimer", "timeoutSet", "pathOk", "errq"} :
     CASE f = "backlog" -> \E l \in Listeners : backlog'[l] # st.backlog[l]
       [] f = "alive" -> \E i \in Workers : alive'[i] # st.alive[i + 1]
       [] f = "chan" -> \E i \in Workers : alive'[i] /\ chan'[i] # st.chan[i + 1]
       [] f = "counter" -> \E i \in Workers : alive'[i] /\ counter'[i] # st.counter[i + 1]
       [] f = "inprog" -> \E i \in Workers : alive'[i] /\ inprog'[i] # SetOf(st.inprog[i + 1])
       [] f = "oldInprog" -> \E i \in Workers : oldInprog'[i] # SetOf(st.oldInprog[i + 1])
       [] f = "avail" -> \E i \in Workers : avail'[i] # st.avail[i + 1]
       [] f = "handles" -> handles' # st.handles
       [] f = "next" -> Len(handles') > 0 /\ next' # st.next
       [] f = "paused" -> paused' # st.paused
       [] f = "running" -> (~st.panicked /\ ~st.spin) /\ running' # st.running
       [] f = "panicked" -> (st.panicked \/ st.spin) # (apc' = "panicked")
       [] f = "wq" -> wq' # st.wq
       [] f = "cmdq" -> cmdq' # st.cmdq
       [] f = "lstTimer" -> \E l \in Listeners : lstTimer'[l] # st.lstTimer[l]
       [] f = "timeoutSet" -> running' /\ timeoutSet' # st.timeoutSet
       [] f = "pathOk" -> \E l \in Listeners : pathOk'[l] # st.pathOk[l]
       [] f = "errq" -> \E l \in Listeners : (errq'[l] = <<>>) # (st.errq[l] = 0)}
Debug == IOEnv.STRICT_DEBUG = "1"

\* ---- reset: a new run starts from the initial state ----
ResetVars ==
  /\ backlog' = [l \in Listeners |-> <<>>] /\ registered' = [l \in Listeners |-> TRUE]
  /\ edge' = [l \in Listeners |-> FALSE] /\ pathOk' = [l \in Listeners |-> TRUE]
  /\ errq' = [l \in Listeners |-> <<>>]
  /\ lstTimer' = [l \in Listeners |-> 0] /\ timeoutSet' = FALSE
  /\ paused' = FALSE /\ running' = TRUE
  /\ handles' = [k \in 1..W |-> k - 1] /\ next' = 0 /\ avail' = [i \in Workers |-> TRUE]
  /\ apc' = "idle" /\ batch' = <<>> /\ ret' = "batch" /\ cur' = 0 /\ tokLeft' = <<>> /\ inHand' = 0
  /\ forced' = FALSE /\ turns' = 0
  /\ wq' = <<>> /\ wakerPending' = FALSE
  /\ chan' = [i \in Workers |-> <<>>] /\ chanOpen' = [i \in Workers |-> TRUE]
  /\ counter' = [i \in Workers |-> 1] /\ inprog' = [i \in Workers |-> {}]
  /\ alive' = [i \in Workers |-> TRUE]
  /\ oldInprog' = [i \in Workers |-> {}] /\ oldCounter' = [i \in Workers |-> 1]
  /\ cmdq' = <<>>
  /\ nconn' = 0 /\ nfaults' = 0 /\ ncmds' = 0 /\ nerrs' = 0 /\ nbare' = 0
  /\ served' = [c \in {} |-> 0] /\ closed' = {} /\ dispatchLog' = <<>> /\ lastD' = <<>> /\ rer' = FALSE /\ rrWindow' = <<>>
  /\ everFaulted' = FALSE /\ pauseEffective' = FALSE /\ connRefused' = FALSE
  /\ fatalSeen' = [l \in Listeners |-> FALSE]
  /\ act' = A("Init")

\* ---- environment actions the driver knows and the specification does not have in this form ----
UNCH_REST(S) == UNCHANGED S
\* a bare notification (the corpus uses it for late / duplicate availability notifications)
WakeAvailT(i) ==
  /\ wq' = Append(wq, <<"WA", i>>) /\ wakerPending' = TRUE
  /\ act' = [A("WakeAvailable") EXCEPT !.i = i]
  /\ UNCH_ACCEPT
  /\ UNCHANGED <<backlog, registered, edge, pathOk, errq, lstTimer, timeoutSet, chan, chanOpen, counter,
                 inprog, alive, oldInprog, oldCounter, cmdq, nconn, nfaults, ncmds, nerrs, nbare, served, closed,
                 dispatchLog, lastD, rer, rrWindow, everFaulted, pauseEffective, connRefused, fatalSeen>>
\* a command is queued whether or not the accept thread still runs
CmdT(x) ==
  /\ ncmds' = ncmds + 1
  /\ wq' = Append(wq, <<x, 0>>) /\ wakerPending' = TRUE
  /\ act' = [A("Cmd") EXCEPT !.x = x]
  /\ UNCH_ACCEPT
  /\ UNCHANGED <<backlog, registered, edge, pathOk, errq, lstTimer, timeoutSet, chan, chanOpen, counter,
                 inprog, alive, oldInprog, oldCounter, cmdq, nconn, nfaults, nerrs, nbare, served, closed,
                 dispatchLog, lastD, rer, rrWindow, everFaulted, pauseEffective, connRefused, fatalSeen>>
\* the driver replaces the worker it names (the specification's server answers the oldest report first)
RemoveFirst(s, i) == LET k == CHOOSE k \in 1..Len(s) : s[k] = i /\ \A j \in 1..(k - 1) : s[j] # i
                     IN [j \in 1..(Len(s) - 1) |-> IF j < k THEN s[j] ELSE s[j + 1]]
ReplaceT(i) ==
  /\ \E k \in 1..Len(cmdq) : cmdq[k] = i
  /\ cmdq' = RemoveFirst(cmdq, i)
  /\ alive' = [alive EXCEPT ![i] = TRUE] /\ chanOpen' = [chanOpen EXCEPT ![i] = TRUE]
  /\ counter' = [counter EXCEPT ![i] = 1]
  /\ wq' = Append(wq, <<"WK", i>>) /\ wakerPending' = TRUE
  /\ act' = [A("Replace") EXCEPT !.i = i]
  /\ UNCH_ACCEPT
  /\ UNCHANGED <<backlog, registered, edge, pathOk, errq, lstTimer, timeoutSet, chan, inprog, oldInprog,
                 oldCounter, nconn, nfaults, ncmds, nerrs, nbare, served, closed, dispatchLog, lastD, rer, rrWindow,
                 everFaulted, pauseEffective, connRefused, fatalSeen>>
\* virtual time advances: any set of pending back-off deadlines passes (the measured state decides which)
AdvanceT ==
  /\ \E S \in SUBSET {l \in Listeners : lstTimer[l] = 2} :
        lstTimer' = [l \in Listeners |-> IF l \in S THEN 1 ELSE lstTimer[l]]
  /\ act' = A("Advance")
  /\ UNCH_ACCEPT
  /\ UNCHANGED <<backlog, registered, edge, pathOk, errq, timeoutSet, wq, wakerPending, chan, chanOpen,
                 counter, inprog, alive, oldInprog, oldCounter, cmdq, nconn, nfaults, ncmds, nerrs, nbare,
                 served, closed, dispatchLog, lastD, rer, rrWindow, everFaulted, pauseEffective, connRefused, fatalSeen>>
\* the driver's bare wake of the poller (stands in for the poll time-out)
BareWakeT ==
  /\ wakerPending' = TRUE /\ nbare' = nbare + 1
  /\ act' = A("BareWake")
  /\ UNCH_ACCEPT
  /\ UNCHANGED <<backlog, registered, edge, pathOk, errq, lstTimer, timeoutSet, wq, chan, chanOpen, counter,
                 inprog, alive, oldInprog, oldCounter, cmdq, nconn, nfaults, ncmds, nerrs, served, closed,
                 dispatchLog, lastD, rer, rrWindow, everFaulted, pauseEffective, connRefused, fatalSeen>>
\* polling a worker that has nothing queued (or is gone) changes nothing this specification talks about; connections
\* that the schedule finished before they were served (prefin) are called and complete at once: WorkerPoll followed by
\* their Finish steps, folded into one step (the counter goes down by their number, crossing WakeAt at most once)
WorkerPollT(i) ==
  IF ~(alive[i] /\ chan[i] # <<>>) THEN UNCHANGED vars
  ELSE LET conns == Range(chan[i])  F == conns \cap prefin  n == Cardinality(F) IN
       IF n = 0 THEN WorkerPoll(i)
       ELSE /\ inprog' = [inprog EXCEPT ![i] = @ \cup (conns \ F)]
            /\ served' = [c \in DOMAIN served \cup conns |-> IF c \in conns THEN i ELSE served[c]]
            /\ chan' = [chan EXCEPT ![i] = <<>>]
            /\ counter' = [counter EXCEPT ![i] = @ - n]
            /\ IF WakeAt \in (counter[i] - n + 1)..counter[i]
                 THEN wq' = Append(wq, <<"WA", i>>) /\ wakerPending' = TRUE
                 ELSE UNCHANGED <<wq, wakerPending>>
            /\ closed' = closed \cup F
            /\ act' = [A("WorkerPoll") EXCEPT !.i = i]
            /\ UNCH_ACCEPT
            /\ UNCHANGED <<backlog, registered, edge, pathOk, errq, lstTimer, timeoutSet, chanOpen, alive, oldInprog,
                           oldCounter, cmdq, nconn, nfaults, ncmds, nerrs, nbare, dispatchLog, lastD, rer, rrWindow, everFaulted,
                           pauseEffective, connRefused, fatalSeen>>
\* a Finish for a connection that is not in progress: remembered (it has not been served yet) - or a repetition
FinishT(c) ==
  IF \E i \in Workers : c \in inprog[i] \/ c \in oldInprog[i]
    THEN (\E i \in Workers : Finish(i, c) \/ TearDown(i, c)) /\ UNCHANGED prefin
    ELSE UNCHANGED vars /\ prefin' = prefin \cup {c}

EnvAct(e) ==
  CASE e.do = "Connect"       -> Connect(e.l)
    [] e.do = "WorkerPoll"    -> WorkerPollT(e.i)
    [] e.do = "Finish"        -> FinishT(e.c)
    [] e.do = "Kill"          -> (IF alive[e.i] THEN Kill(e.i) ELSE UNCHANGED vars)   \* killing a dead worker: nothing
    [] e.do = "Replace"       -> ReplaceT(e.i)
    [] e.do = "Cmd"           -> CmdT(e.x)
    [] e.do = "WakeAvailable" -> WakeAvailT(e.i)
    [] e.do = "Inject"        -> InjectErr(e.l, e.kind)
    [] e.do = "Advance"       -> AdvanceT
    [] e.do = "BareWake"      -> BareWakeT
    [] e.do = "Noop"          -> UNCHANGED vars      \* the engine found the action not applicable
    [] OTHER                  -> FALSE

\* ---- the yield point an accept-thread action passes (from its label act') ----
PointKind(a) ==
  CASE a.n = "AAcceptSys" /\ a.x \in {"conn", "wouldblock", "connerr", "fatal"} -> "accepted"
    [] a.n = "AChoose" -> "turn"
    [] a.n = "ASend" /\ a.x = "ok" -> "sent"
    [] a.n = "AInc" -> "inc"
    [] OTHER -> "none"
PointArgOk(a, e) ==
  CASE a.n = "AAcceptSys" -> e.arg = (IF a.x = "conn" THEN 0 ELSE IF a.x = "wouldblock" THEN 1 ELSE 2)
    [] a.n = "AChoose" -> e.arg = next          \* the value before the turn
    [] a.n = "ASend" -> e.arg = a.i
    [] OTHER -> TRUE

Ev == Rec[pos + 1]
Note(p) == IF p > TLCGet(1) THEN TLCSet(1, p) ELSE TRUE

StepReset ==
  /\ pos < N /\ Ev.ev = "reset"
  /\ ResetVars /\ inIter' = FALSE /\ pos' = pos + 1 /\ prefin' = {}
StepEnv ==
  /\ pos < N /\ Ev.ev = "env"
  /\ Ev.in_iter = inIter
  /\ EnvAct(Ev)
  /\ (Ev.do # "Finish" => UNCHANGED prefin)
  /\ (Ev.has_st => IF Match(Ev.st) THEN TRUE ELSE (Debug /\ PrintT(<<"ENV_MISMATCH", pos + 1, Ev.do, Diff(Ev.st)>>) /\ FALSE))
  /\ pos' = pos + 1 /\ UNCHANGED inIter
\* the accept thread: only inside an iteration window of the trace
InWindow == pos < N /\ Ev.ev \in {"pt", "iterend"}
StepPoll ==
  /\ InWindow /\ ~inIter
  /\ APoll /\ inIter' = TRUE /\ pos' = pos /\ UNCHANGED prefin
StepAccept ==
  /\ InWindow /\ inIter
  /\ (ABatch \/ APop \/ AAcceptSys \/ AChoose \/ ASend \/ AInc \/ ATimeout)
  /\ IF PointKind(act') = "none"
       THEN pos' = pos
       ELSE /\ Ev.ev = "pt" /\ Ev.kind = PointKind(act') /\ PointArgOk(act', Ev)
            /\ pos' = pos + 1
  /\ UNCHANGED <<inIter, prefin>>
StepIterEnd ==
  /\ pos < N /\ Ev.ev = "iterend" /\ inIter
  /\ apc \in {"idle", "exited", "panicked"}
  /\ UNCHANGED vars
  /\ (Ev.has_st => IF Match(Ev.st) THEN TRUE ELSE (Debug /\ PrintT(<<"ITEREND_MISMATCH", pos + 1, apc, Diff(Ev.st)>>) /\ FALSE))
  /\ inIter' = FALSE /\ pos' = pos + 1 /\ UNCHANGED prefin

TInit == Init /\ pos = 0 /\ inIter = FALSE /\ prefin = {} /\ TLCSet(1, 0)
TNext == (StepReset \/ StepEnv \/ StepPoll \/ StepAccept \/ StepIterEnd) /\ Note(pos')
TSpec == TInit /\ [][TNext]_tvars

\* once the whole trace has been explained nothing else needs exploring
Unfinished == TLCGet(1) < N \/ pos = N

TraceAccepted ==
  LET n == TLCGet(1) IN
    /\ PrintT(<<"STRICT_MATCHED", n, N>>)
    /\ IF n = N THEN TRUE
       ELSE PrintT(<<"STRICT_UNMATCHED", n + 1, ToJson([run |-> Rec[n + 1].run, ev |-> Rec[n + 1].ev])>>) /\ FALSE
=============================================================================
