------------------------ MODULE AcceptDispatchStrict ------------------------
(* Strict-mode trace validation for AcceptDispatch: is every execution recorded by the stepped     *)
(* driver on the REAL accept loop a behaviour of the specification?                                 *)
(*                                                                                                   *)
(* The strict trace (vsrv replay --strict) is a flat event list per run:                            *)
(*   reset                          a new run (constants are fixed per trace file)                   *)
(*   env  {do, args, in_iter, [st]} an environment action; in_iter = it was applied INSIDE an        *)
(*                                  iteration of the accept loop, right after the preceding yield    *)
(*                                  point; st = state measured after it (top-level actions only)     *)
(*   pt   {kind, arg}               a yield point of the accept thread: "accepted" (accept(2)         *)
(*                                  returned: 0 connection, 1 WouldBlock, 2 error), "turn" (one turn  *)
(*                                  of the accept_one loop, arg = next), "sent" (channel send         *)
(*                                  succeeded, arg = worker idx), "inc" (counter incremented)          *)
(*   iterend {st}                   the iteration of Accept::poll_with ended; st = measured state      *)
(* Every env event must be explained by the specification's environment action with the logged       *)
(* arguments, every pt event by the accept-thread action that passes that yield point, iterend by     *)
(* the accept thread having reached "idle" / "exited" / "panicked"; accept-thread actions that pass    *)
(* no yield point (poll return, batch dispatch, waker-queue pop, loop head without an available        *)
(* worker, failed send, process_timeout) are silent steps; whenever a state was measured, every        *)
(* logged variable must be equal.  Unlogged variables (registered, edge, wakerPending, batch, ...)     *)
(* are chosen by the specification's actions.  A trace that cannot be explained is DRIFT (reported,    *)
(* exit 0): the alarm policy reserves VIOLATION for property predicates (AcceptDispatchTrace).          *)
EXTENDS AcceptDispatch, IOUtils, TLCExt

Rec == ndJsonDeserialize(IOEnv.TRACE)
N == Len(Rec)
VARIABLES pos, inIter
tvars == <<vars, pos, inIter>>

SetOf(s) == {s[k] : k \in 1..Len(s)}

\* every logged variable equals the measurement (evaluated after the action assigned the primed variables)
Match(st) ==
  /\ \A l \in Listeners : backlog'[l] = st.backlog[l]
  /\ \A i \in Workers : alive'[i] = st.alive[i + 1]
  /\ \A i \in Workers : alive'[i] =>
        /\ chan'[i] = st.chan[i + 1]
        /\ counter'[i] = st.counter[i + 1]
        /\ inprog'[i] = SetOf(st.inprog[i + 1])
  /\ \A i \in Workers : oldInprog'[i] = SetOf(st.oldInprog[i + 1])
  /\ \A i \in Workers : avail'[i] = st.avail[i + 1]
  /\ handles' = st.handles /\ (Len(handles') > 0 => next' = st.next)
  /\ paused' = st.paused
  /\ (~st.panicked /\ ~st.spin) => running' = st.running
  /\ (st.panicked \/ st.spin) = (apc' = "panicked")
  /\ wq' = st.wq
  /\ cmdq' = st.cmdq
  /\ \A l \in Listeners : lstTimer'[l] = st.lstTimer[l]
  /\ running' => timeoutSet' = st.timeoutSet
  /\ \A l \in Listeners : pathOk'[l] = st.pathOk[l]
  /\ \A l \in Listeners : (errq'[l] = <<>>) = (st.errq[l] = 0)

\* ---- reset: a new run starts from the initial state ----
ResetVars ==
  /\ backlog' = [l \in Listeners |-> <<>>] /\ registered' = [l \in Listeners |-> TRUE]
  /\ edge' = [l \in Listeners |-> FALSE] /\ pathOk' = [l \in Listeners |-> TRUE]
  /\ errq' = [l \in Listeners |-> <<>>]
  /\ lstTimer' = [l \in Listeners |-> 0] /\ timeoutSet' = FALSE
  /\ paused' = FALSE /\ running' = TRUE
  /\ handles' = [k \in 1..W |-> k - 1] /\ next' = 0 /\ avail' = [i \in Workers |-> TRUE]
  /\ apc' = "idle" /\ batch' = <<>> /\ ret' = "batch" /\ cur' = 0 /\ tokLeft' = <<>> /\ inHand' = 0
  /\ forced' = FALSE /\ turns' = 0
  /\ wq' = <<>> /\ wakerPending' = FALSE
  /\ chan' = [i \in Workers |-> <<>>] /\ chanOpen' = [i \in Workers |-> TRUE]
  /\ counter' = [i \in Workers |-> 1] /\ inprog' = [i \in Workers |-> {}]
  /\ alive' = [i \in Workers |-> TRUE]
  /\ oldInprog' = [i \in Workers |-> {}] /\ oldCounter' = [i \in Workers |-> 1]
  /\ cmdq' = <<>>
  /\ nconn' = 0 /\ nfaults' = 0 /\ ncmds' = 0 /\ nerrs' = 0 /\ nbare' = 0
  /\ served' = [c \in {} |-> 0] /\ closed' = {} /\ dispatchLog' = <<>> /\ rrWindow' = <<>>
  /\ everFaulted' = FALSE /\ pauseEffective' = FALSE /\ connRefused' = FALSE
  /\ fatalSeen' = [l \in Listeners |-> FALSE]
  /\ act' = A("Init")

\* ---- environment actions the driver knows and the specification does not have in this form ----
UNCH_REST(S) == UNCHANGED S
\* a bare notification (the corpus uses it for late / duplicate availability notifications)
WakeAvailT(i) ==
  /\ wq' = Append(wq, <<"WA", i>>) /\ wakerPending' = TRUE
  /\ act' = [A("WakeAvailable") EXCEPT !.i = i]
  /\ UNCH_ACCEPT
  /\ UNCHANGED <<backlog, registered, edge, pathOk, errq, lstTimer, timeoutSet, chan, chanOpen, counter,
                 inprog, alive, oldInprog, oldCounter, cmdq, nconn, nfaults, ncmds, nerrs, nbare, served, closed,
                 dispatchLog, rrWindow, everFaulted, pauseEffective, connRefused, fatalSeen>>
\* a command is queued whether or not the accept thread still runs
CmdT(x) ==
  /\ ncmds' = ncmds + 1
  /\ wq' = Append(wq, <<x, 0>>) /\ wakerPending' = TRUE
  /\ act' = [A("Cmd") EXCEPT !.x = x]
  /\ UNCH_ACCEPT
  /\ UNCHANGED <<backlog, registered, edge, pathOk, errq, lstTimer, timeoutSet, chan, chanOpen, counter,
                 inprog, alive, oldInprog, oldCounter, cmdq, nconn, nfaults, nerrs, nbare, served, closed,
                 dispatchLog, rrWindow, everFaulted, pauseEffective, connRefused, fatalSeen>>
\* the driver replaces the worker it names (the specification's server answers the oldest report first)
RemoveFirst(s, i) == LET k == CHOOSE k \in 1..Len(s) : s[k] = i /\ \A j \in 1..(k - 1) : s[j] # i
                     IN [j \in 1..(Len(s) - 1) |-> IF j < k THEN s[j] ELSE s[j + 1]]
ReplaceT(i) ==
  /\ \E k \in 1..Len(cmdq) : cmdq[k] = i
  /\ cmdq' = RemoveFirst(cmdq, i)
  /\ alive' = [alive EXCEPT ![i] = TRUE] /\ chanOpen' = [chanOpen EXCEPT ![i] = TRUE]
  /\ counter' = [counter EXCEPT ![i] = 1]
  /\ wq' = Append(wq, <<"WK", i>>) /\ wakerPending' = TRUE
  /\ act' = [A("Replace") EXCEPT !.i = i]
  /\ UNCH_ACCEPT
  /\ UNCHANGED <<backlog, registered, edge, pathOk, errq, lstTimer, timeoutSet, chan, inprog, oldInprog,
                 oldCounter, nconn, nfaults, ncmds, nerrs, nbare, served, closed, dispatchLog, rrWindow,
                 everFaulted, pauseEffective, connRefused, fatalSeen>>
\* virtual time advances: any set of pending back-off deadlines passes (the measured state decides which)
AdvanceT ==
  /\ \E S \in SUBSET {l \in Listeners : lstTimer[l] = 2} :
        lstTimer' = [l \in Listeners |-> IF l \in S THEN 1 ELSE lstTimer[l]]
  /\ act' = A("Advance")
  /\ UNCH_ACCEPT
  /\ UNCHANGED <<backlog, registered, edge, pathOk, errq, timeoutSet, wq, wakerPending, chan, chanOpen,
                 counter, inprog, alive, oldInprog, oldCounter, cmdq, nconn, nfaults, ncmds, nerrs, nbare,
                 served, closed, dispatchLog, rrWindow, everFaulted, pauseEffective, connRefused, fatalSeen>>
\* the driver's bare wake of the poller (stands in for the poll time-out)
BareWakeT ==
  /\ wakerPending' = TRUE /\ nbare' = nbare + 1
  /\ act' = A("BareWake")
  /\ UNCH_ACCEPT
  /\ UNCHANGED <<backlog, registered, edge, pathOk, errq, lstTimer, timeoutSet, wq, chan, chanOpen, counter,
                 inprog, alive, oldInprog, oldCounter, cmdq, nconn, nfaults, ncmds, nerrs, served, closed,
                 dispatchLog, rrWindow, everFaulted, pauseEffective, connRefused, fatalSeen>>
\* polling a worker that has nothing queued (or is gone) changes nothing this specification talks about
WorkerPollT(i) == IF alive[i] /\ chan[i] # <<>> THEN WorkerPoll(i) ELSE UNCHANGED vars

EnvAct(e) ==
  CASE e.do = "Connect"       -> Connect(e.l)
    [] e.do = "WorkerPoll"    -> WorkerPollT(e.i)
    [] e.do = "Finish"        -> \E i \in Workers : Finish(i, e.c) \/ TearDown(i, e.c)
    [] e.do = "Kill"          -> Kill(e.i)
    [] e.do = "Replace"       -> ReplaceT(e.i)
    [] e.do = "Cmd"           -> CmdT(e.x)
    [] e.do = "WakeAvailable" -> WakeAvailT(e.i)
    [] e.do = "Inject"        -> InjectErr(e.l, e.kind)
    [] e.do = "Advance"       -> AdvanceT
    [] e.do = "BareWake"      -> BareWakeT
    [] OTHER                  -> FALSE

\* ---- the yield point an accept-thread action passes (from its label act') ----
PointKind(a) ==
  CASE a.n = "AAcceptSys" /\ a.x \in {"conn", "wouldblock", "connerr", "fatal"} -> "accepted"
    [] a.n = "AChoose" -> "turn"
    [] a.n = "ASend" /\ a.x = "ok" -> "sent"
    [] a.n = "AInc" -> "inc"
    [] OTHER -> "none"
PointArgOk(a, e) ==
  CASE a.n = "AAcceptSys" -> e.arg = (IF a.x = "conn" THEN 0 ELSE IF a.x = "wouldblock" THEN 1 ELSE 2)
    [] a.n = "AChoose" -> e.arg = next          \* the value before the turn
    [] a.n = "ASend" -> e.arg = a.i
    [] OTHER -> TRUE

Ev == Rec[pos + 1]
Note(p) == IF p > TLCGet(1) THEN TLCSet(1, p) ELSE TRUE

StepReset ==
  /\ pos < N /\ Ev.ev = "reset"
  /\ ResetVars /\ inIter' = FALSE /\ pos' = pos + 1
StepEnv ==
  /\ pos < N /\ Ev.ev = "env"
  /\ Ev.in_iter = inIter
  /\ EnvAct(Ev)
  /\ (Ev.has_st => Match(Ev.st))
  /\ pos' = pos + 1 /\ UNCHANGED inIter
\* the accept thread: only inside an iteration window of the trace
InWindow == pos < N /\ Ev.ev \in {"pt", "iterend"}
StepPoll ==
  /\ InWindow /\ ~inIter
  /\ APoll /\ inIter' = TRUE /\ pos' = pos
StepAccept ==
  /\ InWindow /\ inIter
  /\ (ABatch \/ APop \/ AAcceptSys \/ AChoose \/ ASend \/ AInc \/ ATimeout)
  /\ IF PointKind(act') = "none"
       THEN pos' = pos
       ELSE /\ Ev.ev = "pt" /\ Ev.kind = PointKind(act') /\ PointArgOk(act', Ev)
            /\ pos' = pos + 1
  /\ UNCHANGED inIter
StepIterEnd ==
  /\ pos < N /\ Ev.ev = "iterend" /\ inIter
  /\ apc \in {"idle", "exited", "panicked"}
  /\ UNCHANGED vars /\ Match(Ev.st)
  /\ inIter' = FALSE /\ pos' = pos + 1

TInit == Init /\ pos = 0 /\ inIter = FALSE /\ TLCSet(1, 0)
TNext == (StepReset \/ StepEnv \/ StepPoll \/ StepAccept \/ StepIterEnd) /\ Note(pos')
TSpec == TInit /\ [][TNext]_tvars

\* once the whole trace has been explained nothing else needs exploring
Unfinished == TLCGet(1) < N \/ pos = N

TraceAccepted ==
  LET n == TLCGet(1) IN
    /\ PrintT(<<"STRICT_MATCHED", n, N>>)
    /\ IF n = N THEN TRUE
       ELSE PrintT(<<"STRICT_UNMATCHED", n + 1, ToJson([run |-> Rec[n + 1].run, ev |-> Rec[n + 1].ev])>>) /\ FALSE
=============================================================================
