CONSTANTS
  Limit = 2
  WakeAt = 0
SPECIFICATION Spec
INVARIANTS C03_NoLostWake
CHECK_DEADLOCK FALSE
