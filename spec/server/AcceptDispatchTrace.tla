------------------------ MODULE AcceptDispatchTrace ------------------------
(* Predicate-mode trace check for AcceptDispatch: every record of a trace recorded by the stepped  *)
(* driver (real Accept loop, real counters/waker queue/availability bits, real sockets) installs   *)
(* the measured part of the state into the specification's variables, and the specification's      *)
(* property predicates are evaluated by TLC on every recorded state.  The step relation is free    *)
(* (no claim that the implementation follows the spec's transitions), so an alarm can only mean    *)
(* that a property predicate is false on an observed state.                                         *)
EXTENDS AcceptDispatch, IOUtils, TLCExt

Rec == ndJsonDeserialize(IOEnv.TRACE)
VARIABLES pos, obs
tvars == <<vars, pos, obs>>

FnW(arr) == [i \in Workers |-> arr[i + 1]]
FnL(arr) == [k \in Listeners |-> arr[k]]
SetOf(s) == {s[k] : k \in 1..Len(s)}

Bind(r) ==
  /\ backlog' = FnL(r.st.backlog)
  /\ chan' = FnW(r.st.chan)
  /\ inprog' = [i \in Workers |-> SetOf(r.st.inprog[i + 1])]
  /\ oldInprog' = [i \in Workers |-> SetOf(r.st.oldInprog[i + 1])]
  /\ counter' = FnW(r.st.counter) /\ avail' = FnW(r.st.avail) /\ alive' = FnW(r.st.alive)
  /\ handles' = r.st.handles /\ next' = r.st.next
  /\ paused' = r.st.paused /\ running' = r.st.running
  /\ wq' = r.st.wq /\ cmdq' = r.st.cmdq
  /\ lstTimer' = FnL(r.st.lstTimer) /\ timeoutSet' = r.st.timeoutSet
  /\ pathOk' = FnL(r.st.pathOk)
  /\ errq' = [k \in Listeners |-> IF r.st.errq[k] = 0 THEN <<>> ELSE <<"fatal">>]
  /\ closed' = SetOf(r.st.closed)
  /\ connRefused' = r.st.connRefused /\ everFaulted' = r.st.everFaulted
  /\ nconn' = Len(r.st.listener)
  /\ apc' = (IF r.st.panicked \/ r.st.spin THEN "panicked" ELSE IF r.st.running THEN "idle" ELSE "exited")
  /\ obs' = r
  \* not observable / not needed by the predicates
  /\ UNCHANGED <<registered, edge, batch, ret, cur, tokLeft, inHand, forced, turns, wakerPending, chanOpen,
                 oldCounter, nfaults, ncmds, nerrs, nbare, served, dispatchLog, lastD, rer, rrWindow, pauseEffective,
                 fatalSeen, act>>

TInit == Init /\ pos = 0 /\ obs = [ev |-> "none"]
TNext == pos < Len(Rec) /\ pos' = pos + 1 /\ Bind(Rec[pos + 1])
TSpec == TInit /\ [][TNext]_tvars

Observed == obs.ev # "none"
St == obs.st

(* ---- the property predicates on observed states ---- *)
\* C01: exactly one call per connection, by the right worker's service for the right listener
Calls == St.served                        \* <<conn, worker, token>>
T_C01_ServedOnce == Observed =>
  /\ \A a, b \in 1..Len(Calls) : Calls[a][1] = Calls[b][1] => a = b
  /\ \A a \in 1..Len(Calls) :
        /\ Calls[a][1] \in 1..Len(St.listener)                        \* a known connection
        /\ Calls[a][3] = St.listener[Calls[a][1]]                     \* its listener's service
        /\ \E d \in 1..Len(St.dlog) : St.dlog[d][1] = Calls[a][1] /\ St.dlog[d][2] = Calls[a][2]
T_C01_Conservation == Observed => C01_Conservation
\* an unserved connection may be closed only because (a) the worker generation it was queued at died, (b) the accept
\* thread had no handle left when it held it, or (c) it never left the backlog and the server stopped
Accepted(c) == \E a \in 1..Len(St.accepted) : St.accepted[a] = c
Dispatched(c) == \E d \in 1..Len(St.dlog) : St.dlog[d][1] = c
T_C01_NoSilentDrop == Observed =>
  \A c \in closed :
     \/ \E a \in 1..Len(Calls) : Calls[a][1] = c                      \* served (and finished)
     \/ (Dispatched(c) /\ everFaulted)                                  \* queued at a worker that died
     \/ (Accepted(c) /\ ~Dispatched(c) /\ \E x \in 1..Len(St.droppedNoHandle) : St.droppedNoHandle[x] = c)  \* no handle was left
     \/ (~Accepted(c) /\ ~running)
     \/ obs.st.wstate[1] \in {"Shutdown", "Done"}                        \* released by a worker that is shutting down
\* C02
T_C02_Bound == Observed => C02_Bound
\* C03: at records the driver marked quiescent (it iterated the real loop until nothing changed)
T_C03_NoLostWake == (Observed /\ obs.ev = "step") => C03_Pred(obs.q)
\* C04: within any run of dispatches that were each followed by an undisturbed rotation, W consecutive
\* dispatches hit W distinct workers
DL == St.dlog                              \* <<conn, worker, clean, load of the target after the send, re-routed after a failed send, generation of the target>>
T_C04_RoundRobin == (Observed /\ ~everFaulted) =>
  \A k \in 1..(Len(DL) - W + 1) :
     (\A j \in k..(k + W - 2) : DL[j][3]) => (\A a, b \in k..(k + W - 1) : DL[a][2] = DL[b][2] => a = b)
\* a worker at its limit receives nothing until it has released a connection: right after every send the target holds at
\* most Limit connections (queued + in progress, measured at the send yield point).  Only claimed while no worker has
\* faulted (as C02): a re-routed connection may be forced onto a saturated worker and a notification queued before that
\* forced send re-arms the worker although it is full - TLC shows the overload is then unbounded in the design as well
\* the same with "while no worker is saturated" read from measurements only (not from the accept thread's own bits):
\* DL[j][7] = dispatch j belongs to a calm phase - it started at a settled state with every worker in the rotation and
\* below its limit (lemma C04_BitsTrueWhenCalm: then every bit is set) and since then, including right after send j,
\* no worker has reached its limit and no worker died or rejoined
T_C04_RoundRobinMeasured == Observed =>
  \A k \in 1..(Len(DL) - W + 1) :
     (\A j \in k..(k + W - 2) : DL[j][7]) => (\A a, b \in k..(k + W - 1) : DL[a][2] = DL[b][2] => a = b)
\* AcceptDispatch.C04_CyclicStep on the recorded dispatches: DL[k][8] = the accept thread's availability bits (by worker
\* index) right after dispatch k; every worker strictly between two consecutive targets was marked unavailable
TBetweenW(p, i) == IF i > p THEN {w \in Workers : p < w /\ w < i} ELSE {w \in Workers : w > p \/ w < i}
T_C04_SkipsOnlyUnavailable == (Observed /\ ~everFaulted) =>
  \A k \in 1..(Len(DL) - 1) :
     (Len(DL[k + 1][8]) = W) => \A w \in TBetweenW(DL[k][2], DL[k + 1][2]) : ~DL[k + 1][8][w + 1]
\* AcceptDispatch.C04_SendOnlyToMarkedStep: a connection is sent to a worker whose availability bit was set when the rotation
\* last looked (DL[k][9], measured at the turn yield point) - or to the worker in turn when no bit was set at all.  Holds
\* with faults too: a re-routed connection goes through the rotation again
T_C04_SendOnlyToMarked == Observed => \A k \in 1..Len(DL) : (Len(DL[k]) >= 9 => DL[k][9])
\* AcceptDispatch.C04_BitsTrueWhenCalm on the measured state: at a settled record (the real poll would block, nothing
\* queued for the accept thread) every live worker in the rotation whose MEASURED load is below its limit is marked
\* available - the rotation skips only workers that really are at their limit (holds with faults and commands)
T_C04_BitsTrueWhenCalm ==
  (Observed /\ obs.ev = "step" /\ obs.q /\ running /\ St.wq = <<>> /\ St.cmdq = <<>>) =>
     \A i \in Workers : (InHandles(i) /\ alive[i] /\ Load(i) < Limit /\ counter[i] <= Limit) => avail[i]
\* the rotation cursor survives every change of the handle list (a fault removes, a restart appends): two consecutive
\* connections go to the same worker only if the second was re-routed after a failed send, if fewer than two workers
\* were left in the rotation after the first, or if the rotation had to step over a worker marked unavailable
\* (DL[k][10] = handles in the rotation right after dispatch k, measured at the inc yield point; DL[k][11] = every handle
\* was marked available at the last turn of dispatch k)
T_C04_NoImmediateRepeat == Observed =>
  \A k \in 1..(Len(DL) - 1) :
     (Len(DL[k + 1]) >= 11 /\ DL[k][2] = DL[k + 1][2] /\ DL[k][6] = DL[k + 1][6] /\ ~DL[k + 1][5] /\ DL[k][10] >= 2)
        => ~DL[k + 1][11]
T_C04_SaturatedGetsNothing == Observed =>
  /\ C02_Bound
  /\ ~everFaulted => \A k \in 1..Len(DL) : DL[k][4] <= Limit
\* C01 / C07 "queued connections are served once readiness returns": a worker that is Available (every service answered
\* ready at its last poll) and has connections in its queue is owed a poll - its waker has fired.  A worker that parks
\* with a non-empty queue and no wake-up pending never serves them.
T_C07_QueuedMeansWoken == (Observed /\ obs.ev = "step") =>
  \A k \in 1..Len(St.wstate) :
     (St.alive[k] /\ St.wstate[k] = "Available" /\ St.chanLen[k] > 0 /\ Len(St.wwoken) >= k) => St.wwoken[k]
\* C05 "after the roughly 500 ms back-off": right after an iteration of the accept loop the timeout it will hand to its
\* next poll is no later than the EARLIEST pending back-off deadline (virtual clock, measured; 2 ms slack; iterations
\* during which the driver moved the clock are not judged: the loop computes its timeout before the clock moves on;
\* nor are Iter steps in which the real poll would have blocked, so that no iteration ran)
T_C05_WakesForEarliestDeadline ==
  (Observed /\ obs.ev = "step" /\ obs.do = "Iter" /\ obs.iterRan /\ ~obs.advInIter /\ St.running) =>
     \A k \in 1..Len(St.lstRemain) : St.lstRemain[k] > 0 => (St.timeoutMs >= 0 /\ St.timeoutMs <= St.lstRemain[k] + 2)
\* C05
\* (pe: the recorded iteration started paused and no Resume was queued or anchored; pausedDispatch: while the driver
\* iterated the loop to quiescence, some iteration that started paused with no Resume queued dispatched a connection)
T_C05_PausedNoDispatch == (Observed /\ obs.ev = "step") => ((obs.pe => obs.ndisp = 0) /\ ~obs.pausedDispatch)
\* "repeated or unmatched pause/resume commands are idempotent": once the loop has settled with nothing left in its queue
\* it is paused exactly when the LAST pause/resume command issued was a pause, however the commands were batched
T_C05_PausedAsCommanded ==
  (Observed /\ obs.ev = "step" /\ obs.q /\ St.running /\ St.wq = <<>> /\ obs.lastPR # "") =>
     (St.paused <=> obs.lastPR = "Pause")
T_C05_UdsReachable == Observed => (running => (~connRefused /\ \A k \in Listeners : pathOk[k]))
T_C05_ListenerLive == (Observed /\ obs.ev = "step") => C03_Pred(obs.q)
\* after the back-off every listener accepts again: once the loop has settled no listener still carries a deadline
\* that has already passed (it has been re-registered, or the deadline was dropped because the server is paused)
T_C05_BackoffExpires == (Observed /\ obs.ev = "step" /\ obs.q /\ running) => \A k \in Listeners : lstTimer[k] # 1
\* C08
T_C08_NoPanic == Observed => ~St.panicked
T_C08_NoSpin == Observed => ~St.spin
T_C08_NoGhostBit == (Observed /\ running) => C08_NoGhostBit
T_C08_NoDupHandles == Observed => C08_NoDupHandles
T_C08_FaultReportedOnce == Observed => (\A a, b \in 1..Len(St.faults) : (St.faults[a] = St.faults[b] /\ a # b) => St.everFaulted)
\* the connection whose dispatch discovered the fault is re-routed; it is dropped only when no handle is left
T_C08_Rerouted == Observed => St.droppedOther = <<>>
\* AcceptDispatch.C08_NoLostIndex on the measured state: every worker index is in the rotation, or reported to the server
\* and not yet replaced, or its replacement handle waits in the waker queue
T_C08_NoLostIndex == (Observed /\ running) =>
  \A i \in Workers : \/ (\E k1 \in 1..Len(St.handles) : St.handles[k1] = i)
                      \/ (\E k2 \in 1..Len(St.cmdq) : St.cmdq[k2] = i)
                      \/ (\E k3 \in 1..Len(St.wq) : St.wq[k3] = <<"WK", i>>)
T_C08_ServiceResumes == (Observed /\ obs.ev = "step") => C03_Pred(obs.q)

TraceAccepted ==
  LET n == TLCGet("stats").diameter - 1 IN
    /\ PrintT(<<"TRACE_MATCHED", n, Len(Rec)>>)
    /\ n = Len(Rec)
=============================================================================
