CONSTANTS
  W = 1
  Limit = 1
  L = 1
  Uds = {}
  MaxConns = 2
  MaxFaults = 1
  MaxCmds = 2
  MaxErrs = 0
  MaxBare = 0
  WakeAt = 2
  IgnoreUnknownIdx = TRUE
  UnlinkOnDeregister = FALSE
  ResumeClearsBackoff = TRUE
  IncBeforeSend = FALSE
  NoClearOnLimit = FALSE
  ResumeSkipsAcceptAll = FALSE
  BackoffNeverReregisters = FALSE
  RoundRobinStuck = FALSE
  ConnErrIsFatal = FALSE
  WakeSkipsAcceptAll = FALSE
  PauseKeepsRegistered = FALSE
  RejoinPausedNoAvail = TRUE
  ResetSeparate = TRUE
  JumpToFirstAvailable = TRUE
  ReportOnlyIfBitSet = TRUE
  ResendWithoutCheck = TRUE
  RejoinAtIndex = FALSE
  DropPausePair = FALSE
  TrackRepeat = FALSE
SPECIFICATION Spec
VIEW View
INVARIANTS C03_NoLostWake C04_BitsTrueWhenCalm
PROPERTIES Steps
CHECK_DEADLOCK FALSE
