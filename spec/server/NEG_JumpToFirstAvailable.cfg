CONSTANTS
  W = 3
  Limit = 1
  L = 1
  Uds = {}
  MaxConns = 5
  MaxFaults = 0
  MaxCmds = 0
  MaxErrs = 0
  MaxBare = 0
  WakeAt = 2
  IgnoreUnknownIdx = TRUE
  UnlinkOnDeregister = FALSE
  ResumeClearsBackoff = TRUE
  IncBeforeSend = FALSE
  NoClearOnLimit = FALSE
  ResumeSkipsAcceptAll = FALSE
  BackoffNeverReregisters = FALSE
  RoundRobinStuck = FALSE
  ConnErrIsFatal = FALSE
  WakeSkipsAcceptAll = FALSE
  PauseKeepsRegistered = FALSE
  RejoinPausedNoAvail = FALSE
  ResetSeparate = FALSE
  JumpToFirstAvailable = TRUE
  ReportOnlyIfBitSet = FALSE
  ResendWithoutCheck = FALSE
  RejoinAtIndex = FALSE
  DropPausePair = FALSE
  TrackRepeat = FALSE
SPECIFICATION Spec
VIEW View
PROPERTIES Steps
CHECK_DEADLOCK FALSE
