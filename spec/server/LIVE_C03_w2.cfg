CONSTANTS
  W = 2
  Limit = 1
  L = 1
  Uds = {}
  MaxConns = 3
  MaxFaults = 0
  MaxCmds = 0
  MaxErrs = 0
  MaxBare = 0
  WakeAt = 2
  IgnoreUnknownIdx = TRUE
  UnlinkOnDeregister = FALSE
  ResumeClearsBackoff = TRUE
  IncBeforeSend = FALSE
  NoClearOnLimit = FALSE
  ResumeSkipsAcceptAll = FALSE
  BackoffNeverReregisters = FALSE
  RoundRobinStuck = FALSE
  ConnErrIsFatal = FALSE
  WakeSkipsAcceptAll = FALSE
  PauseKeepsRegistered = FALSE
  RejoinPausedNoAvail = FALSE
  ResetSeparate = FALSE
  JumpToFirstAvailable = FALSE
  ReportOnlyIfBitSet = FALSE
  ResendWithoutCheck = FALSE
  RejoinAtIndex = FALSE
  DropPausePair = FALSE
  TrackRepeat = FALSE
SPECIFICATION FairSpec
PROPERTIES C03_Live
CHECK_DEADLOCK FALSE
