CONSTANTS
  NW = 1
  MaxLive = 1
  MaxStops = 1
  Timeout = 2
  MaxBlocks = 0
  ForcedAwaitsWorkers = FALSE
  GracefulSkipsAwait = FALSE
  CompleteBeforeJoin = TRUE
  TermIsForced = FALSE
  SecondStopHangs = FALSE
  AwaitsLastWorkerOnly = FALSE
  WakeAcceptFirst = FALSE
  MidPollIgnoresStop = FALSE
SPECIFICATION Spec
VIEW View
INVARIANTS C06_GracefulWaits C06_GracefulLetsFinish C06_NoDispatchAfterCompletion C06_SignalKinds
PROPERTIES Steps
CHECK_DEADLOCK FALSE
