CONSTANTS
  W = 3
  MaxFaults = 5
  ByPosition = TRUE
SPECIFICATION Spec
INVARIANTS H_AllLiveOnce C06_EveryWorkerHearsStop
CHECK_DEADLOCK FALSE
