CONSTANTS
  MaxN = 3
  MaxK = 2
  ReadyFromLastOnly = TRUE
SPECIFICATION Spec
INVARIANTS C06_JoinAllWaitsForAll C06_JoinAllPrompt C06_JoinAllNoRepoll
CHECK_DEADLOCK FALSE
