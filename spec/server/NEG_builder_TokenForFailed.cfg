CONSTANTS
  MaxCalls = 3
  MaxAddrs = 3
  MaxEvents = 3
  MaxSockets = 4
  MaxWorkers = 2
  TokenPerCall = FALSE
  TokenForFailed = TRUE
  UdsKeepsToken = FALSE
  ServeWhilePending = FALSE
  StopServesQueued = FALSE
SPECIFICATION Spec
INVARIANTS B_TokensArePositions C01_OwnListenersService B_NoPanic B_SvcOwner
CHECK_DEADLOCK FALSE
