CONSTANTS
  Limit = 3
  WakeAt = 1
SPECIFICATION Spec
INVARIANTS IndInv C02_Bound C03_NoLostWake
CHECK_DEADLOCK FALSE
