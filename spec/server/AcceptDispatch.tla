--------------------------- MODULE AcceptDispatch ---------------------------
(* actix-server: the accept thread (Accept::poll_with), the waker queue, the per-worker counters,  *)
(* the accept thread's cached availability bits, the workers' queue ends, listeners registered in  *)
(* an edge-triggered poller, pause/resume/stop, accept errors with back-off, worker faults and     *)
(* replacement.  Properties C01, C02, C03, C04 (first half), C05, C08.                             *)
(*                                                                                                 *)
(* Granularity: one action per shared-memory access of the accept thread (poll, waker-queue pop,   *)
(* accept(2), channel send, counter increment) so that worker/client/server steps can fall between *)
(* any two of them; accept-thread-private steps are folded into the preceding shared access.        *)
(* Workers are abstracted to "drains its queue into service calls" (their own state machine is in  *)
(* Worker.tla).  Time is abstract: a back-off deadline is "future" (2) or "passed" (1).             *)
EXTENDS Integers, Sequences, FiniteSets, TLC, Json

CONSTANTS W,            \* workers 0..W-1
          Limit,        \* max_concurrent_connections
          L,            \* listeners 1..L
          Uds,          \* set of listeners that are Unix-domain sockets
          MaxConns, MaxFaults, MaxCmds, MaxErrs, MaxBare,
          \* ---- variants (design value first) ----
          WakeAt,               \* Limit + 1 : guard drop wakes when the old counter value equals this
          IgnoreUnknownIdx,     \* TRUE  : WorkerAvailable(i) for an idx without handle is ignored
          UnlinkOnDeregister,   \* FALSE : deregistering a UDS listener removes its path
          ResumeClearsBackoff,  \* TRUE  : Resume drops the back-off deadline of the listeners it registers
          IncBeforeSend,        \* FALSE (NEG) counter incremented before the send
          NoClearOnLimit,       \* FALSE (NEG) bit not cleared when the limit is hit
          ResumeSkipsAcceptAll, \* FALSE (NEG)
          BackoffNeverReregisters, \* FALSE (NEG)
          RoundRobinStuck,      \* FALSE (NEG) next not advanced after a dispatch
          ConnErrIsFatal,       \* FALSE (NEG) aborted/reset/refused treated like EMFILE
          WakeSkipsAcceptAll,   \* FALSE (NEG) WorkerAvailable only sets the bit
          PauseKeepsRegistered, \* FALSE (NEG)
          ResendWithoutCheck,   \* FALSE (NEG) after a failed send the connection goes straight to the handle swapped into the slot
          ReportOnlyIfBitSet,   \* FALSE (NEG) a removed handle is reported to the server only if its availability bit was still set
          JumpToFirstAvailable, \* FALSE (NEG) a saturated worker is skipped by jumping to the LOWEST available slot
          ResetSeparate,        \* FALSE (NEG) the waker queue is reset in a critical section of its own, after the empty pop
          RejoinPausedNoAvail,  \* FALSE (NEG) a replacement handle that arrives during a pause is stored but not marked available
          RejoinAtIndex,        \* FALSE (NEG) a replacement handle is inserted at its index position; the cursor is not adjusted
          DropPausePair,        \* FALSE (NEG) a Pause with a Resume queued right behind it is dropped as a pair, paused or not
          TrackRepeat           \* FALSE : TRUE makes the ghosts lastD / rer follow the dispatches (C04_NoImmediateRepeatStep)

Workers   == 0..(W - 1)
Listeners == 1..L

VARIABLES
  \* kernel / poller
  backlog, registered, edge, pathOk, errq,
  \* back-off timers: 0 none, 2 deadline in the future, 1 deadline passed
  lstTimer, timeoutSet,
  \* accept thread private state
  paused, running, handles, next, avail,
  apc, batch, ret, cur, tokLeft, inHand, forced, turns,
  \* shared with workers / server
  wq, wakerPending, chan, chanOpen, counter, inprog, alive, oldInprog, oldCounter, cmdq,
  \* bounds
  nconn, nfaults, ncmds, nerrs, nbare,
  \* ghosts (excluded from the VIEW)
  served, closed, dispatchLog, lastD, rer, rrWindow, everFaulted, pauseEffective, connRefused, fatalSeen, act

sysvars == <<backlog, registered, edge, pathOk, errq, lstTimer, timeoutSet, paused, running, handles,
             next, avail, apc, batch, ret, cur, tokLeft, inHand, forced, turns, wq, wakerPending, chan,
             chanOpen, counter, inprog, alive, oldInprog, oldCounter, cmdq, nconn, nfaults, ncmds,
             nerrs, nbare>>
ghosts  == <<served, closed, dispatchLog, lastD, rer, rrWindow, everFaulted, pauseEffective, connRefused, fatalSeen, act>>
vars    == <<sysvars, ghosts>>
\* pauseEffective, everFaulted and rrWindow influence property evaluation only; rrWindow is bounded
View    == <<sysvars, pauseEffective, everFaulted, rrWindow, fatalSeen, lastD, rer>>

Range(s) == {s[k] : k \in 1..Len(s)}
SeqOf(S) == CHOOSE s \in [1..Cardinality(S) -> S] : Range(s) = S   \* some fixed order (only for 1..L)
AllListeners == [k \in 1..L |-> k]
AnyAvail == \E i \in Workers : avail[i]
InHandles(i) == \E k \in 1..Len(handles) : handles[k] = i
Load(i) == Len(chan[i]) + Cardinality(inprog[i])
A(n) == [n |-> n, l |-> 0, i |-> 0, c |-> 0, x |-> ""]

Init ==
  /\ backlog = [l \in Listeners |-> <<>>] /\ registered = [l \in Listeners |-> TRUE]
  /\ edge = [l \in Listeners |-> FALSE] /\ pathOk = [l \in Listeners |-> TRUE]
  /\ errq = [l \in Listeners |-> <<>>]
  /\ lstTimer = [l \in Listeners |-> 0] /\ timeoutSet = FALSE
  /\ paused = FALSE /\ running = TRUE
  /\ handles = [k \in 1..W |-> k - 1] /\ next = 0 /\ avail = [i \in Workers |-> TRUE]
  /\ apc = "idle" /\ batch = <<>> /\ ret = "batch" /\ cur = 0 /\ tokLeft = <<>> /\ inHand = 0
  /\ forced = FALSE /\ turns = 0
  /\ wq = <<>> /\ wakerPending = FALSE
  /\ chan = [i \in Workers |-> <<>>] /\ chanOpen = [i \in Workers |-> TRUE]
  /\ counter = [i \in Workers |-> 1] /\ inprog = [i \in Workers |-> {}]
  /\ alive = [i \in Workers |-> TRUE]
  /\ oldInprog = [i \in Workers |-> {}] /\ oldCounter = [i \in Workers |-> 1]
  /\ cmdq = <<>>
  /\ nconn = 0 /\ nfaults = 0 /\ ncmds = 0 /\ nerrs = 0 /\ nbare = 0
  /\ served = [c \in {} |-> 0] /\ closed = {} /\ dispatchLog = <<>> /\ lastD = <<>> /\ rer = FALSE /\ rrWindow = <<>>
  /\ everFaulted = FALSE /\ pauseEffective = FALSE /\ connRefused = FALSE
  /\ fatalSeen = [l \in Listeners |-> FALSE]
  /\ act = A("Init")

(* ------------------------------------------------------------------------------------------- *)
(* helpers for the poller                                                                        *)
(* ------------------------------------------------------------------------------------------- *)
\* registering a listener that is not registered yields an event iff connections are pending;
\* registering a registered one fails (EEXIST) and changes nothing
RegisterSet(S) ==
  /\ registered' = [l \in Listeners |-> IF l \in S THEN TRUE ELSE registered[l]]
  /\ edge' = [l \in Listeners |-> IF l \in S /\ ~registered[l] THEN backlog[l] # <<>> ELSE edge[l]]
DeregisterSet(S) ==
  /\ registered' = [l \in Listeners |-> IF l \in S THEN FALSE ELSE registered[l]]
  /\ edge' = [l \in Listeners |-> IF l \in S THEN FALSE ELSE edge[l]]
  /\ pathOk' = [l \in Listeners |-> IF l \in S /\ l \in Uds /\ UnlinkOnDeregister THEN FALSE ELSE pathOk[l]]

\* where control goes when accept(cur) returns
AfterAcceptApc == IF tokLeft = <<>> THEN ret ELSE "acc"
AfterAcceptCur == IF tokLeft = <<>> THEN 0 ELSE Head(tokLeft)
AfterAcceptTok == IF tokLeft = <<>> THEN <<>> ELSE Tail(tokLeft)
ReturnFromAccept == /\ apc' = AfterAcceptApc /\ cur' = AfterAcceptCur /\ tokLeft' = AfterAcceptTok

\* enter accept_all (from the waker handler): visit every listener in order
EnterAcceptAll == /\ ret' = "pop" /\ apc' = "acc" /\ cur' = 1 /\ tokLeft' = Tail(AllListeners)

(* ------------------------------------------------------------------------------------------- *)
(* environment: clients, workers, server, clock                                                  *)
(* ------------------------------------------------------------------------------------------- *)
UNCH_ACCEPT == UNCHANGED <<paused, running, handles, next, avail, apc, batch, ret, cur, tokLeft, inHand, forced, turns>>
UNCH_BOUNDS(S) == UNCHANGED S

Connect(l) ==
  /\ nconn < MaxConns /\ nconn' = nconn + 1
  /\ IF pathOk[l]
       THEN /\ backlog' = [backlog EXCEPT ![l] = Append(@, nconn + 1)]
            /\ edge' = [edge EXCEPT ![l] = @ \/ registered[l]]
            /\ UNCHANGED connRefused
       ELSE /\ connRefused' = TRUE /\ UNCHANGED <<backlog, edge>>
  /\ act' = [A("Connect") EXCEPT !.l = l, !.c = nconn + 1]
  /\ UNCH_ACCEPT
  /\ UNCHANGED <<registered, pathOk, errq, lstTimer, timeoutSet, wq, wakerPending, chan, chanOpen, counter,
                 inprog, alive, oldInprog, oldCounter, cmdq, nfaults, ncmds, nerrs, nbare, served, closed,
                 dispatchLog, lastD, rer, rrWindow, everFaulted, pauseEffective, fatalSeen>>

\* one poll of a ready worker: it drains its queue into service calls
WorkerPoll(i) ==
  /\ alive[i] /\ chan[i] # <<>>
  /\ inprog' = [inprog EXCEPT ![i] = @ \cup Range(chan[i])]
  /\ served' = [c \in DOMAIN served \cup Range(chan[i]) |-> IF c \in Range(chan[i]) THEN i ELSE served[c]]
  /\ chan' = [chan EXCEPT ![i] = <<>>]
  /\ act' = [A("WorkerPoll") EXCEPT !.i = i]
  /\ UNCH_ACCEPT
  /\ UNCHANGED <<backlog, registered, edge, pathOk, errq, lstTimer, timeoutSet, wq, wakerPending, chanOpen,
                 counter, alive, oldInprog, oldCounter, cmdq, nconn, nfaults, ncmds, nerrs, nbare, closed,
                 dispatchLog, lastD, rer, rrWindow, everFaulted, pauseEffective, connRefused, fatalSeen>>

\* a connection finishes: its guard drops (fetch_sub; old value = WakeAt pushes WorkerAvailable)
Finish(i, c) ==
  /\ alive[i] /\ c \in inprog[i]
  /\ inprog' = [inprog EXCEPT ![i] = @ \ {c}]
  /\ counter' = [counter EXCEPT ![i] = @ - 1]
  /\ IF counter[i] = WakeAt
       THEN wq' = Append(wq, <<"WA", i>>) /\ wakerPending' = TRUE
       ELSE UNCHANGED <<wq, wakerPending>>
  /\ closed' = closed \cup {c}
  /\ rrWindow' = rrWindow
  /\ act' = [A("Finish") EXCEPT !.i = i, !.c = c]
  /\ UNCH_ACCEPT
  /\ UNCHANGED <<backlog, registered, edge, pathOk, errq, lstTimer, timeoutSet, chan, chanOpen, alive,
                 oldInprog, oldCounter, cmdq, nconn, nfaults, ncmds, nerrs, nbare, served, dispatchLog, lastD, rer,
                 everFaulted, pauseEffective, connRefused, fatalSeen>>

\* a worker dies: its queue end closes (queued connections are closed), its in-progress connections
\* become the dead generation's outstanding guards
Kill(i) ==
  /\ alive[i] /\ nfaults < MaxFaults /\ oldInprog[i] = {}
  /\ nfaults' = nfaults + 1
  /\ alive' = [alive EXCEPT ![i] = FALSE] /\ chanOpen' = [chanOpen EXCEPT ![i] = FALSE]
  /\ closed' = closed \cup Range(chan[i])
  /\ chan' = [chan EXCEPT ![i] = <<>>]
  /\ oldInprog' = [oldInprog EXCEPT ![i] = inprog[i]] /\ oldCounter' = [oldCounter EXCEPT ![i] = counter[i]]
  /\ inprog' = [inprog EXCEPT ![i] = {}]
  /\ everFaulted' = TRUE /\ rrWindow' = <<>>
  /\ act' = [A("Kill") EXCEPT !.i = i]
  /\ UNCH_ACCEPT
  /\ UNCHANGED <<backlog, registered, edge, pathOk, errq, lstTimer, timeoutSet, wq, wakerPending, counter,
                 cmdq, nconn, ncmds, nerrs, nbare, served, dispatchLog, lastD, rer, pauseEffective, connRefused, fatalSeen>>

\* an outstanding guard of a dead generation drops (possibly pushing a late WorkerAvailable)
TearDown(i, c) ==
  /\ c \in oldInprog[i]
  /\ oldInprog' = [oldInprog EXCEPT ![i] = @ \ {c}]
  /\ oldCounter' = [oldCounter EXCEPT ![i] = @ - 1]
  /\ IF oldCounter[i] = WakeAt
       THEN wq' = Append(wq, <<"WA", i>>) /\ wakerPending' = TRUE
       ELSE UNCHANGED <<wq, wakerPending>>
  /\ closed' = closed \cup {c}
  /\ act' = [A("TearDown") EXCEPT !.i = i, !.c = c]
  /\ UNCH_ACCEPT
  /\ UNCHANGED <<backlog, registered, edge, pathOk, errq, lstTimer, timeoutSet, chan, chanOpen, counter,
                 inprog, alive, cmdq, nconn, nfaults, ncmds, nerrs, nbare, served, dispatchLog, lastD, rer, rrWindow,
                 everFaulted, pauseEffective, connRefused, fatalSeen>>

\* the server handles WorkerFaulted(i): fresh generation, new handle pushed to the accept thread
Replace ==
  /\ cmdq # <<>>
  /\ LET i == Head(cmdq) IN
       /\ cmdq' = Tail(cmdq)
       /\ alive' = [alive EXCEPT ![i] = TRUE] /\ chanOpen' = [chanOpen EXCEPT ![i] = TRUE]
       /\ counter' = [counter EXCEPT ![i] = 1]
       /\ wq' = Append(wq, <<"WK", i>>) /\ wakerPending' = TRUE
       /\ act' = [A("Replace") EXCEPT !.i = i]
  /\ UNCH_ACCEPT
  /\ UNCHANGED <<backlog, registered, edge, pathOk, errq, lstTimer, timeoutSet, chan, inprog, oldInprog,
                 oldCounter, nconn, nfaults, ncmds, nerrs, nbare, served, closed, dispatchLog, lastD, rer, rrWindow,
                 everFaulted, pauseEffective, connRefused, fatalSeen>>

Cmd(x) ==
  /\ ncmds < MaxCmds /\ ncmds' = ncmds + 1 /\ running
  /\ wq' = Append(wq, <<x, 0>>) /\ wakerPending' = TRUE
  /\ act' = [A("Cmd") EXCEPT !.x = x]
  /\ UNCH_ACCEPT
  /\ UNCHANGED <<backlog, registered, edge, pathOk, errq, lstTimer, timeoutSet, chan, chanOpen, counter,
                 inprog, alive, oldInprog, oldCounter, cmdq, nconn, nfaults, nerrs, nbare, served, closed,
                 dispatchLog, lastD, rer, rrWindow, everFaulted, pauseEffective, connRefused, fatalSeen>>

\* a spurious wake of the poller (the stepped driver fires one before every iteration)
BareWake ==
  /\ nbare < MaxBare /\ nbare' = nbare + 1 /\ ~wakerPending /\ wakerPending' = TRUE
  /\ act' = A("BareWake")
  /\ UNCH_ACCEPT
  /\ UNCHANGED <<backlog, registered, edge, pathOk, errq, lstTimer, timeoutSet, wq, chan, chanOpen, counter,
                 inprog, alive, oldInprog, oldCounter, cmdq, nconn, nfaults, ncmds, nerrs, served, closed,
                 dispatchLog, lastD, rer, rrWindow, everFaulted, pauseEffective, connRefused, fatalSeen>>

\* the next accept(2) on listener l fails: "conn" = aborted/reset/refused, "fatal" = EMFILE and the like
InjectErr(l, kind) ==
  /\ nerrs < MaxErrs /\ nerrs' = nerrs + 1
  /\ errq' = [errq EXCEPT ![l] = Append(@, kind)]
  /\ act' = [A("InjectErr") EXCEPT !.l = l, !.x = kind]
  /\ UNCH_ACCEPT
  /\ UNCHANGED <<backlog, registered, edge, pathOk, lstTimer, timeoutSet, wq, wakerPending, chan, chanOpen,
                 counter, inprog, alive, oldInprog, oldCounter, cmdq, nconn, nfaults, ncmds, nbare, served,
                 closed, dispatchLog, lastD, rer, rrWindow, everFaulted, pauseEffective, connRefused, fatalSeen>>

\* the back-off deadline of listener l passes
Tick(l) ==
  /\ lstTimer[l] = 2 /\ lstTimer' = [lstTimer EXCEPT ![l] = 1]
  /\ act' = [A("Tick") EXCEPT !.l = l]
  /\ UNCH_ACCEPT
  /\ UNCHANGED <<backlog, registered, edge, pathOk, errq, timeoutSet, wq, wakerPending, chan, chanOpen,
                 counter, inprog, alive, oldInprog, oldCounter, cmdq, nconn, nfaults, ncmds, nerrs, nbare,
                 served, closed, dispatchLog, lastD, rer, rrWindow, everFaulted, pauseEffective, connRefused, fatalSeen>>

(* ------------------------------------------------------------------------------------------- *)
(* the accept thread                                                                             *)
(* ------------------------------------------------------------------------------------------- *)
UNCH_ENV == UNCHANGED <<nconn, nfaults, ncmds, nerrs, nbare, connRefused>>

\* poll returns: the waker token if pending and every registered listener with a pending edge, in any order;
\* or it times out when a back-off deadline has passed
Perms(S) == {s \in [1..Cardinality(S) -> S] : Range(s) = S}
APoll ==
  /\ apc = "idle" /\ running
  /\ LET ev == (IF wakerPending THEN {0} ELSE {}) \cup {l \in Listeners : registered[l] /\ edge[l]} IN
       /\ (ev # {} \/ (timeoutSet /\ \E l \in Listeners : lstTimer[l] = 1))
       /\ \E b \in Perms(ev) : batch' = b
  /\ wakerPending' = FALSE
  /\ edge' = [l \in Listeners |-> IF registered[l] THEN FALSE ELSE edge[l]]
  /\ apc' = "batch"
  /\ act' = [A("APoll") EXCEPT !.c = Len(batch')]
  /\ UNCH_ENV
  /\ UNCHANGED <<backlog, registered, pathOk, errq, lstTimer, timeoutSet, paused, running, handles, next,
                 avail, ret, cur, tokLeft, inHand, forced, turns, wq, chan, chanOpen, counter, inprog, alive,
                 oldInprog, oldCounter, cmdq, served, closed, dispatchLog, lastD, rer, rrWindow, everFaulted,
                 pauseEffective, fatalSeen>>

\* next event of the batch: waker -> handle_waker loop; listener -> accept(l); none left -> process_timeout
ABatch ==
  /\ apc = "batch"
  /\ IF batch = <<>>
       THEN apc' = "tmo" /\ UNCHANGED <<batch, ret, cur, tokLeft>>
       ELSE /\ batch' = Tail(batch)
            /\ IF Head(batch) = 0
                 THEN apc' = "pop" /\ UNCHANGED <<ret, cur, tokLeft>>
                 ELSE apc' = "acc" /\ ret' = "batch" /\ cur' = Head(batch) /\ tokLeft' = <<>>
  /\ act' = A("ABatch")
  /\ UNCH_ENV
  /\ UNCHANGED <<backlog, registered, edge, pathOk, errq, lstTimer, timeoutSet, paused, running, handles,
                 next, avail, inHand, forced, turns, wq, wakerPending, chan, chanOpen, counter, inprog, alive,
                 oldInprog, oldCounter, cmdq, served, closed, dispatchLog, lastD, rer, rrWindow, everFaulted,
                 pauseEffective, fatalSeen>>

\* NEG ResetSeparate only: WakerQueue::reset replaces the queue's storage - taken under a second guard it throws away
\* whatever was pushed since the empty pop
AReset ==
  /\ apc = "reset"
  /\ wq' = <<>> /\ apc' = "batch"
  /\ act' = A("AReset")
  /\ UNCH_ENV
  /\ UNCHANGED <<backlog, registered, edge, pathOk, errq, lstTimer, timeoutSet, paused, running, handles,
                 next, avail, batch, ret, cur, tokLeft, inHand, forced, turns, wakerPending, chan, chanOpen, counter,
                 inprog, alive, oldInprog, oldCounter, cmdq, served, closed, dispatchLog, lastD, rer, rrWindow, everFaulted,
                 pauseEffective, fatalSeen>>

\* one pop of the waker queue (under its mutex) and the accept-thread-private reaction to it
\* (variant RejoinAtIndex) the handle goes in front of the first handle with a larger worker index
InsertByIdx(h, i) == LET later == {k \in 1..Len(h) : h[k] > i}
                         pos == IF later = {} THEN Len(h) + 1 ELSE CHOOSE k \in later : \A j \in later : k <= j IN
                       SubSeq(h, 1, pos - 1) \o <<i>> \o SubSeq(h, pos, Len(h))
\* (variant DropPausePair) the head of the queue is a Pause with a Resume right behind it
PairAtHead == DropPausePair /\ Len(wq) >= 2 /\ wq[1][1] = "Pause" /\ wq[2][1] = "Resume"
APop ==
  /\ apc = "pop"
  /\ IF wq = <<>>
       THEN \* drained: reset the queue (under the same guard as the empty pop), back to the event loop
            /\ apc' = (IF ResetSeparate THEN "reset" ELSE "batch")
            /\ UNCHANGED <<wq, avail, handles, paused, running, registered, edge, pathOk, lstTimer, ret, cur,
                           tokLeft, pauseEffective>>
            /\ act' = [A("APop") EXCEPT !.x = "none"]
       ELSE LET m == Head(wq) IN
            /\ wq' = (IF PairAtHead THEN Tail(Tail(wq)) ELSE Tail(wq))
            /\ act' = [A("APop") EXCEPT !.x = m[1], !.i = m[2]]
            /\ CASE m[1] = "WA" ->
                      /\ avail' = (IF IgnoreUnknownIdx /\ ~InHandles(m[2]) THEN avail
                                   ELSE [avail EXCEPT ![m[2]] = TRUE])
                      /\ IF paused \/ WakeSkipsAcceptAll
                           THEN UNCHANGED <<apc, ret, cur, tokLeft>> ELSE EnterAcceptAll
                      /\ UNCHANGED <<handles, paused, running, registered, edge, pathOk, lstTimer, pauseEffective>>
                 [] m[1] = "WK" ->
                      /\ avail' = (IF RejoinPausedNoAvail /\ paused THEN avail ELSE [avail EXCEPT ![m[2]] = TRUE])
                      /\ handles' = (IF RejoinAtIndex THEN InsertByIdx(handles, m[2]) ELSE Append(handles, m[2]))
                      /\ IF paused THEN UNCHANGED <<apc, ret, cur, tokLeft>> ELSE EnterAcceptAll
                      /\ UNCHANGED <<paused, running, registered, edge, pathOk, lstTimer, pauseEffective>>
                 [] m[1] = "Pause" ->
                      /\ IF ~paused /\ ~PairAtHead
                           THEN /\ paused' = TRUE
                                \* listeners in back-off are skipped and lose their deadline
                                /\ IF PauseKeepsRegistered
                                     THEN UNCHANGED <<registered, edge, pathOk>>
                                     ELSE DeregisterSet({l \in Listeners : lstTimer[l] = 0})
                                /\ lstTimer' = [l \in Listeners |-> 0]
                           ELSE UNCHANGED <<paused, registered, edge, pathOk, lstTimer>>
                      /\ UNCHANGED <<avail, handles, running, apc, ret, cur, tokLeft, pauseEffective>>
                 [] m[1] = "Resume" ->
                      /\ IF paused
                           THEN /\ paused' = FALSE /\ pauseEffective' = FALSE
                                /\ RegisterSet(Listeners)
                                \* a listener registered here must not keep a back-off deadline: the next
                                \* Pause skips listeners with a deadline ("already deregistered")
                                /\ lstTimer' = (IF ResumeClearsBackoff THEN [l \in Listeners |-> 0] ELSE lstTimer)
                                /\ IF ResumeSkipsAcceptAll THEN UNCHANGED <<apc, ret, cur, tokLeft>>
                                   ELSE EnterAcceptAll
                           ELSE UNCHANGED <<paused, pauseEffective, registered, edge, lstTimer, apc, ret, cur, tokLeft>>
                      /\ UNCHANGED <<avail, handles, running, pathOk>>
                 [] m[1] = "Stop" ->
                      /\ IF ~paused
                           THEN /\ registered' = [l \in Listeners |-> IF lstTimer[l] = 0 THEN FALSE ELSE registered[l]]
                                /\ edge' = [l \in Listeners |-> IF lstTimer[l] = 0 THEN FALSE ELSE edge[l]]
                                /\ lstTimer' = [l \in Listeners |-> 0]
                           ELSE UNCHANGED <<registered, edge, lstTimer>>
                      \* the listeners are not used any more: cleanup() removes the Unix socket files
                      /\ pathOk' = [l \in Listeners |-> IF l \in Uds THEN FALSE ELSE pathOk[l]]
                      /\ running' = FALSE /\ apc' = "exited"
                      /\ UNCHANGED <<avail, handles, paused, ret, cur, tokLeft, pauseEffective>>
  /\ rrWindow' = (IF wq # <<>> /\ Head(wq)[1] = "WK" THEN <<>> ELSE rrWindow)   \* a rejoin restarts the window
  /\ UNCH_ENV
  /\ UNCHANGED <<backlog, errq, timeoutSet, next, batch, inHand, forced, turns, wakerPending, chan, chanOpen,
                 counter, inprog, alive, oldInprog, oldCounter, cmdq, served, closed, dispatchLog, lastD, rer,
                 everFaulted, fatalSeen>>

\* the loop head of accept(cur): while any worker is available call accept(2)
AAcceptSys ==
  /\ apc = "acc"
  /\ IF ~AnyAvail
       THEN /\ ReturnFromAccept
            /\ act' = [A("AAcceptSys") EXCEPT !.l = cur, !.x = "noavail"]
            /\ UNCHANGED <<backlog, errq, registered, edge, pathOk, lstTimer, timeoutSet, inHand, turns, fatalSeen>>
       ELSE IF errq[cur] # <<>>
       THEN /\ errq' = [errq EXCEPT ![cur] = Tail(@)]
            /\ IF Head(errq[cur]) = "conn" /\ ~ConnErrIsFatal
                 THEN \* per-connection error: try again at once
                      /\ act' = [A("AAcceptSys") EXCEPT !.l = cur, !.x = "connerr"]
                      /\ UNCHANGED <<apc, cur, tokLeft, registered, edge, pathOk, lstTimer, timeoutSet, fatalSeen>>
                 ELSE \* deregister, 500 ms back-off, poll timeout
                      /\ DeregisterSet({cur})
                      /\ lstTimer' = [lstTimer EXCEPT ![cur] = 2] /\ timeoutSet' = TRUE
                      /\ fatalSeen' = [fatalSeen EXCEPT ![cur] = Head(errq[cur]) = "fatal"]
                      /\ ReturnFromAccept
                      /\ act' = [A("AAcceptSys") EXCEPT !.l = cur, !.x = "fatal"]
            /\ UNCHANGED <<backlog, inHand, turns>>
       ELSE IF backlog[cur] = <<>>
       THEN /\ ReturnFromAccept
            /\ act' = [A("AAcceptSys") EXCEPT !.l = cur, !.x = "wouldblock"]
            /\ UNCHANGED <<backlog, errq, registered, edge, pathOk, lstTimer, timeoutSet, inHand, turns, fatalSeen>>
       ELSE /\ inHand' = Head(backlog[cur]) /\ backlog' = [backlog EXCEPT ![cur] = Tail(@)]
            \* a pending readiness notification is re-checked by the poller when it is about to be delivered: it is
            \* void once the backlog has been emptied (by an accept pass that was started by a waker event)
            /\ edge' = [edge EXCEPT ![cur] = @ /\ Tail(backlog[cur]) # <<>>]
            /\ turns' = 0 /\ apc' = "one"
            /\ act' = [A("AAcceptSys") EXCEPT !.l = cur, !.x = "conn", !.c = Head(backlog[cur])]
            /\ UNCHANGED <<errq, registered, pathOk, lstTimer, timeoutSet, cur, tokLeft, fatalSeen>>
  /\ UNCH_ENV
  /\ UNCHANGED <<paused, running, handles, next, avail, batch, ret, forced, wq, wakerPending, chan, chanOpen,
                 counter, inprog, alive, oldInprog, oldCounter, cmdq, served, closed, dispatchLog, lastD, rer, rrWindow,
                 everFaulted, pauseEffective>>

\* one turn of the accept_one loop (accept-thread private)
AChoose ==
  /\ apc = "one"
  /\ IF next >= Len(handles)
       THEN apc' = "panicked" /\ UNCHANGED <<avail, next, turns, forced>>
       ELSE LET idx == handles[next + 1] IN
            IF avail[idx]
              THEN apc' = "send" /\ forced' = FALSE /\ UNCHANGED <<avail, next, turns>>
              ELSE /\ next' = (IF JumpToFirstAvailable /\ AnyAvail
                                THEN (CHOOSE p \in 0..(Len(handles) - 1) : avail[handles[p + 1]] /\
                                         \A q \in 0..(Len(handles) - 1) : avail[handles[q + 1]] => p <= q)
                                ELSE (next + 1) % Len(handles))
                   /\ turns' = turns + 1
                   /\ UNCHANGED avail
                   /\ IF ~AnyAvail THEN apc' = "send" /\ forced' = TRUE
                      ELSE UNCHANGED <<apc, forced>>
  /\ act' = A("AChoose")
  /\ UNCH_ENV
  /\ UNCHANGED <<backlog, registered, edge, pathOk, errq, lstTimer, timeoutSet, paused, running, handles,
                 batch, ret, cur, tokLeft, inHand, wq, wakerPending, chan, chanOpen, counter, inprog, alive,
                 oldInprog, oldCounter, cmdq, served, closed, dispatchLog, lastD, rer, rrWindow, everFaulted,
                 pauseEffective, fatalSeen>>

\* channel send to handles[next]
RemoveNext == [k \in 1..(Len(handles) - 1) |-> IF k = next + 1 THEN handles[Len(handles)] ELSE handles[k]]
ASend ==
  /\ apc = "send"
  /\ IF next >= Len(handles)
       THEN /\ apc' = "panicked"
            /\ act' = A("ASend")
            /\ UNCHANGED <<chan, counter, dispatchLog, lastD, rer, rrWindow, handles, cmdq, avail, next, inHand, closed, cur, tokLeft>>
       ELSE LET i == handles[next + 1] IN
            IF chanOpen[i]
              THEN /\ chan' = [chan EXCEPT ![i] = Append(@, inHand)]
                   /\ counter' = (IF IncBeforeSend THEN [counter EXCEPT ![i] = @ + 1] ELSE counter)
                   /\ dispatchLog' = Append(dispatchLog, <<inHand, i>>)
                   /\ lastD' = (IF TrackRepeat THEN <<i, Len(handles)>> ELSE lastD) /\ rer' = FALSE
                   /\ rrWindow' = (IF Len(rrWindow) >= W THEN Tail(rrWindow) ELSE rrWindow) \o <<i>>
                   /\ apc' = "inc"
                   /\ act' = [A("ASend") EXCEPT !.i = i, !.c = inHand, !.x = "ok"]
                   /\ inHand' = 0
                   /\ UNCHANGED <<handles, cmdq, avail, next, closed, cur, tokLeft>>
              ELSE \* the worker is gone: remove the handle, report the fault, keep the connection
                   /\ handles' = RemoveNext
                   /\ cmdq' = (IF ReportOnlyIfBitSet /\ ~avail[i] THEN cmdq ELSE Append(cmdq, i))
                   /\ avail' = [avail EXCEPT ![i] = FALSE]
                   /\ act' = [A("ASend") EXCEPT !.i = i, !.c = inHand, !.x = "closed"]
                   /\ IF Len(handles) = 1
                        THEN \* no worker left: the connection is dropped
                             /\ closed' = closed \cup {inHand} /\ inHand' = 0
                             /\ apc' = "acc" /\ UNCHANGED <<next, cur, tokLeft>>
                        ELSE /\ next' = (IF Len(handles) - 1 <= next THEN 0 ELSE next)
                             /\ apc' = (IF forced \/ ResendWithoutCheck THEN "send" ELSE "one")
                             /\ UNCHANGED <<inHand, closed, cur, tokLeft>>
                   /\ rrWindow' = <<>>
                   /\ rer' = (TrackRepeat /\ Len(handles) > 1) /\ UNCHANGED <<chan, counter, dispatchLog, lastD>>
  /\ UNCH_ENV
  /\ UNCHANGED <<backlog, registered, edge, pathOk, errq, lstTimer, timeoutSet, paused, running, batch, ret,
                 forced, turns, wq, wakerPending, chanOpen, inprog, alive, oldInprog, oldCounter, served,
                 everFaulted, pauseEffective, fatalSeen>>

\* counter increment (fetch_add; old value = Limit clears the bit), then advance the rotation
AInc ==
  /\ apc = "inc"
  /\ LET i == handles[next + 1]
         \* the handle's counter: the worker may have died between the send and this increment (its replacement gets
         \* a fresh counter; the handle still points to the dead generation's)
         cval == IF alive[i] THEN counter[i] ELSE oldCounter[i]
         old == IF IncBeforeSend THEN cval - 1 ELSE cval IN
       /\ counter' = (IF IncBeforeSend \/ ~alive[i] THEN counter ELSE [counter EXCEPT ![i] = @ + 1])
       /\ oldCounter' = (IF IncBeforeSend \/ alive[i] THEN oldCounter ELSE [oldCounter EXCEPT ![i] = @ + 1])
       /\ avail' = (IF old = Limit /\ ~NoClearOnLimit THEN [avail EXCEPT ![i] = FALSE] ELSE avail)
       /\ act' = [A("AInc") EXCEPT !.i = i]
  /\ next' = (IF RoundRobinStuck THEN next ELSE (next + 1) % Len(handles))
  /\ apc' = "acc"
  /\ \* a saturated or stale-unavailable worker disturbs the rotation: the round-robin window restarts
     rrWindow' = (IF \E j \in Workers : InHandles(j) /\ (~avail'[j] \/ Load(j) >= Limit) THEN <<>> ELSE rrWindow)
  /\ UNCH_ENV
  /\ UNCHANGED <<backlog, registered, edge, pathOk, errq, lstTimer, timeoutSet, paused, running, handles,
                 batch, ret, cur, tokLeft, inHand, forced, turns, wq, wakerPending, chan, chanOpen, inprog, alive,
                 oldInprog, cmdq, served, closed, dispatchLog, lastD, rer, everFaulted, pauseEffective, fatalSeen>>

\* process_timeout at the end of every loop iteration
ATimeout ==
  /\ apc = "tmo"
  /\ IF timeoutSet
       THEN LET due == {l \in Listeners : lstTimer[l] = 1} IN
            /\ timeoutSet' = (\E l \in Listeners : lstTimer[l] = 2)
            /\ lstTimer' = [l \in Listeners |-> IF lstTimer[l] = 1 THEN 0 ELSE lstTimer[l]]
            /\ IF paused \/ BackoffNeverReregisters THEN UNCHANGED <<registered, edge>> ELSE RegisterSet(due)
       ELSE UNCHANGED <<timeoutSet, lstTimer, registered, edge>>
  /\ apc' = "idle"
  /\ pauseEffective' = paused
  /\ act' = A("ATimeout")
  /\ UNCH_ENV
  /\ UNCHANGED <<backlog, pathOk, errq, paused, running, handles, next, avail, batch, ret, cur, tokLeft, inHand,
                 forced, turns, wq, wakerPending, chan, chanOpen, counter, inprog, alive, oldInprog,
                 oldCounter, cmdq, served, closed, dispatchLog, lastD, rer, rrWindow, everFaulted, fatalSeen>>

AcceptStep == APoll \/ ABatch \/ APop \/ AReset \/ AAcceptSys \/ AChoose \/ ASend \/ AInc \/ ATimeout
EnvStep == \/ \E l \in Listeners : Connect(l) \/ Tick(l) \/ \E k \in {"conn", "fatal"} : InjectErr(l, k)
           \/ \E i \in Workers : WorkerPoll(i) \/ Kill(i)
                                 \/ (\E c \in inprog[i] : Finish(i, c)) \/ (\E c \in oldInprog[i] : TearDown(i, c))
           \/ Replace \/ BareWake
           \/ \E x \in {"Pause", "Resume", "Stop"} : Cmd(x)
Next == AcceptStep \/ EnvStep
Spec == Init /\ [][Next]_vars
FairSpec == Spec /\ WF_vars(AcceptStep) /\ WF_vars(Replace) /\ \A i \in Workers : WF_vars(WorkerPoll(i))

(* ------------------------------------------------------------------------------------------- *)
(* property predicates                                                                           *)
(* ------------------------------------------------------------------------------------------- *)
TypeOK == /\ next \in 0..W /\ apc \in {"idle", "batch", "pop", "acc", "one", "send", "inc", "tmo", "reset", "panicked", "exited"}
          /\ \A i \in Workers : counter[i] \in 0..(MaxConns + 2)

\* ---- C01 ----
AllConns == 1..nconn
Queued == UNION {Range(chan[i]) : i \in Workers}
InProg == UNION {inprog[i] \cup oldInprog[i] : i \in Workers}
Waiting == UNION {Range(backlog[l]) : l \in Listeners}
\* every connection that left a backlog is in exactly one place
C01_Conservation ==
  \A c \in AllConns :
     Cardinality({k \in {"backlog", "hand", "queued", "inprog", "closed"} :
                    \/ k = "backlog" /\ c \in Waiting
                    \/ k = "hand" /\ c = inHand
                    \/ k = "queued" /\ c \in Queued
                    \/ k = "inprog" /\ c \in InProg
                    \/ k = "closed" /\ c \in closed}) <= 1
\* dispatched at most once, and served only by the worker it was dispatched to
C01_ServedOnce ==
  /\ \A a, b \in 1..Len(dispatchLog) : dispatchLog[a][1] = dispatchLog[b][1] => a = b
  /\ \A c \in DOMAIN served : \E k \in 1..Len(dispatchLog) : dispatchLog[k] = <<c, served[c]>>
\* a connection is dropped unserved only when no handle is left or its worker died with it queued
C01_NoSilentDrop == \A c \in closed : c \in DOMAIN served \/ everFaulted

\* ---- C02 ----
C02_Bound == ~everFaulted => \A i \in Workers : Load(i) <= Limit
C02_NoForcedSend == ~everFaulted => ~forced

\* ---- C03 ----
Quiescent == /\ apc = "idle" /\ wq = <<>> /\ ~wakerPending /\ cmdq = <<>>
             /\ \A l \in Listeners : ~(registered[l] /\ edge[l])
             /\ ~(timeoutSet /\ \E l \in Listeners : lstTimer[l] = 1)
SpareWorker == \E i \in Workers : alive[i] /\ InHandles(i) /\ Load(i) < Limit
C03_Pred(quiescent) ==
  (quiescent /\ running /\ ~paused) =>
     ~(SpareWorker /\ \E l \in Listeners : lstTimer[l] = 0 /\ errq[l] = <<>> /\ backlog[l] # <<>>)
C03_NoLostWake == C03_Pred(Quiescent)
\* liveness form (FairSpec, no faults/commands/errors): a waiting connection with spare capacity is dispatched
C03_Live == \A c \in 1..MaxConns :
              [](((c \in Waiting) /\ running) => <>((c \notin Waiting) \/ ~SpareWorker \/ paused \/ ~running))

\* ---- C04 ----
Distinct(s) == \A a, b \in 1..Len(s) : s[a] = s[b] => a = b
C04_RoundRobin == (Len(handles) = W /\ Len(rrWindow) = W) => Distinct(rrWindow)
\* lemma behind the ground-truth reading of "while no worker is saturated": when the accept thread has nothing left to
\* do, every worker in the rotation that is below its limit is marked available (so a rotation that starts from such a
\* state skips nobody until some worker reaches its limit)
C04_BitsTrueWhenCalm ==
  (Quiescent /\ running) => \A i \in Workers : (InHandles(i) /\ alive[i] /\ counter[i] <= Limit) => avail[i]
\* the rotation is cyclic and skips unavailable workers only: every worker strictly between the previous target and the new
\* one (in rotation order) is marked unavailable when the new target is chosen.  Claimed while the rotation is the
\* initial one (a fault reorders the handles)
BetweenW(p, i) == IF i > p THEN {w \in Workers : p < w /\ w < i} ELSE {w \in Workers : w > p \/ w < i}
C04_CyclicStep ==
  (act'.n = "ASend" /\ act'.x = "ok" /\ ~everFaulted /\ Len(handles) = W /\ dispatchLog # <<>>) =>
     \A w \in BetweenW(dispatchLog[Len(dispatchLog)][2], act'.i) : ~avail[w]
\* a connection is sent only to a worker that is marked available - or, when nobody is, to the worker in turn (forced)
C04_SendOnlyToMarkedStep == (act'.n = "ASend" /\ act'.x = "ok") => (avail[act'.i] \/ forced)
\* the rotation cursor survives every change of the handle list: two consecutive connections go to the same worker only
\* if the second was re-routed after a failed send, fewer than two handles were left after the first, or some handle in
\* the rotation is marked unavailable (checked in the configs with TrackRepeat)
C04_NoImmediateRepeatStep ==
  (TrackRepeat /\ act'.n = "ASend" /\ act'.x = "ok" /\ lastD # <<>> /\ lastD[1] = act'.i /\ lastD[2] >= 2 /\ ~rer)
     => \E k \in 1..Len(handles) : ~avail[handles[k]]
C04_SaturatedGetsNothingStep ==
  (act'.n = "ASend" /\ act'.x = "ok" /\ ~everFaulted) => Load(act'.i) < Limit

\* ---- C05 ----
C05_PausedNoDispatchStep == (act'.n = "ASend" /\ act'.x = "ok") => ~pauseEffective
\* pause / resume commands take effect one by one, in queue order, whatever the mode: after a Pause has been taken off the
\* queue the loop is paused, after a Resume it is not (idempotent; hence it is paused exactly when the last one was a pause)
C05_CommandEffectStep ==
  /\ (act'.n = "APop" /\ act'.x = "Pause") => (paused' /\ wq' = Tail(wq))
  /\ (act'.n = "APop" /\ act'.x = "Resume") => (~paused' /\ wq' = Tail(wq))
C05_ListenerLive ==
  (Quiescent /\ running /\ ~paused) => \A l \in Listeners : lstTimer[l] = 0 => (registered[l] /\ pathOk[l])
C05_UdsReachable == running => ~connRefused
C05_ConnErrNoDelay == \A l \in Listeners : lstTimer[l] # 0 => fatalSeen[l]
C05_TimerHasTimeout == (apc = "idle" /\ \E l \in Listeners : lstTimer[l] # 0) => timeoutSet

\* ---- C08 ----
C08_NoPanic == apc # "panicked"
C08_NoSpin == turns <= W + 1
C08_NoGhostBit == \A i \in Workers : avail[i] => InHandles(i)
C08_NoDupHandles == Distinct(handles)
C08_DeadGetsNothingStep == (act'.n = "ASend" /\ act'.x = "ok") => alive[act'.i]
C08_FaultReportedOnce == Distinct(cmdq) /\ Len(cmdq) <= nfaults
\* no worker index is ever lost: it is in the rotation, or reported to the server (which will start a replacement), or its
\* replacement handle is on its way in the waker queue
C08_NoLostIndex == \A i \in Workers :
  InHandles(i) \/ (\E k \in 1..Len(cmdq) : cmdq[k] = i) \/ (\E k \in 1..Len(wq) : wq[k] = <<"WK", i>>)

Steps == [][C04_SaturatedGetsNothingStep /\ C04_SendOnlyToMarkedStep /\ C04_CyclicStep /\ C04_NoImmediateRepeatStep /\ C05_PausedNoDispatchStep
            /\ C05_CommandEffectStep /\ C08_DeadGetsNothingStep]_vars

(* ---------------- TLC plumbing ---------------- *)
StepNoRepeat == [][C04_NoImmediateRepeatStep]_vars
StepCmdEffect == [][C05_CommandEffectStep]_vars
LogEdge == PrintT(<<"EDGE", ToJson([from |-> View, act |-> act', to |-> View', q |-> Quiescent'])>>)
LogInit == TLCGet("level") > 1 \/ PrintT(<<"INIT", ToJson([from |-> View])>>)
=============================================================================
