CONSTANTS
  W = 1
  Limit = 1
  L = 1
  Uds = {}
  MaxConns = 3
  MaxFaults = 0
  MaxCmds = 0
  MaxErrs = 0
  MaxBare = 0
  WakeAt = 2
  IgnoreUnknownIdx = TRUE
  UnlinkOnDeregister = FALSE
  ResumeClearsBackoff = TRUE
  IncBeforeSend = FALSE
  NoClearOnLimit = FALSE
  ResumeSkipsAcceptAll = FALSE
  BackoffNeverReregisters = FALSE
  RoundRobinStuck = FALSE
  ConnErrIsFatal = FALSE
  WakeSkipsAcceptAll = FALSE
  PauseKeepsRegistered = FALSE
  RejoinPausedNoAvail = FALSE
  ResetSeparate = FALSE
  JumpToFirstAvailable = FALSE
  ReportOnlyIfBitSet = FALSE
  ResendWithoutCheck = FALSE
  RejoinAtIndex = FALSE
  DropPausePair = FALSE
  TrackRepeat = FALSE
SPECIFICATION Spec
VIEW View
INVARIANTS TypeOK C01_Conservation C01_ServedOnce C01_NoSilentDrop C02_Bound C02_NoForcedSend C03_NoLostWake C04_RoundRobin C04_BitsTrueWhenCalm C05_ListenerLive C05_UdsReachable C05_ConnErrNoDelay C05_TimerHasTimeout C08_NoPanic C08_NoSpin C08_NoGhostBit C08_NoDupHandles C08_FaultReportedOnce C08_NoLostIndex LogInit
PROPERTIES Steps
ACTION_CONSTRAINT LogEdge
CHECK_DEADLOCK FALSE
