--------------------------- MODULE JoinAll ---------------------------
(* actix-server join_all.rs: the "poor man's join future" the server uses to await the workers' stop *)
(* replies on a graceful stop (property C06: "complete only after all workers are idle or            *)
(* shutdown_timeout has elapsed").  N futures, future i is Pending k[i] times and then yields i.      *)
(* One action = one poll of the JoinAll future.                                                        *)
EXTENDS Naturals, Sequences, FiniteSets, TLC, Json

CONSTANTS MaxN, MaxK,
          ReadyFromLastOnly     \* NEG (design FALSE): readiness is taken from the last polled future only

VARIABLES n, k, left, done, result, polls, round, act
vars == <<n, k, left, done, result, polls, round, act>>

Init == /\ n \in 1..MaxN /\ k \in UNION {[1..m -> 0..MaxK] : m \in 1..MaxN} /\ DOMAIN k = 1..n
        /\ left = k /\ done = [i \in 1..n |-> FALSE] /\ result = <<>> /\ polls = [i \in 1..n |-> 0] /\ round = 0
        /\ act = [n |-> "Init"]

\* one poll: every future that has not finished yet is polled once, in index order
Poll ==
  /\ result = <<>>
  /\ LET polled == {i \in 1..n : ~done[i]}
         nowDone == [i \in 1..n |-> done[i] \/ (i \in polled /\ left[i] = 0)]
         allReady == IF ReadyFromLastOnly
                       THEN (LET last == CHOOSE i \in polled : \A j \in polled : j <= i IN nowDone[last])
                       ELSE \A i \in 1..n : nowDone[i] IN
       /\ polls' = [i \in 1..n |-> IF i \in polled THEN polls[i] + 1 ELSE polls[i]]
       /\ left' = [i \in 1..n |-> IF i \in polled /\ left[i] > 0 THEN left[i] - 1 ELSE left[i]]
       /\ done' = nowDone
       /\ result' = (IF allReady THEN [i \in {j \in 1..n : nowDone[j]} |-> i] ELSE <<>>)
       /\ round' = round + 1
       /\ act' = [n |-> "Poll", polled |-> polled, ready |-> allReady]
  /\ UNCHANGED <<n, k>>

Spec == Init /\ [][Poll]_vars

\* resolves only when every future has resolved, with the outputs in the order of the inputs
C06_JoinAllWaitsForAll == result # <<>> => (\A i \in 1..n : done[i]) /\ result = [i \in 1..n |-> i]
\* resolves exactly in the round in which the slowest future resolves
C06_JoinAllPrompt == (result # <<>>) => round = 1 + (CHOOSE m \in 0..MaxK : (\E i \in 1..n : k[i] = m) /\ \A i \in 1..n : k[i] <= m)
\* no future is polled after it completed
C06_JoinAllNoRepoll == \A i \in 1..n : polls[i] <= k[i] + 1
\* vector for the conformance driver: scripts and the expected number of polls of each future / rounds
Finished == result # <<>>
EmitVec == Finished => PrintT(<<"VEC", ToJson([k |-> k, rounds |-> round, polls |-> polls, result |-> result])>>)
=============================================================================
