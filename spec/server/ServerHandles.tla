--------------------------- MODULE ServerHandles ---------------------------
(* The server's own vector of worker handles (server.rs `worker_handles`) across worker replacements, and what it means *)
(* for shutdown (C06 x C08): `handle_cmd(Stop)` sends the stop message through every handle in the vector, so a graceful *)
(* stop waits for - and lets finish - exactly the workers whose CURRENT incarnation has a handle there.                   *)
(* handle_cmd(WorkerFaulted(i)) starts a new worker with index i and overwrites the entry whose idx is i.  The entry is   *)
(* looked up by idx, not by position: the accept thread's vector is reordered by swap_remove, and nothing ties a worker's *)
(* index to a position once entries move.                                                                                 *)
EXTENDS Naturals, Sequences, FiniteSets, TLC

CONSTANTS W, MaxFaults,
          ByPosition      \* NEG (design FALSE): the faulted worker's entry is taken to be at POSITION idx:
                          \* swap_remove(idx); push(new handle)

VARIABLES handles,   \* Seq of [idx, gen]
          gen,       \* worker index -> current incarnation
          faults, phase, got
vars == <<handles, gen, faults, phase, got>>
Workers == 0..(W - 1)

Init == /\ handles = [k \in 1..W |-> [idx |-> k - 1, gen |-> 0]]
        /\ gen = [i \in Workers |-> 0] /\ faults = 0 /\ phase = "running" /\ got = {}

SwapRemove(s, p) == LET n == Len(s) IN [k \in 1..(n - 1) |-> IF k = p THEN s[n] ELSE s[k]]

\* worker i dies, the accept thread finds out, the server starts incarnation gen+1 and stores its handle
Faulted(i) ==
  /\ phase = "running" /\ faults < MaxFaults
  /\ faults' = faults + 1
  /\ gen' = [gen EXCEPT ![i] = @ + 1]
  /\ LET h == [idx |-> i, gen |-> gen[i] + 1] IN
       handles' = IF ByPosition THEN Append(SwapRemove(handles, i + 1), h)
                  ELSE [k \in 1..Len(handles) |-> IF handles[k].idx = i THEN h ELSE handles[k]]
  /\ UNCHANGED <<phase, got>>

\* handle_cmd(Stop): one message per handle; it reaches the worker only if the handle belongs to its current incarnation
Stop ==
  /\ phase = "running" /\ phase' = "stopped"
  /\ got' = {handles[k].idx : k \in {k \in 1..Len(handles) : handles[k].gen = gen[handles[k].idx]}}
  /\ UNCHANGED <<handles, gen, faults>>

Next == (\E i \in Workers : Faulted(i)) \/ Stop
Spec == Init /\ [][Next]_vars

\* every worker index has exactly one handle, and it is the handle of the current incarnation
H_AllLiveOnce == /\ Len(handles) = W
                 /\ \A i \in Workers : Cardinality({k \in 1..Len(handles) : handles[k].idx = i /\ handles[k].gen = gen[i]}) = 1
\* C06: the stop message reaches every live worker (so a graceful stop waits for all of them and none is cut off)
C06_EveryWorkerHearsStop == phase = "stopped" => got = Workers
=============================================================================
