CONSTANTS
  K = 2
  MaxConns = 1
  MaxNonReady = 1
  MaxCreatePend = 0
  MaxTicks = 0
  MaxStops = 0
  Timeout = 2
  ReadyCheckOnce = FALSE
  RestartAll = TRUE
  DrainCalls = FALSE
  GracefulRepliesEarly = FALSE
  IgnoreTimeout = FALSE
  ForcedWaits = FALSE
  LifoQueue = FALSE
  DrainOnlyAtStop = FALSE
  ErrKeepsPolling = FALSE
  MaxPerPoll = 0
  Rewake = FALSE
SPECIFICATION Spec
VIEW View
INVARIANTS C07_Fifo C07_AllAccounted C07_QueuedMeansOwed C01_DrainReleases
PROPERTIES Steps
CHECK_DEADLOCK FALSE
