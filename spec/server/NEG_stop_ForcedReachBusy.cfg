CONSTANTS
  NW = 1
  MaxLive = 1
  MaxStops = 1
  Timeout = 2
  MaxBlocks = 1
  ForcedAwaitsWorkers = FALSE
  GracefulSkipsAwait = FALSE
  CompleteBeforeJoin = FALSE
  TermIsForced = FALSE
  SecondStopHangs = FALSE
  AwaitsLastWorkerOnly = FALSE
  WakeAcceptFirst = FALSE
  MidPollIgnoresStop = FALSE
SPECIFICATION Spec
VIEW View
INVARIANTS NEG_ForcedNeverCompletesWithBusy
CHECK_DEADLOCK FALSE
