--------------------------- MODULE CounterProtocol ---------------------------
(* The back-pressure protocol between the accept thread and ONE worker, reduced to integers (C02, C03):  *)
(* the shared counter (biased by 1, as in worker.rs), the accept thread's cached availability bit, the     *)
(* number of WorkerAvailable notifications in the waker queue, and the accept thread's program counter      *)
(* between `conn_tx.send` and `counter.fetch_add` (a connection may finish inside that window).             *)
(* It is the single-worker core of AcceptDispatch.tla, small enough for an INDUCTIVE invariant that          *)
(* Apalache discharges for EVERY limit >= 1 and unboundedly many connections (TLC checks the same module      *)
(* for limits 1..4 and a bounded load).  WakeAt is the variant constant: the guard drop notifies when the      *)
(* OLD counter value equals Limit + WakeAt (design: 1; the pinned tree had 0 = defect F3).                     *)
EXTENDS Integers

CONSTANTS
  \* @type: Int;
  Limit,
  \* @type: Int;
  WakeAt

VARIABLES
  \* @type: Int;
  counter,     \* the atomic counter (starts at 1)
  \* @type: Bool;
  bit,         \* the accept thread's availability bit for this worker
  \* @type: Int;
  wa,          \* WorkerAvailable notifications queued
  \* @type: Bool;
  sent,        \* the accept thread has sent a connection and not yet incremented the counter
  \* @type: Int;
  load         \* connections queued at or in progress on the worker

vars == <<counter, bit, wa, sent, load>>

ConstInit == Limit \in Int /\ Limit >= 1 /\ WakeAt = 1
\* the pinned tree's rule (defect F3): must NOT be inductive, and the goal must fail within a few steps
ConstInitAsFound == Limit \in Int /\ Limit >= 1 /\ WakeAt = 0

Init == counter = 1 /\ bit = TRUE /\ wa = 0 /\ sent = FALSE /\ load = 0

\* accept_one: the worker is marked available -> conn_tx.send
ASend == /\ bit /\ ~sent
         /\ sent' = TRUE /\ load' = load + 1
         /\ UNCHANGED <<counter, bit, wa>>
\* inc_counter: fetch_add; the bit is cleared when the OLD value equals the limit
AInc == /\ sent
        /\ counter' = counter + 1
        /\ bit' = (IF counter = Limit THEN FALSE ELSE bit)
        /\ sent' = FALSE
        /\ UNCHANGED <<wa, load>>
\* a guard drops: fetch_sub; a notification is queued when the OLD value equals Limit + WakeAt
Finish == /\ load > 0
          /\ load' = load - 1
          /\ counter' = counter - 1
          /\ wa' = (IF counter = Limit + WakeAt THEN wa + 1 ELSE wa)
          /\ UNCHANGED <<bit, sent>>
\* handle_waker pops a WorkerAvailable: the bit is set
APop == /\ wa > 0
        /\ wa' = wa - 1 /\ bit' = TRUE
        /\ UNCHANGED <<counter, sent, load>>

Next == ASend \/ AInc \/ Finish \/ APop
Spec == Init /\ [][Next]_vars

(* ---- the properties ---- *)
\* C02: never more than Limit connections at the worker
C02_Bound == load <= Limit
\* C03 (no lost wake-up): when the accept thread has nothing left to do for this worker (no increment pending, no
\* notification queued) and the worker is marked unavailable, the worker really is saturated
C03_NoLostWake == (~sent /\ wa = 0 /\ ~bit) => load = Limit

(* ---- the inductive invariant ---- *)
TypeOK == counter \in Int /\ bit \in BOOLEAN /\ wa \in Int /\ sent \in BOOLEAN /\ load \in Int
IndInv ==
  /\ TypeOK
  /\ load >= 0 /\ wa >= 0 /\ wa <= 1
  /\ counter = 1 + load - (IF sent THEN 1 ELSE 0)     \* the counter lags the load by the pending increment
  /\ (sent => bit)                                     \* only AInc clears the bit
  /\ (bit => counter <= Limit)                         \* marked available: below the limit (before the pending increment)
  /\ (~bit /\ wa = 0 => counter = Limit + 1)           \* unavailable and nothing queued: saturated
  /\ (wa = 1 => ~bit /\ counter <= Limit)              \* a notification is queued exactly after leaving saturation

\* what the inductive invariant buys
Goal == C02_Bound /\ C03_NoLostWake

\* Apalache: the inductive step starts from an arbitrary state satisfying IndInv
IndInit == IndInv
=============================================================================
