CONSTANTS
  ForcedBoundMs = 1500
SPECIFICATION TSpec
INVARIANTS T_C06_GracefulWaits T_C06_GracefulLetsFinish T_C06_ForcedDoesNotWait T_C06_AlwaysCompletes T_C06_NoDispatchAfterCompletion T_C06_NotListeningAfterCompletion T_C06_HandlesAfterReplacement
POSTCONDITION TraceAccepted
CHECK_DEADLOCK FALSE
