CONSTANTS
  MaxN = 3
  MaxK = 2
  ReadyFromLastOnly = FALSE
SPECIFICATION Spec
INVARIANTS C06_JoinAllWaitsForAll C06_JoinAllPrompt C06_JoinAllNoRepoll EmitVec
CHECK_DEADLOCK FALSE
