CONSTANTS
  N = 512
  WordBits = 128
  Probe = {0}
  MaxDepth = 1000000
  SharedWord = FALSE
SPECIFICATION TSpec
INVARIANTS C04_AnyIffSome
POSTCONDITION TraceAccepted
CHECK_DEADLOCK FALSE
