------------------------ MODULE WorkerTrace ------------------------
(* Trace validation for Worker.tla on runs of the REAL ServerWorker future (built in-thread, polled *)
(* by hand, scripted services, virtual clock).                                                      *)
(*  Predicate mode (Strict = FALSE): free step relation; each record installs the observed events  *)
(*    of the step and the measured state; the C07 / C06w / C01-drain predicates (the same operators *)
(*    Worker.tla is model-checked with) are evaluated on them.  A false predicate = VIOLATION.       *)
(*  Strict mode (Strict = TRUE): every record must be explained by the Worker.tla action of the     *)
(*    same name with identical per-poll event list, state name and replies.  A rejection = DRIFT.    *)
EXTENDS Worker, IOUtils, TLCExt

CONSTANT Strict
Rec == ndJsonDeserialize(IOEnv.TRACE)
VARIABLES pos, obs
tvars == <<vars, pos, obs>>

NoObs == [ev |-> "none"]
IsPoll == obs.ev = "step" /\ obs.do \in {"WorkerPoll", "PollWoken"}
W0 == 1    \* worker 0 (JSON arrays are 1-based)

(* ---- predicate mode ---- *)
Free(r) == obs' = r /\ UNCHANGED vars
PE == obs.st.pe
\* C07
T_C07_CallOnlyAfterAllReady == IsPoll => CallsAfterFullReadyPass(PE, K)
Served == obs.st.served     \* <<conn, worker, token>> in call order
DPos(c) == CHOOSE d \in 1..Len(obs.st.dlog) : obs.st.dlog[d][1] = c
T_C07_Fifo == (obs.ev = "step") =>
   \A a, b \in 1..Len(Served) : (a < b /\ Served[a][2] = Served[b][2]) => DPos(Served[a][1]) < DPos(Served[b][1])
Count(e, t, k) == Cardinality({p \in 1..Len(e) : e[p].t = t /\ e[p].k = k})
Errs(e, k) == Cardinality({p \in 1..Len(e) : e[p].t = "ready" /\ e[p].k = k /\ e[p].a = 2})
T_C07_RestartOnlyFailed == IsPoll =>
   \A k \in Svc : Count(PE, "create", k) <= Errs(PE, k) + (IF obs.prevSstatus[W0][k] = "Restarting" THEN 1 ELSE 0)
\* a service whose readiness check failed is re-created in the same poll or is left marked for it (measured status)
T_C07_FailedIsRecreated == IsPoll =>
   \A p \in 1..Len(PE) : (PE[p].t = "ready" /\ PE[p].a = 2) =>
      \/ \E q \in (p + 1)..Len(PE) : PE[q].t \in {"create", "createfail"} /\ PE[q].k = PE[p].k
      \/ obs.st.sstatus[W0][PE[p].k] \in {"Failed", "Restarting"}
\* nothing that was dispatched to a worker disappears: as long as the worker is neither shutting down nor gone, the
\* connections dispatched to it and not yet called are exactly what is (measured) in its queue
T_C07_QueueMeasured ==
   (obs.ev = "step" /\ obs.st.wstate[W0] \in {"Unavailable", "Available", "Restarting"}) =>
      Len(obs.st.chan[W0]) = obs.st.chanLen[W0]
\* (Worker.C07_NoneLostStep / C07_QueuedMeansOwed: a poll that ends Available with every service ready leaves nothing
\* queued - or it has re-armed its own wake-up: the measured waker flag of the worker future)
WOwed == Len(obs.st.wwoken) >= W0 /\ obs.st.wwoken[W0]
T_C07_NoneLost == (IsPoll /\ obs.st.wstate[W0] = "Available" /\ obs.st.scriptsEmpty) => (obs.st.chanLen[W0] = 0 \/ WOwed)
T_C07_QueuedMeansOwed == (obs.ev = "step" /\ obs.st.alive[W0] /\ obs.st.wstate[W0] = "Available" /\ obs.st.chanLen[W0] > 0) => WOwed
\* C06 worker side
ReplyNow == obs.replyNow[W0]
T_C06w_TrueMeansIdle == (obs.ev = "step" /\ ReplyNow = "true") => obs.st.inprog[W0] = <<>>
T_C06w_ForcedImmediate == (IsPoll /\ obs.prevStop[W0] = "forced") => ReplyNow \in {"true", "false"}
T_C06w_IdleImmediate == (IsPoll /\ obs.prevStop[W0] # "none" /\ obs.prevTotal[W0] = 0 /\ obs.prevWstate[W0] # "Shutdown")
                           => ReplyNow = "true"
T_C06w_GracefulWaits ==   \* a graceful stop with connections alive is not answered by the poll that receives it ...
   (IsPoll /\ obs.prevStop[W0] = "graceful" /\ obs.prevLive[W0] > 0) => ReplyNow = "none"
T_C06w_GracefulNotEarly == \* ... and answered `false` only once shutdown_timeout has elapsed
   (obs.ev = "step" /\ ReplyNow = "false" /\ obs.shutdownSince[W0] >= 0)
       => obs.st.now - obs.shutdownSince[W0] >= obs.shutdownMs
\* C01 drain: in shutdown nothing is served any more; what was queued is closed
T_C01_NoCallInShutdown == (IsPoll /\ obs.prevWstate[W0] = "Shutdown") => \A p \in 1..Len(PE) : PE[p].t # "call"
\* a worker that is shutting down releases what is (or gets) queued: after each of its polls its queue is empty
T_C01_ShutdownDrainsQueue == (IsPoll /\ obs.st.wstate[W0] = "Shutdown") => obs.st.chanLen[W0] = 0
T_C01_DrainReleases == (obs.ev = "step" /\ obs.st.wstate[W0] \in {"Done"} /\ obs.replyNow[W0] = "none") =>
   \A d \in 1..Len(obs.st.dlog) :
      LET c == obs.st.dlog[d][1] IN
        (~\E a \in 1..Len(Served) : Served[a][1] = c) => \E x \in 1..Len(obs.st.closed) : obs.st.closed[x] = c

(* ---- strict mode ---- *)
EvOf(e) == [p \in 1..Len(e) |->
              IF e[p].t = "ready" THEN [t |-> "ready", k |-> e[p].k, a |-> e[p].a]
              ELSE IF e[p].t = "call" THEN [t |-> "call", k |-> e[p].k, c |-> e[p].c]
              ELSE [t |-> e[p].t, k |-> e[p].k]]
SpecEvNoReply(e) == SelectSeq(e, LAMBDA x : x.t \notin {"reply", "drain"})
StrictStep(r) ==
  /\ obs' = r
  /\ CASE r.ev = "reset" ->
            /\ ws' = "Unavailable" /\ status' = [k \in Svc |-> "Unavailable"] /\ rs' = [k \in Svc |-> <<>>]
            /\ fs' = [k \in Svc |-> <<>>] /\ rk' = 0 /\ cq' = <<>> /\ sq' = <<>> /\ live' = {} /\ since' = 0 /\ due' = FALSE
            /\ waiting' = FALSE /\ replies' = <<>> /\ owed' = TRUE /\ calls' = <<>> /\ called' = {} /\ lastCalled' = 0 /\ fifoOk' = TRUE
            /\ created' = [k \in Svc |-> 0] /\ drained' = {} /\ nconn' = 0 /\ nnr' = 0 /\ ncp' = 0 /\ nstops' = 0
            /\ pe' = <<>> /\ act' = [n |-> "Init"]
       [] r.do = "PushReady" -> (IF r.arg.a = 1 THEN PushReady(r.arg.t + 1) ELSE PushAnswer(r.arg.t + 1, r.arg.a))
       [] r.do = "PushCreate" -> PushCreatePending(r.arg.t + 1)
       [] r.do = "Connect" -> PushConn(r.arg.l + 1)
       [] r.do = "StopWorker" -> PushStop(r.arg.graceful)
       [] r.do = "Finish" -> Finish(r.arg.c + 1)
       [] r.do = "Advance" -> (Tick \/ (~ENABLED Tick /\ UNCHANGED vars))
       [] r.do = "WorkerPoll" ->
            IF ws = "Done" THEN UNCHANGED vars /\ r.st.pe = <<>>    \* polling a finished worker does nothing
            ELSE /\ Poll
                 /\ SpecEvNoReply(pe') = EvOf(r.st.pe)
                 /\ ws' = r.st.wstate[W0]
       [] OTHER -> UNCHANGED vars      \* Iter / Settle: the accept thread moving the connection into the queue
TInit == Init /\ pos = 0 /\ obs = NoObs
TNext == /\ pos < Len(Rec) /\ pos' = pos + 1
         /\ IF Strict THEN StrictStep(Rec[pos + 1]) ELSE Free(Rec[pos + 1])
TSpec == TInit /\ [][TNext]_tvars
TraceAccepted ==
  LET n == TLCGet("stats").diameter - 1 IN
    /\ PrintT(<<"TRACE_MATCHED", n, Len(Rec)>>)
    /\ (n < Len(Rec) => PrintT(<<"UNMATCHED", ToJson(Rec[n + 1])>>))
    /\ n = Len(Rec)
=============================================================================
