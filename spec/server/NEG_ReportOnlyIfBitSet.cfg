CONSTANTS
  W = 2
  Limit = 1
  L = 1
  Uds = {}
  MaxConns = 4
  MaxFaults = 2
  MaxCmds = 0
  MaxErrs = 0
  MaxBare = 0
  WakeAt = 2
  IgnoreUnknownIdx = TRUE
  UnlinkOnDeregister = FALSE
  ResumeClearsBackoff = TRUE
  IncBeforeSend = FALSE
  NoClearOnLimit = FALSE
  ResumeSkipsAcceptAll = FALSE
  BackoffNeverReregisters = FALSE
  RoundRobinStuck = FALSE
  ConnErrIsFatal = FALSE
  WakeSkipsAcceptAll = FALSE
  PauseKeepsRegistered = FALSE
  RejoinPausedNoAvail = FALSE
  ResetSeparate = FALSE
  JumpToFirstAvailable = FALSE
  ReportOnlyIfBitSet = TRUE
  ResendWithoutCheck = FALSE
  RejoinAtIndex = FALSE
  DropPausePair = FALSE
  TrackRepeat = FALSE
SPECIFICATION Spec
VIEW View
INVARIANTS C08_NoLostIndex
PROPERTIES Steps
CHECK_DEADLOCK FALSE
