CONSTANTS
  W = 2
  Limit = 1
  L = 1
  Uds = {}
  MaxConns = 4
  MaxFaults = 2
  MaxCmds = 0
  MaxErrs = 0
  MaxBare = 0
  WakeAt = 2
  IgnoreUnknownIdx = FALSE
  UnlinkOnDeregister = FALSE
  ResumeClearsBackoff = TRUE
  IncBeforeSend = FALSE
  NoClearOnLimit = FALSE
  ResumeSkipsAcceptAll = FALSE
  BackoffNeverReregisters = FALSE
  RoundRobinStuck = FALSE
  ConnErrIsFatal = FALSE
  WakeSkipsAcceptAll = FALSE
  PauseKeepsRegistered = FALSE
  RejoinPausedNoAvail = FALSE
  ResetSeparate = FALSE
  JumpToFirstAvailable = FALSE
  ReportOnlyIfBitSet = FALSE
  ResendWithoutCheck = FALSE
  RejoinAtIndex = FALSE
  DropPausePair = FALSE
  TrackRepeat = FALSE
SPECIFICATION Spec
VIEW View
INVARIANTS C08_NoPanic
CHECK_DEADLOCK FALSE
