#!/usr/bin/env python3
"""Generates the AcceptDispatch TLC configs (design + NEG variants) from one table."""
import os
HERE = os.path.dirname(os.path.abspath(__file__))
VARIANTS = ["IgnoreUnknownIdx", "UnlinkOnDeregister", "ResumeClearsBackoff", "IncBeforeSend", "NoClearOnLimit", "ResumeSkipsAcceptAll",
            "BackoffNeverReregisters", "RoundRobinStuck", "ConnErrIsFatal", "WakeSkipsAcceptAll", "PauseKeepsRegistered",
            "RejoinPausedNoAvail", "ResetSeparate", "JumpToFirstAvailable", "ReportOnlyIfBitSet", "ResendWithoutCheck",
            "RejoinAtIndex", "DropPausePair", "TrackRepeat"]
DESIGN = {"IgnoreUnknownIdx": "TRUE", "ResumeClearsBackoff": "TRUE"}
INVS = ("TypeOK C01_Conservation C01_ServedOnce C01_NoSilentDrop C02_Bound C02_NoForcedSend C03_NoLostWake "
        "C04_RoundRobin C04_BitsTrueWhenCalm C05_ListenerLive C05_UdsReachable C05_ConnErrNoDelay C05_TimerHasTimeout C08_NoPanic "
        "C08_NoSpin C08_NoGhostBit C08_NoDupHandles C08_FaultReportedOnce C08_NoLostIndex")


def cfg(name, W, Limit, L, Uds, conns, faults=0, cmds=0, errs=0, bare=0, wake=None, flip=None, edges=False,
        spec="Spec", props="Steps", invs=INVS):
    v = {k: DESIGN.get(k, "FALSE") for k in VARIANTS}
    for f in (flip or []):
        v[f] = "FALSE" if v[f] == "TRUE" else "TRUE"
    lines = ["CONSTANTS", "  W = %d" % W, "  Limit = %d" % Limit, "  L = %d" % L, "  Uds = {%s}" % ",".join(map(str, Uds)),
             "  MaxConns = %d" % conns, "  MaxFaults = %d" % faults, "  MaxCmds = %d" % cmds, "  MaxErrs = %d" % errs,
             "  MaxBare = %d" % bare, "  WakeAt = %d" % (wake if wake is not None else Limit + 1)]
    lines += ["  %s = %s" % (k, v[k]) for k in VARIANTS]
    lines += ["SPECIFICATION " + spec]
    if edges or spec == "Spec":
        lines += ["VIEW View"]
    if invs:
        lines += ["INVARIANTS " + invs + (" LogInit" if edges else "")]
    if props:
        lines += ["PROPERTIES " + props]
    if edges:
        lines += ["ACTION_CONSTRAINT LogEdge"]
    lines += ["CHECK_DEADLOCK FALSE"]
    open(os.path.join(HERE, name + ".cfg"), "w").write("\n".join(lines) + "\n")


# ---- exhaustive design configs -------------------------------------------------------------------
# core dispatch / back-pressure (C01-C04): no faults, no commands
cfg("MC_core_quick", 2, 2, 1, [], 4, edges=True)
cfg("MC_core_l1", 2, 1, 1, [], 3, edges=True)
cfg("MC_core_w1", 1, 1, 1, [], 3, edges=True)
cfg("MC_core_2l", 2, 1, 2, [2], 3, edges=True)
cfg("MC_core_w3l1", 3, 1, 1, [], 4, edges=True)   # three workers: the rotation skips a saturated one in the middle
cfg("MC_core_w3", 3, 2, 1, [], 5)
cfg("MC_core_l3", 2, 3, 1, [], 6)
cfg("MC_core_l4", 1, 4, 1, [], 6)
cfg("MC_core_w3l3", 3, 3, 2, [2], 6)
cfg("MC_core_w3c7", 3, 2, 1, [], 7)            # 0.7 M states
cfg("MC_core_l4c9", 2, 4, 1, [], 9)            # 1.3 M states
cfg("MC_core_w3l3c7", 3, 3, 2, [2], 7)         # 12.6 M states, ~2.5 min
# faults (C08)
cfg("MC_fault_quick", 2, 1, 1, [], 3, faults=1, edges=True)
cfg("MC_fault_w1", 1, 2, 1, [], 3, faults=1, edges=True)
cfg("MC_fault2", 2, 1, 1, [], 4, faults=2)
cfg("MC_fault_w3", 3, 1, 1, [], 4, faults=2)
cfg("MC_fault_w3l2", 3, 1, 2, [2], 4, faults=2)
# commands and accept errors (C05)
cfg("MC_cmd_quick", 1, 1, 1, [1], 2, cmds=2, errs=1, edges=True)
cfg("MC_cmd_c3", 1, 1, 1, [], 2, cmds=3, errs=1)
cfg("MC_cmd_2l", 1, 1, 2, [2], 2, cmds=3, errs=1)
cfg("MC_cmd_w2l2e2", 2, 2, 2, [2], 3, cmds=3, errs=2)   # 75 M states, ~8 min
cfg("MC_cmd_w2", 2, 1, 2, [2], 2, cmds=3, errs=1)          # 2.9 M states
cfg("MC_cmd_w2b", 2, 1, 1, [1], 3, cmds=2, errs=1)         # 0.8 M states
cfg("MC_cmd_fault", 2, 2, 1, [], 3, cmds=2, errs=1, faults=1)  # 8.2 M states
# a worker dies and is replaced while commands arrive (a replacement handle handled during a pause)
cfg("MC_cmd_fault_w1", 1, 1, 1, [], 2, cmds=2, faults=1, edges=True)
# back-off with a third connection (a notification inside the back-off window finds a client waiting on the listener)
cfg("MC_err_c3", 1, 1, 1, [], 3, errs=1, edges=True)
# two listeners, one pause, one accept error: a pause inside the back-off window of the other listener
cfg("MC_pause_2l", 1, 1, 2, [2], 2, cmds=1, errs=1, edges=True)
# liveness form of C03 on the smallest config
cfg("LIVE_C03", 1, 1, 1, [], 2, spec="FairSpec", props="C03_Live", invs="")
cfg("LIVE_C03_w2", 2, 1, 1, [], 3, spec="FairSpec", props="C03_Live", invs="")
# ---- NEG configs: (name, expected violated) --------------------------------------------------------
cfg("NEG_WakeAtLimit", 1, 1, 1, [], 2, wake=1, invs="C03_NoLostWake")                       # as found: C03_NoLostWake
cfg("NEG_WakeAtLimit_l2", 1, 2, 1, [], 3, wake=2, invs="C03_NoLostWake")
cfg("NEG_WakeAtLimit_w2", 2, 2, 1, [], 5, wake=2, invs="C03_NoLostWake")
cfg("NEG_LIVE_WakeAtLimit", 1, 1, 1, [], 2, wake=1, spec="FairSpec", props="C03_Live", invs="")
cfg("NEG_IgnoreUnknownIdx_2f", 2, 1, 1, [], 4, faults=2, flip=["IgnoreUnknownIdx"])
cfg("NEG_IgnoreUnknownIdx_2f_panic_only", 2, 1, 1, [], 4, faults=2, flip=["IgnoreUnknownIdx"], invs="C08_NoPanic", props="")
cfg("NEG_IgnoreUnknownIdx_spin_only", 3, 1, 1, [], 4, faults=2, flip=["IgnoreUnknownIdx"], invs="C08_NoSpin", props="")
cfg("NEG_UnlinkOnDeregister", 1, 1, 2, [2], 2, cmds=2, flip=["UnlinkOnDeregister"])
cfg("NEG_NoClearOnLimit", 2, 1, 1, [], 3, flip=["NoClearOnLimit"])
cfg("NEG_BackoffNeverReregisters", 1, 1, 1, [], 2, errs=1, flip=["BackoffNeverReregisters"], invs="C03_NoLostWake")
cfg("NEG_RoundRobinStuck", 2, 2, 1, [], 3, flip=["RoundRobinStuck"])
cfg("NEG_ConnErrIsFatal", 1, 1, 1, [], 2, errs=1, flip=["ConnErrIsFatal"])
cfg("NEG_WakeSkipsAcceptAll", 1, 1, 1, [], 2, flip=["WakeSkipsAcceptAll"], invs="C03_NoLostWake")
cfg("NEG_PauseKeepsRegistered", 1, 1, 1, [], 2, cmds=2, flip=["PauseKeepsRegistered"])
cfg("NEG_ResumeClearsBackoff", 1, 1, 1, [], 2, cmds=3, errs=1, flip=["ResumeClearsBackoff"], invs="", props="Steps")
cfg("NEG_RejoinPausedNoAvail", 1, 1, 1, [], 2, cmds=2, faults=1, flip=["RejoinPausedNoAvail", "ResetSeparate", "JumpToFirstAvailable", "ReportOnlyIfBitSet", "ResendWithoutCheck"], invs="C03_NoLostWake C04_BitsTrueWhenCalm")
cfg("NEG_ResetSeparate", 2, 1, 1, [], 4, flip=["ResetSeparate"], invs="C03_NoLostWake C04_BitsTrueWhenCalm")
cfg("NEG_JumpToFirstAvailable", 3, 1, 1, [], 5, flip=["JumpToFirstAvailable"], invs="")
cfg("NEG_ReportOnlyIfBitSet", 2, 1, 1, [], 4, faults=2, flip=["ReportOnlyIfBitSet"], invs="C08_NoLostIndex")
cfg("NEG_ResendWithoutCheck", 3, 1, 1, [], 4, faults=1, flip=["ResendWithoutCheck"], invs="")
# the rotation cursor across a fault and a rejoin (ghosts lastD / rer follow the dispatches): design holds, insertion at
# the index position without adjusting the cursor repeats a worker
cfg("MC_fault_rejoin_w3", 3, 3, 1, [], 5, faults=1, flip=["TrackRepeat"])
cfg("NEG_RejoinAtIndex", 3, 3, 1, [], 5, faults=1, flip=["RejoinAtIndex", "TrackRepeat"], invs="", props="StepNoRepeat")
cfg("NEG_DropPausePair", 1, 1, 1, [], 1, cmds=3, flip=["DropPausePair"], invs="", props="StepCmdEffect")
print("configs written")
