#!/usr/bin/env python3
import os
HERE = os.path.dirname(os.path.abspath(__file__))
VARS = ["ForcedAwaitsWorkers", "GracefulSkipsAwait", "CompleteBeforeJoin", "TermIsForced", "SecondStopHangs", "AwaitsLastWorkerOnly", "WakeAcceptFirst", "MidPollIgnoresStop"]
INVS = "C06_GracefulWaits C06_GracefulLetsFinish C06_NoDispatchAfterCompletion C06_SignalKinds"


def cfg(name, nw, live, stops, timeout, flip=None, spec="Spec", props="Steps", invs=INVS, blocks=0):
    lines = ["CONSTANTS", "  NW = %d" % nw, "  MaxLive = %d" % live, "  MaxStops = %d" % stops, "  Timeout = %d" % timeout, "  MaxBlocks = %d" % blocks]
    lines += ["  %s = %s" % (v, "TRUE" if v in (flip or []) else "FALSE") for v in VARS]
    lines += ["SPECIFICATION " + spec]
    if spec == "Spec":
        lines += ["VIEW View"]
    if invs:
        lines += ["INVARIANTS " + invs]
    if props:
        lines += ["PROPERTIES " + props]
    lines += ["CHECK_DEADLOCK FALSE"]
    open(os.path.join(HERE, name + ".cfg"), "w").write("\n".join(lines) + "\n")


cfg("MC_stop_quick", 2, 2, 2, 2)
cfg("MC_stop_thorough", 2, 3, 2, 3)
cfg("LIVE_stop", 2, 1, 2, 2, spec="FairSpec", props="C06_AlwaysCompletes", invs="")
cfg("LIVE_stop_w1", 1, 2, 2, 2, spec="FairSpec", props="C06_AlwaysCompletes", invs="")
cfg("NEG_stop_ForcedReach", 1, 1, 1, 2, invs="NEG_ForcedNeverCompletesWithLive", props="")            # must be violated (reachability)
cfg("NEG_stop_ForcedAwaitsWorkers", 1, 1, 1, 2, flip=["ForcedAwaitsWorkers"], invs="NEG_ForcedNeverCompletesWithLive", props="")  # must HOLD: then forced waits
cfg("NEG_stop_GracefulSkipsAwait", 1, 1, 1, 2, flip=["GracefulSkipsAwait"])
cfg("NEG_stop_CompleteBeforeJoin", 1, 1, 1, 2, flip=["CompleteBeforeJoin"])
cfg("NEG_stop_TermIsForced", 1, 1, 1, 2, flip=["TermIsForced"])
cfg("NEG_stop_SecondStopHangs", 1, 1, 2, 2, flip=["SecondStopHangs"], spec="FairSpec", props="C06_AlwaysCompletes", invs="")
cfg("NEG_stop_AwaitsLastWorkerOnly", 2, 1, 1, 2, flip=["AwaitsLastWorkerOnly"])
cfg("NEG_stop_WakeAcceptFirst", 1, 1, 1, 2, flip=["WakeAcceptFirst"])   # defect F8 (as found): the accept thread exits first
cfg("NEG_stop_MidPollIgnoresStop", 1, 1, 1, 2, flip=["MidPollIgnoresStop"], blocks=1)   # defect F9 (as found): the closed queue ends a worker in mid-poll
cfg("MC_stop_busy", 2, 1, 1, 2, blocks=1)
cfg("LIVE_stop_busy", 1, 1, 1, 2, spec="FairSpec", props="C06_AlwaysCompletes", invs="", blocks=1)
cfg("NEG_stop_ForcedReachBusy", 1, 1, 1, 2, invs="NEG_ForcedNeverCompletesWithBusy", props="", blocks=1)                # must be violated (reachability)
cfg("NEG_stop_ForcedAwaitsWorkersBusy", 1, 1, 1, 2, flip=["ForcedAwaitsWorkers"], invs="NEG_ForcedNeverCompletesWithBusy", props="", blocks=1)  # must HOLD
print("stop configs written")
