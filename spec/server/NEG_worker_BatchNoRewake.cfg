CONSTANTS
  K = 1
  MaxConns = 3
  MaxNonReady = 0
  MaxCreatePend = 0
  MaxTicks = 0
  MaxStops = 0
  Timeout = 2
  ReadyCheckOnce = FALSE
  RestartAll = FALSE
  DrainCalls = FALSE
  GracefulRepliesEarly = FALSE
  IgnoreTimeout = FALSE
  ForcedWaits = FALSE
  LifoQueue = FALSE
  DrainOnlyAtStop = FALSE
  ErrKeepsPolling = FALSE
  MaxPerPoll = 1
  Rewake = FALSE
SPECIFICATION Spec
VIEW View
INVARIANTS C07_QueuedMeansOwed
CHECK_DEADLOCK FALSE
