CONSTANTS
  MaxCalls = 3
  MaxAddrs = 3
  MaxEvents = 3
  MaxSockets = 4
  MaxWorkers = 2
  TokenPerCall = FALSE
  TokenForFailed = FALSE
  UdsKeepsToken = FALSE
  ServeWhilePending = FALSE
  StopServesQueued = FALSE
SPECIFICATION Spec
INVARIANTS B_TokensArePositions C01_OwnListenersService C07_NoCallWhilePending C07_WaitsThenServed C01_QueuedReleasedAtStop B_NoPanic B_SvcOwner EmitLayout
CHECK_DEADLOCK FALSE
