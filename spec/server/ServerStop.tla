--------------------------- MODULE ServerStop ---------------------------
(* actix-server shutdown protocol across threads (property C06): callers of ServerHandle::stop,     *)
(* OS signals, the server's command loop (ServerInner::run / handle_cmd), the accept thread and the  *)
(* workers (abstracted from Worker.tla: reply immediately when idle or forced; otherwise at a 1 s    *)
(* tick when idle or when shutdown_timeout has elapsed).                                             *)
(* handle_cmd(Stop) is a sequence of steps: set `stopping`, push Stop to the waker queue, send Stop  *)
(* to every worker, [graceful: await all replies], join the accept thread, send the completion; the  *)
(* run loop then exits, dropping the command receiver (later / queued stops resolve because their    *)
(* completion sender is dropped).                                                                     *)
EXTENDS Integers, Sequences, FiniteSets, TLC, Json

CONSTANTS NW,           \* workers 0..NW-1
          MaxLive,      \* connections in progress per worker
          MaxStops,     \* stop commands (from handles or signals)
          Timeout,      \* shutdown_timeout in ticks
          \* variants (design FALSE)
          ForcedAwaitsWorkers,   \* stop(false) awaits the worker replies too
          GracefulSkipsAwait,    \* stop(true) does not await the workers
          CompleteBeforeJoin,    \* completion sent before the accept thread is joined
          TermIsForced,          \* SIGTERM mapped to a forced stop
          SecondStopHangs,       \* a stop that is never handled keeps its future pending
          AwaitsLastWorkerOnly,  \* the join of the worker replies is satisfied by the last worker's reply alone
          MaxBlocks,             \* 0 / 1: worker threads may be blocked by a non-yielding handler
          WakeAcceptFirst,       \* (as found; defect F8) the accept thread is told to stop BEFORE Stop is sent to the workers
          MidPollIgnoresStop     \* (as found; defect F9) a worker that meets its closed connection queue in mid-poll quits without
                                 \* looking at the stop order that arrived during that poll

Workers == 0..(NW - 1)
Kinds == {"graceful", "forced", "SIGTERM", "SIGINT", "SIGQUIT"}
Graceful(kind) == kind = "graceful" \/ (kind = "SIGTERM" /\ ~TermIsForced)

VARIABLES cmdq,        \* server command channel: sequence of stop ids
          stops,       \* id -> [kind, resolved]   (resolved: the caller's future / for signals: n/a)
          spc, cur,    \* command loop: program counter and the stop being handled (0 none)
          rxOpen,      \* command receiver still alive
          acc,         \* accept thread: "running" | "stopreq" | "exited"
          wst, live, wstop, since, due, reply,     \* per worker
          serverDone, nstops,
          busy,         \* the worker's THREAD is blocked inside a connection handler that does not yield: it takes no step
          inpoll,       \* the worker is inside a poll of its own future and has ALREADY looked at its stop channel in it (a
                        \* Service::call that takes a while): a stop order that arrives now is seen at the next poll only
          killedEarly,  \* a connection in progress was torn down during a GRACEFUL stop by a worker that quit without a
                        \* stop order and before shutdown_timeout (its connection queue was closed by the exiting accept thread)
          everGracefulLive, act
vars == <<cmdq, stops, spc, cur, rxOpen, acc, wst, live, wstop, since, due, reply, serverDone, nstops, busy, inpoll, killedEarly, everGracefulLive, act>>
View == <<cmdq, stops, spc, cur, rxOpen, acc, wst, live, wstop, since, due, reply, serverDone, nstops, busy, inpoll, killedEarly>>

A(n) == [n |-> n, i |-> 0, id |-> 0, x |-> ""]
Init == /\ cmdq = <<>> /\ stops = <<>> /\ spc = "idle" /\ cur = 0 /\ rxOpen = TRUE /\ acc = "running"
        /\ wst = [i \in Workers |-> "run"] /\ live = [i \in Workers |-> 0] /\ wstop = [i \in Workers |-> "none"]
        /\ since = [i \in Workers |-> 0] /\ due = [i \in Workers |-> FALSE] /\ reply = [i \in Workers |-> "none"]
        /\ serverDone = FALSE /\ nstops = 0 /\ busy = [i \in Workers |-> FALSE] /\ inpoll = [i \in Workers |-> FALSE] /\ killedEarly = FALSE /\ everGracefulLive = FALSE /\ act = A("Init")

(* ---- environment: connections ---- *)
\* the accept thread dispatches only while it runs
Dispatch(i) == /\ acc = "running" /\ wst[i] = "run" /\ live[i] < MaxLive
               /\ live' = [live EXCEPT ![i] = @ + 1] /\ act' = [A("Dispatch") EXCEPT !.i = i]
               /\ UNCHANGED <<cmdq, stops, spc, cur, rxOpen, acc, wst, wstop, since, due, reply, serverDone, nstops, busy, inpoll, killedEarly, everGracefulLive>>
FinishConn(i) == /\ live[i] > 0 /\ live' = [live EXCEPT ![i] = @ - 1] /\ act' = [A("FinishConn") EXCEPT !.i = i]
                 /\ UNCHANGED <<cmdq, stops, spc, cur, rxOpen, acc, wst, wstop, since, due, reply, serverDone, nstops, busy, inpoll, killedEarly, everGracefulLive>>

(* ---- callers / signals ---- *)
IssueStop(kind) ==
  /\ nstops < MaxStops /\ nstops' = nstops + 1
  /\ stops' = Append(stops, [kind |-> kind, resolved |-> (~rxOpen /\ ~SecondStopHangs)])   \* send fails: tx dropped at once
  /\ cmdq' = (IF rxOpen THEN Append(cmdq, nstops + 1) ELSE cmdq)
  /\ act' = [A("IssueStop") EXCEPT !.id = nstops + 1, !.x = kind]
  /\ UNCHANGED <<spc, cur, rxOpen, acc, wst, live, wstop, since, due, reply, serverDone, busy, inpoll, killedEarly, everGracefulLive>>

(* ---- server command loop ---- *)
SrvTake == /\ spc = "idle" /\ cmdq # <<>> /\ rxOpen
           /\ cur' = Head(cmdq) /\ cmdq' = Tail(cmdq) /\ spc' = (IF WakeAcceptFirst THEN "wakeAccept" ELSE "sendWorkers")
           /\ act' = [A("SrvTake") EXCEPT !.id = Head(cmdq)]
           /\ UNCHANGED <<stops, rxOpen, acc, wst, live, wstop, since, due, reply, serverDone, nstops, busy, inpoll, killedEarly, everGracefulLive>>
AfterSend == IF (Graceful(stops[cur].kind) /\ ~GracefulSkipsAwait) \/ ForcedAwaitsWorkers THEN "awaitWorkers" ELSE "joinAccept"
SrvWakeAccept == /\ spc = "wakeAccept" /\ acc' = (IF acc = "running" THEN "stopreq" ELSE acc)
                 /\ spc' = (IF WakeAcceptFirst THEN "sendWorkers" ELSE AfterSend)
                 /\ act' = A("SrvWakeAccept")
                 /\ UNCHANGED <<cmdq, stops, cur, rxOpen, wst, live, wstop, since, due, reply, serverDone, nstops, busy, inpoll, killedEarly, everGracefulLive>>
SrvSendWorkers ==
  /\ spc = "sendWorkers"
  /\ wstop' = [i \in Workers |-> IF wst[i] = "done" THEN wstop[i] ELSE (IF Graceful(stops[cur].kind) THEN "graceful" ELSE "forced")]
  /\ spc' = (IF WakeAcceptFirst THEN AfterSend ELSE "wakeAccept")
  \* a worker that is gone cannot take the order: the reply channel of that order is dropped at once
  /\ reply' = [i \in Workers |-> IF wst[i] = "done" /\ reply[i] = "none" THEN "gone" ELSE reply[i]]
  /\ everGracefulLive' = (everGracefulLive \/ (Graceful(stops[cur].kind) /\ \E i \in Workers : live[i] > 0))
  /\ act' = A("SrvSendWorkers")
  /\ UNCHANGED <<cmdq, stops, cur, rxOpen, acc, wst, live, since, due, serverDone, nstops, busy, inpoll, killedEarly>>
SrvAwaitWorkers == /\ spc = "awaitWorkers"
                   /\ (IF AwaitsLastWorkerOnly THEN reply[NW - 1] # "none" ELSE \A i \in Workers : reply[i] # "none")
                   /\ spc' = "joinAccept" /\ act' = A("SrvAwaitWorkers")
                   /\ UNCHANGED <<cmdq, stops, cur, rxOpen, acc, wst, live, wstop, since, due, reply, serverDone, nstops, busy, inpoll, killedEarly, everGracefulLive>>
SrvJoinAccept == /\ spc = "joinAccept" /\ (acc = "exited" \/ CompleteBeforeJoin)
                 /\ spc' = "complete" /\ act' = A("SrvJoinAccept")
                 /\ UNCHANGED <<cmdq, stops, cur, rxOpen, acc, wst, live, wstop, since, due, reply, serverDone, nstops, busy, inpoll, killedEarly, everGracefulLive>>
\* completion sent; the run loop breaks; the receiver is dropped: queued stops lose their completion sender
SrvComplete ==
  /\ spc = "complete" /\ spc' = "done" /\ rxOpen' = FALSE /\ serverDone' = TRUE
  /\ stops' = [k \in 1..Len(stops) |-> IF k = cur \/ (~SecondStopHangs /\ \E q \in 1..Len(cmdq) : cmdq[q] = k)
                                          THEN [stops[k] EXCEPT !.resolved = TRUE] ELSE stops[k]]
  /\ cmdq' = <<>> /\ act' = [A("SrvComplete") EXCEPT !.id = cur]
  /\ UNCHANGED <<cur, acc, wst, live, wstop, since, due, reply, nstops, busy, inpoll, killedEarly, everGracefulLive>>

(* ---- accept thread ---- *)
AcceptExit == /\ acc = "stopreq" /\ acc' = "exited" /\ act' = A("AcceptExit")
              /\ UNCHANGED <<cmdq, stops, spc, cur, rxOpen, wst, live, wstop, since, due, reply, serverDone, nstops, busy, inpoll, killedEarly, everGracefulLive>>

(* ---- workers (Worker.tla abstracted) ---- *)
WorkerRecvStop(i) ==
  /\ wst[i] = "run" /\ wstop[i] # "none"
  /\ IF live[i] = 0 THEN reply' = [reply EXCEPT ![i] = "true"] /\ wst' = [wst EXCEPT ![i] = "done"] /\ UNCHANGED <<since, due>>
     ELSE IF wstop[i] = "forced" THEN reply' = [reply EXCEPT ![i] = "false"] /\ wst' = [wst EXCEPT ![i] = "done"] /\ UNCHANGED <<since, due>>
     ELSE wst' = [wst EXCEPT ![i] = "shutdown"] /\ since' = [since EXCEPT ![i] = 0] /\ due' = [due EXCEPT ![i] = FALSE] /\ UNCHANGED reply
  /\ wstop' = [wstop EXCEPT ![i] = "none"] /\ act' = [A("WorkerRecvStop") EXCEPT !.i = i]
  /\ UNCHANGED <<cmdq, stops, spc, cur, rxOpen, acc, live, serverDone, nstops, busy, inpoll, killedEarly, everGracefulLive>>
WorkerTick(i) ==
  /\ wst[i] = "shutdown" /\ (~due[i] \/ since[i] < Timeout)
  /\ due' = [due EXCEPT ![i] = TRUE] /\ since' = [since EXCEPT ![i] = IF @ < Timeout THEN @ + 1 ELSE @]
  /\ act' = [A("WorkerTick") EXCEPT !.i = i]
  /\ UNCHANGED <<cmdq, stops, spc, cur, rxOpen, acc, wst, live, wstop, reply, serverDone, nstops, busy, inpoll, killedEarly, everGracefulLive>>
WorkerCheck(i) ==
  /\ wst[i] = "shutdown" /\ due[i]
  /\ IF live[i] = 0 THEN reply' = [reply EXCEPT ![i] = "true"] /\ wst' = [wst EXCEPT ![i] = "done"] /\ UNCHANGED due
     ELSE IF since[i] >= Timeout THEN reply' = [reply EXCEPT ![i] = "false"] /\ wst' = [wst EXCEPT ![i] = "done"] /\ UNCHANGED due
     ELSE due' = [due EXCEPT ![i] = FALSE] /\ UNCHANGED <<reply, wst>>
  /\ act' = [A("WorkerCheck") EXCEPT !.i = i]
  /\ UNCHANGED <<cmdq, stops, spc, cur, rxOpen, acc, live, wstop, since, serverDone, nstops, busy, inpoll, killedEarly, everGracefulLive>>

\* the exiting accept thread drops the sending ends of the workers' connection queues; a worker that is serving
\* (Available) and has no stop order waiting takes the closed queue as the end of its life: its future completes, the
\* worker (arbiter) stops and every connection in progress on it is torn down.  (worker.rs: the stop channel is polled
\* first in every poll, so a worker that starts a poll with its order waiting does not take this path.)
\* In mid-poll (inpoll) the stop channel has been looked at already: as found (F9) the worker quits although its order
\* is waiting; repaired, it polls again from the top when an order is waiting (LeavePoll, then WorkerRecvStop).
WorkerQueueClosed(i) ==
  /\ wst[i] = "run" /\ acc = "exited" /\ (wstop[i] = "none" \/ (inpoll[i] /\ MidPollIgnoresStop))
  /\ wst' = [wst EXCEPT ![i] = "done"] /\ inpoll' = [inpoll EXCEPT ![i] = FALSE]
  /\ killedEarly' = (killedEarly \/ (live[i] > 0 /\ cur # 0 /\ Graceful(stops[cur].kind)))
  /\ live' = [live EXCEPT ![i] = 0]
  /\ act' = [A("WorkerQueueClosed") EXCEPT !.i = i]
  /\ UNCHANGED <<cmdq, stops, spc, cur, rxOpen, acc, wstop, since, due, reply, serverDone, nstops, busy, everGracefulLive>>

\* the worker starts a poll and finds no stop order (it goes on into its Available loop: readiness checks, calls) / the poll
\* returns.  While inpoll the worker does not look at the stop channel
EnterPoll(i) == /\ wst[i] = "run" /\ wstop[i] = "none" /\ ~inpoll[i] /\ MaxBlocks > 0
                /\ inpoll' = [inpoll EXCEPT ![i] = TRUE] /\ act' = [A("EnterPoll") EXCEPT !.i = i]
                /\ UNCHANGED <<cmdq, stops, spc, cur, rxOpen, acc, wst, live, wstop, since, due, reply, serverDone, nstops, busy, killedEarly, everGracefulLive>>
LeavePoll(i) == /\ inpoll[i] /\ inpoll' = [inpoll EXCEPT ![i] = FALSE] /\ act' = [A("LeavePoll") EXCEPT !.i = i]
                /\ UNCHANGED <<cmdq, stops, spc, cur, rxOpen, acc, wst, live, wstop, since, due, reply, serverDone, nstops, busy, killedEarly, everGracefulLive>>
SrvStep == SrvTake \/ SrvWakeAccept \/ SrvSendWorkers \/ SrvAwaitWorkers \/ SrvJoinAccept \/ SrvComplete
\* a handler that does not yield blocks the worker thread for a while (at most one such episode per worker: bounded)
Block(i) == /\ ~busy[i] /\ live[i] > 0 /\ wst[i] = "run" /\ wstop[i] = "none" /\ MaxBlocks > 0
            /\ busy' = [busy EXCEPT ![i] = TRUE] /\ act' = [A("Block") EXCEPT !.i = i]
            /\ UNCHANGED <<inpoll, cmdq, stops, spc, cur, rxOpen, acc, wst, live, wstop, since, due, reply, serverDone, nstops, killedEarly, everGracefulLive>>
Unblock(i) == /\ busy[i] /\ busy' = [busy EXCEPT ![i] = FALSE] /\ act' = [A("Unblock") EXCEPT !.i = i]
              /\ UNCHANGED <<inpoll, cmdq, stops, spc, cur, rxOpen, acc, wst, live, wstop, since, due, reply, serverDone, nstops, killedEarly, everGracefulLive>>
WorkerStep(i) == ~busy[i] /\ ((~inpoll[i] /\ (WorkerRecvStop(i) \/ WorkerTick(i) \/ WorkerCheck(i))) \/ WorkerQueueClosed(i) \/ LeavePoll(i))
Next == \/ SrvStep \/ AcceptExit
        \/ \E i \in Workers : WorkerStep(i) \/ Dispatch(i) \/ FinishConn(i) \/ Block(i) \/ Unblock(i) \/ EnterPoll(i)
        \/ \E k \in Kinds : IssueStop(k)
Spec == Init /\ [][Next]_vars
FairSpec == Spec /\ WF_vars(SrvStep) /\ WF_vars(AcceptExit) /\ \A i \in Workers : WF_vars(WorkerStep(i)) /\ WF_vars(Unblock(i))

(* ---------------- properties ---------------- *)
Handled == cur # 0 /\ spc \in {"complete", "done"}
\* graceful: completion only after every worker replied, each because it was idle or timed out
C06_GracefulWaits ==
  (Handled /\ Graceful(stops[cur].kind)) =>
     \A i \in Workers : reply[i] # "none" /\ (reply[i] = "false" => since[i] >= Timeout)
\* graceful: no connection in progress is torn down before it finished or shutdown_timeout elapsed
C06_GracefulLetsFinish == ~killedEarly
C06_ReplyTrueMeansIdleStep == \A i \in Workers : (reply[i] = "none" /\ reply'[i] = "true") => live[i] = 0
\* the thread that dispatches has been joined before completion: nothing is dispatched afterwards
C06_NoDispatchAfterCompletion == serverDone => acc = "exited"
C06_NoDispatchAfterCompletionStep == act'.n = "Dispatch" => ~serverDone
\* forced: completion does not depend on the workers' connections (reachability; must be VIOLATED as an invariant)
NEG_ForcedNeverCompletesWithLive == ~(Handled /\ ~Graceful(stops[cur].kind) /\ \E i \in Workers : live[i] > 0)
\* ... nor on a worker thread that is blocked inside a handler (reachability; must be VIOLATED as an invariant in the design,
\* and must HOLD when a forced stop awaits the workers' acknowledgements)
NEG_ForcedNeverCompletesWithBusy == ~(Handled /\ ~Graceful(stops[cur].kind) /\ \E i \in Workers : busy[i])
\* signal mapping
C06_SignalKinds == Handled => (Graceful(stops[cur].kind) <=> stops[cur].kind \in {"graceful", "SIGTERM"})
\* every stop future resolves and the Server future resolves (liveness, FairSpec)
C06_AlwaysCompletes ==
  /\ [](nstops > 0 => <>serverDone)
  /\ \A k \in 1..MaxStops : []((k <= Len(stops)) => <>(k <= Len(stops) /\ stops[k].resolved))
Steps == [][C06_ReplyTrueMeansIdleStep /\ C06_NoDispatchAfterCompletionStep]_vars
=============================================================================
