CONSTANTS
  K = 1
  MaxConns = 3
  MaxNonReady = 3
  MaxCreatePend = 2
  MaxTicks = 0
  MaxStops = 0
  Timeout = 2
  ReadyCheckOnce = FALSE
  RestartAll = FALSE
  DrainCalls = FALSE
  GracefulRepliesEarly = FALSE
  IgnoreTimeout = FALSE
  ForcedWaits = FALSE
  LifoQueue = FALSE
  DrainOnlyAtStop = FALSE
  ErrKeepsPolling = FALSE
  MaxPerPoll = 0
  Rewake = FALSE
SPECIFICATION Spec
VIEW View
INVARIANTS C07_Fifo C07_AllAccounted C07_QueuedMeansOwed C01_DrainReleases LogInit
PROPERTIES Steps
ACTION_CONSTRAINT LogEdge
CHECK_DEADLOCK FALSE
