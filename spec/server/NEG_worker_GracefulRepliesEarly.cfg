CONSTANTS
  K = 1
  MaxConns = 1
  MaxNonReady = 0
  MaxCreatePend = 0
  MaxTicks = 4
  MaxStops = 1
  Timeout = 2
  ReadyCheckOnce = FALSE
  RestartAll = FALSE
  DrainCalls = FALSE
  GracefulRepliesEarly = TRUE
  IgnoreTimeout = FALSE
  ForcedWaits = FALSE
  LifoQueue = FALSE
  DrainOnlyAtStop = FALSE
  ErrKeepsPolling = FALSE
  MaxPerPoll = 0
  Rewake = FALSE
SPECIFICATION Spec
VIEW View
INVARIANTS C07_Fifo C07_AllAccounted C07_QueuedMeansOwed C01_DrainReleases
PROPERTIES Steps
CHECK_DEADLOCK FALSE
