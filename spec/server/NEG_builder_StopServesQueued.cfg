CONSTANTS
  MaxCalls = 3
  MaxAddrs = 3
  MaxEvents = 3
  MaxSockets = 4
  MaxWorkers = 2
  TokenPerCall = FALSE
  TokenForFailed = FALSE
  UdsKeepsToken = FALSE
  ServeWhilePending = FALSE
  StopServesQueued = TRUE
SPECIFICATION Spec
INVARIANTS C01_QueuedReleasedAtStop
CHECK_DEADLOCK FALSE
