CONSTANTS
  N = 512
  WordBits = 128
  Probe = {0, 1, 126, 127, 128, 129, 255, 256, 383, 384, 510, 511}
  MaxDepth = 1000000
  SharedWord = FALSE
SPECIFICATION Spec
VIEW View
INVARIANTS C04_BitsIndependent C04_AnyIffSome
CHECK_DEADLOCK FALSE
