CONSTANTS
  MaxCalls = 4
  MaxAddrs = 4
  MaxEvents = 200
  MaxSockets = 12
  MaxWorkers = 4
  TokenPerCall = FALSE
  TokenForFailed = FALSE
  UdsKeepsToken = FALSE
  ServeWhilePending = FALSE
  StopServesQueued = FALSE
SPECIFICATION TSpec
INVARIANTS T_B_PhaseAsSpec T_C01_OwnListenersService T_C07_NoCallWhilePending T_C07_WaitsThenServed T_B_MadeAsSpec T_C08_ReplacementStarted T_C01_QueuedReleasedAtStop
POSTCONDITION TraceAccepted
CHECK_DEADLOCK FALSE
