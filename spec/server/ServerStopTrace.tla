------------------------ MODULE ServerStopTrace ------------------------
(* Predicate-mode check of end-to-end shutdown runs of a REAL actix_server::Server (real accept     *)
(* thread, worker threads, sockets, OS signals in a child process).  Each record is one observed    *)
(* event (global sequence number taken under one mutex) with the cumulative observable state; the    *)
(* C06 predicates - the observable counterparts of ServerStop.tla's invariants - are evaluated by    *)
(* TLC on every record.  Real-time bounds are generous and only used where the property needs them.  *)
EXTENDS Integers, Sequences, FiniteSets, TLC, Json, IOUtils, TLCExt

CONSTANT ForcedBoundMs      \* a forced stop must complete within this many ms while connections are held
Rec == ndJsonDeserialize(IOEnv.TRACE)
VARIABLES pos, obs
tvars == <<pos, obs>>
TInit == pos = 0 /\ obs = [ev |-> "none"]
TNext == pos < Len(Rec) /\ pos' = pos + 1 /\ obs' = Rec[pos + 1]
TSpec == TInit /\ [][TNext]_tvars

Step == obs.ev = "step"
Completed == Step /\ obs.e \in {"ServerResolved", "StopResolved", "ChildExited"} /\ obs.serverDone /\ obs.stopMs >= 0
\* ServerStop.C06_GracefulWaits: a graceful stop (stop(true) / SIGTERM) completes only after every connection that
\* was in progress when it was issued has finished, or shutdown_timeout has elapsed
T_C06_GracefulWaits == (Completed /\ obs.graceful) => (obs.liveAtStopStillLive = <<>> \/ obs.sinceStop >= obs.timeoutMs)
\* ServerStop.C06_GracefulLetsFinish: during a graceful stop no connection in progress is torn down (its service future
\* dropped unfinished) before shutdown_timeout has elapsed
T_C06_GracefulLetsFinish == Step => obs.killedEarly = <<>>
\* ServerStop.NEG_ForcedNeverCompletesWithLive (reachability): a forced stop (stop(false) / SIGINT / SIGQUIT) completes
\* although connections are held forever, and promptly
T_C06_ForcedDoesNotWait ==
  (Step /\ obs.e = "End" /\ ~obs.graceful /\ obs.heldForever /\ obs.stopMs >= 0)
     => (obs.serverDone /\ obs.doneSinceStop <= ForcedBoundMs)
\* ServerStop.C06_AlwaysCompletes: the Server future and every stop future that was kept resolve
ToSet(s) == {s[k] : k \in 1..Len(s)}
T_C06_AlwaysCompletes ==
  (Step /\ obs.e = "End" /\ obs.stopMs >= 0) => (obs.serverDone /\ (ToSet(obs.stops) \ ToSet(obs.dropped)) \subseteq ToSet(obs.resolved))
\* ServerStop.C06_NoDispatchAfterCompletion: no service call starts after the Server future resolved
T_C06_NoDispatchAfterCompletion == Step => ~obs.lateServed
\* ServerStop.C06_NoDispatchAfterCompletion (serverDone => acc = "exited"): the accept thread - and with it the listening
\* sockets - is gone when the completion is signalled: a connection attempt made after the Server future resolved is refused
T_C06_NotListeningAfterCompletion == Step => ~obs.lateConnected

\* ServerHandles.H_AllLiveOnce on the server's own handle vector, observed (hook `srv_handles`) after every worker
\* replacement: one handle per worker index, each still listening - the handles handle_cmd(Stop) will send through
T_C06_HandlesAfterReplacement ==
  (Step /\ obs.e = "WorkerReplaced") =>
     /\ Len(obs.replHandles) = obs.workers
     /\ \A i \in 0..(obs.workers - 1) :
          Cardinality({k \in 1..Len(obs.replHandles) : obs.replHandles[k][1] = i /\ obs.replHandles[k][2]}) = 1

TraceAccepted ==
  LET n == TLCGet("stats").diameter - 1 IN
    /\ PrintT(<<"TRACE_MATCHED", n, Len(Rec)>>)
    /\ n = Len(Rec)
=============================================================================
