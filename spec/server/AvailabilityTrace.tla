------------------------ MODULE AvailabilityTrace ------------------------
(* Strict trace validation: after every recorded set_available the real structure's get_available   *)
(* over ALL 512 indices and available() must equal the specification's abstract set.                *)
EXTENDS Availability, IOUtils, TLCExt
Rec == ndJsonDeserialize(IOEnv.TRACE)
VARIABLE l
tvars == <<vars, l>>
R == Rec[l + 1]
Step(r) == \/ r.ev = "reset" /\ bits' = {} /\ words' = [w \in Words |-> {}] /\ depth' = 0 /\ act' = act
           \/ /\ r.ev = "set" /\ Set(r.i, r.b)
              /\ {r.after[k] : k \in 1..Len(r.after)} = bits' /\ r.any = (bits' # {})
TInit == Init /\ l = 0
TNext == l < Len(Rec) /\ l' = l + 1 /\ Step(R)
TSpec == TInit /\ [][TNext]_tvars
TraceAccepted ==
  LET n == TLCGet("stats").diameter - 1 IN
    /\ PrintT(<<"TRACE_MATCHED", n, Len(Rec)>>)
    /\ (n < Len(Rec) => PrintT(<<"UNMATCHED", ToJson(Rec[n + 1])>>))
    /\ n = Len(Rec)
=============================================================================
