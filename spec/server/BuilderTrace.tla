------------------------ MODULE BuilderTrace ------------------------
(* Validation of recorded runs of the REAL ServerBuilder / Server against Builder.tla.  The driver's inputs (builder     *)
(* calls, run, a client on socket s, a readiness failure of call c, the death of a worker) are replayed as Builder.tla's   *)
(* actions; what the implementation ANSWERED (whether a call / run succeeded, which call's service answered the client,     *)
(* how many service instances each call's factory has built) goes into observation variables and is judged by the           *)
(* invariants below - the C01 / C07 / C08 clauses at the level of the builder wiring.                                       *)
EXTENDS Builder, IOUtils, TLCExt

Rec == ndJsonDeserialize(IOEnv.TRACE)
VARIABLES pos, obsMade, obsPhase
tvars == <<vars, pos, obsMade, obsPhase>>

R == Rec[pos + 1]
Adv == pos < Len(Rec) /\ pos' = pos + 1
Pad(m) == [c \in 1..MaxCalls |-> IF c <= Len(m) THEN m[c] ELSE 0]

TInit == Init /\ pos = 0 /\ obsMade = made /\ obsPhase = "build"

TReset ==
  /\ Adv /\ R.ev = "reset"
  /\ phase' = "build" /\ calls' = <<>> /\ tok' = 0 /\ factories' = <<>> /\ sockets' = <<>> /\ nw' = 0 /\ svc' = <<>>
  /\ made' = [c \in 1..MaxCalls |-> 0] /\ failNext' = 0 /\ pend' = {} /\ waiting' = <<>> /\ dead' = 0 /\ events' = <<>> /\ done' = FALSE
  /\ obsMade' = [c \in 1..MaxCalls |-> 0] /\ obsPhase' = "build"
TCall ==
  /\ Adv /\ R.ev = "call"
  /\ IF R.kind = "bind" THEN Bind(R.addrs) ELSE Listen(R.kind)
  /\ obsPhase' = (IF R.ok THEN "build" ELSE "failed") /\ UNCHANGED obsMade
TRun ==
  /\ Adv /\ R.ev = "run" /\ Run(R.workers)
  /\ obsPhase' = (IF R.ok THEN "running" ELSE "panicked") /\ UNCHANGED obsMade
\* whether this dispatch found the dead worker is read off the next `made` record (a replacement builds one instance per
\* socket); with a single worker it must have
RECURSIVE SumTo(_, _)
SumTo(m, n) == IF n = 0 THEN 0 ELSE m[n] + SumTo(m, n - 1)
NextMadeGrew == /\ pos + 2 <= Len(Rec) /\ Rec[pos + 2].ev = "made"
                /\ SumTo(Rec[pos + 2].made, Len(Rec[pos + 2].made)) >= SumTo(obsMade, MaxCalls) + Len(sockets)
TConn ==
  /\ Adv /\ R.ev = "conn" /\ ConnObs(R.s, R.by, dead = 2 \/ (dead = 1 /\ (nw = 1 \/ NextMadeGrew))) /\ UNCHANGED <<obsMade, obsPhase>>
\* "end" of a run; "survived": a service call panicked but the worker's services were not destroyed - no worker died
TEnd == Adv /\ R.ev \in {"end", "survived"} /\ UNCHANGED <<vars, obsMade, obsPhase>>
TFail == Adv /\ R.ev = "fail" /\ FailReady(R.c) /\ UNCHANGED <<obsMade, obsPhase>>
TDie == Adv /\ ((R.ev = "die" /\ Die) \/ (R.ev = "die2" /\ DieBoth)) /\ UNCHANGED <<obsMade, obsPhase>>
TPend == Adv /\ R.ev = "pend" /\ Pend(R.c) /\ UNCHANGED <<obsMade, obsPhase>>
\* R.late: what the clients that waited were answered with after the last pending call became ready (arrival order)
TUnpend == Adv /\ R.ev = "unpend" /\ UnpendObs(R.c, R.late) /\ UNCHANGED <<obsMade, obsPhase>>
TStop == /\ Adv /\ R.ev = "stop" /\ R.nwait = Len(waiting) /\ StopObs(R.released, R.served)
         /\ obsPhase' = (IF R.stopped THEN "stopped" ELSE "running") /\ UNCHANGED obsMade
TMade == Adv /\ R.ev = "made" /\ obsMade' = Pad(R.made) /\ UNCHANGED <<vars, obsPhase>>

TNext == TReset \/ TCall \/ TRun \/ TConn \/ TFail \/ TDie \/ TPend \/ TUnpend \/ TStop \/ TMade \/ TEnd
TSpec == TInit /\ [][TNext]_tvars

\* the call / run outcomes are the model's (a bind call fails iff none of its addresses can be bound; the workers start)
T_B_PhaseAsSpec == obsPhase = phase
\* C01: every client is answered, by a service built by the factory of its own socket's builder call
T_C01_OwnListenersService == C01_OwnListenersService
\* C07: what waited while a service was pending is served by its own listener's service once every service is ready
T_C07_WaitsThenServed == C07_WaitsThenServed
\* C07: a client that connects while a service of the worker is pending is not answered yet
T_C07_NoCallWhilePending == C07_NoCallWhilePending
\* C01: connections queued at a worker when the server is stopped are closed, none is served afterwards
T_C01_QueuedReleasedAtStop == C01_QueuedReleasedAtStop
\* C07 "rebuilds only it" / C08 "replaced": the number of instances each call's factory has built is the model's
T_B_MadeAsSpec == (pos > 0 /\ Rec[pos].ev = "made") => \A c \in 1..MaxCalls : obsMade[c] = made[c]

\* C08: the dead worker has been found and replaced by the end of the run (every script dispatches at least two
\* connections per worker after the death)
T_C08_ReplacementStarted == (pos > 0 /\ Rec[pos].ev = "end") => dead = 0

TraceAccepted ==
  LET n == TLCGet("stats").diameter - 1 IN
    /\ PrintT(<<"TRACE_MATCHED", n, Len(Rec)>>)
    /\ n = Len(Rec)
=============================================================================
