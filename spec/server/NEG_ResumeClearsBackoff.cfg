CONSTANTS
  W = 1
  Limit = 1
  L = 1
  Uds = {}
  MaxConns = 2
  MaxFaults = 0
  MaxCmds = 3
  MaxErrs = 1
  MaxBare = 0
  WakeAt = 2
  IgnoreUnknownIdx = TRUE
  UnlinkOnDeregister = FALSE
  ResumeClearsBackoff = FALSE
  IncBeforeSend = FALSE
  NoClearOnLimit = FALSE
  ResumeSkipsAcceptAll = FALSE
  BackoffNeverReregisters = FALSE
  RoundRobinStuck = FALSE
  ConnErrIsFatal = FALSE
  WakeSkipsAcceptAll = FALSE
  PauseKeepsRegistered = FALSE
  RejoinPausedNoAvail = FALSE
  ResetSeparate = FALSE
  JumpToFirstAvailable = FALSE
  ReportOnlyIfBitSet = FALSE
  ResendWithoutCheck = FALSE
  RejoinAtIndex = FALSE
  DropPausePair = FALSE
  TrackRepeat = FALSE
SPECIFICATION Spec
VIEW View
PROPERTIES Steps
CHECK_DEADLOCK FALSE
