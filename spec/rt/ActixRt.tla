------------------------------- MODULE ActixRt -------------------------------
(* actix-rt: System / SystemController / Arbiter / ArbiterRunner, as far as C09 and C10 need them.  *)
(* Structured like actix-rt/src/{system.rs,arbiter.rs,runtime.rs}:                                   *)
(*  - client threads issue calls; every call is SendStart / Enq (the push into the unbounded mpsc = *)
(*    linearization point; fails iff the receiver was dropped) / SendEnd(ok);                        *)
(*  - the system controller (system.rs:321-356) pops `sysq` FIFO: Reg(a) | Dereg(a) | Exit(c);       *)
(*    on Exit it sends Stop to every *currently registered* arbiter handle and sends the code on the *)
(*    one-shot if it has not been sent yet; it keeps running until the runtime is dropped;           *)
(*  - run/run_with_code (system.rs:185-204) return once the one-shot holds a code; the runtime,      *)
(*    the controller and the system arbiter (arbiter 0, living on the system thread) die with it;    *)
(*  - an arbiter thread (arbiter.rs:123-150) sends Reg before Arbiter::new returns, runs the         *)
(*    ArbiterRunner loop (arbiter.rs:295-317: one dequeue per step; Execute = spawn_local into the   *)
(*    local run queue `localq`, started later in FIFO order; Stop / closed channel ends the loop and *)
(*    drops the receiver, unstarted tasks never start), then sends Dereg, then exits (join returns). *)
(* What a client can observe is recorded in the history `h` (module RtProps), whose predicates are   *)
(* the properties.  Variant constants (design value TRUE) switch one mechanism to a wrong design.    *)
(*                                                                                                   *)
(* Environment behaviours and where they are exercised:                                              *)
(*  - clients on foreign threads (Thr), tasks that stop the System (TaskStop): model and driver;     *)
(*  - a client that runs ON the arbiter's own thread (SelfSend): a started task sends a further      *)
(*    function to its own arbiter through Arbiter::current() ("selfspawn"), or first stops its own   *)
(*    arbiter and then sends ("selfstop").  Model (ArbStartTask) and driver (bodies self_spawn,      *)
(*    self_stop_then_spawn).  The call is one step: nothing else runs on that thread meanwhile, and  *)
(*    the predicates are antitone in the interval width (see AtomicCalls);                           *)
(*  - a backlog in front of the controller: the model lets CtrlStep lag arbitrarily behind, so any   *)
(*    number of Reg/Dereg/Exit messages may be buffered when it runs; the variant CtrlBatch > 0      *)
(*    (design 0) is a controller that handles at most that many messages per poll and then sleeps    *)
(*    without a wake-up.  The driver builds such backlogs with 10-30 arbiters created (and mostly    *)
(*    stopped) before run() is entered and with bursts created by a foreign thread while the system  *)
(*    thread is blocked in a task; NArb stays small here, the trace spec has no such bound;          *)
(*  - exit codes: any integer but NoCode; negative codes in the configs that list one (the variant   *)
(*    NegCodeIsErr = FALSE lets run() accept them);                                                  *)
(*  - stop calls (and arbiters created between them) BEFORE run() is entered (StartIdle): all their    *)
(*    messages are buffered when the controller is polled for the first time; the poll that handles   *)
(*    the first Exit handles the later ones too, and every Exit stops every arbiter registered then   *)
(*    (variant EveryExitStops = FALSE: later Exits are no-ops).  Model: MC_C09_idle.cfg; driver:       *)
(*    flavour "twostop" (stop, Arbiter::new, stop [, Arbiter::new, stop] on the system thread or a    *)
(*    foreign thread, then run());                                                                     *)
(*  - the time between the end of an arbiter's loop and the exit of its thread (runtime teardown):    *)
(*    loop = "ended"; the receiver is dropped at the end of the loop (variant RxDropAtLoopEnd = FALSE:*)
(*    at thread exit), the end of the loop is observed at once (H_LoopEnd; driver: the destructor of  *)
(*    a guard owned by every task that never completes sends through its handle and records the       *)
(*    result);                                                                                         *)
(*  - a backlog in front of an ARBITER (its thread is blocked inside a task, or its loop has not been *)
(*    polled yet, while commands pile up in its channel): the model lets ArbDequeue lag arbitrarily   *)
(*    behind.  Variant DequeueBatch = K > 0 (design 0): the loop handles at most K commands per poll  *)
(*    and then sleeps without a wake-up; the driver's bounded wait for the queued commands to start   *)
(*    then expires (AwaitTimeout, H_AwaitEnd, C10_AcceptedStarts).  Variant QueueCap = K > 0 (design  *)
(*    0 = unbounded): a push into a channel that holds K commands is refused - the sender is told     *)
(*    false, the controller's Stop is lost (C09_AllRegisteredStop).  Driver: flavours "c10-flood"     *)
(*    (40-100 commands) and "c09-backlog" (~1100 commands, then the System stop, then the release);   *)
(*  - several Systems hosted one after another by ONE OS thread (driver: "rounds"), or two Systems    *)
(*    alive at once on one thread, the older one exiting first (driver: "other_system"): NOT modelled.*)
(*    The model has one System and no thread-local registers (HANDLE / CURRENT of arbiter.rs and     *)
(*    system.rs); what `Arbiter::current()` returns is observed on the implementation only (echo     *)
(*    markers: H_Echo / H_EchoSend are applied by the trace spec, the model always reports           *)
(*    cur = "ok").  Each System of such a thread is judged as a run of its own.                      *)
EXTENDS RtProps, TLC

CONSTANTS NArb,      \* worker arbiters 1..NArb (0 is the system arbiter)
          Thr,       \* client threads (model values; symmetric)
          PreCreated,\* worker arbiters 1..PreCreated exist and are registered initially
          Kinds,     \* subset of {"spawn", "spawn_fn"}
          TaskStop,  \* tasks may call System::stop_with_code
          EagerJoin, \* TRUE: join is observed as soon as the thread exits
          AtomicCalls, \* TRUE: a client call is one step (interval shrunk to its linearization point; every
                     \* predicate of RtProps is antitone in the interval width, so this is the strongest case)
          MaxCmds,   \* client calls in total
          MaxSys,    \* System::stop_with_code calls in total (clients + tasks)
          Codes,     \* exit codes
          AllowBusy, \* tasks may block their thread for a while
          FifoLocalQueue, StopEndsLoop, FirstCodeKept, ExitStopsAll, RunOnArbiterThread,
          StopBeforeCode, DeregOwnId, RegBeforeReady, ExecuteOnce, SendFailsWhenGone, JoinWaitsExit,
          RunErrsOnNonZero, BlockOnExact,
          SelfSend,  \* tasks may send to (and stop) their own arbiter from its thread via Arbiter::current()
          SelfSendViaChannel, \* design TRUE; FALSE: a send from the arbiter's own thread skips the command channel
                     \* and goes straight into the local run queue
          NegCodeIsErr, \* design TRUE; FALSE: run() reports Ok for negative exit codes
          CtrlBatch, \* design 0; K > 0: the controller handles at most K messages per poll, then sleeps for good
          StartIdle, \* TRUE: the System exists but run() has not been entered yet (nothing polls the controller or the
                     \* system arbiter until RunEnter); FALSE: run() was entered before anything else happens
          EveryExitStops, \* design TRUE; FALSE: only the first Exit stops the registered arbiters, later ones are no-ops
          RxDropAtLoopEnd, \* design TRUE; FALSE: the arbiter's receiver is dropped only when its thread exits: between
                     \* the end of the loop and the exit, sends still report true and are discarded
          DequeueBatch, \* design 0; K > 0: the arbiter loop handles at most K commands per poll, then sleeps for good
          StopAlwaysHandled, \* design TRUE; FALSE: a Stop that arrives while the loop is in the middle of a poll (after the
                     \* drain found the channel empty) may be taken by the poll's last receive, which only looks at Execute
                     \* commands: the Stop is dropped, stop() has reported true, the loop goes on
          QueueCap   \* design 0 (unbounded channel); K > 0: an arbiter's command channel holds at most K commands, a
                     \* push into a full one is refused (spawn / stop report false; the controller ignores the result)

VARIABLES thr,      \* client thread -> [pc, cmd, ok]
          tasks,    \* task id -> [arb, kind, body, code]
          sysq,     \* controller's queue
          ctrl,     \* [alive, registry, codeSent, half, batch, stuck, owed]; owed: messages at the head of sysq that
                    \* the poll which sent the code still handles before run can return
          oneshot,  \* NoCode empty, else the code
          runst,    \* "idle" (run() not entered yet) | "running" | "returned"
          arb,      \* 0..NArb -> [loop, cmdq, localq, busy, stopping, regPending, batch, stuck]
          ntask,    \* arb -> number of tasks sent to it (task id = 10 * arb + n: canonical per arbiter)
          ncmd, nsys,
          act       \* label of the last step
\* h (history) comes from RtProps

vars == <<thr, tasks, sysq, ctrl, oneshot, runst, arb, ntask, ncmd, nsys, h, act>>
View == <<thr, tasks, sysq, ctrl, oneshot, runst, arb, ntask, ncmd, nsys, h>>
ThrSym == Permutations(Thr)

Arbs == 0..NArb
Workers == 1..NArb
SysTid == 50
ArbTid(a) == IF a = 0 THEN SysTid ELSE 60 + a
TheSysId == 1
NoCode == -999999
CodesWithNeg == {0, -7}   \* for `Codes <- CodesWithNeg` (a TLC config file cannot spell a negative number)
ASSUME NoCode \notin Codes /\ CtrlBatch \in Nat /\ DequeueBatch \in Nat /\ QueueCap \in Nat
ASSUME QueueCap > 0 => ~SelfSend    \* (self-sends push without looking at the capacity)

NextId(a) == 10 * a + ntask[a] + 1
NoCmd == [op |-> "none", arb |-> 0, id |-> 0, kind |-> "", body |-> "", code |-> 0]
A(name, x, y) == [name |-> name, x |-> x, y |-> y]

Init ==
  /\ thr = [t \in Thr |-> [pc |-> "idle", cmd |-> NoCmd, ok |-> TRUE]]
  /\ tasks = EmptyFn
  /\ sysq = <<>>
  /\ ctrl = [alive |-> TRUE, registry |-> 0..PreCreated, codeSent |-> FALSE, half |-> FALSE, batch |-> 0, stuck |-> FALSE,
             owed |-> 0]
  /\ oneshot = NoCode /\ runst = IF StartIdle THEN "idle" ELSE "running"
  /\ arb = [a \in Arbs |-> [loop |-> IF a <= PreCreated THEN "run" ELSE "none", cmdq |-> <<>>, localq |-> <<>>,
                            busy |-> FALSE, stopping |-> FALSE, regPending |-> FALSE, batch |-> 0, stuck |-> FALSE]]
  /\ ntask = [a \in Arbs |-> 0] /\ ncmd = 0 /\ nsys = 0
  /\ h = H_BlockOn([HInit EXCEPT !.clients = Thr \cup {SysTid}, !.sysTid = SysTid, !.sysId = TheSysId,
                                 !.created = 1..PreCreated, !.runEntered = ~StartIdle],
                   5, IF BlockOnExact THEN 5 ELSE 6)
  /\ act = A("init", 0, 0)

\* the receiver of the command channel exists (a send is accepted)
RxAlive(a) == arb[a].loop = "run" \/ (~RxDropAtLoopEnd /\ a # 0 /\ arb[a].loop = "ended")
\* the push is accepted: the receiver exists and (wrong design QueueCap > 0 only) the channel is not full
Room(a) == QueueCap = 0 \/ Len(arb[a].cmdq) < QueueCap
Accepts(a) == RxAlive(a) /\ Room(a)
SysThreadFree == runst = "running" /\ ~arb[0].busy
CanStep(a) == arb[a].loop = "run" /\ ~arb[a].busy /\ ~arb[a].regPending /\ (a = 0 => runst = "running")

(* ---------------------------- clients ---------------------------- *)
Bodies(kind, a) ==
  (IF kind = "spawn"
     THEN {[body |-> "done", code |-> 0]} \cup
          (IF TaskStop /\ nsys < MaxSys THEN {[body |-> "sys", code |-> c] : c \in Codes} ELSE {})
     ELSE {[body |-> "done", code |-> 0]} \cup
          (IF AllowBusy THEN {[body |-> "busy", code |-> 0]} ELSE {}))
  \cup (IF SelfSend THEN {[body |-> "selfspawn", code |-> 0]} ELSE {})
  \cup (IF SelfSend /\ a # 0 THEN {[body |-> "selfstop", code |-> 0]} ELSE {})

IssueSpawn(t) ==
  \E a \in Arbs, kind \in Kinds : \E b \in Bodies(kind, a) :
    /\ arb[a].loop # "none"
    /\ thr' = [thr EXCEPT ![t] = [pc |-> "call", ok |-> TRUE,
                 cmd |-> [op |-> "send", arb |-> a, id |-> NextId(a), kind |-> kind, body |-> b.body, code |-> b.code]]]
    /\ tasks' = Put(tasks, NextId(a), [arb |-> a, kind |-> kind, body |-> b.body, code |-> b.code])
    /\ ntask' = [ntask EXCEPT ![a] = @ + 1]
    /\ nsys' = IF b.body = "sys" THEN nsys + 1 ELSE nsys
    /\ h' = H_SendStart(h, NextId(a), a, t, kind)
    /\ act' = A("SendStart", t, NextId(a))

IssueStop(t) ==
  \E a \in Workers :
    /\ arb[a].loop # "none"
    /\ thr' = [thr EXCEPT ![t] = [pc |-> "call", ok |-> TRUE, cmd |-> [NoCmd EXCEPT !.op = "stop", !.arb = a]]]
    /\ h' = H_StopStart(h, a)
    /\ act' = A("StopCallStart", t, a)
    /\ UNCHANGED <<tasks, ntask, nsys>>

IssueSysStop(t) ==
  \E c \in Codes :
    /\ nsys < MaxSys
    /\ thr' = [thr EXCEPT ![t] = [pc |-> "call", ok |-> TRUE, cmd |-> [NoCmd EXCEPT !.op = "sysstop", !.code = c]]]
    /\ nsys' = nsys + 1
    /\ h' = H_SysStopStart(h, c, t)
    /\ act' = A("SysStopStart", t, c)
    /\ UNCHANGED <<tasks, ntask>>

Issue(t) ==
  /\ ~AtomicCalls /\ thr[t].pc = "idle" /\ ncmd < MaxCmds
  /\ ncmd' = ncmd + 1
  /\ (IssueSpawn(t) \/ IssueStop(t) \/ IssueSysStop(t))
  /\ UNCHANGED <<sysq, ctrl, oneshot, runst, arb>>

\* the push into the channel
Enq(t) ==
  LET c == thr[t].cmd IN
  /\ thr[t].pc = "call"
  /\ act' = A("Enq", t, c.id)
  /\ CASE c.op = "send" ->
            IF ~RunOnArbiterThread /\ c.kind = "spawn_fn"
              THEN /\ h' = H_TaskStart(h, c.id, c.arb, t, "ok", TheSysId)       \* wrong design: run inline
                   /\ thr' = [thr EXCEPT ![t].pc = "ret", ![t].ok = TRUE]
                   /\ UNCHANGED <<arb, sysq>>
              ELSE /\ arb' = IF Accepts(c.arb) THEN [arb EXCEPT ![c.arb].cmdq = Append(@, [k |-> "exec", id |-> c.id])]
                                               ELSE arb
                   /\ thr' = [thr EXCEPT ![t].pc = "ret", ![t].ok = (Accepts(c.arb) \/ ~SendFailsWhenGone)]
                   /\ UNCHANGED <<h, sysq>>
       [] c.op = "stop" ->
            /\ arb' = IF Accepts(c.arb) THEN [arb EXCEPT ![c.arb].cmdq = Append(@, [k |-> "stop", id |-> 0])] ELSE arb
            /\ thr' = [thr EXCEPT ![t].pc = "ret", ![t].ok = Accepts(c.arb)]
            /\ UNCHANGED <<h, sysq>>
       [] c.op = "sysstop" ->
            /\ sysq' = IF ctrl.alive THEN Append(sysq, [k |-> "exit", v |-> c.code]) ELSE sysq
            /\ thr' = [thr EXCEPT ![t].pc = "ret"]
            /\ UNCHANGED <<h, arb>>
  /\ UNCHANGED <<tasks, ctrl, oneshot, runst, ntask, ncmd, nsys>>

SendEnd(t) ==
  LET c == thr[t].cmd IN
  /\ thr[t].pc = "ret"
  /\ thr' = [thr EXCEPT ![t].pc = "idle"]
  /\ h' = CASE c.op = "send" -> H_SendEnd(h, c.id, thr[t].ok)
            [] c.op = "stop" -> H_StopEnd(h, c.arb)
            [] c.op = "sysstop" -> H_SysStopEnd(h, t)
  /\ act' = A("SendEnd", t, c.id)
  /\ UNCHANGED <<tasks, sysq, ctrl, oneshot, runst, arb, ntask, ncmd, nsys>>


\* a whole call in one step (start, push, return)
CallAtomic(t) ==
  /\ AtomicCalls /\ ncmd < MaxCmds /\ ncmd' = ncmd + 1
  /\ \/ \E a \in Arbs, kind \in Kinds : \E b \in Bodies(kind, a) :
          LET inline == ~RunOnArbiterThread /\ kind = "spawn_fn"
              ok == inline \/ Accepts(a) \/ ~SendFailsWhenGone
              id == NextId(a)
              h1 == H_SendStart(h, id, a, t, kind)
              h2 == IF inline THEN H_TaskStart(h1, id, a, t, "ok", TheSysId) ELSE h1 IN
          /\ arb[a].loop # "none"
          /\ tasks' = Put(tasks, id, [arb |-> a, kind |-> kind, body |-> b.body, code |-> b.code])
          /\ ntask' = [ntask EXCEPT ![a] = @ + 1]
          /\ nsys' = IF b.body = "sys" THEN nsys + 1 ELSE nsys
          /\ arb' = IF Accepts(a) /\ ~inline THEN [arb EXCEPT ![a].cmdq = Append(@, [k |-> "exec", id |-> id])] ELSE arb
          /\ h' = H_SendEnd(h2, id, ok)
          /\ act' = A("Send", t, id)
          /\ UNCHANGED sysq
     \/ \E a \in Workers :
          /\ arb[a].loop # "none"
          /\ arb' = IF Accepts(a) THEN [arb EXCEPT ![a].cmdq = Append(@, [k |-> "stop", id |-> 0])] ELSE arb
          /\ h' = H_StopEnd(H_StopStart(h, a), a)
          /\ act' = A("StopCall", t, a)
          /\ UNCHANGED <<tasks, ntask, nsys, sysq>>
     \/ \E c \in Codes :
          /\ nsys < MaxSys /\ nsys' = nsys + 1
          /\ sysq' = IF ctrl.alive THEN Append(sysq, [k |-> "exit", v |-> c]) ELSE sysq
          /\ h' = H_SysStopEnd(H_SysStopStart(h, c, t), t)
          /\ act' = A("SysStop", t, c)
          /\ UNCHANGED <<tasks, ntask, arb>>
  /\ UNCHANGED <<thr, ctrl, oneshot, runst>>

\* Arbiter::new(): thread spawned, Reg sent, then new() returns (arbiter.rs:136-153)
NewArbiter ==
  \E a \in Workers :
    /\ arb[a].loop = "none" /\ \A b \in Workers : b < a => arb[b].loop # "none"
    /\ arb' = [arb EXCEPT ![a].loop = "run", ![a].regPending = ~RegBeforeReady]
    /\ sysq' = IF ctrl.alive /\ RegBeforeReady THEN Append(sysq, [k |-> "reg", v |-> a]) ELSE sysq
    /\ h' = H_ArbNew(h, a)
    /\ act' = A("ArbNew", a, 0)
    /\ UNCHANGED <<thr, tasks, ctrl, oneshot, runst, ntask, ncmd, nsys>>

(* ---------------------------- arbiter threads ---------------------------- *)
\* wrong design only: the new thread reports "ready" first and registers afterwards
ArbLateRegister(a) ==
  /\ arb[a].regPending
  /\ arb' = [arb EXCEPT ![a].regPending = FALSE]
  /\ sysq' = IF ctrl.alive THEN Append(sysq, [k |-> "reg", v |-> a]) ELSE sysq
  /\ act' = A("ArbLateRegister", a, 0)
  /\ UNCHANGED <<thr, tasks, ctrl, oneshot, runst, ntask, ncmd, nsys, h>>

EndLoop(a) == [arb EXCEPT ![a].loop = IF a = 0 THEN "exited" ELSE "ended", ![a].cmdq = <<>>, ![a].localq = <<>>]

\* Wrong design DequeueBatch = K > 0 only (cf. Polled for the controller): `batch` counts the commands taken in the
\* current poll of the loop; a poll ends (batch 0, waker registered) when the channel is found empty; after the K-th
\* command of one poll the loop returns Pending without a registered waker and is never polled again (`stuck`): tasks
\* that were spawned already still run, the channel is never looked at again.
Budget(r, rest) ==
  IF DequeueBatch = 0 THEN r
  ELSE IF r.batch + 1 >= DequeueBatch THEN [r EXCEPT !.batch = 0, !.stuck = TRUE]
  ELSE [r EXCEPT !.batch = IF rest = <<>> THEN 0 ELSE @ + 1]
ArbDequeue(a) ==
  /\ CanStep(a) /\ arb[a].cmdq # <<>> /\ ~arb[a].stuck
  /\ LET m == Head(arb[a].cmdq) IN
       IF m.k = "exec"
         THEN arb' = [arb EXCEPT ![a] = Budget([arb[a] EXCEPT !.cmdq = Tail(@),
                                 !.localq = IF ExecuteOnce THEN Append(@, m.id) ELSE Append(Append(@, m.id), m.id)],
                                               Tail(arb[a].cmdq))]
         ELSE IF StopEndsLoop THEN arb' = EndLoop(a)
              ELSE arb' = [arb EXCEPT ![a].cmdq = Tail(@), ![a].stopping = TRUE]   \* wrong design: keeps draining
  \* the end of a worker's loop is observed at the earliest moment (the strongest case): in the implementation by the
  \* destructor of a value owned by a task that never completes
  /\ h' = IF Head(arb[a].cmdq).k # "exec" /\ StopEndsLoop /\ a # 0 THEN H_LoopEnd(h, a) ELSE h
  /\ act' = A("ArbDequeue", a, 0)
  /\ UNCHANGED <<thr, tasks, sysq, ctrl, oneshot, runst, ntask, ncmd, nsys>>

\* wrong design StopAlwaysHandled = FALSE only: the Stop at the head of the channel is taken and dropped (whether a Stop
\* arrives inside that window of a poll is a matter of timing the model does not see: any Stop may).  Driver: flavour
\* "c10-stoprace" (stop() from another thread while the loop is kept being polled, probe commands behind it).
ArbDropStop(a) ==
  /\ ~StopAlwaysHandled /\ CanStep(a) /\ arb[a].cmdq # <<>> /\ ~arb[a].stuck /\ Head(arb[a].cmdq).k = "stop"
  /\ arb' = [arb EXCEPT ![a].cmdq = Tail(@)]
  /\ act' = A("ArbDropStop", a, 0)
  /\ UNCHANGED <<thr, tasks, sysq, ctrl, oneshot, runst, ntask, ncmd, nsys, h>>

\* wrong design only: the loop ends when a Stop was seen and the channel is drained
ArbDrainEnd(a) ==
  /\ ~StopEndsLoop /\ CanStep(a) /\ arb[a].stopping /\ arb[a].cmdq = <<>>
  /\ arb' = EndLoop(a)
  /\ h' = IF a # 0 THEN H_LoopEnd(h, a) ELSE h
  /\ act' = A("ArbDrainEnd", a, 0)
  /\ UNCHANGED <<thr, tasks, sysq, ctrl, oneshot, runst, ntask, ncmd, nsys>>

ArbStartTask(a) ==
  /\ CanStep(a) /\ arb[a].localq # <<>>
  /\ LET q == arb[a].localq
         k == IF FifoLocalQueue THEN 1 ELSE Len(q)
         id == q[k]
         rest == [i \in 1..(Len(q) - 1) |-> IF i < k THEN q[i] ELSE q[i + 1]]
         tk == tasks[id]
         h1 == H_TaskStart(h, id, a, ArbTid(a), "ok", TheSysId)
         \* a client on the arbiter's own thread: [stop() on Arbiter::current(), then] spawn_fn on Arbiter::current();
         \* the loop is alive (this task runs), so both report true
         self == tk.body \in {"selfspawn", "selfstop"}
         nid == NextId(a)
         h2 == IF tk.body = "selfstop" THEN H_StopEnd(H_StopStart(h1, a), a) ELSE h1
         h3 == H_SendEnd(H_SendStart(h2, nid, a, ArbTid(a), "spawn_fn"), nid, TRUE)
         stopq == IF tk.body = "selfstop" THEN <<[k |-> "stop", id |-> 0]>> ELSE <<>>
         sendq == IF SelfSendViaChannel THEN <<[k |-> "exec", id |-> nid]>> ELSE <<>> IN
       /\ arb' = [arb EXCEPT ![a].localq = IF self /\ ~SelfSendViaChannel THEN Append(rest, nid) ELSE rest,
                              ![a].cmdq = IF self THEN @ \o stopq \o sendq ELSE @,
                              ![a].busy = (tk.body = "busy")]
       /\ IF self THEN /\ tasks' = Put(tasks, nid, [arb |-> a, kind |-> "spawn_fn", body |-> "done", code |-> 0])
                       /\ ntask' = [ntask EXCEPT ![a] = @ + 1]
                  ELSE UNCHANGED <<tasks, ntask>>
       /\ IF tk.body = "sys"
            THEN /\ sysq' = IF ctrl.alive THEN Append(sysq, [k |-> "exit", v |-> tk.code]) ELSE sysq
                 /\ h' = H_SysStopEnd(H_SysStopStart(h1, tk.code, ArbTid(a)), ArbTid(a))
            ELSE /\ h' = (IF self THEN h3 ELSE h1) /\ UNCHANGED sysq
       /\ act' = A("TaskStart", a, id)
  /\ UNCHANGED <<thr, ctrl, oneshot, runst, ncmd, nsys>>

ArbYield(a) ==
  /\ arb[a].busy /\ arb' = [arb EXCEPT ![a].busy = FALSE]
  /\ act' = A("ArbYield", a, 0)
  /\ UNCHANGED <<thr, tasks, sysq, ctrl, oneshot, runst, ntask, ncmd, nsys, h>>

ArbDeregister(a) ==
  /\ a # 0 /\ arb[a].loop = "ended"
  /\ arb' = [arb EXCEPT ![a].loop = "exited", ![a].cmdq = <<>>]   \* (wrong design RxDropAtLoopEnd = FALSE: discarded)
  /\ sysq' = IF ctrl.alive THEN Append(sysq, [k |-> "dereg", v |-> a]) ELSE sysq
  \* the thread exits: join returns (observed at the earliest moment, which is the strongest case)
  /\ h' = IF EagerJoin /\ ~Has(h.joined, a) /\ a \notin h.earlyTimeout THEN H_Join(h, a, TRUE) ELSE h
  /\ act' = A("ArbDeregister", a, 0)
  /\ UNCHANGED <<thr, tasks, ctrl, oneshot, runst, ntask, ncmd, nsys>>

JoinReturn(a) ==
  /\ a # 0 /\ (~EagerJoin \/ ~JoinWaitsExit) /\ ~Has(h.joined, a) /\ a \notin h.earlyTimeout
  /\ (arb[a].loop = "exited" \/ (~JoinWaitsExit /\ arb[a].loop = "run"))
  /\ h' = H_Join(h, a, TRUE)
  /\ act' = A("JoinReturned", a, 0)
  /\ UNCHANGED <<thr, tasks, sysq, ctrl, oneshot, runst, arb, ntask, ncmd, nsys>>

\* the join can never return without further client calls: the watchdog of the driver would expire
StopOnTheWay(a) == \/ \E i \in 1..Len(arb[a].cmdq) : arb[a].cmdq[i].k = "stop"
                   \/ \E t \in Thr : thr[t].pc = "call" /\ thr[t].cmd.op = "stop" /\ thr[t].cmd.arb = a
                   \/ arb[a].stopping
JoinTimeout(a) ==
  /\ a # 0 /\ ~Has(h.joined, a) /\ a \notin h.earlyTimeout
  /\ arb[a].loop = "run" /\ runst = "returned" /\ (~StopOnTheWay(a) \/ arb[a].stuck)
  /\ h' = H_Join(h, a, FALSE)
  /\ act' = A("JoinTimeout", a, 0)
  /\ UNCHANGED <<thr, tasks, sysq, ctrl, oneshot, runst, arb, ntask, ncmd, nsys>>

\* The driver waits, for one watchdog period, until the commands arbiter `a` has accepted have started.  The wait can
\* never end without further client calls: the loop is alive, nothing its thread can still do by itself starts one of
\* the commands in the channel (never the case in the design: a non-empty channel is dequeued sooner or later).
ArbCanMove(a) == \/ CanStep(a) /\ ((arb[a].cmdq # <<>> /\ ~arb[a].stuck) \/ arb[a].localq # <<>>)
                 \/ arb[a].busy \/ arb[a].regPending \/ (a = 0 /\ runst = "idle")
AwaitTimeout(a) ==
  /\ arb[a].loop = "run" /\ ~ArbCanMove(a) /\ a \notin h.awaited
  /\ \E i \in 1..Len(arb[a].cmdq) : arb[a].cmdq[i].k = "exec"
  /\ h' = H_AwaitEnd(H_AwaitStart(h, a), a, FALSE)
  /\ act' = A("AwaitTimeout", a, 0)
  /\ UNCHANGED <<thr, tasks, sysq, ctrl, oneshot, runst, arb, ntask, ncmd, nsys>>

(* ---------------------------- system thread ---------------------------- *)
MaxOf(S) == CHOOSE x \in S : \A y \in S : y <= x
Less1(n) == IF n > 0 THEN n - 1 ELSE 0
StopAll(targets) == [b \in Arbs |-> IF b \in targets /\ Accepts(b)
                                      THEN [arb[b] EXCEPT !.cmdq = Append(@, [k |-> "stop", id |-> 0])] ELSE arb[b]]
Targets == IF ExitStopsAll \/ ctrl.registry \ {0} = {} THEN ctrl.registry
           ELSE ctrl.registry \ {MaxOf(ctrl.registry)}
NewCode(c) == IF ~ctrl.codeSent \/ ~FirstCodeKept THEN c ELSE oneshot

\* One message per step (a poll of the real controller handles all buffered messages; other threads may append
\* between two steps, which is the same as their messages having been buffered when the poll began).
\* The poll that sends the code goes on until it finds the queue empty, and run() can only return after it: every
\* message buffered behind that Exit at that moment is still handled (`owed`; RunReturn waits for owed = 0).  Messages
\* that arrive later may or may not be handled before the runtime is dropped.
\* Every Exit stops every registered arbiter (wrong design EveryExitStops = FALSE: only the one that sends the code).
\* Wrong design CtrlBatch = K > 0 only: `batch` counts the messages taken in the current poll; a poll ends (batch 0,
\* waker registered) when the queue is found empty; after the K-th message of one poll the controller returns
\* Pending without a registered waker and is never polled again (`stuck`).
Polled(c, q) ==
  IF CtrlBatch = 0 THEN c
  ELSE IF c.batch + 1 >= CtrlBatch THEN [c EXCEPT !.batch = 0, !.stuck = TRUE]
  ELSE [c EXCEPT !.batch = IF q = <<>> THEN 0 ELSE @ + 1]
CtrlStep ==
  /\ ctrl.alive /\ ~ctrl.stuck /\ SysThreadFree /\ sysq # <<>>
  /\ LET m == Head(sysq) IN
       CASE m.k = "reg" -> /\ ctrl' = Polled([ctrl EXCEPT !.registry = @ \cup {m.v}, !.owed = Less1(@)], Tail(sysq))
                           /\ sysq' = Tail(sysq) /\ UNCHANGED <<arb, oneshot>>
         [] m.k = "dereg" -> /\ ctrl' = Polled([ctrl EXCEPT !.registry = @ \ {IF DeregOwnId THEN m.v ELSE (m.v % NArb) + 1},
                                                            !.owed = Less1(@)],
                                               Tail(sysq))
                             /\ sysq' = Tail(sysq) /\ UNCHANGED <<arb, oneshot>>
         [] m.k = "exit" ->
              IF StopBeforeCode
                THEN /\ arb' = IF EveryExitStops \/ ~ctrl.codeSent THEN StopAll(Targets) ELSE arb
                     /\ oneshot' = NewCode(m.v)
                     /\ ctrl' = Polled([ctrl EXCEPT !.codeSent = TRUE,
                                                    !.owed = IF ctrl.codeSent THEN Less1(@) ELSE Len(Tail(sysq))], Tail(sysq))
                     /\ sysq' = Tail(sysq)
                ELSE IF ~ctrl.half                                   \* wrong design: code first, arbiters later
                  THEN /\ oneshot' = NewCode(m.v) /\ ctrl' = [ctrl EXCEPT !.codeSent = TRUE, !.half = TRUE]
                       /\ UNCHANGED <<arb, sysq>>
                  ELSE /\ arb' = StopAll(Targets) /\ ctrl' = [ctrl EXCEPT !.half = FALSE]
                       /\ sysq' = Tail(sysq) /\ UNCHANGED oneshot
  /\ act' = A("Ctrl", 0, 0)
  /\ UNCHANGED <<thr, tasks, runst, ntask, ncmd, nsys, h>>

\* run() / run_with_code() is entered (StartIdle only): from now on the system thread polls the runtime
RunEnter ==
  /\ runst = "idle" /\ runst' = "running"
  /\ h' = H_RunCall(h)
  /\ act' = A("RunEnter", 0, 0)
  /\ UNCHANGED <<thr, tasks, sysq, ctrl, oneshot, arb, ntask, ncmd, nsys>>

RunReturn ==
  /\ SysThreadFree /\ oneshot # NoCode /\ (ctrl.owed = 0 \/ ctrl.stuck)
  /\ runst' = "returned"
  /\ ctrl' = [ctrl EXCEPT !.alive = FALSE, !.half = FALSE, !.owed = 0]
  /\ sysq' = <<>>
  /\ arb' = EndLoop(0)
  /\ \E api \in {"run", "run_with_code"} :
       LET ok == api = "run_with_code" \/ oneshot = 0 \/ ~RunErrsOnNonZero \/ (oneshot < 0 /\ ~NegCodeIsErr) IN
         h' = H_RunRet(h, api, ok, IF api = "run" /\ ok THEN 0 ELSE oneshot)
  /\ act' = A("RunReturned", oneshot, 0)
  /\ UNCHANGED <<thr, tasks, oneshot, ntask, ncmd, nsys>>

Internal == \/ \E t \in Thr : Enq(t) \/ SendEnd(t)
            \/ \E a \in Arbs : ArbLateRegister(a) \/ ArbDequeue(a) \/ ArbDropStop(a) \/ ArbDrainEnd(a) \/ ArbStartTask(a) \/ ArbYield(a) \/ ArbDeregister(a)
            \/ CtrlStep \/ RunEnter \/ RunReturn
Next == \/ Internal
        \/ \E t \in Thr : Issue(t) \/ CallAtomic(t)
        \/ NewArbiter
        \/ \E a \in Workers : JoinReturn(a) \/ JoinTimeout(a)
        \/ \E a \in Arbs : AwaitTimeout(a)

Spec == Init /\ [][Next]_vars

Fairness == /\ \A t \in Thr : WF_vars(Enq(t)) /\ WF_vars(SendEnd(t))
            /\ \A a \in Arbs : /\ WF_vars(ArbLateRegister(a)) /\ WF_vars(ArbDequeue(a)) /\ WF_vars(ArbDrainEnd(a)) /\ WF_vars(ArbStartTask(a))
                               /\ WF_vars(ArbYield(a)) /\ WF_vars(ArbDeregister(a))
            /\ \A a \in Workers : WF_vars(JoinReturn(a))
            /\ WF_vars(CtrlStep) /\ WF_vars(RunEnter) /\ WF_vars(RunReturn)
FairSpec == Spec /\ Fairness

(* ---------------------------- properties on the internal state ---------------------------- *)
TypeOK == /\ oneshot \in Codes \cup {NoCode} /\ runst \in {"idle", "running", "returned"} /\ ctrl.owed \in Nat
          /\ \A a \in Arbs : arb[a].loop \in {"none", "run", "ended", "exited"}
          /\ ctrl.registry \subseteq Arbs

\* the registry is exact: a worker whose Dereg message was consumed is not registered any more
\* (its Reg precedes its Dereg in the FIFO), and only created arbiters are registered
DeregPending(a) == \E i \in 1..Len(sysq) : sysq[i].k = "dereg" /\ sysq[i].v = a
RegPending(a) == \E i \in 1..Len(sysq) : sysq[i].k = "reg" /\ sysq[i].v = a
C09_RegistryExact ==
  ctrl.alive => \A a \in Workers :
     /\ (arb[a].loop = "exited" /\ ~DeregPending(a)) => a \notin ctrl.registry
     /\ (arb[a].loop = "run" /\ ~RegPending(a) /\ ~arb[a].regPending /\ a \in h.created) => a \in ctrl.registry

\* liveness (checked under FairSpec on the smallest configuration)
L_StopLeadsToRunReturn == (h.sysStarted > 0) ~> (runst = "returned")
L_MustStopExit == \A a \in Workers : (a \in h.mustStop) ~> (Has(h.joined, a) /\ h.joined[a] = "ok")
=============================================================================
