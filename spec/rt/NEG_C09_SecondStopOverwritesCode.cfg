CONSTANTS
  NArb = 2
  Thr = {t1}
  PreCreated = 1
  Kinds = {"spawn"}
  TaskStop = TRUE
  AtomicCalls = TRUE
  EagerJoin = TRUE
  MaxCmds = 3
  MaxSys = 2
  Codes = {0, 7}
  AllowBusy = FALSE
  FifoLocalQueue = TRUE
  StopEndsLoop = TRUE
  FirstCodeKept = FALSE
  ExitStopsAll = TRUE
  RunOnArbiterThread = TRUE
  StopBeforeCode = TRUE
  DeregOwnId = TRUE
  RegBeforeReady = TRUE
  ExecuteOnce = TRUE
  SendFailsWhenGone = TRUE
  JoinWaitsExit = TRUE
  RunErrsOnNonZero = TRUE
  BlockOnExact = TRUE
  SelfSend = FALSE
  SelfSendViaChannel = TRUE
  NegCodeIsErr = TRUE
  CtrlBatch = 0
  StartIdle = FALSE
  EveryExitStops = TRUE
  RxDropAtLoopEnd = TRUE
  DequeueBatch = 0
  StopAlwaysHandled = TRUE
  QueueCap = 0
SPECIFICATION Spec
VIEW View
SYMMETRY ThrSym
INVARIANTS C09_FirstCodeWins
CHECK_DEADLOCK FALSE
