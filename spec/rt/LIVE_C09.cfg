CONSTANTS
  NArb = 1
  Thr = {t1}
  PreCreated = 0
  Kinds = {"spawn", "spawn_fn"}
  TaskStop = TRUE
  AtomicCalls = TRUE
  EagerJoin = TRUE
  MaxCmds = 2
  MaxSys = 2
  Codes = {0, 7}
  AllowBusy = TRUE
  FifoLocalQueue = TRUE
  StopEndsLoop = TRUE
  FirstCodeKept = TRUE
  ExitStopsAll = TRUE
  RunOnArbiterThread = TRUE
  StopBeforeCode = TRUE
  DeregOwnId = TRUE
  RegBeforeReady = TRUE
  ExecuteOnce = TRUE
  SendFailsWhenGone = TRUE
  JoinWaitsExit = TRUE
  RunErrsOnNonZero = TRUE
  BlockOnExact = TRUE
  SelfSend = FALSE
  SelfSendViaChannel = TRUE
  NegCodeIsErr = TRUE
  CtrlBatch = 0
  StartIdle = FALSE
  EveryExitStops = TRUE
  RxDropAtLoopEnd = TRUE
  DequeueBatch = 0
  StopAlwaysHandled = TRUE
  QueueCap = 0
SPECIFICATION FairSpec
PROPERTIES L_StopLeadsToRunReturn L_MustStopExit
INVARIANTS TypeOK
CHECK_DEADLOCK FALSE
