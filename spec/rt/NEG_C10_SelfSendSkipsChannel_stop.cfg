CONSTANTS
  NArb = 1
  Thr = {t1}
  PreCreated = 1
  Kinds = {"spawn", "spawn_fn"}
  TaskStop = FALSE
  AtomicCalls = TRUE
  EagerJoin = TRUE
  MaxCmds = 3
  MaxSys = 1
  Codes = {0}
  AllowBusy = TRUE
  FifoLocalQueue = TRUE
  StopEndsLoop = TRUE
  FirstCodeKept = TRUE
  ExitStopsAll = TRUE
  RunOnArbiterThread = TRUE
  StopBeforeCode = TRUE
  DeregOwnId = TRUE
  RegBeforeReady = TRUE
  ExecuteOnce = TRUE
  SendFailsWhenGone = TRUE
  JoinWaitsExit = TRUE
  RunErrsOnNonZero = TRUE
  BlockOnExact = TRUE
  SelfSend = TRUE
  SelfSendViaChannel = FALSE
  NegCodeIsErr = TRUE
  CtrlBatch = 0
  StartIdle = FALSE
  EveryExitStops = TRUE
  RxDropAtLoopEnd = TRUE
  DequeueBatch = 0
  StopAlwaysHandled = TRUE
  QueueCap = 0
SPECIFICATION Spec
VIEW View
SYMMETRY ThrSym
INVARIANTS C10_NothingAfterStop
CHECK_DEADLOCK FALSE
