---------------------------- MODULE ActixRtTrace ----------------------------
(* Predicate-mode trace check for actix-rt (C09, C10).                                             *)
(* A trace is what the real-thread driver harness/rt recorded through the public API, in the order  *)
(* of the sequence numbers taken under one mutex.  The step relation is free: each record applies   *)
(* the history update of RtProps that the design model ActixRt.tla applies at the matching action;  *)
(* the property predicates (the same definitions TLC checks on the model) are INVARIANTS, so they   *)
(* are evaluated on every prefix of every run.  Nothing else is compared: the order of concurrent   *)
(* calls is constrained only where one call ended before the other started.                         *)
(* Runs are concatenated; a "reset" record starts one, an "End" record closes it.                   *)
(* This module extends RtProps only (not ActixRt): arbiter numbers, task ids, thread ids and exit   *)
(* codes are whatever integers the driver used, so runs with dozens of arbiters, negative codes or  *)
(* several Systems on one OS thread (one reset..End segment per System) are judged by the same       *)
(* predicates without any model bound.                                                               *)
(* "RunCall" (run() / run_with_code() is entered) and "Polled" (the driver is about to call          *)
(* SystemRunner::block_on) bound the stretch in which stop calls are known to be buffered together   *)
(* (H_SysStopEnd); "LoopEndSeen" is written by the destructor of a guard owned by a task that never  *)
(* completes, on a worker arbiter (H_LoopEnd).                                                        *)
(* "AwaitStart" / "AwaitReturned" / "AwaitTimeout": the driver queued a burst of commands on an       *)
(* arbiter that could not take them at the moment and waits, under the watchdog, until all of them    *)
(* have started (H_AwaitStart, H_AwaitEnd).  Records the spec does not know ("Filler": commands that  *)
(* were sent without a send record of their own, "OtherSystem": an older System of the same OS thread *)
(* was stopped and run to completion, ...) change nothing.                                            *)
EXTENDS RtProps, Json, IOUtils, TLC, TLCExt

Rec == ndJsonDeserialize(IOEnv.TRACE)
VARIABLE l
tvars == <<h, l>>
R == Rec[l + 1]

Summary == [order |-> NT_Order, started |-> NT_Started, afterStop |-> NT_AfterStop, afterGone |-> NT_AfterGone,
            mustStop |-> NT_MustStop, twoStops |-> NT_TwoStops, early |-> NT_Early,
            laterStop |-> NT_LaterStop, loopEndSeen |-> NT_LoopEndSeen,
            awaited |-> NT_Awaited, selfSend |-> NT_SelfSend, echo |-> NT_Echo, negCode |-> NT_NegCode, ncreated |-> Cardinality(h.created),
            nmust |-> Cardinality(h.mustStop), ncands |-> Cardinality(h.run.cands),
            sends |-> Cardinality(DOMAIN h.snd), starts |-> Cardinality(AllStarts),
            driftFalse |-> ~X_FalseOnlyAfterStop, driftEarly |-> ~X_EarlyStopJoins]

Apply(r) ==
  CASE r.ev = "reset"         -> HInit
    [] r.ev = "Thread"        -> H_Thread(h, r.tid, r.role = "sys")
    [] r.ev = "SysUp"         -> H_SysUp(h, r.sysid)
    [] r.ev = "ArbNewEnd"     -> H_ArbNew(h, r.arb)
    [] r.ev = "SendStart"     -> H_SendStart(h, r.id, r.arb, r.tid, r.kind)
    [] r.ev = "SendEnd"       -> H_SendEnd(h, r.id, r.ok)
    [] r.ev = "StopCallStart" -> H_StopStart(h, r.arb)
    [] r.ev = "StopCallEnd"   -> H_StopEnd(h, r.arb)
    [] r.ev = "TaskStart"     -> H_TaskStart(h, r.id, r.arb, r.tid, r.cur, r.sysid)
    [] r.ev = "Echo"          -> H_Echo(h, r.arb, r.tid)
    [] r.ev = "EchoSend"      -> H_EchoSend(h, r.arb, r.ok)
    [] r.ev = "SysStopStart"  -> H_SysStopStart(h, r.code, r.tid)
    [] r.ev = "SysStopEnd"    -> H_SysStopEnd(h, r.tid)
    [] r.ev = "RunCall"       -> H_RunCall(h)
    [] r.ev = "Polled"        -> H_Polled(h)
    \* only the destruction of a task that HAD STARTED shows that the loop has ended (the LocalSet goes after the runner and
    \* its receiver); a command that never started is destroyed wherever the loop keeps it - in the closed channel, or in a
    \* batch the loop took off the channel before it met the Stop - and proves nothing about the channel
    [] r.ev = "LoopEndSeen"   -> IF "started" \in DOMAIN r /\ ~r.started THEN h ELSE H_LoopEnd(h, r.arb)
    [] r.ev \in {"JoinReturned", "GoneObserved"} -> H_Join(h, r.arb, TRUE)
    [] r.ev \in {"JoinTimeout", "GoneTimeout"}   -> H_Join(h, r.arb, FALSE)
    [] r.ev = "RunReturned"   -> IF "coded" \in DOMAIN r /\ ~r.coded THEN H_RunRetNoCode(h, r.api)
                                  ELSE H_RunRet(h, r.api, r.ok, r.code)
    [] r.ev = "RunTimeout"    -> H_RunTimeout(h)
    [] r.ev = "AwaitStart"    -> H_AwaitStart(h, r.arb)
    [] r.ev = "AwaitReturned" -> H_AwaitEnd(h, r.arb, TRUE)
    [] r.ev = "AwaitTimeout"  -> H_AwaitEnd(h, r.arb, FALSE)
    [] r.ev = "BlockOn"       -> H_BlockOn(h, r.expected, r.got)
    [] OTHER                  -> h

TInit == h = HInit /\ l = 0
TNext == /\ l < Len(Rec) /\ l' = l + 1
         /\ h' = Apply(R)
         /\ (R.ev = "End" => PrintT(<<"NT", ToJson([run |-> l, s |-> Summary])>>))
TSpec == TInit /\ [][TNext]_tvars

TraceAccepted ==
  LET n == TLCGet("stats").diameter - 1 IN
    /\ PrintT(<<"TRACE_MATCHED", n, Len(Rec)>>)
    /\ (n < Len(Rec) => PrintT(<<"UNMATCHED", ToJson(Rec[n + 1])>>))
    /\ n = Len(Rec)
=============================================================================
