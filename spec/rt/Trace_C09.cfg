SPECIFICATION TSpec
INVARIANTS C09_FirstCodeWins C09_AllRegisteredStop C09_RunErrOnNonZero C09_EarlyStoppedDeregistered
POSTCONDITION TraceAccepted
CHECK_DEADLOCK FALSE
