SPECIFICATION TSpec
INVARIANTS C10_StartOrderRespectsSendOrder C10_AtMostOnce C10_OnOwnThread C10_NothingAfterStop C10_SpawnFalseWhenGone C10_JoinAfterLoopEnd C10_BlockOnOutput C10_AcceptedStarts
POSTCONDITION TraceAccepted
CHECK_DEADLOCK FALSE
