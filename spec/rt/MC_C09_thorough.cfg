CONSTANTS
  NArb = 3
  Thr = {t1}
  PreCreated = 2
  Kinds = {"spawn"}
  TaskStop = TRUE
  AtomicCalls = TRUE
  EagerJoin = TRUE
  MaxCmds = 3
  MaxSys = 2
  Codes = {0, 7}
  AllowBusy = TRUE
  FifoLocalQueue = TRUE
  StopEndsLoop = TRUE
  FirstCodeKept = TRUE
  ExitStopsAll = TRUE
  RunOnArbiterThread = TRUE
  StopBeforeCode = TRUE
  DeregOwnId = TRUE
  RegBeforeReady = TRUE
  ExecuteOnce = TRUE
  SendFailsWhenGone = TRUE
  JoinWaitsExit = TRUE
  RunErrsOnNonZero = TRUE
  BlockOnExact = TRUE
  SelfSend = FALSE
  SelfSendViaChannel = TRUE
  NegCodeIsErr = TRUE
  CtrlBatch = 0
  StartIdle = FALSE
  EveryExitStops = TRUE
  RxDropAtLoopEnd = TRUE
  DequeueBatch = 0
  StopAlwaysHandled = TRUE
  QueueCap = 0
SPECIFICATION Spec
VIEW View
SYMMETRY ThrSym
INVARIANTS TypeOK C09_FirstCodeWins C09_AllRegisteredStop C09_RunErrOnNonZero C09_EarlyStoppedDeregistered C09_RegistryExact
CHECK_DEADLOCK FALSE
