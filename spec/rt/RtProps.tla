------------------------------ MODULE RtProps ------------------------------
(* History monitor for actix-rt (properties C09, C10).                                            *)
(* One variable `h` holds, in clock-free relational form, everything a client of the public API   *)
(* can observe: calls with their start/end (so "call x ended before call y started" is known,     *)
(* nothing else about the order of concurrent calls), task starts, joins, the run result.         *)
(* The update operators H_* are applied in the global order of the events.  They are used by      *)
(*   - ActixRt.tla      (the design model: each action that a client could observe applies one),  *)
(*   - ActixRtTrace.tla (each record of a trace recorded from the real crate applies one),        *)
(* and the property predicates C09_* / C10_* below are evaluated by TLC as invariants in both.    *)
(* Arbiter 0 is the system arbiter (lives on the system thread, is never joined).                 *)
EXTENDS Integers, Sequences, FiniteSets

VARIABLE h

Put(f, k, v) == [x \in (DOMAIN f) \cup {k} |-> IF x = k THEN v ELSE f[x]]
Has(f, k) == k \in DOMAIN f
Del(f, k) == [x \in (DOMAIN f) \ {k} |-> f[x]]
EmptyFn == [x \in {} |-> 0]
NoRun == [st |-> "none", api |-> "", ok |-> TRUE, code |-> 0, coded |-> TRUE, cands |-> {}, stops |-> 0]
\* run.coded: the result carries a code (FALSE: run() returned an error whose text holds none); exit codes are any
\* i32 (negative ones included), so no integer can serve as the "no code" mark

HInit == [ snd        |-> EmptyFn, \* task id -> [arb, thr, kind, st]; st: "open" | "true" | "false"
           prec       |-> {},      \* <<i, j>>: same arbiter, send i ended before send j started
           afterStop  |-> {},      \* ids whose send started after an arbiter stop() call on that arbiter ended
           afterGone  |-> {},      \* ids whose send started after that arbiter was observed gone (join returned)
           stopStarted|-> {},      \* arbiters on which some stop() call has started
           stopEnded  |-> {},      \* arbiters on which some stop() call has ended
           started    |-> EmptyFn, \* arb -> task starts on that arbiter in order: [id, arb, tid, cur, sysok, afterJoin]
                                   \* (per arbiter: no predicate compares the order of starts of different arbiters)
           echoes     |-> {},      \* [arb, tid]: a marker sent through Arbiter::current() inside a task of arb ran on tid
           echoRefused|-> {},      \* arbs: such a marker was refused (send returned false) although no stop of any kind
                                   \* (stop() on that arbiter, System stop) had started: the loop that runs the task is
                                   \* alive, so the handle Arbiter::current() returned there is not that arbiter
           created    |-> {},      \* arbiters whose Arbiter::new() has returned
           mustStop   |-> {},      \* arbiters that the System stop calls issued so far must stop: those created before
                                   \* the first stop call started, and those created before a later stop call started
                                   \* that is known to be buffered together with the first one (see H_SysStopEnd)
           laterBound |-> {},      \* the arbiters a later stop call added to mustStop (evidence counter only)
           loopEndSeen|-> {},      \* arbiters whose loop end was observed by H_LoopEnd (evidence counter only)
           sysOpen    |-> EmptyFn, \* thread -> arbiters created when the System stop call it has open started
           runEntered |-> FALSE,   \* run() / run_with_code() has been entered
           polled     |-> FALSE,   \* the runner was polled (block_on) after the first System stop call had started
           gone       |-> {},      \* arbiters whose loop is known to have ended: join returned, a send was refused,
                                   \* or the destruction of a task that never completed was observed (H_LoopEnd)
           joined     |-> EmptyFn, \* arb -> "ok" | "timeout"
           early      |-> {},      \* arbiters whose join returned before the first System stop started
           earlyTimeout |-> {},    \* explicit stop()+join() did not return within the watchdog (not C09/C10 text; drift)
           joinNoCause|-> {},      \* join returned although no stop of any kind had started
           sysStarted |-> 0,       \* System stop calls started
           sysEnded   |-> 0,       \* System stop calls ended
           cands      |-> {},      \* codes of stop calls that started before any stop call had ended ("first")
           run        |-> NoRun,
           blockon    |-> {},      \* <<expected, got>>
           awaiting   |-> EmptyFn, \* arb -> the sends to it that had been accepted (returned true) when the driver began to
                                   \* wait for the commands it had queued there to start (H_AwaitStart)
           awaited    |-> {},      \* arbiters for which such a wait has ended, either way (evidence counter only)
           stranded   |-> {},      \* ids: accepted by an arbiter on which no stop of any kind was issued during a whole
                                   \* watchdog period afterwards, and not started by the end of that period (H_AwaitEnd)
           clients    |-> {},      \* thread ids of client threads (everything that is not an arbiter thread)
           sysTid     |-> 0,       \* thread id of the system thread (0 unknown)
           sysId      |-> 0 ]      \* System id (as seen by the thread that created it); -1 unknown in tasks

(* ------------------------------ updates ------------------------------ *)
\* every update maps a history value g to the next one (so that an action can apply several)
H_Thread(g, tid, isSys) == [g EXCEPT !.clients = @ \cup {tid}, !.sysTid = IF isSys THEN tid ELSE @]
H_SysUp(g, sysid) == [g EXCEPT !.sysId = sysid]
H_ArbNew(g, a) == [g EXCEPT !.created = @ \cup {a}]

H_SendStart(g, id, a, thr, kind) ==
  [g EXCEPT !.snd = Put(@, id, [arb |-> a, thr |-> thr, kind |-> kind, st |-> "open"]),
            !.prec = @ \cup {<<i, id>> : i \in {x \in DOMAIN g.snd : g.snd[x].arb = a /\ g.snd[x].st # "open"}},
            !.afterStop = IF a \in g.stopEnded THEN @ \cup {id} ELSE @,
            !.afterGone = IF a \in g.gone THEN @ \cup {id} ELSE @]
H_SendEnd(g, id, ok) == [g EXCEPT !.snd[id].st = IF ok THEN "true" ELSE "false"]

H_StopStart(g, a) == [g EXCEPT !.stopStarted = @ \cup {a}]
H_StopEnd(g, a) == [g EXCEPT !.stopEnded = @ \cup {a}]

H_TaskStart(g, id, a, tid, cur, sysid) ==
  [g EXCEPT !.started = Put(@, a, Append(IF Has(g.started, a) THEN g.started[a] ELSE <<>>,
                                         [id |-> id, arb |-> a, tid |-> tid, cur |-> cur,
                                          sysok |-> (sysid = g.sysId), afterJoin |-> (a \in g.gone)]))]
H_Echo(g, a, tid) == [g EXCEPT !.echoes = @ \cup {[arb |-> a, tid |-> tid]}]
\* the marker send has returned (applied at its end: stops started meanwhile only weaken the clause)
H_EchoSend(g, a, ok) ==
  [g EXCEPT !.echoRefused = IF ~ok /\ g.sysStarted = 0 /\ a \notin g.stopStarted THEN @ \cup {a} ELSE @]

\* `t`: the calling thread (a thread has one call open at a time: start and end of a call are matched by it)
H_SysStopStart(g, code, t) ==
  [g EXCEPT !.sysStarted = @ + 1,
            !.cands = IF g.sysEnded = 0 THEN @ \cup {code} ELSE @,
            !.mustStop = IF g.sysStarted = 0 THEN g.created ELSE @,
            !.sysOpen = Put(@, t, g.created)]
\* "Created before the stop was issued" for a stop call that is not the first one.  The controller handles, in the poll
\* in which it handles the first Exit and before run can return, every message that is buffered at that moment, and
\* EVERY Exit stops every arbiter registered when it is handled (only the code is first-wins).  A client knows that a
\* later stop call is buffered together with the first one when that call has returned before run() / run_with_code()
\* was entered and the runner was not polled (block_on) since the first stop call started: then every arbiter created
\* before that call started must stop as well.  (Later stop calls of which this is not known promise nothing new: the
\* system may be gone by the time they are made.)
H_SysStopEnd(g, t) ==
  [g EXCEPT !.sysEnded = @ + 1,
            !.sysOpen = Del(@, t),
            !.mustStop = IF ~g.runEntered /\ ~g.polled /\ Has(g.sysOpen, t) THEN @ \cup g.sysOpen[t] ELSE @,
            !.laterBound = IF ~g.runEntered /\ ~g.polled /\ Has(g.sysOpen, t) THEN @ \cup (g.sysOpen[t] \ g.mustStop) ELSE @]
H_RunCall(g) == [g EXCEPT !.runEntered = TRUE]
H_Polled(g) == [g EXCEPT !.polled = @ \/ g.sysStarted > 0]

\* The loop of worker arbiter `a` is seen to have ended without a join: a task that never completes (or a command that
\* never started) is destroyed only when the receiver is dropped at the end of the loop or, afterwards, by the teardown
\* of the arbiter's runtime; the destructor of a value it owns observes that moment (on the arbiter's thread).
H_LoopEnd(g, a) == [g EXCEPT !.gone = @ \cup {a}, !.loopEndSeen = @ \cup {a}]

H_Join(g, a, ok) ==
  IF ok THEN [g EXCEPT !.joined = Put(@, a, "ok"), !.gone = @ \cup {a},
                       !.early = IF g.sysStarted = 0 THEN @ \cup {a} ELSE @,
                       !.joinNoCause = IF g.sysStarted = 0 /\ a \notin g.stopStarted THEN @ \cup {a} ELSE @]
        ELSE IF g.sysStarted = 0 THEN [g EXCEPT !.earlyTimeout = @ \cup {a}]
        ELSE [g EXCEPT !.joined = Put(@, a, "timeout")]

\* The driver has queued commands on arbiter `a` (all those sends have returned) and now waits, for at most one watchdog
\* period, until the last of them has started.  ok = FALSE: the watchdog expired.  An accepted command may go unstarted
\* only if the loop ends first, so the expiry counts only if, when it is recorded, no stop of any kind (stop() on that
\* arbiter, System stop) has started, the arbiter was not seen gone and run() has not returned: then every command
\* accepted before the wait began that has still not started is `stranded`.  (Commands accepted meanwhile are not
\* counted: they may start a moment later.)
StartedIn(g, id) == LET a == g.snd[id].arb IN Has(g.started, a) /\ \E i \in 1..Len(g.started[a]) : g.started[a][i].id = id
H_AwaitStart(g, a) ==
  [g EXCEPT !.awaiting = Put(@, a, {id \in DOMAIN g.snd : g.snd[id].arb = a /\ g.snd[id].st = "true"})]
H_AwaitEnd(g, a, ok) ==
  LET live == a \notin g.stopStarted /\ g.sysStarted = 0 /\ a \notin g.gone /\ g.run.st = "none"
      left == IF Has(g.awaiting, a) THEN {id \in g.awaiting[a] : ~StartedIn(g, id)} ELSE {} IN
  [g EXCEPT !.awaited = @ \cup {a},
            !.awaiting = Del(@, a),
            !.stranded = IF ~ok /\ live THEN @ \cup left ELSE @]

H_RunRet(g, api, ok, code) ==
  [g EXCEPT !.run = [st |-> "ret", api |-> api, ok |-> ok, code |-> code, coded |-> TRUE,
                     cands |-> g.cands, stops |-> g.sysStarted]]
\* run() returned an error that carries no code
H_RunRetNoCode(g, api) ==
  [g EXCEPT !.run = [st |-> "ret", api |-> api, ok |-> FALSE, code |-> 0, coded |-> FALSE,
                     cands |-> g.cands, stops |-> g.sysStarted]]
H_RunTimeout(g) == [g EXCEPT !.run = [NoRun EXCEPT !.st = "timeout", !.cands = g.cands, !.stops = g.sysStarted]]
H_BlockOn(g, e, x) == [g EXCEPT !.blockon = @ \cup {<<e, x>>}]

(* ------------------------------ C09 ------------------------------ *)
\* run_with_code returns the code of a stop call that no other stop call preceded; it does return.
\* (for run(): the code carried by the error, if it carries one)
C09_FirstCodeWins ==
  /\ h.run.st # "timeout"
  /\ h.run.st = "ret" =>
       /\ h.run.stops > 0
       /\ h.run.api = "run_with_code" => (h.run.ok /\ h.run.code \in h.run.cands)
       /\ (h.run.api = "run" /\ ~h.run.ok /\ h.run.coded) => h.run.code \in h.run.cands

\* run(): Ok exactly for code 0; every other code, negative ones included, is an error
C09_RunErrOnNonZero ==
  (h.run.st = "ret" /\ h.run.api = "run" /\ h.run.stops > 0) =>
     IF h.run.ok THEN 0 \in h.run.cands ELSE (h.run.cands \ {0}) # {}

\* every arbiter created before the stop was issued (the first stop call, or a later one known to be handled: see
\* H_SysStopEnd) ends its loop: joining it returns
C09_AllRegisteredStop == \A a \in h.mustStop : Has(h.joined, a) => h.joined[a] # "timeout"

\* arbiters that stopped before the stop was issued do not disturb it: with such arbiters present the
\* run still returns and every other arbiter still stops; they themselves stay gone
St(a) == IF Has(h.started, a) THEN h.started[a] ELSE <<>>
AllStarts == UNION {{St(a)[i] : i \in 1..Len(St(a))} : a \in DOMAIN h.started}
C09_EarlyStoppedDeregistered ==
  h.early # {} =>
     /\ h.run.st # "timeout"
     /\ \A b \in h.mustStop : Has(h.joined, b) => h.joined[b] # "timeout"
     /\ \A s \in AllStarts : s.arb \in h.early => ~s.afterJoin

(* ------------------------------ C10 ------------------------------ *)
StartIdx(id) == LET q == St(h.snd[id].arb) IN {i \in 1..Len(q) : q[i].id = id}
Started(id) == \E s \in AllStarts : s.id = id
Min(S) == CHOOSE x \in S : \A y \in S : x <= y

\* if send i ended before send j (same arbiter) started and j started, then i started, earlier
C10_StartOrderRespectsSendOrder ==
  \A p \in h.prec :
     (h.snd[p[1]].st = "true" /\ StartIdx(p[2]) # {}) =>
         (StartIdx(p[1]) # {} /\ Min(StartIdx(p[1])) < Min(StartIdx(p[2])))

C10_AtMostOnce ==
  /\ \A a \in DOMAIN h.started : \A i, j \in 1..Len(St(a)) : St(a)[i].id = St(a)[j].id => i = j
  /\ \A s1, s2 \in AllStarts : s1.id = s2.id => s1.arb = s2.arb

\* tasks of one arbiter run on one thread that is no client thread (system arbiter: the system thread),
\* different arbiters on different threads; there Arbiter::current() and System::current() are that
\* arbiter (a marker sent through it is accepted while no stop was issued, and runs on the same thread) and that system
C10_OnOwnThread ==
  /\ \A s \in AllStarts :
        /\ s.cur = "ok" /\ s.sysok
        /\ IF s.arb = 0 THEN (h.sysTid # 0 => s.tid = h.sysTid) ELSE s.tid \notin h.clients
        /\ \A s2 \in AllStarts : (s2.arb = s.arb) <=> (s2.tid = s.tid)
  /\ \A e \in h.echoes : \A s \in AllStarts : s.arb = e.arb => s.tid = e.tid
  /\ h.echoRefused = {}

\* nothing whose send started after a stop() call on that arbiter ended ever starts
C10_NothingAfterStop == \A id \in h.afterStop : ~Started(id)

\* a send that starts after the arbiter is gone (join returned, or its loop was seen to have ended) reports false
C10_SpawnFalseWhenGone == \A id \in h.afterGone : h.snd[id].st # "true"

\* join returns only after the loop has ended: no task starts afterwards, and some stop had been issued
C10_JoinAfterLoopEnd ==
  /\ \A s \in AllStarts : ~s.afterJoin
  /\ h.joinNoCause = {}

C10_BlockOnOutput == \A b \in h.blockon : b[1] = b[2]

\* "start in the order sent" includes that they start: a command accepted by an arbiter whose loop goes on (no stop of any
\* kind issued, see H_AwaitEnd) starts - however many commands were queued in front of it while the arbiter's thread was
\* busy, or before its loop was polled for the first time
C10_AcceptedStarts == h.stranded = {}

\* not part of C09/C10 (reported as drift only): a send reports false only once some stop was issued
X_FalseOnlyAfterStop ==
  \A id \in DOMAIN h.snd : h.snd[id].st = "false" => (h.snd[id].arb \in h.stopStarted \/ h.sysStarted > 0)
X_EarlyStopJoins == h.earlyTimeout = {}

\* antecedent counters for the evidence (a run is non-trivial for a clause if its antecedent occurred)
NT_Order == \E p \in h.prec : Started(p[2])
NT_Started == AllStarts # {}
NT_AfterStop == h.afterStop # {}
NT_AfterGone == h.afterGone # {}
NT_MustStop == h.mustStop # {}
NT_TwoStops == h.sysStarted > 1
NT_LaterStop == h.laterBound # {}   \* a later stop call added arbiters (created between two stop calls) to mustStop
NT_LoopEndSeen == h.loopEndSeen # {}
NT_Early == h.early # {}
NT_SelfSend == \E id \in DOMAIN h.snd : h.snd[id].thr \notin h.clients   \* sent from a worker arbiter's own thread
NT_Echo == h.echoes # {}
NT_NegCode == \E c \in h.cands : c < 0
NT_Awaited == h.awaited # {}        \* the driver waited for a burst of queued commands to start
=============================================================================
