CONSTANTS
  Limits = {1, 2, 3}
  Ts = {2}
  NCalls = 3
  NWakers = 2
  CompleteTh = {0, 1, 2, 3, 4}
  FailTh = {0, 1, 2, 3, 4}
  LateSlack = 1
  WithPollPending = TRUE
  TimeoutAfterErrorOnly = FALSE
  GuardReleasedAtCall = FALSE
  GateOffset = 0
  WakeOnRelease = FALSE
  TimeoutFactor = 1
SPECIFICATION Spec
VIEW View
INVARIANTS C18_ResolvesBy C18_GuardHeldWhileHandshaking C18_WakeOnRelease 
PROPERTIES C18_Steps

CHECK_DEADLOCK FALSE
