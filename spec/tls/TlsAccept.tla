----------------------------- MODULE TlsAccept -----------------------------
(* actix_tls::accept::{rustls_0_23, openssl}::AcceptorService - property C18 (time and gating).    *)
(* Shaped like the code:                                                                           *)
(*   limit     MAX_CONN at the thread's first use (capacity of the thread-local Counter)           *)
(*   inflight  count of the thread-local Counter = live CounterGuards                             *)
(*   parked    waker registered in the Counter's LocalWaker by the last not-ready answer (0 none) *)
(*   calls     the unresolved accept futures, oldest first (a call is addressed by its position   *)
(*             c in this list at the time of the action); per call the handshake script chosen by *)
(*             TLC                                                                                 *)
(*               complete(th) | fail(th) (garbage / disconnect: the bytes arrive at th) | stall    *)
(*             and `el`, the virtual time (ticks) since the call; sleep(tmo) runs next to it       *)
(*   tmo       configured handshake timeout in ticks                                               *)
(* One action per operation the caller / executor performs; `act` = what the caller observes.      *)
(* A call future is polled by PollCall: handshake first, then the timeout (AcceptFut::poll).       *)
(* The guard lives in the future: it is released when the resolved (or abandoned) future is        *)
(* dropped, which the executor does in the same step (Resolve / DropCall).                         *)
(* The executor is eager: virtual time does not advance while a future that would resolve has not  *)
(* been polled (Tokio's paused clock advances only when every task is idle).                       *)
EXTENDS Naturals, Sequences, FiniteSets, TLC, Json

CONSTANTS Limits, Ts, NCalls, NWakers,
          CompleteTh, FailTh,    \* handshake event times (ticks after the call) TLC chooses from
          LateSlack,             \* ... kept if th <= tmo+LateSlack (th > tmo: the event comes too late)
          WithPollPending,       \* include polls of futures that are not due (answer Pending) as actions
          TimeoutAfterErrorOnly, \* design FALSE: TRUE = the sleep is looked at only when the handshake future errs
          GuardReleasedAtCall,   \* design FALSE: TRUE = guard dropped in call() instead of moved into the future
          GateOffset,            \* design 0: Ready iff inflight < limit + GateOffset
          WakeOnRelease,         \* design TRUE: a release that frees a slot wakes the parked waker
          TimeoutFactor          \* design 1: the sleep is tmo * TimeoutFactor

VARIABLES limit, tmo, inflight, parked, refused, calls, act
vars == <<limit, tmo, inflight, parked, refused, calls, act>>
View == <<limit, tmo, inflight, parked, refused, calls>>

Min(a, b) == IF a <= b THEN a ELSE b
NoAct == [op |-> "init", c |-> 0, w |-> 0, kind |-> "none", th |-> 0, res |-> "", el |-> 0,
          woken |-> 0, unres |-> 0]
Running == 1..Len(calls)
Remove(c) == SubSeq(calls, 1, c - 1) \o SubSeq(calls, c + 1, Len(calls))
ElCap == 2 * tmo + 2      \* only reached by wrong designs; keeps their graphs finite

Init == /\ limit \in Limits /\ tmo \in Ts /\ inflight = 0 /\ parked = 0 /\ refused = 0
        /\ calls = <<>> /\ act = NoAct

(* ---------------- the mechanism ---------------- *)
\* AcceptFut::poll: match handshake.poll { Ready(Ok) => ok, Ready(Err) => tls error, Pending => timeout.poll }
PollOutcome(r) ==
  IF r.kind = "complete" /\ r.el >= r.th THEN "ok"
  ELSE IF r.kind = "fail" /\ r.el >= r.th THEN "tlserr"
  ELSE IF TimeoutAfterErrorOnly THEN "pending"
  ELSE IF r.el >= tmo * TimeoutFactor THEN "timeout"
  ELSE "pending"

\* Service::poll_ready -> Counter::available(cx)
PollReady(w) ==
  /\ IF inflight < limit + GateOffset
       THEN /\ act' = [NoAct EXCEPT !.op = "ready", !.w = w, !.res = "ready", !.unres = inflight]
            /\ UNCHANGED <<parked, refused>>
       ELSE /\ parked' = w /\ refused' = w
            /\ act' = [NoAct EXCEPT !.op = "ready", !.w = w, !.res = "pending", !.unres = inflight]
  /\ UNCHANGED <<limit, tmo, inflight, calls>>

\* Service::call: AcceptFut { handshake, sleep(tmo), guard = conns.get() }; not polled yet
Call(k, t) ==
  /\ Len(calls) < NCalls
  /\ LET c == Len(calls) + 1 IN
       /\ calls' = Append(calls, [kind |-> k, th |-> t, el |-> 0])
       /\ inflight' = (IF GuardReleasedAtCall THEN inflight ELSE inflight + 1)
       /\ act' = [NoAct EXCEPT !.op = "call", !.c = c, !.kind = k, !.th = t,
                               !.unres = (IF GuardReleasedAtCall THEN inflight ELSE inflight + 1)]
  /\ UNCHANGED <<limit, tmo, parked, refused>>

\* CounterGuard::drop -> CounterInner::dec: wake the registered waker when the count leaves `capacity`
Release(op, c, res, e) ==
  IF GuardReleasedAtCall
    THEN /\ act' = [NoAct EXCEPT !.op = op, !.c = c, !.res = res, !.el = e, !.unres = inflight]
         /\ UNCHANGED <<inflight, parked, refused>>
    ELSE LET fire == WakeOnRelease /\ inflight = limit /\ parked # 0 IN
         /\ inflight' = inflight - 1
         /\ parked' = (IF inflight = limit THEN 0 ELSE parked)    \* LocalWaker::wake takes the waker
         /\ refused' = (IF fire /\ refused = parked THEN 0 ELSE refused)
         /\ act' = [NoAct EXCEPT !.op = op, !.c = c, !.res = res, !.el = e, !.unres = inflight - 1,
                                 !.woken = (IF fire THEN parked ELSE 0)]

\* the executor polls call c, it is Ready; the finished future (and its guard) is dropped
Resolve(c) ==
  /\ c \in Running /\ PollOutcome(calls[c]) # "pending"
  /\ Release("poll", c, PollOutcome(calls[c]), calls[c].el)
  /\ calls' = Remove(c)
  /\ UNCHANGED <<limit, tmo>>

\* the executor polls call c, it is not due
PollPending(c) ==
  /\ WithPollPending /\ c \in Running /\ PollOutcome(calls[c]) = "pending"
  /\ act' = [NoAct EXCEPT !.op = "poll", !.c = c, !.res = "pending", !.el = calls[c].el, !.unres = inflight]
  /\ UNCHANGED <<limit, tmo, inflight, parked, refused, calls>>

\* the caller abandons call c (drops the unresolved future)
DropCall(c) ==
  /\ c \in Running
  /\ Release("drop", c, "", calls[c].el)
  /\ calls' = Remove(c)
  /\ UNCHANGED <<limit, tmo>>

\* one tick of virtual time; only when no future would resolve if polled
Advance ==
  /\ Running # {}
  /\ \A c \in Running : PollOutcome(calls[c]) = "pending" /\ calls[c].el < ElCap
  /\ calls' = [c \in Running |-> [calls[c] EXCEPT !.el = @ + 1]]
  /\ act' = [NoAct EXCEPT !.op = "advance", !.unres = inflight]
  /\ UNCHANGED <<limit, tmo, inflight, parked, refused>>

\* payload transfer over an accepted stream is abstract: the driver compares bytes (differential)
EchoOk(c) == /\ act' = [NoAct EXCEPT !.op = "echo", !.c = c, !.res = "ok", !.unres = inflight]
             /\ UNCHANGED <<limit, tmo, inflight, parked, refused, calls>>

Scripts == {<<"stall", 0>>} \cup ({"complete"} \X {t \in CompleteTh : t <= tmo + LateSlack})
                            \cup ({"fail"} \X {t \in FailTh : t <= tmo + LateSlack})

Next == \/ \E w \in 1..NWakers : PollReady(w)
        \/ \E s \in Scripts : Call(s[1], s[2])
        \/ \E c \in 1..NCalls : Resolve(c) \/ PollPending(c) \/ DropCall(c)
        \/ Advance
Spec == Init /\ [][Next]_vars

(* ---------------- property predicates (C18) ---------------- *)
\* what the property prescribes for a call with script r
Due(r) == IF r.kind = "stall" THEN tmo ELSE Min(r.th, tmo)
PropRes(r) == IF r.kind = "complete" /\ r.th <= tmo THEN "ok"
              ELSE IF r.kind = "fail" /\ r.th <= tmo THEN "tlserr" ELSE "timeout"
Unresolved == Len(calls)

\* never later: virtual time does not pass the due instant of an unresolved call
C18_ResolvesBy == \A c \in Running : calls[c].el <= Due(calls[c])
\* a poll resolves exactly at min(t_h, T) with the matching variant, and is pending before
C18_ResolvesByStep ==
  act'.op = "poll" =>
    LET r == calls[act'.c] IN
      IF act'.res = "pending" THEN r.el < Due(r)
      ELSE act'.res = PropRes(r) /\ act'.el = Due(r) /\ act'.el <= tmo
\* the gate: not ready iff the handshakes in progress have reached the limit
C18_GateStep == act'.op = "ready" => ((act'.res = "pending") <=> (Unresolved >= limit))
\* the counter is the number of handshakes in progress (resolved and dropped futures have released)
C18_GuardHeldWhileHandshaking == inflight = Unresolved
\* no lost wake-up: a caller answered not-ready and not woken since is still rightly not ready
C18_WakeOnRelease == refused # 0 => Unresolved >= limit
\* the end of a call that frees a slot wakes the parked caller
C18_WakeOnReleaseStep ==
  (act'.op \in {"poll", "drop"} /\ act'.c \in Running /\ act'.res # "pending"
     /\ Unresolved = limit /\ refused # 0) => act'.woken = refused
C18_Steps == [][C18_ResolvesByStep /\ C18_GateStep /\ C18_WakeOnReleaseStep]_vars

LogEdge == PrintT(<<"EDGE", ToJson([from |-> View, act |-> act', to |-> View'])>>)
LogInit == TLCGet("level") > 1 \/ PrintT(<<"INIT", ToJson([from |-> View])>>)
=============================================================================
