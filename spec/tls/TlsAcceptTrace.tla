--------------------------- MODULE TlsAcceptTrace ---------------------------
(* Strict validation of recorded acceptor histories (driver `vtls accept`) against TlsAccept.      *)
(* The script of a call (kind, th) is what the driver's client did; everything else in a record    *)
(* is observed: poll_ready answers, resolution variant and virtual instant, wake-ups (required     *)
(* \subseteq observed), number of unresolved call futures.  `echo` records are the driver's        *)
(* byte-for-byte payload comparison on an accepted stream (differential, not model-decided): they  *)
(* must follow the ok-resolution of the same call and report ok.                                   *)
EXTENDS TlsAccept, IOUtils, TLCExt
Rec == ndJsonDeserialize(IOEnv.TRACE)
VARIABLES l, tick
tvars == <<vars, l, tick>>
ToSet(s) == {s[i] : i \in 1..Len(s)}
R == Rec[l + 1]
WokenOk(r) == act'.woken = 0 \/ act'.woken \in ToSet(r.woken)
Reset(r) == /\ limit' = r.limit /\ tmo' = r.T /\ inflight' = 0 /\ parked' = 0 /\ refused' = 0
            /\ calls' = <<>> /\ act' = NoAct /\ tick' = r.tick_ms
Step(r) ==
  \/ r.ev = "reset" /\ Reset(r)
  \/ /\ r.ev = "ready" /\ PollReady(r.w)
     /\ act'.res = r.res /\ act'.unres = r.unres /\ UNCHANGED tick
  \/ /\ r.ev = "call" /\ Call(r.kind, r.th)
     /\ act'.c = r.c /\ r.res = "" /\ act'.unres = r.unres /\ UNCHANGED tick
  \/ /\ r.ev = "poll" /\ r.c \in Running /\ (Resolve(r.c) \/ PollPending(r.c))
     /\ act'.res = r.res /\ r.el_ms = act'.el * tick /\ act'.unres = r.unres /\ WokenOk(r)
     /\ UNCHANGED tick
  \/ /\ r.ev = "drop" /\ r.c \in Running /\ DropCall(r.c)
     /\ r.res = "" /\ act'.unres = r.unres /\ WokenOk(r) /\ UNCHANGED tick
  \/ /\ r.ev = "advance" /\ Advance
     /\ Len(r.early) = 0 /\ r.moved_ms = tick /\ act'.unres = r.unres /\ UNCHANGED tick
  \/ /\ r.ev = "echo" /\ act.op = "poll" /\ act.res = "ok" /\ act.c = r.c /\ EchoOk(r.c)
     /\ r.ok = TRUE /\ act'.unres = r.unres /\ UNCHANGED tick
TInit == Init /\ limit = 1 /\ l = 0 /\ tick = 1
TNext == l < Len(Rec) /\ l' = l + 1 /\ Step(R)
TSpec == TInit /\ [][TNext]_tvars
TraceAccepted ==
  LET n == TLCGet("stats").diameter - 1 IN
    /\ PrintT(<<"TRACE_MATCHED", n, Len(Rec)>>)
    /\ (n < Len(Rec) => PrintT(<<"UNMATCHED", ToJson(Rec[n + 1])>>))
    /\ n = Len(Rec)
=============================================================================
