CONSTANTS
  Limits = {1}
  Ts = {1}
  NCalls = 8
  NWakers = 2
  CompleteTh = {}
  FailTh = {}
  LateSlack = 1
  WithPollPending = TRUE
  TimeoutAfterErrorOnly = FALSE
  GuardReleasedAtCall = FALSE
  GateOffset = 0
  WakeOnRelease = TRUE
  TimeoutFactor = 1
SPECIFICATION TSpec
INVARIANTS C18_ResolvesBy C18_GuardHeldWhileHandshaking C18_WakeOnRelease
PROPERTIES C18_Steps
POSTCONDITION TraceAccepted
CHECK_DEADLOCK FALSE
