CONSTANTS
  Limits = {1, 2, 3}
  Ts = {2}
  NCalls = 3
  NWakers = 2
  CompleteTh = {0, 2}
  FailTh = {1, 2}
  LateSlack = 0
  WithPollPending = FALSE
  TimeoutAfterErrorOnly = FALSE
  GuardReleasedAtCall = FALSE
  GateOffset = 0
  WakeOnRelease = TRUE
  TimeoutFactor = 1
SPECIFICATION Spec
VIEW View
INVARIANTS C18_ResolvesBy C18_GuardHeldWhileHandshaking C18_WakeOnRelease LogInit
PROPERTIES C18_Steps
ACTION_CONSTRAINT LogEdge
CHECK_DEADLOCK FALSE
