----------------------------- MODULE Utf8Trace -----------------------------
(* Predicate-mode check of observations recorded on the real ByteString (C20).                      *)
(* Each record {"ev":"vec","s":bytes,"acc":all fallible constructors accepted,"rej":all rejected,   *)
(* "split":[mids at which split_at returned on every value], "eqp"/"neqp"/"eqs"/"neqs":[mids at     *)
(* which the left/right half compared equal/unequal to the whole]} installs the observed string; the *)
(* property predicate C20_ObservedAgrees is evaluated by TLC on every recorded state.               *)
EXTENDS Utf8, IOUtils, TLCExt
Rec == ndJsonDeserialize(IOEnv.TRACE)
VARIABLE l, obs
tvars == <<vars, l, obs>>
R == Rec[l + 1]
NoObs == [ev |-> "reset"]
Range(f) == {f[i] : i \in 1..Len(f)}
TInit == Init /\ l = 0 /\ obs = NoObs
Install(r) == /\ obs' = r
              /\ IF r.ev = "vec"
                 THEN s' = r.s /\ q' = Run(r.s) /\ bnd' = Boundaries(r.s) /\ act' = [op |-> "observed", b |-> 0]
                 ELSE s' = <<>> /\ q' = "S" /\ bnd' = {0} /\ act' = [op |-> "init", b |-> 0]
TNext == l < Len(Rec) /\ l' = l + 1 /\ Install(R)
TSpec == TInit /\ [][TNext]_tvars
\* the fallible constructors accept exactly the strings the table accepts, and split_at returns exactly
\* at the table's character boundaries (mid = Len+1 included in the observation range: never returns)
C20_ObservedAgrees ==
  obs.ev = "vec" =>
    /\ obs.acc = (q = "S")
    /\ obs.rej = (q # "S")
    /\ (q = "S" => Range(obs.split) = bnd)
    /\ (q # "S" => obs.split = <<>>)
    \* Compare: a split_at half that shares storage with the whole equals it only when it IS the whole
    \* (left half: mid = Len, right half: mid = 0); at every other boundary it compares unequal
    /\ (q = "S" => /\ Range(obs.eqp) = {Len(s)} /\ Range(obs.neqp) = bnd \ {Len(s)}
                   /\ Range(obs.eqs) = {0} /\ Range(obs.neqs) = bnd \ {0})
    /\ (q # "S" => obs.eqp = <<>> /\ obs.neqp = <<>> /\ obs.eqs = <<>> /\ obs.neqs = <<>>)
TraceAccepted ==
  LET n == TLCGet("stats").diameter - 1 IN
    /\ PrintT(<<"TRACE_MATCHED", n, Len(Rec)>>)
    /\ (n < Len(Rec) => PrintT(<<"UNMATCHED", ToJson(Rec[n + 1])>>))
    /\ n = Len(Rec)
=============================================================================
