------------------------------- MODULE Utf8 -------------------------------
(* Property C20 - bytestring::ByteString always holds well-formed UTF-8 and agrees with str.        *)
(*                                                                                                  *)
(* Two formulations of "well-formed UTF-8 byte sequence" (Unicode 15, chapter 3.9):                 *)
(*   1. Table 3-7 transcribed as a DFA over byte values (Step / Run / Valid / Boundaries).  This is *)
(*      the oracle the real code is compared with.                                                   *)
(*   2. The definition (D92 / D84-D86): greedy decoding by lead byte pattern to a code point, which *)
(*      must be a Unicode scalar value (<= 10FFFF, not a surrogate) in shortest form (WF).          *)
(* TLC walks every byte string of length <= MaxLen over Alphabet (one state per string), checks at  *)
(* every state that the two formulations agree and prints the vector (s, valid, boundaries).        *)
(* The table limits are constants so that NEG configs can mis-transcribe one cell of the table and  *)
(* TLC must notice (vacuity guard of C20_TableIsDefinition).                                         *)
EXTENDS Naturals, Sequences, FiniteSets, TLC, Json

CONSTANTS MaxLen,      \* longest byte string enumerated
          Alphabet,    \* set of byte values (0..255) the strings are built from
          Lead2Lo,     \* design 194 (C2): smallest 2-byte lead       (192 would accept overlong C0 80)
          E0Lo,        \* design 160 (A0): E0 second byte lower limit (128 would accept overlong E0 80 80)
          EDHi,        \* design 159 (9F): ED second byte upper limit (191 would accept surrogates ED A0 80)
          F0Lo,        \* design 144 (90): F0 second byte lower limit (128 would accept overlong F0 80 ..)
          F4Hi,        \* design 143 (8F): F4 second byte upper limit (191 would accept > 10FFFF, F4 90 ..)
          Emit         \* TRUE: print one VEC line per string

VARIABLES s,    \* the byte string built so far (sequence of byte values)
          q,    \* DFA state after reading s
          bnd,  \* set of indices i (0..Len(s)) at which the DFA was in its accepting state
          act   \* last appended byte (observability convention; a function of the edge)
vars == <<s, q, bnd, act>>
View == s

Cont(b) == b >= 128 /\ b <= 191

\* ---- formulation 1: Table 3-7 as a DFA ------------------------------------------------------------
\* states: "S" between characters (accepting); "C1","C2","C3" = that many generic continuation bytes
\* still required; "E0","ED","F0","F4" = the restricted second byte is required next; "X" = rejected.
Step(st, b) ==
  CASE st = "S" ->
         (IF b <= 127 THEN "S"                                          \* 00..7F
          ELSE IF b >= Lead2Lo /\ b <= 223 THEN "C1"                    \* C2..DF 80..BF
          ELSE IF b = 224 THEN "E0"                                     \* E0 A0..BF 80..BF
          ELSE IF (b >= 225 /\ b <= 236) \/ b = 238 \/ b = 239 THEN "C2" \* E1..EC, EE..EF 80..BF 80..BF
          ELSE IF b = 237 THEN "ED"                                     \* ED 80..9F 80..BF
          ELSE IF b = 240 THEN "F0"                                     \* F0 90..BF 80..BF 80..BF
          ELSE IF b >= 241 /\ b <= 243 THEN "C3"                        \* F1..F3 80..BF 80..BF 80..BF
          ELSE IF b = 244 THEN "F4"                                     \* F4 80..8F 80..BF 80..BF
          ELSE "X")                                                     \* 80..C1, F5..FF
    [] st = "C1" -> (IF Cont(b) THEN "S" ELSE "X")
    [] st = "C2" -> (IF Cont(b) THEN "C1" ELSE "X")
    [] st = "C3" -> (IF Cont(b) THEN "C2" ELSE "X")
    [] st = "E0" -> (IF b >= E0Lo /\ b <= 191 THEN "C1" ELSE "X")
    [] st = "ED" -> (IF b >= 128 /\ b <= EDHi THEN "C1" ELSE "X")
    [] st = "F0" -> (IF b >= F0Lo /\ b <= 191 THEN "C2" ELSE "X")
    [] st = "F4" -> (IF b >= 128 /\ b <= F4Hi THEN "C2" ELSE "X")
    [] OTHER -> "X"

RECURSIVE RunFrom(_, _, _)
RunFrom(st, str, i) == IF i > Len(str) THEN st ELSE RunFrom(Step(st, str[i]), str, i + 1)
Run(str) == RunFrom("S", str, 1)

Valid(str) == Run(str) = "S"
\* char boundaries of a valid string: the prefixes after which the DFA is between characters
Boundaries(str) == {i \in 0..Len(str) : Run(SubSeq(str, 1, i)) = "S"}

\* ---- formulation 2: the definition ----------------------------------------------------------------
SeqLen(b) == IF b < 128 THEN 1
             ELSE IF b >= 192 /\ b < 224 THEN 2
             ELSE IF b >= 224 /\ b < 240 THEN 3
             ELSE IF b >= 240 /\ b < 248 THEN 4
             ELSE 0                                   \* 10xxxxxx or 11111xxx cannot start a sequence
CodePoint(str, i, n) ==
  CASE n = 1 -> str[i]
    [] n = 2 -> (str[i] - 192) * 64 + (str[i + 1] - 128)
    [] n = 3 -> (str[i] - 224) * 4096 + (str[i + 1] - 128) * 64 + (str[i + 2] - 128)
    [] n = 4 -> (str[i] - 240) * 262144 + (str[i + 1] - 128) * 4096 + (str[i + 2] - 128) * 64 + (str[i + 3] - 128)
MinCp(n) == CASE n = 1 -> 0 [] n = 2 -> 128 [] n = 3 -> 2048 [] n = 4 -> 65536
Scalar(cp) == cp <= 1114111 /\ ~(cp >= 55296 /\ cp <= 57343)

RECURSIVE WF(_, _)
WF(str, i) ==
  IF i > Len(str) THEN TRUE
  ELSE LET n == SeqLen(str[i]) IN
         /\ n > 0
         /\ i + n - 1 <= Len(str)
         /\ \A k \in 1..(n - 1) : Cont(str[i + k])
         /\ LET cp == CodePoint(str, i, n) IN cp >= MinCp(n) /\ Scalar(cp)
         /\ WF(str, i + n)
\* lead/continuation structure only (no range checks): separates "malformed" from "range-rejected"
RECURSIVE Shaped(_, _)
Shaped(str, i) ==
  IF i > Len(str) THEN TRUE
  ELSE LET n == SeqLen(str[i]) IN
         n > 0 /\ i + n - 1 <= Len(str) /\ (\A k \in 1..(n - 1) : Cont(str[i + k])) /\ Shaped(str, i + n)
\* str::is_char_boundary: the ends, and every index whose byte is not a continuation byte
NonContBoundaries(str) == {0, Len(str)} \cup {i \in 1..(Len(str) - 1) : ~Cont(str[i + 1])}

\* ---- the enumeration machine ----------------------------------------------------------------------
Init == s = <<>> /\ q = "S" /\ bnd = {0} /\ act = [op |-> "init", b |-> 0]
Push(b) == /\ Len(s) < MaxLen
           /\ s' = Append(s, b)
           /\ q' = Step(q, b)
           /\ bnd' = (IF q' = "S" THEN bnd \cup {Len(s) + 1} ELSE bnd)
           /\ act' = [op |-> "append", b |-> b]
Next == \E b \in Alphabet : Push(b)
Spec == Init /\ [][Next]_vars

\* ---- properties -----------------------------------------------------------------------------------
C20_IncrementalIsRun == q = Run(s) /\ (q = "S" => bnd = Boundaries(s))
\* the table accepts exactly the well-formed sequences of the definition
C20_TableIsDefinition == (q = "S") <=> WF(s, 1)
\* on accepted strings the DFA boundaries are exactly the non-continuation positions
C20_BoundariesAreCharStarts == (q = "S") => bnd = NonContBoundaries(s)
\* why split_at must refuse every other index: splitting a valid string yields two valid strings
\* exactly at the boundaries
C20_SplitClosed == (q = "S") =>
    \A i \in 0..Len(s) : (i \in bnd) <=> (WF(SubSeq(s, 1, i), 1) /\ WF(SubSeq(s, i + 1, Len(s)), 1))

EmitVec == ~Emit \/ PrintT(<<"VEC", ToJson([s |-> s, v |-> (q = "S"), b |-> (IF q = "S" THEN bnd ELSE {}),
                                                r |-> (q # "S" /\ Shaped(s, 1))])>>)
=============================================================================
