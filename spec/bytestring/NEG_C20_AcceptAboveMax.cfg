\* NEG: F4 90..BF accepted (code points above 10FFFF) -- TLC must report C20_TableIsDefinition violated
CONSTANTS
  MaxLen = 4
  Alphabet = {65, 128, 143, 144, 159, 160, 191, 192, 194, 224, 225, 237, 238, 240, 241, 244, 245}
  Lead2Lo = 194
  E0Lo = 160
  EDHi = 159
  F0Lo = 144
  F4Hi = 191
  Emit = FALSE
SPECIFICATION Spec
INVARIANTS C20_IncrementalIsRun C20_TableIsDefinition C20_BoundariesAreCharStarts C20_SplitClosed
CHECK_DEADLOCK FALSE
