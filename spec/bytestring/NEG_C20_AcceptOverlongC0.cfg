\* NEG: C0/C1 accepted as 2-byte leads (overlong 2-byte forms) -- TLC must report C20_TableIsDefinition violated
CONSTANTS
  MaxLen = 4
  Alphabet = {65, 128, 143, 144, 159, 160, 191, 192, 194, 224, 225, 237, 238, 240, 241, 244, 245}
  Lead2Lo = 192
  E0Lo = 160
  EDHi = 159
  F0Lo = 144
  F4Hi = 143
  Emit = FALSE
SPECIFICATION Spec
INVARIANTS C20_IncrementalIsRun C20_TableIsDefinition C20_BoundariesAreCharStarts C20_SplitClosed
CHECK_DEADLOCK FALSE
