\* all byte strings of length <= 4 over 17 byte values: every row and every limit of Table 3-7
\* 41 | 80 8F 90 9F A0 BF | C0 C2 | E0 E1 ED EE | F0 F1 F4 | F5
CONSTANTS
  MaxLen = 4
  Alphabet = {65, 128, 143, 144, 159, 160, 191, 192, 194, 224, 225, 237, 238, 240, 241, 244, 245}
  Lead2Lo = 194
  E0Lo = 160
  EDHi = 159
  F0Lo = 144
  F4Hi = 143
  Emit = TRUE
SPECIFICATION Spec
INVARIANTS C20_IncrementalIsRun C20_TableIsDefinition C20_BoundariesAreCharStarts C20_SplitClosed EmitVec
CHECK_DEADLOCK FALSE
