CONSTANTS
  MaxLen = 0
  Alphabet = {}
  Lead2Lo = 194
  E0Lo = 160
  EDHi = 159
  F0Lo = 144
  F4Hi = 143
  Emit = FALSE
SPECIFICATION TSpec
INVARIANTS C20_ObservedAgrees
POSTCONDITION TraceAccepted
CHECK_DEADLOCK FALSE
