--------------------------- MODULE LocalChannel ---------------------------
(* local-channel mpsc: the abstract object behind property C16.                                   *)
(* One action per public operation (the object is single-threaded, so the linearization point of   *)
(* an operation is its return).  Every action records what the caller can observe in `act`:        *)
(*   op, sid (sender used / created), w (waker passed to poll), res, val, woken (the waker that    *)
(*   MUST have been woken by this operation, 0 = none; extra wake-ups are permitted).              *)
(* Variant constants switch one mechanism to a plausible wrong design (NEG configs).               *)
EXTENDS Naturals, Sequences, FiniteSets, TLC, Json

CONSTANTS MaxSid,        \* sender identities 1..MaxSid can ever be created
          MaxLive,       \* senders alive at the same time
          MaxSends,      \* send attempts
          MaxDepth,      \* operations per history (0 = unbounded; the trace spec uses 0)
          NWakers,       \* waker identities handed to poll
          CloseEndsStream, CloseWakes, SendWakes, LastDropWakes, PollFifo   \* design: all TRUE

VARIABLES buf,        \* buffered messages, oldest first (messages are 1, 2, 3, ... in send order)
          closed,     \* close() has been called on some sender
          rxAlive,    \* the receiver has not been dropped
          senders,    \* identities of the live senders
          nextSid,    \* next fresh sender identity
          parked,     \* waker of the receiver's last poll if that poll returned Pending and the
                      \* waker has not been woken since; 0 otherwise
          nsent,      \* send attempts so far (the next message is nsent + 1)
          lastRcvd,   \* last message the receiver got (0 none)
          depth,      \* operations so far
          act         \* label of the last operation (not part of the VIEW)

vars == <<buf, closed, rxAlive, senders, nextSid, parked, nsent, lastRcvd, depth, act>>
View == <<buf, closed, rxAlive, senders, nextSid, parked, nsent, lastRcvd, depth>>

Wakers == 1..NWakers
NoAct == [op |-> "init", sid |-> 0, w |-> 0, res |-> "", val |-> 0, woken |-> 0]

Init == /\ buf = <<>> /\ closed = FALSE /\ rxAlive = TRUE
        /\ senders = {1} /\ nextSid = 2 /\ parked = 0 /\ nsent = 0 /\ lastRcvd = 0 /\ depth = 0
        /\ act = NoAct

Bounded == MaxDepth = 0 \/ depth < MaxDepth
Tick == depth' = depth + 1

(* ---- sender side ---- *)
Send(s) ==
  /\ Bounded /\ s \in senders /\ nsent < MaxSends /\ Tick
  /\ nsent' = nsent + 1
  /\ IF rxAlive /\ ~closed
       THEN /\ buf' = Append(buf, nsent + 1)
            /\ parked' = (IF SendWakes THEN 0 ELSE parked)
            /\ act' = [NoAct EXCEPT !.op = "send", !.sid = s, !.res = "ok", !.val = nsent + 1,
                                    !.woken = (IF SendWakes THEN parked ELSE 0)]
       ELSE /\ UNCHANGED <<buf, parked>>
            /\ act' = [NoAct EXCEPT !.op = "send", !.sid = s, !.res = "err", !.val = nsent + 1]
  /\ UNCHANGED <<closed, rxAlive, senders, nextSid, lastRcvd>>

NewSender(op, from) ==
  /\ Bounded /\ nextSid <= MaxSid /\ Cardinality(senders) < MaxLive /\ Tick
  /\ senders' = senders \cup {nextSid} /\ nextSid' = nextSid + 1
  /\ act' = [NoAct EXCEPT !.op = op, !.sid = from, !.val = nextSid]
  /\ UNCHANGED <<buf, closed, rxAlive, parked, nsent, lastRcvd>>

Clone(s)   == s \in senders /\ NewSender("clone", s)
SenderOfRx == rxAlive /\ NewSender("rxsender", 0)

DropSender(s) ==
  /\ Bounded /\ s \in senders /\ Tick
  /\ senders' = senders \ {s}
  /\ LET last == senders = {s} /\ rxAlive /\ LastDropWakes IN
       /\ parked' = (IF last THEN 0 ELSE parked)
       /\ act' = [NoAct EXCEPT !.op = "dropsender", !.sid = s, !.woken = (IF last THEN parked ELSE 0)]
  /\ UNCHANGED <<buf, closed, rxAlive, nextSid, nsent, lastRcvd>>

Close(s) ==
  /\ Bounded /\ s \in senders /\ Tick
  /\ closed' = TRUE
  /\ parked' = (IF CloseWakes THEN 0 ELSE parked)
  /\ act' = [NoAct EXCEPT !.op = "close", !.sid = s, !.woken = (IF CloseWakes THEN parked ELSE 0)]
  /\ UNCHANGED <<buf, rxAlive, senders, nextSid, nsent, lastRcvd>>

(* ---- receiver side ---- *)
Ended == (CloseEndsStream /\ closed) \/ senders = {}

Poll(w) ==
  /\ Bounded /\ rxAlive /\ Tick
  /\ IF buf # <<>>
       THEN LET k == IF PollFifo THEN 1 ELSE Len(buf) IN
            /\ buf' = [i \in 1..(Len(buf) - 1) |-> IF i < k THEN buf[i] ELSE buf[i + 1]]
            /\ lastRcvd' = buf[k]
            /\ act' = [NoAct EXCEPT !.op = "poll", !.w = w, !.res = "some", !.val = buf[k]]
            /\ UNCHANGED parked
       ELSE IF Ended
       THEN /\ act' = [NoAct EXCEPT !.op = "poll", !.w = w, !.res = "none"]
            /\ UNCHANGED <<buf, parked, lastRcvd>>
       ELSE /\ parked' = w
            /\ act' = [NoAct EXCEPT !.op = "poll", !.w = w, !.res = "pending"]
            /\ UNCHANGED <<buf, lastRcvd>>
  /\ UNCHANGED <<closed, rxAlive, senders, nextSid, nsent>>

DropRx ==
  /\ Bounded /\ rxAlive /\ Tick
  /\ rxAlive' = FALSE /\ buf' = <<>> /\ parked' = 0
  /\ act' = [NoAct EXCEPT !.op = "droprx"]
  /\ UNCHANGED <<closed, senders, nextSid, nsent, lastRcvd>>

Next == \/ \E s \in senders : Send(s) \/ Clone(s) \/ DropSender(s) \/ Close(s)
        \/ SenderOfRx \/ DropRx
        \/ \E w \in Wakers : Poll(w)

Spec == Init /\ [][Next]_vars

(* ---------------- property predicates (C16) ---------------- *)
TypeOK == /\ buf \in Seq(1..MaxSends) /\ closed \in BOOLEAN /\ rxAlive \in BOOLEAN
          /\ senders \subseteq 1..MaxSid /\ parked \in 0..NWakers /\ nsent \in 0..MaxSends

\* FIFO / exactly once: the buffer is strictly increasing and everything in it is newer than
\* whatever was received last; a successful poll returns the head.
C16_Fifo == /\ \A i \in 1..Len(buf) : \A j \in 1..Len(buf) : i < j => buf[i] < buf[j]
            /\ (buf # <<>> => lastRcvd < buf[1])
C16_PollHeadStep == (act'.op = "poll" /\ act'.res = "some") => (buf # <<>> /\ act'.val = Head(buf))

\* send fails exactly when the receiver is gone or the channel was closed
C16_SendFailsIffStep == act'.op = "send" => ((act'.res = "err") <=> (~rxAlive \/ closed))

\* no lost wake-up: a parked receiver has nothing to receive and the stream has not ended
C16_ParkedIsWoken == (rxAlive /\ parked # 0) => (buf = <<>> /\ ~closed /\ senders # {})

\* closed or no sender left: drain, then None; Pending only while the stream can still grow
C16_EndAfterDrainStep ==
  act'.op = "poll" =>
     act'.res = (IF buf # <<>> THEN "some" ELSE IF closed \/ senders = {} THEN "none" ELSE "pending")

C16_Steps == [][C16_PollHeadStep /\ C16_SendFailsIffStep /\ C16_EndAfterDrainStep]_vars

(* ---------------- TLC plumbing ---------------- *)
DepthBound == MaxDepth = 0 \/ depth <= MaxDepth
LogEdge == PrintT(<<"EDGE", ToJson([from |-> View, act |-> act', to |-> View'])>>)
LogInit == TLCGet("level") > 1 \/ PrintT(<<"INIT", ToJson([from |-> View])>>)
=============================================================================
