CONSTANTS
  MaxSid = 5
  MaxLive = 3
  MaxSends = 8
  MaxDepth = 8
  NWakers = 2
  CloseEndsStream = TRUE
  CloseWakes = TRUE
  SendWakes = TRUE
  LastDropWakes = TRUE
  PollFifo = TRUE
SPECIFICATION Spec
VIEW View
INVARIANTS TypeOK C16_Fifo C16_ParkedIsWoken LogInit
PROPERTIES C16_Steps
ACTION_CONSTRAINT LogEdge
CHECK_DEADLOCK FALSE
