CONSTANTS
  NWakers = 2
  MaxDepth = 6
  WakeKeeps = TRUE
  RegisterFlagInverted = FALSE
  DropOldBeforeStore = FALSE
SPECIFICATION Spec
VIEW View
PROPERTIES C17_LWSteps
CHECK_DEADLOCK FALSE
