--------------------------- MODULE CounterWaker ---------------------------
(* actix_utils::counter::Counter (capacity gate with wake on release) - property C17.             *)
(* One action per public operation; `act` carries what the caller observes.                        *)
(*   reg      mechanism: the waker currently registered in the counter's LocalWaker (0 none)       *)
(*   refused  property ghost: waker of the most recent `available() = false` answer that has not   *)
(*            been woken since (0 none) - "the task most recently answered unavailable"            *)
EXTENDS Naturals, Sequences, FiniteSets, TLC, Json

CONSTANTS MaxCap, MaxGuards, MaxClones, MaxDepth, NWakers,
          WakeOffset,      \* design 0: wake when a drop takes the count from cap to cap-1
          KeepFirstWaker,  \* design FALSE: a new refusal replaces the registered waker
          AvailLe,         \* design FALSE: available <=> count < cap   (TRUE: count <= cap)
          WakeBeforeDecrement \* design FALSE: the wake-up is delivered after the count was decremented

VARIABLES cap, count, guards, nextGid, nclones, reg, refused, depth, act
vars == <<cap, count, guards, nextGid, nclones, reg, refused, depth, act>>
View == <<cap, count, guards, nextGid, nclones, reg, refused, depth>>

NoAct == [op |-> "init", a |-> 0, w |-> 0, res |-> "", val |-> 0, woken |-> 0, total |-> 0, inl |-> FALSE, inline |-> "none"]
Bounded == MaxDepth = 0 \/ depth < MaxDepth

Init == /\ cap \in 0..MaxCap /\ count = 0 /\ guards = {} /\ nextGid = 1 /\ nclones = 1
        /\ reg = 0 /\ refused = 0 /\ depth = 0 /\ act = NoAct

Get(c) == /\ Bounded /\ c \in 0..(nclones - 1) /\ nextGid <= MaxGuards
          /\ count' = count + 1 /\ guards' = guards \cup {nextGid} /\ nextGid' = nextGid + 1
          /\ act' = [NoAct EXCEPT !.op = "get", !.a = c, !.val = nextGid, !.total = count + 1]
          /\ depth' = depth + 1 /\ UNCHANGED <<cap, nclones, reg, refused>>

\* Drop of a guard.  `inl`: the woken task polls `available` again from INSIDE the wake-up (an executor that runs the
\* woken task inline); what it sees depends on whether the count was already decremented when the wake-up is delivered.
Drop(g, inl) ==
  /\ Bounded /\ g \in guards
  /\ count' = count - 1 /\ guards' = guards \ {g}
  /\ LET fire == count = cap + WakeOffset
         seen == IF WakeBeforeDecrement THEN count ELSE count - 1          \* count observed by an inline re-poll
         ok   == IF AvailLe THEN seen <= cap ELSE seen < cap
         rep  == fire /\ inl /\ reg # 0 IN
       /\ reg' = (IF rep /\ ~ok THEN reg ELSE IF fire THEN 0 ELSE reg)       \* a refused inline re-poll registers again
       /\ refused' = (IF rep /\ ~ok THEN reg ELSE IF fire /\ reg = refused THEN 0 ELSE refused)
       /\ act' = [NoAct EXCEPT !.op = "drop", !.a = g, !.total = count - 1, !.inl = inl,
                               !.woken = (IF fire THEN reg ELSE 0),
                               !.inline = (IF rep THEN (IF ok THEN "true" ELSE "false") ELSE "none")]
  /\ depth' = depth + 1 /\ UNCHANGED <<cap, nextGid, nclones>>

Avail(c, w) == /\ Bounded /\ c \in 0..(nclones - 1)
               /\ IF (IF AvailLe THEN count <= cap ELSE count < cap)
                    THEN /\ act' = [NoAct EXCEPT !.op = "avail", !.a = c, !.w = w, !.res = "true", !.total = count]
                         /\ UNCHANGED <<reg, refused>>
                    ELSE /\ reg' = (IF KeepFirstWaker /\ reg # 0 THEN reg ELSE w)
                         /\ refused' = w
                         /\ act' = [NoAct EXCEPT !.op = "avail", !.a = c, !.w = w, !.res = "false", !.total = count]
               /\ depth' = depth + 1 /\ UNCHANGED <<cap, count, guards, nextGid, nclones>>

Clone(c) == /\ Bounded /\ c \in 0..(nclones - 1) /\ nclones < MaxClones
            /\ nclones' = nclones + 1
            /\ act' = [NoAct EXCEPT !.op = "clone", !.a = c, !.val = nclones, !.total = count]
            /\ depth' = depth + 1 /\ UNCHANGED <<cap, count, guards, nextGid, reg, refused>>

Next == \/ \E c \in 0..(nclones - 1) : Get(c) \/ Clone(c) \/ \E w \in 1..NWakers : Avail(c, w)
        \/ \E g \in guards, inl \in BOOLEAN : Drop(g, inl)
Spec == Init /\ [][Next]_vars

(* ---------------- property predicates (C17) ---------------- *)
C17_TotalIsGuards == count = Cardinality(guards) /\ act.total = count
C17_AvailableIffStep == act'.op = "avail" => ((act'.res = "true") <=> (Cardinality(guards) < cap))
\* no lost wake-up: a task that was refused and not woken since is still (rightly) unavailable
C17_WakeOnRelease == refused # 0 => count >= cap
\* the waker that gets woken on release is the most recently refused one
C17_WakeMostRecentStep == (act'.op = "drop" /\ act'.woken # 0) => act'.woken = refused
C17_Steps == [][C17_AvailableIffStep /\ C17_WakeMostRecentStep]_vars

LogEdge == PrintT(<<"EDGE", ToJson([from |-> View, act |-> act', to |-> View'])>>)
LogInit == TLCGet("level") > 1 \/ PrintT(<<"INIT", ToJson([from |-> View])>>)
=============================================================================
