CONSTANTS
  NWakers = 2
  MaxDepth = 6
  WakeKeeps = FALSE
  RegisterFlagInverted = FALSE
  DropOldBeforeStore = TRUE
SPECIFICATION Spec
VIEW View
PROPERTIES C17_LWSteps
CHECK_DEADLOCK FALSE
