CONSTANTS
  MaxSid = 1000
  MaxLive = 1000
  MaxSends = 100000
  MaxDepth = 0
  NWakers = 2
  CloseEndsStream = FALSE
  CloseWakes = FALSE
  SendWakes = TRUE
  LastDropWakes = TRUE
  PollFifo = TRUE
SPECIFICATION TSpec
INVARIANTS C16_Fifo
POSTCONDITION TraceAccepted
CHECK_DEADLOCK FALSE
