CONSTANTS
  MaxSid = 1000
  MaxLive = 1000
  MaxSends = 100000
  MaxDepth = 0
  NWakers = 2
  CloseEndsStream = TRUE
  CloseWakes = TRUE
  SendWakes = TRUE
  LastDropWakes = TRUE
  PollFifo = TRUE
SPECIFICATION TSpec
INVARIANTS C16_Fifo C16_ParkedIsWoken
POSTCONDITION TraceAccepted
CHECK_DEADLOCK FALSE
