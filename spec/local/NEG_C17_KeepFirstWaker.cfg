CONSTANTS
  MaxCap = 3
  MaxGuards = 5
  MaxClones = 2
  MaxDepth = 7
  NWakers = 2
  WakeOffset = 0
  KeepFirstWaker = TRUE
  AvailLe = FALSE
  WakeBeforeDecrement = FALSE
SPECIFICATION Spec
VIEW View
INVARIANTS C17_TotalIsGuards C17_WakeOnRelease
PROPERTIES C17_Steps
CHECK_DEADLOCK FALSE
