--------------------------- MODULE LocalWakerSpec ---------------------------
(* local_waker::LocalWaker - second half of property C17.                                          *)
(* Wakers may be RE-ENTRANT: the destructor of such a waker calls wake() on the same LocalWaker   *)
(* (a parked task that owns a guard of the gate it is parked on: dropping its waker drops the      *)
(* task, releases the guard, and the release wakes whoever is registered).  `register` stores the  *)
(* new waker BEFORE it drops the displaced one, so that wake-up reaches the waker being registered. *)
EXTENDS Naturals, Sequences, TLC, Json
CONSTANTS NWakers, MaxDepth,
          WakeKeeps,      \* design FALSE: wake() consumes the registration (wakes once)
          RegisterFlagInverted,  \* design FALSE
          DropOldBeforeStore     \* design FALSE: the displaced waker is dropped while the slot is empty
VARIABLES reg, re, depth, act
vars == <<reg, re, depth, act>>
View == <<reg, re, depth>>
NoAct == [op |-> "init", w |-> 0, re |-> FALSE, res |-> "", val |-> 0, wokenset |-> <<>>]
Bounded == MaxDepth = 0 \/ depth < MaxDepth
Init == reg = 0 /\ re = FALSE /\ depth = 0 /\ act = NoAct
\* the displaced waker (if re-entrant) wakes from its destructor: in the design the new waker is already in the slot
Register(w, r) ==
  /\ Bounded /\ depth' = depth + 1
  /\ LET hit == reg # 0 /\ re /\ ~DropOldBeforeStore IN
       /\ reg' = (IF hit /\ ~WakeKeeps THEN 0 ELSE w)
       /\ re' = (IF hit /\ ~WakeKeeps THEN FALSE ELSE r)
       /\ act' = [NoAct EXCEPT !.op = "register", !.w = w, !.re = r,
                    !.res = (IF (reg # 0) # RegisterFlagInverted THEN "true" ELSE "false"),
                    !.wokenset = (IF hit THEN <<w>> ELSE <<>>)]
\* (the woken waker is consumed; if IT is re-entrant its destructor finds the slot empty)
Wake == /\ Bounded /\ reg' = (IF WakeKeeps THEN reg ELSE 0) /\ re' = (IF WakeKeeps THEN re ELSE FALSE) /\ depth' = depth + 1
        /\ act' = [NoAct EXCEPT !.op = "wake", !.wokenset = (IF reg = 0 THEN <<>> ELSE <<reg>>)]
Take == /\ Bounded /\ reg' = 0 /\ re' = FALSE /\ depth' = depth + 1
        /\ act' = [NoAct EXCEPT !.op = "take", !.res = (IF reg = 0 THEN "none" ELSE "some"), !.val = reg]
Next == Wake \/ Take \/ \E w \in 1..NWakers, r \in BOOLEAN : Register(w, r)
Spec == Init /\ [][Next]_vars
\* register reports whether a waker was already registered; wake wakes exactly the registered waker
C17_RegisterReportsStep == act'.op = "register" => ((act'.res = "true") <=> (reg # 0))
C17_WakeLastOnceStep == act'.op = "wake" => (act'.wokenset = (IF reg = 0 THEN <<>> ELSE <<reg>>) /\ reg' = 0)
C17_TakeStep == act'.op = "take" => (act'.val = reg /\ reg' = 0)
\* a wake-up issued while a waker is being registered (from the displaced waker's destructor) wakes THAT waker:
\* the most recently registered one - it is not lost
C17_WakeDuringRegisterStep == (act'.op = "register" /\ reg # 0 /\ re) => act'.wokenset = <<act'.w>>
C17_LWSteps == [][C17_RegisterReportsStep /\ C17_WakeLastOnceStep /\ C17_TakeStep /\ C17_WakeDuringRegisterStep]_vars
LogEdge == PrintT(<<"EDGE", ToJson([from |-> View, act |-> act', to |-> View'])>>)
LogInit == TLCGet("level") > 1 \/ PrintT(<<"INIT", ToJson([from |-> View])>>)
=============================================================================
