--------------------------- MODULE LocalWakerSpec ---------------------------
(* local_waker::LocalWaker - second half of property C17.                                          *)
EXTENDS Naturals, Sequences, TLC, Json
CONSTANTS NWakers, MaxDepth,
          WakeKeeps,      \* design FALSE: wake() consumes the registration (wakes once)
          RegisterFlagInverted  \* design FALSE
VARIABLES reg, depth, act
vars == <<reg, depth, act>>
View == <<reg, depth>>
NoAct == [op |-> "init", w |-> 0, res |-> "", val |-> 0, wokenset |-> <<>>]
Bounded == MaxDepth = 0 \/ depth < MaxDepth
Init == reg = 0 /\ depth = 0 /\ act = NoAct
Register(w) == /\ Bounded /\ reg' = w /\ depth' = depth + 1
               /\ act' = [NoAct EXCEPT !.op = "register", !.w = w,
                            !.res = (IF (reg # 0) # RegisterFlagInverted THEN "true" ELSE "false")]
Wake == /\ Bounded /\ reg' = (IF WakeKeeps THEN reg ELSE 0) /\ depth' = depth + 1
        /\ act' = [NoAct EXCEPT !.op = "wake", !.wokenset = (IF reg = 0 THEN <<>> ELSE <<reg>>)]
Take == /\ Bounded /\ reg' = 0 /\ depth' = depth + 1
        /\ act' = [NoAct EXCEPT !.op = "take", !.res = (IF reg = 0 THEN "none" ELSE "some"), !.val = reg]
Next == Wake \/ Take \/ \E w \in 1..NWakers : Register(w)
Spec == Init /\ [][Next]_vars
\* register reports whether a waker was already registered; wake wakes exactly the registered waker
C17_RegisterReportsStep == act'.op = "register" => ((act'.res = "true") <=> (reg # 0))
C17_WakeLastOnceStep == act'.op = "wake" => (act'.wokenset = (IF reg = 0 THEN <<>> ELSE <<reg>>) /\ reg' = 0)
C17_TakeStep == act'.op = "take" => (act'.val = reg /\ reg' = 0)
C17_LWSteps == [][C17_RegisterReportsStep /\ C17_WakeLastOnceStep /\ C17_TakeStep]_vars
LogEdge == PrintT(<<"EDGE", ToJson([from |-> View, act |-> act', to |-> View'])>>)
LogInit == TLCGet("level") > 1 \/ PrintT(<<"INIT", ToJson([from |-> View])>>)
=============================================================================
