------------------------ MODULE LocalChannelTrace ------------------------
(* Strict trace validation for LocalChannel: every record of a trace recorded from the real       *)
(* local_channel::mpsc object must be explained by the spec action of the same operation, with the *)
(* observed result equal to the spec's, and the waker the spec requires to be woken among the      *)
(* wakers observed to be woken by that call.  Runs are concatenated; a "reset" record starts one. *)
EXTENDS LocalChannel, IOUtils, TLCExt

Rec == ndJsonDeserialize(IOEnv.TRACE)
VARIABLE l
tvars == <<vars, l>>

ToSet(s) == {s[i] : i \in 1..Len(s)}
R == Rec[l + 1]

Matches(r) == /\ act'.res = r.res /\ act'.val = r.val
              /\ (act'.woken = 0 \/ act'.woken \in ToSet(r.woken))

Reset == /\ buf' = <<>> /\ closed' = FALSE /\ rxAlive' = TRUE /\ senders' = {1} /\ nextSid' = 2
         /\ parked' = 0 /\ nsent' = 0 /\ lastRcvd' = 0 /\ depth' = 0 /\ act' = NoAct

Step(r) == \/ r.ev = "reset" /\ Reset
           \/ r.ev = "send" /\ Send(r.sid) /\ Matches(r)
           \/ r.ev = "clone" /\ Clone(r.sid) /\ Matches(r)
           \/ r.ev = "rxsender" /\ SenderOfRx /\ Matches(r)
           \/ r.ev = "dropsender" /\ DropSender(r.sid) /\ Matches(r)
           \/ r.ev = "close" /\ Close(r.sid) /\ Matches(r)
           \/ r.ev = "poll" /\ Poll(r.w) /\ Matches(r)
           \/ r.ev = "droprx" /\ DropRx /\ Matches(r)
           \* end of a run: every remaining handle is dropped; nothing may go wrong in a destructor (a panic is recorded)
           \/ r.ev = "teardown" /\ r.res = "" /\ UNCHANGED vars

TInit == Init /\ l = 0
TNext == l < Len(Rec) /\ l' = l + 1 /\ Step(R)
TSpec == TInit /\ [][TNext]_tvars

TraceAccepted ==
  LET n == TLCGet("stats").diameter - 1 IN
    /\ PrintT(<<"TRACE_MATCHED", n, Len(Rec)>>)
    /\ (n < Len(Rec) => PrintT(<<"UNMATCHED", ToJson(Rec[n + 1])>>))
    /\ n = Len(Rec)
=============================================================================
