------------------------ MODULE LocalWakerTrace ------------------------
EXTENDS LocalWakerSpec, IOUtils, TLCExt
Rec == ndJsonDeserialize(IOEnv.TRACE)
VARIABLE l
tvars == <<vars, l>>
R == Rec[l + 1]
Matches(r) == act'.res = r.res /\ act'.val = r.val /\ (r.ev \in {"wake", "register"} => act'.wokenset = r.woken)
Step(r) == \/ r.ev = "reset" /\ reg' = 0 /\ re' = FALSE /\ depth' = 0 /\ act' = NoAct
           \/ r.ev = "register" /\ Register(r.w, r.re) /\ Matches(r)
           \/ r.ev = "wake" /\ Wake /\ Matches(r)
           \/ r.ev = "take" /\ Take /\ Matches(r)
           \/ r.ev = "teardown" /\ r.res = "" /\ UNCHANGED vars   \* dropping every waker never panics
TInit == Init /\ l = 0
TNext == l < Len(Rec) /\ l' = l + 1 /\ Step(R)
TSpec == TInit /\ [][TNext]_tvars
TraceAccepted ==
  LET n == TLCGet("stats").diameter - 1 IN
    /\ PrintT(<<"TRACE_MATCHED", n, Len(Rec)>>)
    /\ (n < Len(Rec) => PrintT(<<"UNMATCHED", ToJson(Rec[n + 1])>>))
    /\ n = Len(Rec)
=============================================================================
