CONSTANTS
  MaxCap = 3
  MaxGuards = 100000
  MaxClones = 1000
  MaxDepth = 0
  NWakers = 2
  WakeOffset = 0
  KeepFirstWaker = FALSE
  AvailLe = FALSE
  WakeBeforeDecrement = FALSE
SPECIFICATION TSpec
INVARIANTS C17_TotalIsGuards C17_WakeOnRelease
POSTCONDITION TraceAccepted
CHECK_DEADLOCK FALSE
