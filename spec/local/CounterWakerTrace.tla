------------------------ MODULE CounterWakerTrace ------------------------
(* Strict trace validation of recorded Counter histories against CounterWaker.                     *)
EXTENDS CounterWaker, IOUtils, TLCExt
Rec == ndJsonDeserialize(IOEnv.TRACE)
VARIABLE l
tvars == <<vars, l>>
ToSet(s) == {s[i] : i \in 1..Len(s)}
R == Rec[l + 1]
Matches(r) == /\ act'.res = r.res /\ act'.val = r.val
              /\ (act'.woken = 0 \/ act'.woken \in ToSet(r.woken))
              /\ \A i \in 1..Len(r.totals) : r.totals[i] = act'.total   \* every clone reports the shared total
Reset(r) == /\ cap' = r.cap /\ count' = 0 /\ guards' = {} /\ nextGid' = 1 /\ nclones' = 1
            /\ reg' = 0 /\ refused' = 0 /\ depth' = 0 /\ act' = NoAct
Step(r) == \/ r.ev = "reset" /\ Reset(r)
           \/ r.ev = "get" /\ Get(r.a) /\ Matches(r)
           \/ r.ev = "drop" /\ Drop(r.a, r.inl) /\ Matches(r) /\ act'.inline = r.inline
           \/ r.ev = "avail" /\ Avail(r.a, r.w) /\ Matches(r)
           \/ r.ev = "clone" /\ Clone(r.a) /\ Matches(r)
TInit == Init /\ cap = 0 /\ l = 0
TNext == l < Len(Rec) /\ l' = l + 1 /\ Step(R)
TSpec == TInit /\ [][TNext]_tvars
TraceAccepted ==
  LET n == TLCGet("stats").diameter - 1 IN
    /\ PrintT(<<"TRACE_MATCHED", n, Len(Rec)>>)
    /\ (n < Len(Rec) => PrintT(<<"UNMATCHED", ToJson(Rec[n + 1])>>))
    /\ n = Len(Rec)
=============================================================================
