CONSTANTS
  MaxSid = 4
  MaxLive = 3
  MaxSends = 4
  MaxDepth = 6
  NWakers = 2
  CloseEndsStream = TRUE
  CloseWakes = TRUE
  SendWakes = TRUE
  LastDropWakes = FALSE
  PollFifo = TRUE
SPECIFICATION Spec
VIEW View
INVARIANTS TypeOK C16_Fifo C16_ParkedIsWoken
PROPERTIES C16_Steps
CHECK_DEADLOCK FALSE
