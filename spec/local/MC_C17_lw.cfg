CONSTANTS
  NWakers = 2
  MaxDepth = 6
  WakeKeeps = FALSE
  RegisterFlagInverted = FALSE
  DropOldBeforeStore = FALSE
SPECIFICATION Spec
VIEW View
INVARIANTS LogInit
PROPERTIES C17_LWSteps
ACTION_CONSTRAINT LogEdge
CHECK_DEADLOCK FALSE
