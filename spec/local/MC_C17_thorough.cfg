CONSTANTS
  MaxCap = 3
  MaxGuards = 6
  MaxClones = 2
  MaxDepth = 9
  NWakers = 2
  WakeOffset = 0
  KeepFirstWaker = FALSE
  AvailLe = FALSE
SPECIFICATION Spec
VIEW View
INVARIANTS C17_TotalIsGuards C17_WakeOnRelease LogInit
PROPERTIES C17_Steps
ACTION_CONSTRAINT LogEdge
CHECK_DEADLOCK FALSE
