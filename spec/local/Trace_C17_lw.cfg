CONSTANTS
  NWakers = 2
  MaxDepth = 0
  WakeKeeps = FALSE
  RegisterFlagInverted = FALSE
  DropOldBeforeStore = FALSE
SPECIFICATION TSpec
POSTCONDITION TraceAccepted
CHECK_DEADLOCK FALSE
