//! Conformance driver for bytestring::ByteString (C20), public API only.
//!
//! `vbytestring vectors --schedules F --trace T [--seed S] [--pairs K] [--trace-sample N]`
//!
//! F: ndjson, one vector per line as printed by TLC from spec/bytestring/Utf8.tla:
//!    `{"s":[bytes..],"v":valid,"b":[char boundary indices]}`  (b is empty when v is false).
//! The spec's verdict is the oracle:
//!  * every fallible constructor accepts iff `v` and preserves the bytes;
//!  * on every value built from a valid vector (all constructors, fallible and infallible)
//!    `split_at(mid)`, mid in 0..=len+1, panics exactly when mid is not in `b`, and otherwise returns
//!    the two byte halves, both of which the spec's table calls valid; `slice_ref` over all
//!    sub-slices between boundaries returns exactly those bytes;
//!  * differential against std (not modelled): Deref/AsRef/Borrow/Display/Debug/String conversion/
//!    Hash on every valid vector, Eq/Ord/PartialOrd/Hash-consistency on seeded pairs of valid vectors, and
//!    exhaustively (every valid vector, every value, every boundary) between handles that SHARE storage:
//!    split_at halves, slice_ref results and &str sub-slices of the same buffer, against the whole and
//!    against each other.
//! `std::str::from_utf8` / `str::split_at` are additionally compared with the spec; a disagreement
//! between the spec and std is reported as `oracle_disagreements` (a tool problem, not a verdict).
//!
//! T: ndjson of observations for TLC (`Utf8Trace.tla`): for every valid vector, every mismatching vector
//! and a seeded sample of the others: `{"ev":"vec","i":idx,"s":[..],"acc":all ctors accepted,
//! "rej":all ctors rejected,"split":[mids at which split_at returned on every value],"eqp"/"neqp":[mids at which
//! the left half compared equal / unequal to the whole],"eqs"/"neqs": same for the right half}` each preceded
//! by a reset record and followed by an end record (so a predicate violation is attributed to its run).
//! Last stdout line: the standard JSON summary.

use std::{
    borrow::Borrow,
    collections::{hash_map::DefaultHasher, BTreeSet, HashMap, HashSet},
    convert::TryFrom,
    hash::{Hash, Hasher},
};

use bytes::{Bytes, BytesMut};
use bytestring::ByteString;
use vcore::{arg, catch, json, quiet_panics, read_ndjson, Trace, Value};

struct Rng(u64);
impl Rng {
    fn next(&mut self) -> u64 {
        self.0 ^= self.0 << 13;
        self.0 ^= self.0 >> 7;
        self.0 ^= self.0 << 17;
        self.0
    }
    fn below(&mut self, n: usize) -> usize {
        (self.next() % n as u64) as usize
    }
}

struct V {
    s: Vec<u8>,
    v: bool,
    b: Vec<usize>,
}

fn key(s: &[u8]) -> u128 {
    let mut k: u128 = s.len() as u128;
    for &x in s {
        k = (k << 8) | x as u128;
    }
    k
}

struct Report {
    steps: u64,
    mismatches: u64,
    first: Vec<Value>,
    flagged_runs: HashSet<usize>,
    oracle_disagreements: u64,
    oracle_first: Vec<Value>,
}

impl Report {
    fn mism(&mut self, run: usize, step: String, expected: Value, observed: Value) {
        self.mismatches += 1;
        self.flagged_runs.insert(run);
        if self.first.len() < 20 {
            self.first
                .push(json!({"run": run, "step": step, "expected": expected, "observed": observed}));
        }
    }
    fn check(&mut self, run: usize, step: &str, ok: bool, expected: Value, observed: Value) {
        self.steps += 1;
        if !ok {
            self.mism(run, step.to_string(), expected, observed);
        }
    }
    fn oracle(&mut self, run: usize, what: &str, spec: Value, std_: Value) {
        self.oracle_disagreements += 1;
        if self.oracle_first.len() < 10 {
            self.oracle_first
                .push(json!({"run": run, "what": what, "spec": spec, "std": std_}));
        }
    }
}

macro_rules! arrays {
    ($s:expr, $out:expr, $($n:literal)+) => {
        match $s.len() {
            $( $n => {
                let mut a = [0u8; $n];
                a.copy_from_slice($s);
                $out.push(("array", ByteString::try_from(a).ok()));
                $out.push(("array_ref", ByteString::try_from(&a).ok()));
            } )+
            _ => {}
        }
    };
}

/// A deserializer that hands the payload to the visitor as an OWNED byte buffer (`visit_byte_buf`), as binary /
/// length-prefixed formats do; `BytesDeserializer` of serde covers `visit_bytes`.
struct ByteBufDe(Vec<u8>);
impl<'de> serde::Deserializer<'de> for ByteBufDe {
    type Error = serde::de::value::Error;
    fn deserialize_any<V: serde::de::Visitor<'de>>(self, v: V) -> Result<V::Value, Self::Error> {
        v.visit_byte_buf(self.0)
    }
    serde::forward_to_deserialize_any! {
        bool i8 i16 i32 i64 i128 u8 u16 u32 u64 u128 f32 f64 char str string bytes byte_buf option unit unit_struct
        newtype_struct seq tuple tuple_struct map struct enum identifier ignored_any
    }
}

/// every fallible constructor of the public API applied to the same bytes
fn fallible(s: &[u8]) -> Vec<(&'static str, Option<ByteString>)> {
    let mut out: Vec<(&'static str, Option<ByteString>)> = Vec::with_capacity(9);
    out.push(("slice", ByteString::try_from(s).ok()));
    out.push(("vec", ByteString::try_from(s.to_vec()).ok()));
    out.push(("bytes", ByteString::try_from(Bytes::copy_from_slice(s)).ok()));
    out.push(("bytes_from_vec", ByteString::try_from(Bytes::from(s.to_vec())).ok()));
    // a Bytes that is a window into a larger shared buffer with invalid neighbours
    let mut big = Vec::with_capacity(s.len() + 2);
    big.push(0xFF);
    big.extend_from_slice(s);
    big.push(0x80);
    let win = Bytes::from(big).slice(1..1 + s.len());
    out.push(("bytes_window", ByteString::try_from(win).ok()));
    out.push(("bytesmut", ByteString::try_from(BytesMut::from(s)).ok()));
    arrays!(s, out, 0 1 2 3 4 5 6 7 8);
    // serde (feature "serde"): Deserialize is part of the safe API - whatever the deserializer delivers
    {
        use serde::de::{value::BytesDeserializer, Deserialize};
        out.push(("serde_byte_buf", <ByteString as Deserialize>::deserialize(ByteBufDe(s.to_vec())).ok()));
        let de: BytesDeserializer<'_, serde::de::value::Error> = BytesDeserializer::new(s);
        out.push(("serde_bytes", <ByteString as Deserialize>::deserialize(de).ok()));
    }
    out
}

fn mid_in(b: &[usize], m: usize) -> bool {
    b.contains(&m)
}

fn hash_of<T: Hash + ?Sized>(t: &T) -> u64 {
    let mut h = DefaultHasher::new();
    t.hash(&mut h);
    h.finish()
}

fn main() {
    quiet_panics();
    let mode = std::env::args().nth(1).unwrap_or_default();
    if mode != "vectors" {
        eprintln!("usage: vbytestring vectors --schedules F --trace T [--seed S] [--pairs K] [--trace-sample N]");
        std::process::exit(2);
    }
    let sfile = arg("--schedules").expect("--schedules");
    let tfile = arg("--trace").expect("--trace");
    let seed: u64 = arg("--seed").and_then(|s| s.parse().ok()).unwrap_or(1);
    let pairs_k: usize = arg("--pairs").and_then(|s| s.parse().ok()).unwrap_or(16);
    let tsample: usize = arg("--trace-sample").and_then(|s| s.parse().ok()).unwrap_or(2000);
    let mut rng = Rng(seed.wrapping_mul(0x9E3779B97F4A7C15) | 1);

    let raw = read_ndjson(&sfile);
    let vecs: Vec<V> = raw
        .iter()
        .map(|r| V {
            s: r["s"].as_array().unwrap().iter().map(|x| x.as_u64().unwrap() as u8).collect(),
            v: r["v"].as_bool().unwrap(),
            b: r["b"].as_array().unwrap().iter().map(|x| x.as_u64().unwrap() as usize).collect(),
        })
        .collect();
    drop(raw);
    // the spec's table: which byte strings it knows, and which of them it calls valid
    let mut known: HashSet<u128> = HashSet::with_capacity(vecs.len());
    let mut valid: HashSet<u128> = HashSet::new();
    for v in &vecs {
        known.insert(key(&v.s));
        if v.v {
            valid.insert(key(&v.s));
        }
    }
    let spec_says = |bytes: &[u8]| -> Option<bool> {
        let k = key(bytes);
        if known.contains(&k) {
            Some(valid.contains(&k))
        } else {
            None
        }
    };

    let mut rep = Report {
        steps: 0,
        mismatches: 0,
        first: vec![],
        flagged_runs: HashSet::new(),
        oracle_disagreements: 0,
        oracle_first: vec![],
    };
    let mut trace = Trace::create(&tfile);
    let n = vecs.len();
    let sample_p = if n == 0 { 0 } else { tsample.saturating_mul(1 << 16) / n.max(1) };
    let mut n_valid = 0u64;
    let mut n_split_calls = 0u64;
    let mut n_split_panics = 0u64;
    let mut n_slice_refs = 0u64;
    let mut n_foreign_panics = 0u64;
    let mut n_table_miss = 0u64;
    let mut n_accepts = 0u64;
    let mut n_rejects = 0u64;
    let mut n_multibyte_valid = 0u64;
    let mut traced = 0u64;
    let mut valid_idx: Vec<usize> = vec![];
    let mut n_shared_cmp = 0u64;
    // mids at which the left / right half of split_at compared equal / unequal to the whole (any value)
    let (mut eqp, mut neqp, mut eqs, mut neqs) = (BTreeSet::new(), BTreeSet::new(), BTreeSet::new(), BTreeSet::new());

    for (i, v) in vecs.iter().enumerate() {
        let s = &v.s[..];
        let before = rep.mismatches;
        let std_ok = std::str::from_utf8(s).is_ok();
        if std_ok != v.v {
            rep.oracle(i, "from_utf8", json!(v.v), json!(std_ok));
        }
        // ---- fallible constructors: accept iff the spec calls the bytes valid
        let built = fallible(s);
        let mut all_acc = true;
        let mut all_rej = true;
        let mut values: Vec<(&'static str, ByteString)> = Vec::new();
        for (name, r) in built {
            match r {
                Some(bs) => {
                    all_rej = false;
                    n_accepts += 1;
                    rep.check(i, &format!("ctor:{name}"), v.v, json!("reject"), json!("accept"));
                    let same = bs.as_bytes()[..] == *s;
                    rep.check(i, &format!("ctor:{name}:bytes"), same, json!(s), json!(bs.as_bytes()[..]));
                    if v.v {
                        values.push((name, bs));
                    }
                }
                None => {
                    all_acc = false;
                    n_rejects += 1;
                    rep.check(i, &format!("ctor:{name}"), !v.v, json!("accept"), json!("reject"));
                }
            }
        }
        let mut split_ok_everywhere: Vec<usize> = vec![];
        eqp.clear();
        neqp.clear();
        eqs.clear();
        neqs.clear();
        if v.v && std_ok {
            n_valid += 1;
            valid_idx.push(i);
            if s.iter().any(|b| *b >= 0x80) {
                n_multibyte_valid += 1;
            }
            let st: &str = std::str::from_utf8(s).unwrap();
            // ---- infallible constructors
            values.push(("from_str", ByteString::from(st)));
            values.push(("from_string", ByteString::from(st.to_owned())));
            values.push(("from_box_str", ByteString::from(st.to_owned().into_boxed_str())));
            let leaked: &'static str = Box::leak(st.to_owned().into_boxed_str());
            values.push(("from_static", ByteString::from_static(leaked)));
            if s.is_empty() {
                values.push(("new", ByteString::new()));
                values.push(("default", ByteString::default()));
            }
            let c = values[0].1.clone();
            values.push(("clone", c));

            let len = s.len();
            eqp.clear();
            neqp.clear();
            eqs.clear();
            neqs.clear();
            let mut split_ok_count = vec![0usize; len + 2];
            let nvalues = values.len();
            for (name, bs) in &values {
                let same = bs.as_bytes()[..] == *s;
                rep.check(i, &format!("{name}:bytes"), same, json!(s), json!(bs.as_bytes()[..]));
                if !same {
                    continue; // Deref on bytes that are not the valid input is not safe to exercise
                }
                // ---- str parity (differential, std is the oracle)
                let d: &str = bs;
                rep.check(i, &format!("{name}:deref"), d == st, json!(st), json!(d));
                let ar: &str = bs.as_ref();
                let ab: &[u8] = bs.as_ref();
                let bo: &str = bs.borrow();
                rep.check(i, &format!("{name}:as_ref"), ar == st && ab == s && bo == st, json!(st), json!(ar));
                let disp = format!("{}", bs);
                rep.check(i, &format!("{name}:display"), disp == st, json!(st), json!(disp));
                // Display honours the formatter's width / fill / alignment / precision exactly as str does
                let fmts: [(&str, String, String); 8] = [
                    ("{:>6}", format!("{:>6}", bs), format!("{:>6}", st)),
                    ("{:<5}|", format!("{:<5}|", bs), format!("{:<5}|", st)),
                    ("{:*^7}", format!("{:*^7}", bs), format!("{:*^7}", st)),
                    ("{:.1}", format!("{:.1}", bs), format!("{:.1}", st)),
                    ("{:.0}", format!("{:.0}", bs), format!("{:.0}", st)),
                    ("{:8.2}", format!("{:8.2}", bs), format!("{:8.2}", st)),
                    ("{:#?}", format!("{:#?}", bs), format!("{:#?}", st)),
                    ("{:>10?}", format!("{:>10?}", bs), format!("{:>10?}", st)),
                ];
                for (spec, got, want) in fmts.iter() {
                    rep.check(i, &format!("{name}:fmt:{spec}"), got == want, json!(want), json!(got));
                }
                let dbg = format!("{:?}", bs);
                rep.check(i, &format!("{name}:debug"), dbg == format!("{:?}", st), json!(format!("{:?}", st)), json!(dbg));
                let to_s: String = String::from(bs.clone());
                rep.check(i, &format!("{name}:into_string"), to_s == st, json!(st), json!(to_s));
                rep.check(i, &format!("{name}:into_bytes"), bs.clone().into_bytes()[..] == *s, json!(s), json!("differs"));
                rep.check(i, &format!("{name}:hash"), hash_of(bs) == hash_of(st), json!(hash_of(st)), json!(hash_of(bs)));
                rep.check(i, &format!("{name}:eq_str"), *bs == *st && *bs == st.to_owned() && bs == &st,
                          json!(true), json!(false));
                rep.check(i, &format!("{name}:len"), bs.len() == st.len() && bs.is_empty() == st.is_empty()
                          && bs.chars().count() == st.chars().count(), json!(st.len()), json!(bs.len()));

                // handles that SHARE storage with `bs`: (provenance, lo, hi, handle)
                let mut handles: Vec<(&'static str, usize, usize, ByteString)> = vec![];
                // ---- split_at: panics exactly off the spec's boundaries
                for mid in 0..=len + 1 {
                    let expect_ok = v.b.contains(&mid);
                    let std_split_ok = catch(|| {
                        let _ = st.split_at(mid);
                    })
                    .is_ok();
                    if std_split_ok != expect_ok {
                        rep.oracle(i, &format!("str::split_at({mid})"), json!(expect_ok), json!(std_split_ok));
                    }
                    n_split_calls += 1;
                    match catch(|| bs.split_at(mid)) {
                        Ok((a, b)) => {
                            split_ok_count[mid] += 1;
                            rep.check(i, &format!("split_at:{name}:{mid}"), expect_ok, json!("panic"),
                                      json!({"returned": [a.as_bytes()[..], b.as_bytes()[..]]}));
                            if mid <= len {
                                let halves = a.as_bytes()[..] == s[..mid] && b.as_bytes()[..] == s[mid..];
                                rep.check(i, &format!("split_at:{name}:{mid}:halves"), halves,
                                          json!([s[..mid], s[mid..]]), json!([a.as_bytes()[..], b.as_bytes()[..]]));
                                if halves && expect_ok {
                                    handles.push(("left", 0, mid, a.clone()));
                                    handles.push(("right", mid, len, b.clone()));
                                }
                            }
                            for (h, part) in [("left", &a), ("right", &b)] {
                                match spec_says(&part.as_bytes()[..]) {
                                    Some(ok) => rep.check(i, &format!("split_at:{name}:{mid}:{h}_valid"), ok,
                                                          json!("valid UTF-8"), json!(part.as_bytes()[..])),
                                    None => n_table_miss += 1,
                                }
                            }
                        }
                        Err(msg) => {
                            n_split_panics += 1;
                            rep.check(i, &format!("split_at:{name}:{mid}"), !expect_ok, json!("returns"),
                                      json!({"panic": msg}));
                        }
                    }
                }
                // ---- slice_ref over every sub-slice between boundaries
                for (x, &lo) in v.b.iter().enumerate() {
                    for &hi in &v.b[x..] {
                        if lo > hi || hi > len {
                            continue;
                        }
                        let whole: &str = bs;
                        let sub = &whole[lo..hi];
                        n_slice_refs += 1;
                        match catch(|| bs.slice_ref(sub)) {
                            Ok(r) => {
                                let same = r.as_bytes()[..] == s[lo..hi];
                                rep.check(i, &format!("slice_ref:{name}:{lo}..{hi}"), same,
                                          json!(s[lo..hi]), json!(r.as_bytes()[..]));
                                if same {
                                    handles.push(("slice", lo, hi, r.clone()));
                                }
                                if let Some(ok) = spec_says(&r.as_bytes()[..]) {
                                    rep.check(i, &format!("slice_ref:{name}:{lo}..{hi}:valid"), ok,
                                              json!("valid UTF-8"), json!(r.as_bytes()[..]));
                                }
                            }
                            Err(msg) => rep.check(i, &format!("slice_ref:{name}:{lo}..{hi}"), false,
                                                  json!(s[lo..hi]), json!({"panic": msg})),
                        }
                    }
                }
                // ---- comparisons between handles that share one buffer (split halves, slice_ref results,
                // &str sub-slices of the same ByteString) and the whole: ==, !=, Ord, PartialOrd, Hash
                // consistency must be what the same operation on the equivalent str gives (differential)
                let whole: &str = bs;
                let hw = (hash_of(bs), hash_of(st));
                let hh: Vec<(u64, u64)> = handles.iter().map(|(_, lo, hi, h)| (hash_of(h), hash_of(&st[*lo..*hi]))).collect();
                for (k, (prov, lo, hi, h)) in handles.iter().enumerate() {
                    let (lo, hi) = (*lo, *hi);
                    let sh = &st[lo..hi];
                    let step = format!("shared:{name}:{prov}:{lo}..{hi}");
                    let want = sh == st;
                    n_shared_cmp += 1;
                    // handle vs whole, both directions, and vs borrowed sub-slices of the same buffer
                    let got = [h == bs, bs == h, !(h != bs), *h == *whole, h == &whole, *bs == whole[lo..hi],
                               bs == &&whole[lo..hi], *h == whole[lo..hi]];
                    let wants = [want, want, want, want, want, want, want, true];
                    rep.check(i, &format!("{step}:eq_whole"), got == wants, json!(wants), json!(got));
                    rep.check(i, &format!("{step}:ord_whole"),
                              h.cmp(bs) == sh.cmp(st) && bs.cmp(h) == st.cmp(sh) && h.partial_cmp(bs) == sh.partial_cmp(st),
                              json!(format!("{:?}", sh.cmp(st))), json!(format!("{:?}", h.cmp(bs))));
                    rep.check(i, &format!("{step}:hash_whole"),
                              (hh[k].0 == hw.0) == (hh[k].1 == hw.1) && (!(h == bs) || hh[k].0 == hw.0),
                              json!(hh[k].1 == hw.1), json!(hh[k].0 == hw.0));
                    if prov == &"left" && mid_in(&v.b, hi) {
                        if h == bs { eqp.insert(hi); } else { neqp.insert(hi); }
                    }
                    if prov == &"right" && mid_in(&v.b, lo) {
                        if h == bs { eqs.insert(lo); } else { neqs.insert(lo); }
                    }
                    // handle vs every other handle of the same buffer
                    for (k2, (prov2, lo2, hi2, h2)) in handles.iter().enumerate().skip(k + 1) {
                        let sh2 = &st[*lo2..*hi2];
                        n_shared_cmp += 1;
                        let ok = (h == h2) == (sh == sh2) && (h2 == h) == (sh == sh2) && (h != h2) == (sh != sh2)
                            && h.cmp(h2) == sh.cmp(sh2) && h.partial_cmp(h2) == sh.partial_cmp(sh2)
                            && (hh[k].0 == hh[k2].0) == (hh[k].1 == hh[k2].1) && (!(h == h2) || hh[k].0 == hh[k2].0);
                        if !ok {
                            rep.check(i, &format!("{step}:vs:{prov2}:{lo2}..{hi2}"), false,
                                      json!({"eq": sh == sh2, "cmp": format!("{:?}", sh.cmp(sh2))}),
                                      json!({"eq": h == h2, "cmp": format!("{:?}", h.cmp(h2)), "hash_eq": hh[k].0 == hh[k2].0}));
                        } else {
                            rep.steps += 1;
                        }
                    }
                }
            }
            // slice_ref with a subset from another buffer (a copy of the text; another text of the same
            // length; the sibling half of a split): documented to panic; whatever it returns must be valid UTF-8 and
            // must be the text it was asked for (the equivalent str operation yields `subset` itself)
            if !s.is_empty() {
                let bs = &values[0].1;
                let mut foreign: Vec<String> = vec![st.to_owned()];
                foreign.push(if st.bytes().all(|b| b == b'A') { "B".repeat(len) } else { "A".repeat(len) });
                for f in &foreign {
                    match catch(|| bs.slice_ref(f)) {
                        Ok(r) => {
                            let ok = spec_says(&r.as_bytes()[..]).unwrap_or_else(|| std::str::from_utf8(&r.as_bytes()[..]).is_ok());
                            rep.check(i, "slice_ref:foreign:valid", ok, json!("valid UTF-8"), json!(r.as_bytes()[..]));
                            rep.check(i, "slice_ref:foreign:text", r.as_bytes()[..] == *f.as_bytes(), json!(f.as_bytes()), json!(r.as_bytes()[..]));
                        }
                        Err(_) => n_foreign_panics += 1,
                    }
                }
                // the two halves of a split are not sub-slices of each other
                for mid in 1..len {
                    if mid * 2 == len && mid_in(&v.b, mid) {
                        if let Ok((l, r)) = catch(|| bs.split_at(mid)) {
                            let rs: &str = &r;
                            match catch(|| l.slice_ref(rs)) {
                                Ok(x) => rep.check(i, "slice_ref:sibling:text", x.as_bytes()[..] == *rs.as_bytes(), json!(rs.as_bytes()), json!(x.as_bytes()[..])),
                                Err(_) => n_foreign_panics += 1,
                            }
                        }
                    }
                }
            }
            split_ok_everywhere = (0..=len + 1).filter(|m| split_ok_count[*m] == nvalues).collect();
            // a mid at which only some values returned is already a mismatch above
        }
        // ---- observation record for TLC
        let flagged = rep.mismatches > before;
        if v.v || flagged || (rng.next() & 0xFFFF) < sample_p as u64 {
            trace.emit(&json!({"ev": "reset", "i": i}));
            trace.emit(&json!({"ev": "vec", "i": i, "s": s, "acc": all_acc, "rej": all_rej, "split": split_ok_everywhere,
                               "eqp": eqp, "neqp": neqp, "eqs": eqs, "neqs": neqs}));
            trace.emit(&json!({"ev": "end", "i": i}));
            traced += 1;
        }
    }

    // ---- pairs of valid vectors: Eq / Ord / PartialOrd / Hash consistency against str
    let mut n_pairs = 0u64;
    let nv = valid_idx.len();
    let all_pairs = nv <= 64;
    for (pos, &ia) in valid_idx.iter().enumerate() {
        let sa = std::str::from_utf8(&vecs[ia].s).unwrap();
        let a = match ByteString::try_from(&vecs[ia].s[..]) {
            Ok(a) => a,
            Err(_) => continue,
        };
        let mut partners: Vec<usize> = vec![];
        if all_pairs {
            partners.extend(0..nv);
        } else {
            partners.push(pos);
            partners.push((pos + 1) % nv);
            for _ in 0..pairs_k {
                partners.push(rng.below(nv));
            }
        }
        for pb in partners {
            let ib = valid_idx[pb];
            let sb = std::str::from_utf8(&vecs[ib].s).unwrap();
            let b = match ByteString::try_from(vecs[ib].s.clone()) {
                Ok(b) => b,
                Err(_) => continue,
            };
            n_pairs += 1;
            let step = format!("pair:{ia}:{ib}");
            rep.check(ia, &format!("{step}:cmp"), a.cmp(&b) == sa.cmp(sb), json!(format!("{:?}", sa.cmp(sb))),
                      json!(format!("{:?}", a.cmp(&b))));
            rep.check(ia, &format!("{step}:partial_cmp"), a.partial_cmp(&b) == sa.partial_cmp(sb),
                      json!(format!("{:?}", sa.partial_cmp(sb))), json!(format!("{:?}", a.partial_cmp(&b))));
            rep.check(ia, &format!("{step}:eq"), (a == b) == (sa == sb) && (a == *sb) == (sa == sb),
                      json!(sa == sb), json!(a == b));
            rep.check(ia, &format!("{step}:hash"), (hash_of(&a) == hash_of(&b)) == (hash_of(sa) == hash_of(sb)),
                      json!(hash_of(sa) == hash_of(sb)), json!(hash_of(&a) == hash_of(&b)));
        }
    }
    // a map keyed by ByteString is addressable by &str (Borrow<str> + Hash + Eq contract)
    if nv > 0 {
        let mut m: HashMap<ByteString, usize> = HashMap::new();
        for &ia in valid_idx.iter().take(4096) {
            if let Ok(a) = ByteString::try_from(&vecs[ia].s[..]) {
                m.insert(a, ia);
            }
        }
        for &ia in valid_idx.iter().take(4096) {
            let sa = std::str::from_utf8(&vecs[ia].s).unwrap();
            rep.check(ia, "map_lookup_by_str", m.get(sa) == Some(&ia), json!(ia), json!(m.get(sa)));
        }
    }
    trace.finish();

    println!(
        "{}",
        json!({
            "runs": n, "steps": rep.steps, "mismatches": rep.mismatches, "first_mismatches": rep.first,
            "flagged_runs": rep.flagged_runs.len(),
            "oracle_disagreements": rep.oracle_disagreements, "oracle_first": rep.oracle_first,
            "valid_vectors": n_valid, "valid_multibyte": n_multibyte_valid,
            "ctor_accepts": n_accepts, "ctor_rejects": n_rejects,
            "split_calls": n_split_calls, "split_panics": n_split_panics, "slice_refs": n_slice_refs,
            "foreign_slice_ref_panics": n_foreign_panics, "table_miss": n_table_miss,
            "pairs": n_pairs, "traced": traced, "shared_comparisons": n_shared_cmp,
        })
    );
}
