fn main() {}
