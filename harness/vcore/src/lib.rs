//! Shared helpers for the conformance drivers: counting wakers, ndjson trace output, schedule input.

use std::{
    fs::File,
    io::{BufRead, BufReader, BufWriter, Write},
    sync::{
        atomic::{AtomicUsize, Ordering},
        Arc,
    },
    task::{Wake, Waker},
};

pub use serde_json::{json, Map, Value};

/// A waker that only counts how often it was woken.
pub struct CountWaker {
    pub id: usize,
    pub count: AtomicUsize,
}

thread_local! {
    /// optional one-shot hook run from INSIDE a wake-up on this thread (an executor that polls the woken task inline)
    #[allow(clippy::type_complexity)]
    pub static WAKE_HOOK: std::cell::RefCell<Option<Box<dyn FnOnce(usize, Waker)>>> = std::cell::RefCell::new(None);
}

fn run_wake_hook(w: &Arc<CountWaker>) {
    let hook = WAKE_HOOK.with(|h| h.borrow_mut().take());
    if let Some(hook) = hook {
        hook(w.id, Waker::from(w.clone()));
    }
}

impl Wake for CountWaker {
    fn wake(self: Arc<Self>) {
        self.count.fetch_add(1, Ordering::SeqCst);
        run_wake_hook(&self);
    }
    fn wake_by_ref(self: &Arc<Self>) {
        self.count.fetch_add(1, Ordering::SeqCst);
        run_wake_hook(self);
    }
}

/// A fixed family of counting wakers, addressed by 1-based id (0 means "none" in the specs).
pub struct Wakers {
    pub inner: Vec<Arc<CountWaker>>,
}

impl Wakers {
    pub fn new(n: usize) -> Self {
        Wakers {
            inner: (1..=n)
                .map(|id| {
                    Arc::new(CountWaker {
                        id,
                        count: AtomicUsize::new(0),
                    })
                })
                .collect(),
        }
    }
    pub fn waker(&self, id: usize) -> Waker {
        Waker::from(self.inner[id - 1].clone())
    }
    pub fn counts(&self) -> Vec<usize> {
        self.inner
            .iter()
            .map(|w| w.count.load(Ordering::SeqCst))
            .collect()
    }
    /// ids whose count increased relative to `before`
    pub fn woken_since(&self, before: &[usize]) -> Vec<usize> {
        self.counts()
            .iter()
            .enumerate()
            .filter(|(i, c)| **c > before[*i])
            .map(|(i, _)| i + 1)
            .collect()
    }
}

/// ndjson writer
pub struct Trace {
    out: BufWriter<File>,
    pub lines: usize,
}

impl Trace {
    pub fn create(path: &str) -> Self {
        Trace {
            out: BufWriter::new(File::create(path).expect("create trace file")),
            lines: 0,
        }
    }
    pub fn emit(&mut self, v: &Value) {
        // TLC's Json module cannot deserialize null: write the string "null" instead
        fn has_null(v: &Value) -> bool {
            match v {
                Value::Null => true,
                Value::Array(a) => a.iter().any(has_null),
                Value::Object(o) => o.values().any(has_null),
                _ => false,
            }
        }
        fn scrub(v: &mut Value) {
            match v {
                Value::Null => *v = Value::String("null".into()),
                Value::Array(a) => a.iter_mut().for_each(scrub),
                Value::Object(o) => o.values_mut().for_each(scrub),
                _ => {}
            }
        }
        if has_null(v) {
            let mut c = v.clone();
            scrub(&mut c);
            serde_json::to_writer(&mut self.out, &c).unwrap();
            self.out.write_all(b"\n").unwrap();
            self.lines += 1;
            return;
        }
        serde_json::to_writer(&mut self.out, v).unwrap();
        self.out.write_all(b"\n").unwrap();
        self.lines += 1;
    }
    pub fn finish(mut self) {
        self.out.flush().unwrap();
    }
}

/// Reads a file with one JSON value per line.
pub fn read_ndjson(path: &str) -> Vec<Value> {
    let f = BufReader::new(File::open(path).unwrap_or_else(|e| panic!("open {path}: {e}")));
    f.lines()
        .map(|l| l.unwrap())
        .filter(|l| !l.trim().is_empty())
        .map(|l| serde_json::from_str(&l).unwrap_or_else(|e| panic!("bad json line {l}: {e}")))
        .collect()
}

pub fn geti(v: &Value, k: &str) -> i64 {
    v.get(k)
        .and_then(|x| x.as_i64())
        .unwrap_or_else(|| panic!("missing int field {k} in {v}"))
}
pub fn gets<'a>(v: &'a Value, k: &str) -> &'a str {
    v.get(k)
        .and_then(|x| x.as_str())
        .unwrap_or_else(|| panic!("missing str field {k} in {v}"))
}

/// Simple command line: `--key value` pairs.
pub fn arg(name: &str) -> Option<String> {
    let a: Vec<String> = std::env::args().collect();
    a.iter()
        .position(|x| x == name)
        .and_then(|i| a.get(i + 1).cloned())
}

/// Run `f`, catching a panic of the code under test; the panic message is data.
pub fn catch<R>(f: impl FnOnce() -> R) -> Result<R, String> {
    let r = std::panic::catch_unwind(std::panic::AssertUnwindSafe(f));
    r.map_err(|e| {
        if let Some(s) = e.downcast_ref::<&str>() {
            s.to_string()
        } else if let Some(s) = e.downcast_ref::<String>() {
            s.clone()
        } else {
            "panic".to_string()
        }
    })
}

/// Silence the default panic hook (panics of the code under test are recorded, not printed).
pub fn quiet_panics() {
    std::panic::set_hook(Box::new(|_| {}));
}
