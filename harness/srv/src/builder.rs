//! Builder conformance (`vsrv builder`): call sequences of the real `ServerBuilder` (layouts emitted by TLC from
//! spec/server/Builder.tla: `bind` with 1..3 resolved addresses of which some are already in use, `listen`,
//! `listen_uds` / `bind_uds`), then `run()` and a script of events on the running server.  Every service answers a client
//! with the number of the builder CALL whose factory built it; the trace (calls, run, conn{s, by}, fail, die, made) is
//! validated by TLC against Builder.tla (BuilderTrace.tla).  Public API only.
//!
//! Scenario: {"name":..,"workers":W,"calls":[{"kind":"bind","addrs":[true,false,..]}|{"kind":"listen"}|{"kind":"uds"}],
//!            "events":[{"k":"conn","s":p}|{"k":"fail","c":c}|{"k":"die","s":p}|{"k":"die2","s":p}|{"k":"diehold","s":p} (with "limit":2)|{"k":"stop","graceful":bool} (last event)|{"k":"pend","c":c}|{"k":"unpend","c":c}]}
//! Trace records: {"ev":"reset"} {"ev":"call","kind","addrs","ok"} {"ev":"run","workers","ok"}
//!                {"ev":"conn","s","by"} {"ev":"fail","c"} {"ev":"die"} {"ev":"made","made":[..]}

use std::{
    future::Future,
    io::{Read, Write},
    net::{SocketAddr, TcpStream as StdTcpStream},
    os::unix::net::UnixStream as StdUnixStream,
    pin::Pin,
    sync::{
        atomic::{AtomicBool, AtomicUsize, Ordering},
        mpsc, Arc,
    },
    task::{Context, Poll},
    thread,
    time::{Duration, Instant},
};

use actix_server::Server;
use actix_service::{fn_factory, Service};
use tokio::io::{AsyncRead, AsyncReadExt, AsyncWrite, AsyncWriteExt};
use vcore::{json, Value};

const MAXC: usize = 8;

struct Shared {
    made: Vec<AtomicUsize>,
    fail: Vec<AtomicBool>,
    poison: AtomicBool,
    poisoned: AtomicUsize,
    /// the next readiness check of any service panics (the worker dies inside `poll_ready`)
    panic_ready: AtomicBool,
    /// `call` invocations so far
    ncalls: AtomicUsize,
    /// service instances destroyed (a dying worker takes its services with it)
    dropped: AtomicUsize,
    /// per call: its services answer Pending to the readiness check while set
    pend: Vec<AtomicBool>,
    /// wakers of the readiness checks that were answered Pending
    wakers: std::sync::Mutex<Vec<std::task::Waker>>,
    /// per call: the next `call` of a service of this call makes the call's services pending (from inside the worker's poll)
    arm_pend: Vec<AtomicBool>,
    /// the next Pending answer takes 300 ms (the worker thread is held inside its readiness sweep)
    slow_once: AtomicBool,
}

struct TagSvc {
    c: usize,
    sh: Arc<Shared>,
}

impl Drop for TagSvc {
    fn drop(&mut self) {
        self.sh.dropped.fetch_add(1, Ordering::SeqCst);
    }
}

impl<S: AsyncRead + AsyncWrite + Unpin + 'static> Service<S> for TagSvc {
    type Response = ();
    type Error = ();
    type Future = Pin<Box<dyn Future<Output = Result<(), ()>>>>;

    fn poll_ready(&self, cx: &mut Context<'_>) -> Poll<Result<(), ()>> {
        if self.sh.panic_ready.swap(false, Ordering::SeqCst) {
            self.sh.poisoned.fetch_add(1, Ordering::SeqCst);
            panic!("poisoned readiness check: the worker future dies");
        }
        if self.sh.pend[self.c].load(Ordering::SeqCst) {
            if self.sh.slow_once.swap(false, Ordering::SeqCst) {
                thread::sleep(Duration::from_millis(300));
            }
            self.sh.wakers.lock().unwrap().push(cx.waker().clone());
            // re-check: the flag may have been cleared before the waker was stored
            if self.sh.pend[self.c].load(Ordering::SeqCst) {
                return Poll::Pending;
            }
        }
        if self.sh.fail[self.c].swap(false, Ordering::SeqCst) {
            Poll::Ready(Err(()))
        } else {
            Poll::Ready(Ok(()))
        }
    }

    fn call(&self, mut stream: S) -> Self::Future {
        self.sh.ncalls.fetch_add(1, Ordering::SeqCst);
        if self.sh.poison.swap(false, Ordering::SeqCst) {
            self.sh.poisoned.fetch_add(1, Ordering::SeqCst);
            panic!("poisoned call: the worker future dies");
        }
        if self.sh.arm_pend[self.c].swap(false, Ordering::SeqCst) {
            // from now on (the very next readiness sweep of this worker poll) the services of this call are pending
            self.sh.slow_once.store(true, Ordering::SeqCst);
            self.sh.pend[self.c].store(true, Ordering::SeqCst);
        }
        let c = self.c as u8;
        Box::pin(async move {
            let mut b = [0u8; 1];
            if stream.read_exact(&mut b).await.is_ok() {
                let _ = stream.write_all(&[c]).await;
                let _ = stream.flush().await;
            }
            Ok(())
        })
    }
}

#[derive(Clone)]
enum Addr {
    Tcp(SocketAddr),
    Uds(String),
}

fn wait_until(timeout: Duration, f: impl Fn() -> bool) -> bool {
    let t = Instant::now();
    while t.elapsed() < timeout {
        if f() {
            return true;
        }
        thread::sleep(Duration::from_millis(3));
    }
    f()
}

enum Sock {
    Tcp(StdTcpStream),
    Uds(StdUnixStream),
}

impl Sock {
    fn read_tag(&mut self, ms: u64) -> Option<u8> {
        let to = Some(Duration::from_millis(ms));
        let mut b = [0u8; 1];
        let r = match self {
            Sock::Tcp(s) => {
                let _ = s.set_read_timeout(to);
                s.read(&mut b)
            }
            Sock::Uds(s) => {
                let _ = s.set_read_timeout(to);
                s.read(&mut b)
            }
        };
        match r {
            Ok(1) => Some(b[0]),
            Ok(_) => Some(0), // closed without an answer
            Err(_) => None,   // nothing yet
        }
    }

    /// after a stop: > 0 the tag the service answered with, 0 still open and silent after `ms`, -1 closed (EOF or reset)
    fn read_state(&mut self, ms: u64) -> i64 {
        let to = Some(Duration::from_millis(ms));
        let mut b = [0u8; 1];
        let r = match self {
            Sock::Tcp(s) => {
                let _ = s.set_read_timeout(to);
                s.read(&mut b)
            }
            Sock::Uds(s) => {
                let _ = s.set_read_timeout(to);
                s.read(&mut b)
            }
        };
        match r {
            Ok(1) => b[0] as i64,
            Ok(_) => -1,
            Err(e) if matches!(e.kind(), std::io::ErrorKind::WouldBlock | std::io::ErrorKind::TimedOut) => 0,
            Err(_) => -1,
        }
    }
}

/// a client on `a`: sends one byte; returns the tag byte the service answers with within `ms` (0 = none) and, when
/// there was neither an answer nor a close, the open socket (the connection may still be waiting at a worker)
fn client_keep(a: &Addr, ms: u64) -> (u8, Option<Sock>) {
    let mut sock = match a {
        Addr::Tcp(sa) => match StdTcpStream::connect_timeout(sa, Duration::from_millis(ms.max(500))) {
            Ok(s) => Sock::Tcp(s),
            Err(_) => return (0, None),
        },
        Addr::Uds(p) => match StdUnixStream::connect(p) {
            Ok(s) => Sock::Uds(s),
            Err(_) => return (0, None),
        },
    };
    let w = match &mut sock {
        Sock::Tcp(s) => s.write_all(&[1]),
        Sock::Uds(s) => s.write_all(&[1]),
    };
    if w.is_err() {
        return (0, None);
    }
    match sock.read_tag(ms) {
        Some(t) => (t, None),
        None => (0, Some(sock)),
    }
}

/// connects and sends the request byte; the answer is read later
fn client_open(a: &Addr) -> Option<Sock> {
    let mut sock = match a {
        Addr::Tcp(sa) => Sock::Tcp(StdTcpStream::connect_timeout(sa, Duration::from_millis(1000)).ok()?),
        Addr::Uds(p) => Sock::Uds(StdUnixStream::connect(p).ok()?),
    };
    let w = match &mut sock {
        Sock::Tcp(s) => s.write_all(&[1]),
        Sock::Uds(s) => s.write_all(&[1]),
    };
    w.ok()?;
    Some(sock)
}

/// connects and says nothing: the service's future waits for the request byte, the connection stays in progress
fn client_silent(a: &Addr) -> Option<Sock> {
    Some(match a {
        Addr::Tcp(sa) => Sock::Tcp(StdTcpStream::connect_timeout(sa, Duration::from_millis(1000)).ok()?),
        Addr::Uds(p) => Sock::Uds(StdUnixStream::connect(p).ok()?),
    })
}

fn client(a: &Addr, ms: u64) -> u8 {
    client_keep(a, ms).0
}

/// a loopback port that stays reserved (bound with SO_REUSEADDR, NOT listening) until the guard is dropped: the
/// builder's own SO_REUSEADDR bind + listen on it succeeds, nobody else is handed the port in between
fn reserve() -> (socket2::Socket, SocketAddr) {
    use socket2::{Domain, Socket, Type};
    let s = Socket::new(Domain::IPV4, Type::STREAM, None).unwrap();
    s.set_reuse_address(true).unwrap();
    s.bind(&"127.0.0.1:0".parse::<SocketAddr>().unwrap().into()).unwrap();
    let a = s.local_addr().unwrap().as_socket().unwrap();
    (s, a)
}

pub fn run_scenario(sc: &Value, dir: &str, idx: usize) -> Vec<Value> {
    let workers = sc["workers"].as_u64().unwrap_or(1) as usize;
    // per-worker connection limit (0: the default, never reached)
    let limit = sc["limit"].as_u64().unwrap_or(0) as usize;
    let calls: Vec<Value> = sc["calls"].as_array().cloned().unwrap_or_default();
    let sh = Arc::new(Shared {
        made: (0..MAXC).map(|_| AtomicUsize::new(0)).collect(),
        fail: (0..MAXC).map(|_| AtomicBool::new(false)).collect(),
        poison: AtomicBool::new(false),
        poisoned: AtomicUsize::new(0),
        panic_ready: AtomicBool::new(false),
        ncalls: AtomicUsize::new(0),
        dropped: AtomicUsize::new(0),
        pend: (0..MAXC).map(|_| AtomicBool::new(false)).collect(),
        wakers: std::sync::Mutex::new(vec![]),
        arm_pend: (0..MAXC).map(|_| AtomicBool::new(false)).collect(),
        slow_once: AtomicBool::new(false),
    });
    let mut out = vec![json!({"ev": "reset", "scenario": sc})];
    let ncalls = calls.len();
    let made_now = |sh: &Shared| -> Vec<usize> { (1..=ncalls).map(|c| sh.made[c].load(Ordering::SeqCst)).collect() };

    // the builder calls run on the server's System thread; their outcome comes back over a channel
    let (tx, rx) = mpsc::channel::<Value>();
    let (atx, arx) = mpsc::channel::<(Vec<Addr>, Option<actix_server::ServerHandle>)>();
    let sh2 = sh.clone();
    let resolved = Arc::new(AtomicBool::new(false));
    let res2 = resolved.clone();
    let calls2 = calls.clone();
    let dir2 = dir.to_string();
    let srv_thread = thread::spawn(move || {
        let sys = actix_rt::System::new();
        sys.block_on(async move {
            let mut b = Some(Server::build().workers(workers).shutdown_timeout(1).disable_signals());
            if limit > 0 {
                b = b.map(|b| b.max_concurrent_connections(limit));
            }
            let mut addrs: Vec<Addr> = vec![];
            // listening sockets that make an address "already in use"
            let mut blockers = vec![];
            for (k, call) in calls2.iter().enumerate() {
                let c = k + 1;
                macro_rules! factory {
                    ($io:ty) => {{
                        let s = sh2.clone();
                        move || {
                            let s = s.clone();
                            fn_factory(move || {
                                let s = s.clone();
                                async move {
                                    s.made[c].fetch_add(1, Ordering::SeqCst);
                                    Ok::<_, ()>(TagSvc { c, sh: s })
                                }
                            })
                        }
                    }};
                }
                let kind = call["kind"].as_str().unwrap_or("listen");
                let builder = b.take().unwrap();
                let r = match kind {
                    "bind" => {
                        let oks: Vec<bool> = call["addrs"].as_array().unwrap().iter().map(|x| x.as_bool().unwrap_or(true)).collect();
                        let mut list = vec![];
                        let mut guards = vec![];
                        for ok in oks.iter() {
                            if *ok {
                                let (g, a) = reserve();
                                guards.push(g);
                                list.push(a);
                                addrs.push(Addr::Tcp(a));
                            } else {
                                let l = std::net::TcpListener::bind("127.0.0.1:0").unwrap();
                                list.push(l.local_addr().unwrap());
                                blockers.push(l);
                            }
                        }
                        let r = builder.bind(format!("call{c}"), &list[..], factory!(actix_rt::net::TcpStream));
                        drop(guards);
                        r
                    }
                    "uds" => {
                        let path = format!("{dir2}/b{idx}-{c}.sock");
                        let _ = std::fs::remove_file(&path);
                        addrs.push(Addr::Uds(path.clone()));
                        if c % 2 == 0 {
                            let l = std::os::unix::net::UnixListener::bind(&path).unwrap();
                            builder.listen_uds(format!("call{c}"), l, factory!(actix_rt::net::UnixStream))
                        } else {
                            builder.bind_uds(format!("call{c}"), &path, factory!(actix_rt::net::UnixStream))
                        }
                    }
                    _ => {
                        let l = std::net::TcpListener::bind("127.0.0.1:0").unwrap();
                        addrs.push(Addr::Tcp(l.local_addr().unwrap()));
                        builder.listen(format!("call{c}"), l, factory!(actix_rt::net::TcpStream))
                    }
                };
                let ok = r.is_ok();
                let _ = tx.send(json!({"ev": "call", "kind": kind, "addrs": call["addrs"].as_array().cloned().unwrap_or(vec![json!(true)]), "ok": ok}));
                match r {
                    Ok(nb) => b = Some(nb),
                    Err(_) => break,
                }
            }
            drop(tx);
            let Some(builder) = b else {
                let _ = atx.send((addrs, None));
                return;
            };
            let server = builder.run();
            let _ = atx.send((addrs, Some(server.handle())));
            let _ = server.await;
            res2.store(true, Ordering::SeqCst);
            drop(blockers);
        });
    });
    for v in rx.iter() {
        out.push(v);
    }
    let Ok((addrs, handle)) = arx.recv_timeout(Duration::from_secs(10)) else {
        // `run()` (or the first poll of the Server) panicked on the System thread
        out.push(json!({"ev": "run", "workers": workers, "ok": false}));
        let _ = srv_thread.join();
        return out;
    };
    let Some(handle) = handle else {
        let _ = srv_thread.join();
        return out;
    };
    // started = the workers have built their services (the instance counters have settled) and the Server future has not
    // resolved (it resolves at once when a worker fails to start)
    let nsock = addrs.len();
    wait_until(Duration::from_secs(5), || made_now(&sh).iter().sum::<usize>() >= nsock * workers || resolved.load(Ordering::SeqCst));
    let mut last = made_now(&sh);
    loop {
        thread::sleep(Duration::from_millis(60));
        let now = made_now(&sh);
        if now == last {
            break;
        }
        last = now;
    }
    let started = !resolved.load(Ordering::SeqCst) && last.iter().sum::<usize>() > 0;
    out.push(json!({"ev": "run", "workers": workers, "ok": started}));
    out.push(json!({"ev": "made", "made": made_now(&sh)}));

    let mut pending_die: Option<usize> = None;
    let mut waiting: Vec<Sock> = vec![];
    let mut holders: Vec<Sock> = vec![];
    if started {
        for e in sc["events"].as_array().cloned().unwrap_or_default() {
            match e["k"].as_str().unwrap_or("") {
                "conn" => {
                    let p = e["s"].as_u64().unwrap_or(1) as usize;
                    let pending_now = (1..=ncalls).any(|c| sh.pend[c].load(Ordering::SeqCst));
                    // while a service is pending the client is expected to wait: a short look, the socket is kept
                    let (by, kept) = client_keep(&addrs[p - 1], if pending_now { 300 } else { 2500 });
                    if pending_now {
                        if let Some(k) = kept {
                            waiting.push(k);
                        }
                    }
                    if let Some(target) = pending_die {
                        // the dispatch that finds the dead worker makes the server start a replacement (asynchronously)
                        if wait_until(Duration::from_millis(500), || made_now(&sh).iter().sum::<usize>() >= target) {
                            pending_die = None;
                        }
                    }
                    out.push(json!({"ev": "conn", "s": p, "by": by}));
                    out.push(json!({"ev": "made", "made": made_now(&sh)}));
                }
                "pendrace" => {
                    // client A is served; the call itself makes the services of call c pending, and the readiness sweep that
                    // follows IN THE SAME worker poll takes 300 ms; client B connects during that sweep: it arrives between
                    // the sweep (which finds the queue empty and a service pending) and the receive - and must wait
                    let c = e["c"].as_u64().unwrap_or(1) as usize;
                    let p = e["s"].as_u64().unwrap_or(1) as usize;
                    sh.arm_pend[c].store(true, Ordering::SeqCst);
                    let a = client_open(&addrs[p - 1]);
                    // B connects once A's call has made the services pending (the worker is then inside its slow sweep)
                    wait_until(Duration::from_secs(3), || sh.pend[c].load(Ordering::SeqCst));
                    thread::sleep(Duration::from_millis(30));
                    let b = client_open(&addrs[p - 1]);
                    let by_a = a.and_then(|mut s| s.read_tag(2500)).unwrap_or(0);
                    out.push(json!({"ev": "conn", "s": p, "by": by_a}));
                    out.push(json!({"ev": "pend", "c": c}));
                    let mut by_b = 0;
                    if let Some(mut s) = b {
                        match s.read_tag(400) {
                            Some(t) => by_b = t,
                            None => waiting.push(s),
                        }
                    }
                    out.push(json!({"ev": "conn", "s": p, "by": by_b}));
                    out.push(json!({"ev": "made", "made": made_now(&sh)}));
                }
                "pend" => {
                    let c = e["c"].as_u64().unwrap_or(1) as usize;
                    sh.pend[c].store(true, Ordering::SeqCst);
                    out.push(json!({"ev": "pend", "c": c}));
                }
                "unpend" => {
                    let c = e["c"].as_u64().unwrap_or(1) as usize;
                    sh.pend[c].store(false, Ordering::SeqCst);
                    for w in sh.wakers.lock().unwrap().drain(..) {
                        w.wake();
                    }
                    let mut late = vec![];
                    if !(1..=ncalls).any(|c| sh.pend[c].load(Ordering::SeqCst)) {
                        for mut k in waiting.drain(..) {
                            late.push(k.read_tag(2500).unwrap_or(0));
                        }
                    }
                    out.push(json!({"ev": "unpend", "c": c, "late": late}));
                    out.push(json!({"ev": "made", "made": made_now(&sh)}));
                }
                "fail" => {
                    let c = e["c"].as_u64().unwrap_or(1) as usize;
                    sh.fail[c].store(true, Ordering::SeqCst);
                    out.push(json!({"ev": "fail", "c": c}));
                }
                "die" | "die2" => {
                    // "die2" (two workers): a second poisoned connection right behind the first goes to the other worker
                    // (round robin, nobody has noticed the first death), so both are dead when the next client connects
                    let p = e["s"].as_u64().unwrap_or(1) as usize;
                    let want = if e["k"] == "die2" && workers == 2 { 2 } else { 1 };
                    let before: usize = made_now(&sh).iter().sum();
                    let dropped0 = sh.dropped.load(Ordering::SeqCst);
                    let mut died = 0;
                    for k in 0..want {
                        let poisoned0 = sh.poisoned.load(Ordering::SeqCst);
                        sh.poison.store(true, Ordering::SeqCst);
                        let _ = client(&addrs[p - 1], 300);
                        wait_until(Duration::from_secs(3), || sh.poisoned.load(Ordering::SeqCst) > poisoned0);
                        // the worker thread unwinds, destroys its services (one per socket) and closes its connection queue;
                        // nobody has noticed yet.  If the services survive the panic the worker did not die: no event
                        if wait_until(Duration::from_millis(400), || sh.dropped.load(Ordering::SeqCst) >= dropped0 + (k + 1) * nsock) {
                            died += 1;
                        } else {
                            break;
                        }
                    }
                    sh.poison.store(false, Ordering::SeqCst);
                    thread::sleep(Duration::from_millis(100));
                    if died > 0 {
                        pending_die = Some(before + died * nsock);
                        out.push(json!({"ev": if died == 2 { "die2" } else { "die" }}));
                    } else {
                        out.push(json!({"ev": "survived"}));
                    }
                    out.push(json!({"ev": "made", "made": made_now(&sh)}));
                }
                "stop" => {
                    // the server is stopped while connections wait in the workers' queues (some service is pending): they are
                    // released - closed, not served, not left open - by the time the stop has completed (forced) or the
                    // shutdown timeout has passed (graceful).  Afterwards the services become ready again: nothing is served
                    let graceful = e["graceful"].as_bool().unwrap_or(false);
                    let nwait = waiting.len();
                    let rt = tokio::runtime::Builder::new_current_thread().enable_all().build().unwrap();
                    let stop = handle.stop(graceful);
                    let stopped = rt.block_on(async { tokio::time::timeout(Duration::from_secs(5), stop).await }).is_ok();
                    let mut states: Vec<i64> = waiting.iter_mut().map(|k| k.read_state(700)).collect();
                    for c in 1..=ncalls {
                        sh.pend[c].store(false, Ordering::SeqCst);
                    }
                    for w in sh.wakers.lock().unwrap().drain(..) {
                        w.wake();
                    }
                    for (i, k) in waiting.iter_mut().enumerate() {
                        if states[i] == 0 {
                            states[i] = match k.read_state(700) {
                                0 => 0,
                                -1 => -2, // closed only after the services became ready again
                                t => t,
                            };
                        }
                    }
                    waiting.clear();
                    out.push(json!({"ev": "stop", "graceful": graceful, "stopped": stopped, "nwait": nwait,
                                    "released": states.iter().filter(|s| **s == -1).count(),
                                    "served": states.iter().filter(|s| **s > 0).count(), "states": states}));
                }
                "diehold" => {
                    // a worker dies AT ITS LIMIT (scenario limit 2) inside a readiness check while a client keeps a connection
                    // open on it: one silent client per worker (round robin), then a client whose dispatch fills the first
                    // worker and makes it run the poisoned readiness check.  The dying worker stops its arbiter, which tears
                    // the held connection down; its released slot is what makes the accept thread try the worker again
                    let p = e["s"].as_u64().unwrap_or(1) as usize;
                    let before: usize = made_now(&sh).iter().sum();
                    let dropped0 = sh.dropped.load(Ordering::SeqCst);
                    for _ in 0..workers {
                        let n0 = sh.ncalls.load(Ordering::SeqCst);
                        if let Some(h) = client_silent(&addrs[p - 1]) {
                            holders.push(h);
                        }
                        wait_until(Duration::from_secs(2), || sh.ncalls.load(Ordering::SeqCst) > n0);
                    }
                    let poisoned0 = sh.poisoned.load(Ordering::SeqCst);
                    sh.panic_ready.store(true, Ordering::SeqCst);
                    let _ = client(&addrs[p - 1], 300);
                    wait_until(Duration::from_secs(3), || sh.poisoned.load(Ordering::SeqCst) > poisoned0);
                    let died = wait_until(Duration::from_millis(400), || sh.dropped.load(Ordering::SeqCst) >= dropped0 + nsock);
                    sh.panic_ready.store(false, Ordering::SeqCst);
                    thread::sleep(Duration::from_millis(100));
                    if died {
                        pending_die = Some(before + nsock);
                        out.push(json!({"ev": "die"}));
                    } else {
                        out.push(json!({"ev": "survived"}));
                    }
                    out.push(json!({"ev": "made", "made": made_now(&sh)}));
                }
                other => panic!("driver: unknown builder event {other}"),
            }
        }
    }
    out.push(json!({"ev": "end"}));
    let rt = tokio::runtime::Builder::new_current_thread().enable_all().build().unwrap();
    let stop = handle.stop(false);
    let _ = rt.block_on(async { tokio::time::timeout(Duration::from_secs(5), stop).await });
    let t = Instant::now();
    while !srv_thread.is_finished() && t.elapsed() < Duration::from_secs(5) {
        thread::sleep(Duration::from_millis(5));
    }
    out
}
