//! End-to-end shutdown scenarios (C06) on a REAL `actix_server::Server`: real accept thread, real worker
//! threads, real sockets, real time.  Public API only.  Every scenario produces a list of events ordered by a
//! global sequence number taken under one mutex (never by wall clock across threads); time stamps are
//! milliseconds since the scenario started and are only used for the generous real-time bounds.
//!
//! Scenario (JSON): {"name":..,"workers":1..2,"shutdown_s":1..2,"conns":N,"stop":"graceful"|"forced",
//!   "release":[{"c":0,"at":"before_stop"|"never"|<ms after stop>}], "second_stop":bool, "drop_future":bool,
//!   "pause_first":bool, "late_connect":bool, "race_conns":N, "stop_after_done":bool, "faults_first":N, "stall_after_stop_ms":N, "plain_tokio":bool, "system_exit":bool, "stop_gap_ms":N, "busy_ms":N,
//!   "call_busy":{"c":k,"ms":N}, "stop_in_call_ms":N}
//! accept_delay_ms (solo scenarios only): while set, the accept thread is held that long whenever it logs "resume accepting
//!   connections" (tracing subscriber); resume_then_stop: resume() and stop() are issued back to back; pause_then_stop: with
//!   resume_then_stop, a pause() 80 ms after the resume, directly in front of the stop (two interests behind one wake-up)
//! busy_ms: every connection handler blocks its worker thread for N ms right after it started (no yield)
//! stop_gap_ms: the server thread is held for N ms between telling the accept thread to stop and sending Stop to the
//! workers (hook `stop_gap`): the schedule "accept thread exits before the workers hear about the stop".
//! Signal scenarios run in a child process (`vsrv e2e-child`), see `run_signal_scenario`.

use std::{
    io::{Read, Write},
    net::TcpStream as StdTcpStream,
    sync::{
        atomic::{AtomicBool, Ordering},
        mpsc, Arc, Mutex,
    },
    thread,
    time::{Duration, Instant},
};

use actix_rt::net::TcpStream;
use actix_server::Server;
use actix_service::fn_service;
use tokio::io::AsyncReadExt;
use vcore::{json, Value};

#[derive(Clone)]
pub struct Log {
    inner: Arc<Mutex<Vec<Value>>>,
    t0: Instant,
}

impl Log {
    pub fn new() -> Self {
        Log {
            inner: Arc::new(Mutex::new(vec![])),
            t0: Instant::now(),
        }
    }
    pub fn emit(&self, mut v: Value) {
        let mut g = self.inner.lock().unwrap();
        v["seq"] = json!(g.len() + 1);
        v["ms"] = json!(self.t0.elapsed().as_millis() as u64);
        g.push(v);
    }
    pub fn take(&self) -> Vec<Value> {
        self.inner.lock().unwrap().clone()
    }
    pub fn has(&self, pred: impl Fn(&Value) -> bool) -> bool {
        self.inner.lock().unwrap().iter().any(|v| pred(v))
    }
}

/// lives inside a service future: reports a future that is dropped before it completed
struct KillNote {
    log: Log,
    c: usize,
    finished: bool,
}

impl Drop for KillNote {
    fn drop(&mut self) {
        if !self.finished {
            self.log.emit(json!({"e": "ConnKilled", "c": self.c}));
        }
    }
}

// ------------------------------------------------------------------------------------------------
// holding the ACCEPT thread: a tracing subscriber that sleeps when actix-server logs that it resumes accepting
// ------------------------------------------------------------------------------------------------
/// while > 0 every "resume accepting connections" log line of actix-server holds the logging (= accept) thread that long.
/// Process-wide: only set by scenarios that run alone (`solo`).
pub static ACCEPT_RESUME_DELAY_MS: std::sync::atomic::AtomicU64 = std::sync::atomic::AtomicU64::new(0);

struct MsgVisitor(String);
impl tracing::field::Visit for MsgVisitor {
    fn record_debug(&mut self, field: &tracing::field::Field, value: &dyn std::fmt::Debug) {
        if field.name() == "message" {
            use std::fmt::Write as _;
            let _ = write!(self.0, "{:?}", value);
        }
    }
}
struct DelaySubscriber;
impl tracing::Subscriber for DelaySubscriber {
    fn enabled(&self, m: &tracing::Metadata<'_>) -> bool {
        m.target().starts_with("actix_server")
    }
    fn new_span(&self, _: &tracing::span::Attributes<'_>) -> tracing::span::Id {
        tracing::span::Id::from_u64(1)
    }
    fn record(&self, _: &tracing::span::Id, _: &tracing::span::Record<'_>) {}
    fn record_follows_from(&self, _: &tracing::span::Id, _: &tracing::span::Id) {}
    fn event(&self, ev: &tracing::Event<'_>) {
        let ms = ACCEPT_RESUME_DELAY_MS.load(Ordering::SeqCst);
        if ms == 0 {
            return;
        }
        let mut v = MsgVisitor(String::new());
        ev.record(&mut v);
        if v.0.contains("resume accepting") {
            thread::sleep(Duration::from_millis(ms));
        }
    }
    fn enter(&self, _: &tracing::span::Id) {}
    fn exit(&self, _: &tracing::span::Id) {}
}
/// installs the subscriber once per process (a no-op while ACCEPT_RESUME_DELAY_MS is 0)
pub fn install_delay_subscriber() {
    static ONCE: std::sync::Once = std::sync::Once::new();
    ONCE.call_once(|| {
        let _ = tracing::subscriber::set_global_default(DelaySubscriber);
    });
}

fn wait_until(timeout: Duration, f: impl Fn() -> bool) -> bool {
    let t = Instant::now();
    while t.elapsed() < timeout {
        if f() {
            return true;
        }
        thread::sleep(Duration::from_millis(5));
    }
    f()
}

/// one scenario on real threads; returns its event list
pub fn run_scenario(sc: &Value) -> Vec<Value> {
    let log = Log::new();
    let nconn = sc["conns"].as_u64().unwrap_or(0) as usize;
    let workers = sc["workers"].as_u64().unwrap_or(1) as usize;
    let shutdown_s = sc["shutdown_s"].as_u64().unwrap_or(1);
    let graceful = sc["stop"].as_str().unwrap_or("graceful") == "graceful";
    let release: Vec<Arc<AtomicBool>> = (0..nconn.max(1) + 4 + sc["race_conns"].as_u64().unwrap_or(0) as usize).map(|_| Arc::new(AtomicBool::new(false))).collect();

    // the server runs in its own actix System thread
    let (tx, rx) = mpsc::channel();
    let slog = log.clone();
    let rel = release.clone();
    let stop_gap = sc["stop_gap_ms"].as_u64().unwrap_or(0);
    let busy_ms = sc["busy_ms"].as_u64().unwrap_or(0);
    // "call_busy": {"c": k, "ms": N}: Service::call for connection k blocks the worker thread for N ms INSIDE the worker's own
    // poll (the stop is issued "stop_in_call_ms" after that client connected: the worker hears about it in mid-poll)
    let call_busy = Arc::new(std::sync::atomic::AtomicU64::new(0));
    let call_busy2 = call_busy.clone();
    let call_busy_c = sc["call_busy"]["c"].as_u64().map(|c| c as usize);
    let call_busy_ms = sc["call_busy"]["ms"].as_u64().unwrap_or(0);
    let poison = Arc::new(AtomicBool::new(false));
    let poison2 = poison.clone();
    let stall_ms = sc["stall_after_stop_ms"].as_u64().unwrap_or(0);
    let plain_tokio = sc["plain_tokio"].as_bool().unwrap_or(false);
    let system_exit = sc["system_exit"].as_bool().unwrap_or(false);
    let stop_flag = Arc::new(AtomicBool::new(false));
    let stop_flag2 = stop_flag.clone();
    let srv_thread = thread::spawn(move || {
        // the Server future (and with it handle_cmd) is polled on this thread
        actix_server::verif::set_stop_gap_ms(stop_gap);
        let hl = slog.clone();
        actix_server::verif::set_srv_handles_cb(Box::new(move |idx, handles| {
            let hs: Vec<Value> = handles.iter().map(|(i, live)| json!([i, live])).collect();
            hl.emit(json!({"e": "WorkerReplaced", "idx": idx, "handles": hs}));
        }));
        let fut = async move {
            let lst = std::net::TcpListener::bind("127.0.0.1:0").unwrap();
            let addr = lst.local_addr().unwrap();
            let l2 = slog.clone();
            let server = Server::build()
                .workers(workers)
                .max_concurrent_connections(8)
                .shutdown_timeout(shutdown_s)
                .disable_signals();
            let server = if system_exit { server.system_exit() } else { server };
            let server = server
                .listen("e2e", lst, move || {
                    let l3 = l2.clone();
                    let rel = rel.clone();
                    let poison = poison2.clone();
                    let stop_flag = stop_flag2.clone();
                    let call_busy = call_busy2.clone();
                    l3.emit(json!({"e": "FactoryNew"}));
                    fn_service(move |mut stream: TcpStream| {
                        let l4 = l3.clone();
                        let rel = rel.clone();
                        let stop_flag = stop_flag.clone();
                        let hold = call_busy.swap(0, Ordering::SeqCst);
                        if hold > 0 {
                            l3.emit(json!({"e": "CallBlocks", "ms": hold}));
                            thread::sleep(Duration::from_millis(hold));
                        }
                        if poison.swap(false, Ordering::SeqCst) {
                            // panics inside `Service::call`: the worker future (and its thread) dies
                            l4.emit(json!({"e": "Poisoned"}));
                            panic!("poisoned call");
                        }
                        async move {
                            let mut b = [0u8; 1];
                            if stream.read_exact(&mut b).await.is_err() {
                                return Ok::<_, ()>(());
                            }
                            let c = b[0] as usize;
                            if c >= 250 {
                                return Ok(()); // probe connections of the fault prologue
                            }
                            l4.emit(json!({"e": "ConnStarted", "c": c, "thread": format!("{:?}", thread::current().id())}));
                            if busy_ms > 0 {
                                // a handler that does not yield: the worker THREAD is blocked (it cannot even look at a
                                // stop message) - a forced stop must not wait for it
                                thread::sleep(Duration::from_millis(busy_ms));
                            }
                            // dropped before the service future completed = the connection was torn down
                            let mut note = KillNote { log: l4.clone(), c, finished: false };
                            let mut stalled = false;
                            let mut since_stop: Option<Instant> = None;
                            while !rel.get(c).map(|f| f.load(Ordering::SeqCst)).unwrap_or(true) {
                                if stall_ms > 0 && stop_flag.load(Ordering::SeqCst) && since_stop.is_none() {
                                    since_stop = Some(Instant::now());
                                }
                                // (300 ms after the stop: the worker has received it and armed its shutdown timer)
                                if stall_ms > 0 && !stalled && since_stop.map(|t| t.elapsed() >= Duration::from_millis(300)).unwrap_or(false) {
                                    // the worker THREAD is held across one or more shutdown ticks (a handler that blocks, a
                                    // suspended process): afterwards the graceful stop must go on as if nothing had happened
                                    stalled = true;
                                    thread::sleep(Duration::from_millis(stall_ms));
                                }
                                tokio::time::sleep(Duration::from_millis(5)).await;
                            }
                            note.finished = true;
                            l4.emit(json!({"e": "ConnFinished", "c": c}));
                            Ok(())
                        }
                    })
                })
                .unwrap()
                .run();
            tx.send((server.handle(), addr)).unwrap();
            let r = server.await;
            slog.emit(json!({"e": "ServerResolved", "ok": r.is_ok()}));
        };
        if plain_tokio {
            // no actix System: the server runs on a plain Tokio runtime (the workers bring their own)
            let rt = tokio::runtime::Builder::new_current_thread().enable_all().build().unwrap();
            tokio::task::LocalSet::new().block_on(&rt, fut);
        } else {
            actix_rt::System::new().block_on(fut);
        }
    });
    let (handle, addr) = rx.recv_timeout(Duration::from_secs(10)).expect("server start");

    // "faults_first": N worker deaths (a service call panics), each found by the accept thread and repaired by the server,
    // before anything else happens: the server's own bookkeeping of worker handles has been through N replacements
    let nfaults = sc["faults_first"].as_u64().unwrap_or(0) as usize;
    let count = |what: &str| log.take().iter().filter(|v| v["e"] == what).count();
    if nfaults > 0 {
        wait_until(Duration::from_secs(5), || count("FactoryNew") >= workers);
    }
    for k in 0..nfaults {
        let made = count("FactoryNew");
        poison.store(true, Ordering::SeqCst);
        let mut tries = 0;
        while count("Poisoned") <= k && tries < 50 {
            if let Ok(mut s) = StdTcpStream::connect_timeout(&addr, Duration::from_millis(500)) {
                let _ = s.write_all(&[254]);
            }
            thread::sleep(Duration::from_millis(20));
            tries += 1;
        }
        // probe connections until a dispatch has met the dead worker and the replacement has built its service
        tries = 0;
        while count("FactoryNew") <= made && tries < 100 {
            if let Ok(mut s) = StdTcpStream::connect_timeout(&addr, Duration::from_millis(500)) {
                let _ = s.write_all(&[253]);
            }
            thread::sleep(Duration::from_millis(20));
            tries += 1;
        }
        log.emit(json!({"e": "FaultRepaired", "k": k, "ok": count("FactoryNew") > made}));
        thread::sleep(Duration::from_millis(100));
    }
    // clients
    let mut clients = vec![];
    for c in 0..nconn {
        if Some(c) == call_busy_c {
            // everybody before it is being served; its own call will block the worker inside its poll
            wait_until(Duration::from_secs(5), || (0..c).all(|k| log.has(|v| v["e"] == "ConnStarted" && v["c"] == json!(k))));
            call_busy.store(call_busy_ms, Ordering::SeqCst);
        }
        let mut s = StdTcpStream::connect(addr).expect("connect");
        s.write_all(&[c as u8]).unwrap();
        clients.push(s);
    }
    if call_busy_c.is_some() {
        wait_until(Duration::from_secs(3), || log.has(|v| v["e"] == "CallBlocks"));
        thread::sleep(Duration::from_millis(sc["stop_in_call_ms"].as_u64().unwrap_or(100)));
    }
    let all_started = wait_until(Duration::from_secs(5), || {
        (0..nconn).all(|c| Some(c) == call_busy_c || log.has(|v| v["e"] == "ConnStarted" && v["c"] == json!(c)))
    });
    log.emit(json!({"e": "AllStarted", "ok": all_started}));

    let rt = tokio::runtime::Builder::new_current_thread().enable_all().build().unwrap();
    if sc["pause_first"].as_bool().unwrap_or(false) {
        rt.block_on(handle.pause());
        log.emit(json!({"e": "Paused"}));
    }
    let rel_spec = sc["release"].as_array().cloned().unwrap_or_default();
    for r in rel_spec.iter() {
        if r["at"] == "before_stop" {
            let c = r["c"].as_u64().unwrap() as usize;
            release[c].store(true, Ordering::SeqCst);
            wait_until(Duration::from_secs(3), || log.has(|v| v["e"] == "ConnFinished" && v["c"] == json!(c)));
        }
    }

    // "resume_then_stop": the resume and the stop are issued back to back (the accept thread may still be busy with the
    // resume - made long by `accept_delay_ms` - when the stop is handled by the server)
    if sc["resume_then_stop"].as_bool().unwrap_or(false) {
        let _ = handle.resume();
        log.emit(json!({"e": "ResumeCalled"}));
        // "pause_then_stop": once the accept thread is held inside the resume (accept_delay_ms), a pause is issued right in
        // front of the stop: both interests are pushed while the thread is busy, their wake-ups coalesce into ONE event
        if sc["pause_then_stop"].as_bool().unwrap_or(false) {
            thread::sleep(Duration::from_millis(80));
            let _ = handle.pause();
            log.emit(json!({"e": "PauseCalled"}));
        }
    }
    // "race_conns": N more clients connect right before the stop and nobody waits for them to be served (stop racing new
    // connections): each of them is either never started or - under a graceful stop - allowed to finish
    let race = sc["race_conns"].as_u64().unwrap_or(0) as usize;
    for c in nconn..nconn + race {
        if let Ok(mut s) = StdTcpStream::connect_timeout(&addr, Duration::from_millis(500)) {
            let _ = s.write_all(&[c as u8]);
            clients.push(s);
        }
    }
    if race > 0 {
        log.emit(json!({"e": "RaceConnected", "n": race}));
    }
    // the stop(s)
    let mut stop_threads = vec![];
    let late_at_stop = sc["late_connect"].as_bool().unwrap_or(false);
    let nstops = if sc["second_stop"].as_bool().unwrap_or(false) { 2 } else { 1 };
    for k in 0..nstops {
        let fut = handle.stop(graceful);
        stop_flag.store(true, Ordering::SeqCst);
        log.emit(json!({"e": "StopCalled", "id": k + 1, "graceful": graceful}));
        if k == 0 && sc["drop_future"].as_bool().unwrap_or(false) {
            drop(fut);
            log.emit(json!({"e": "StopFutureDropped", "id": k + 1}));
            continue;
        }
        let l = log.clone();
        stop_threads.push(thread::spawn(move || {
            let rt = tokio::runtime::Builder::new_current_thread().enable_all().build().unwrap();
            rt.block_on(fut);
            l.emit(json!({"e": "StopResolved", "id": k + 1}));
            if late_at_stop && k == 0 {
                // completion = the stop future resolved: from this instant the server must not listen any more
                let connected = StdTcpStream::connect_timeout(&addr, Duration::from_millis(300)).is_ok();
                l.emit(json!({"e": "LateConnect", "connected": connected, "c": 99, "at": "stop"}));
            }
        }));
    }
    let t_stop = Instant::now();
    // timed releases after the stop
    let mut timed: Vec<(u64, usize)> = rel_spec
        .iter()
        .filter(|r| r["at"].is_u64())
        .map(|r| (r["at"].as_u64().unwrap(), r["c"].as_u64().unwrap() as usize))
        .collect();
    timed.sort();
    for (at, c) in timed {
        let due = Duration::from_millis(at);
        if t_stop.elapsed() < due {
            thread::sleep(due - t_stop.elapsed());
        }
        release[c].store(true, Ordering::SeqCst);
    }
    // wait for completion (watchdog: timeout + 6 s)
    let watchdog = Duration::from_secs(shutdown_s.min(20) + 6);
    let done = wait_until(watchdog, || log.has(|v| v["e"] == "ServerResolved"));
    log.emit(json!({"e": "Watchdog", "serverResolved": done}));
    if sc["late_connect"].as_bool().unwrap_or(false) && done {
        // a connection attempt after completion must not reach a service
        let r = StdTcpStream::connect_timeout(&addr, Duration::from_millis(300));
        let connected = match r {
            Ok(mut s) => {
                let _ = s.write_all(&[(nconn + 1) as u8]);
                let _ = s.set_read_timeout(Some(Duration::from_millis(300)));
                let mut b = [0u8; 1];
                let _ = s.read(&mut b);
                true
            }
            Err(_) => false,
        };
        thread::sleep(Duration::from_millis(200));
        log.emit(json!({"e": "LateConnect", "connected": connected, "c": nconn + 1}));
    }
    if sc["stop_after_done"].as_bool().unwrap_or(false) && done {
        // a stop issued after the server has completed: its future must resolve all the same
        let fut = handle.stop(graceful);
        log.emit(json!({"e": "StopCalled", "id": 3, "graceful": graceful, "afterDone": true}));
        let l = log.clone();
        stop_threads.push(thread::spawn(move || {
            let rt = tokio::runtime::Builder::new_current_thread().enable_all().build().unwrap();
            rt.block_on(fut);
            l.emit(json!({"e": "StopResolved", "id": 3}));
        }));
        wait_until(Duration::from_secs(2), || log.has(|v| v["e"] == "StopResolved" && v["id"] == json!(3)));
    }
    // let everything go
    for f in release.iter() {
        f.store(true, Ordering::SeqCst);
    }
    drop(clients);
    for t in stop_threads {
        let _ = wait_join(t, Duration::from_secs(3));
    }
    let _ = wait_join(srv_thread, Duration::from_secs(3));
    log.emit(json!({"e": "End"}));
    log.take()
}

fn wait_join(t: thread::JoinHandle<()>, timeout: Duration) -> bool {
    let t0 = Instant::now();
    while t0.elapsed() < timeout {
        if t.is_finished() {
            let _ = t.join();
            return true;
        }
        thread::sleep(Duration::from_millis(5));
    }
    false
}

/// Child process: a real server WITH OS signal handling; one connection is held until the peer closes.
/// Prints events as JSON lines on stdout ("READY <port>" first).
pub fn child_main() {
    let shutdown_s: u64 = std::env::var("VSRV_SHUTDOWN_S").ok().and_then(|s| s.parse().ok()).unwrap_or(2);
    let t0 = Instant::now();
    let emit = move |v: Value| {
        let mut v = v;
        v["ms"] = json!(t0.elapsed().as_millis() as u64);
        println!("{}", v);
        let _ = std::io::stdout().flush();
    };
    let rt = tokio::runtime::Builder::new_current_thread().enable_all().build().unwrap();
    rt.block_on(async move {
        let lst = std::net::TcpListener::bind("127.0.0.1:0").unwrap();
        let port = lst.local_addr().unwrap().port();
        let e2 = emit.clone();
        let server = Server::build()
            .workers(1)
            .shutdown_timeout(shutdown_s)
            .listen("sig", lst, move || {
                let e3 = e2.clone();
                fn_service(move |mut stream: TcpStream| {
                    let e4 = e3.clone();
                    async move {
                        e4(json!({"e": "ConnStarted", "c": 0}));
                        let mut b = [0u8; 16];
                        // held until the peer closes
                        loop {
                            match stream.read(&mut b).await {
                                Ok(0) | Err(_) => break,
                                Ok(_) => {}
                            }
                        }
                        e4(json!({"e": "ConnFinished", "c": 0}));
                        Ok::<_, ()>(())
                    }
                })
            })
            .unwrap()
            .run();
        println!("READY {port}");
        let _ = std::io::stdout().flush();
        let r = server.await;
        emit(json!({"e": "ServerResolved", "ok": r.is_ok()}));
    });
}

/// Parent side of a signal scenario: {"signal":"SIGTERM"|"SIGINT"|"SIGQUIT","shutdown_s":2,"close_after_ms":N|null}
pub fn run_signal_scenario(sc: &Value) -> Vec<Value> {
    use std::io::{BufRead, BufReader};
    use std::process::{Command, Stdio};
    let log = Log::new();
    let exe = std::env::current_exe().unwrap();
    let mut child = Command::new(exe)
        .arg("e2e-child")
        .env("VSRV_SHUTDOWN_S", sc["shutdown_s"].as_u64().unwrap_or(2).to_string())
        .stdout(Stdio::piped())
        .stderr(Stdio::null())
        .spawn()
        .expect("spawn child");
    let stdout = child.stdout.take().unwrap();
    let (tx, rx) = mpsc::channel::<String>();
    thread::spawn(move || {
        for line in BufReader::new(stdout).lines().map_while(Result::ok) {
            if tx.send(line).is_err() {
                break;
            }
        }
    });
    let mut port = 0u16;
    if let Ok(l) = rx.recv_timeout(Duration::from_secs(10)) {
        if let Some(p) = l.strip_prefix("READY ") {
            port = p.trim().parse().unwrap_or(0);
        }
    }
    let mut client = StdTcpStream::connect(("127.0.0.1", port)).ok();
    // wait for ConnStarted from the child
    let mut pending: Vec<String> = vec![];
    let t = Instant::now();
    let mut started = false;
    while t.elapsed() < Duration::from_secs(5) && !started {
        if let Ok(l) = rx.recv_timeout(Duration::from_millis(50)) {
            if l.contains("ConnStarted") {
                started = true;
            }
            pending.push(l);
        }
    }
    for l in pending.drain(..) {
        if let Ok(v) = serde_json::from_str::<Value>(&l) {
            log.emit(json!({"e": v["e"], "c": v["c"], "childMs": v["ms"]}));
        }
    }
    let signo = match sc["signal"].as_str().unwrap_or("SIGTERM") {
        "SIGINT" => libc::SIGINT,
        "SIGQUIT" => libc::SIGQUIT,
        _ => libc::SIGTERM,
    };
    unsafe {
        libc::kill(child.id() as i32, signo);
    }
    log.emit(json!({"e": "StopCalled", "id": 1, "signal": sc["signal"], "graceful": signo == libc::SIGTERM}));
    let t_sig = Instant::now();
    let close_after = sc["close_after_ms"].as_u64();
    let watchdog = Duration::from_secs(sc["shutdown_s"].as_u64().unwrap_or(2) + 6);
    let mut exited = false;
    let mut closed = false;
    while t_sig.elapsed() < watchdog {
        if let (Some(ms), false) = (close_after, closed) {
            if t_sig.elapsed() >= Duration::from_millis(ms) {
                client.take();
                closed = true;
                log.emit(json!({"e": "ClientClosed", "c": 0}));
            }
        }
        while let Ok(l) = rx.try_recv() {
            if let Ok(v) = serde_json::from_str::<Value>(&l) {
                log.emit(json!({"e": v["e"], "c": v["c"], "childMs": v["ms"]}));
            }
        }
        if let Ok(Some(_st)) = child.try_wait() {
            exited = true;
            break;
        }
        thread::sleep(Duration::from_millis(10));
    }
    while let Ok(l) = rx.recv_timeout(Duration::from_millis(100)) {
        if let Ok(v) = serde_json::from_str::<Value>(&l) {
            log.emit(json!({"e": v["e"], "c": v["c"], "childMs": v["ms"]}));
        }
    }
    log.emit(json!({"e": "ChildExited", "ok": exited}));
    if !exited {
        let _ = child.kill();
    }
    let _ = child.wait();
    log.emit(json!({"e": "End"}));
    log.take()
}
