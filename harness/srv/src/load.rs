//! End-to-end "load" scenarios on a REAL `actix_server::Server` built through the public `ServerBuilder`
//! (real `ServerWorker::start`, accept thread, worker threads, sockets): the part of C01-C05 / C08 the stepped
//! engine cannot see (builder -> worker plumbing of max_concurrent_connections, token/factory wiring of several
//! listeners, `handle_cmd(WorkerFaulted)` restarting a worker).  Public API only; events carry a global sequence
//! number taken under one mutex.
//!
//! Scenario: {"name":..,"workers":W,"limit":L,"uds":bool,"multi":bool,"steps":[STEP..]}
//!   multi: between a and b a third service "c" is registered with `bind("c", [addr1, addr2])` - ONE name and factory,
//!   TWO sockets (tokens 1 and 2, b gets 3): the token <-> factory <-> socket bookkeeping of ServerBuilder
//! STEP: {"do":"connect","l":"a"|"b"|"c1"|"c2","n":k}   k clients connect to listener a (TCP) / b (UDS or 2nd TCP) / c's sockets
//!       {"do":"await_started","count":n,"ms":3000}   wait until n connections in total have reached a service
//!       {"do":"await_finished","count":n,"ms":3000}
//!       {"do":"release","c":id} | {"do":"release_all"}
//!       {"do":"pause"} | {"do":"resume"} | {"do":"sleep","ms":n}
//!       {"do":"quiet","ms":300}                     nothing may start during this window (record what did)
//!       {"do":"poison","l":"a","after_ms":n}        a connection whose service call panics (worker thread dies); the step
//!                                                   returns n ms after the call started to panic
//!   "slow_drop_ms": the destructor of listener a's service instances takes that long
//!       {"do":"connect_panic","l":"a"}             one client whose handler (the service future) panics after it started
//!       {"do":"connect_rst","l":"a","n":k}         k clients connect to listener a and abort at once (RST)
//!       {"do":"await_called","count":n,"ms":3000}    wait until n service calls in total have begun
//!       {"do":"stress","threads":n,"each":m}       n client threads x m short connections on listener a
//!       {"do":"stop","graceful":bool}

use std::{
    collections::BTreeMap,
    io::Write,
    net::TcpStream as StdTcpStream,
    os::unix::net::UnixStream as StdUnixStream,
    sync::{
        atomic::{AtomicBool, AtomicUsize, Ordering},
        mpsc, Arc,
    },
    thread,
    time::{Duration, Instant},
};

use actix_rt::net::{TcpStream, UnixStream};
use actix_server::Server;
use actix_service::fn_service;
use tokio::io::AsyncReadExt;
use vcore::{json, Value};

use crate::e2e::Log;

const POISON: u8 = 255;
/// stress connections: served and finished at once, not logged
const QUICK: u8 = 254;
/// a connection whose service FUTURE panics (the worker survives: the panic is the task's)
const PANIC_FUT: u8 = 253;

enum Client {
    Tcp(#[allow(dead_code)] StdTcpStream),
    Uds(#[allow(dead_code)] StdUnixStream),
}

fn wait_until(timeout: Duration, f: impl Fn() -> bool) -> bool {
    let t = Instant::now();
    while t.elapsed() < timeout {
        if f() {
            return true;
        }
        thread::sleep(Duration::from_millis(3));
    }
    f()
}

struct Shared {
    log: Log,
    release: Vec<AtomicBool>,
    release_all: AtomicBool,
    factories: AtomicUsize,
    /// the next service call on listener a panics synchronously inside `Service::call` (kills the worker future)
    poison_next: AtomicBool,
    /// stress connections served
    quick: AtomicUsize,
    /// service calls begun (whatever the connection then does)
    called: AtomicUsize,
    /// stress connections stay in their service for that many microseconds (so that they overlap)
    hold_us: AtomicUsize,
    /// largest number of service futures alive at once on ONE worker thread (measured inside the services)
    max_live: AtomicUsize,
}

thread_local! {
    static LIVE_HERE: std::cell::Cell<usize> = std::cell::Cell::new(0);
}
/// counts a service future from its first poll to its end, per worker thread
struct LiveGuard;
impl LiveGuard {
    fn new(sh: &Shared) -> Self {
        let n = LIVE_HERE.with(|c| {
            c.set(c.get() + 1);
            c.get()
        });
        sh.max_live.fetch_max(n, Ordering::SeqCst);
        LiveGuard
    }
}
impl Drop for LiveGuard {
    fn drop(&mut self) {
        LIVE_HERE.with(|c| c.set(c.get().saturating_sub(1)));
    }
}

/// captured by a service instance: its destructor takes `ms` milliseconds (a service that has something to tear down)
struct SlowDrop {
    ms: u64,
    log: Log,
}
impl Drop for SlowDrop {
    fn drop(&mut self) {
        // a service instance is being destroyed: its worker is going away (death or shutdown)
        self.log.emit(json!({"e": "ServiceDropped"}));
        if self.ms > 0 {
            self.log.emit(json!({"e": "ServiceDropStart", "thread": format!("{:?}", thread::current().id())}));
            thread::sleep(Duration::from_millis(self.ms));
            self.log.emit(json!({"e": "ServiceDropEnd"}));
        }
    }
}

async fn serve<S: AsyncReadExt + Unpin>(mut stream: S, tag: &'static str, sh: Arc<Shared>) -> Result<(), ()> {
    let _live = LiveGuard::new(&sh);
    sh.called.fetch_add(1, Ordering::SeqCst);
    let mut b = [0u8; 1];
    if stream.read_exact(&mut b).await.is_err() {
        return Ok(());
    }
    let c = b[0];
    let th = format!("{:?}", thread::current().id());
    if c == POISON {
        return Ok(());
    }
    if c == PANIC_FUT {
        sh.log.emit(json!({"e": "HandlerPanics"}));
        panic!("the handler of this connection panics");
    }
    if c == QUICK {
        let hold = sh.hold_us.load(Ordering::SeqCst);
        if hold > 0 {
            tokio::time::sleep(Duration::from_micros(hold as u64)).await;
        }
        sh.quick.fetch_add(1, Ordering::SeqCst);
        return Ok(());
    }
    sh.log.emit(json!({"e": "ConnStarted", "c": c, "tag": tag, "thread": th}));
    while !(sh.release_all.load(Ordering::SeqCst) || sh.release[c as usize].load(Ordering::SeqCst)) {
        tokio::time::sleep(Duration::from_millis(3)).await;
    }
    sh.log.emit(json!({"e": "ConnFinished", "c": c, "tag": tag, "thread": th}));
    Ok(())
}

pub fn run_scenario(sc: &Value, dir: &str) -> Vec<Value> {
    let log = Log::new();
    let workers = sc["workers"].as_u64().unwrap_or(1) as usize;
    let limit = sc["limit"].as_u64().unwrap_or(1) as usize;
    let uds = sc["uds"].as_bool().unwrap_or(false);
    let multi = sc["multi"].as_bool().unwrap_or(false);
    let slow_drop_ms = sc["slow_drop_ms"].as_u64().unwrap_or(0);
    let sh = Arc::new(Shared {
        log: log.clone(),
        release: (0..256).map(|_| AtomicBool::new(false)).collect(),
        release_all: AtomicBool::new(false),
        factories: AtomicUsize::new(0),
        poison_next: AtomicBool::new(false),
        quick: AtomicUsize::new(0),
        hold_us: AtomicUsize::new(0),
        called: AtomicUsize::new(0),
        max_live: AtomicUsize::new(0),
    });
    let uds_path = format!("{dir}/{}.sock", sc["name"].as_str().unwrap_or("x"));
    let _ = std::fs::remove_file(&uds_path);

    let (tx, rx) = mpsc::channel();
    let sh2 = sh.clone();
    let upath = uds_path.clone();
    let srv_thread = thread::spawn(move || {
        let sys = actix_rt::System::new();
        sys.block_on(async move {
            // listen backlog 1024 (std's default of 128 would make a burst of clients behind a pause block in connect)
            let la: std::net::TcpListener = {
                use socket2::{Domain, Socket, Type};
                let s = Socket::new(Domain::IPV4, Type::STREAM, None).unwrap();
                s.set_reuse_address(true).unwrap();
                s.bind(&"127.0.0.1:0".parse::<std::net::SocketAddr>().unwrap().into()).unwrap();
                s.listen(1024).unwrap();
                s.into()
            };
            let addr_a = la.local_addr().unwrap();
            let sa = sh2.clone();
            let mut b = Server::build()
                .workers(workers)
                .max_concurrent_connections(limit)
                // the other worker / builder options are set AFTER the limit: none of them may disturb it
                .worker_max_blocking_threads(8)
                .backlog(512)
                .shutdown_timeout(1)
                .disable_signals()
                .listen("a", la, move || {
                    let s = sa.clone();
                    s.factories.fetch_add(1, Ordering::SeqCst);
                    s.log.emit(json!({"e": "FactoryNew", "tag": "a", "thread": format!("{:?}", thread::current().id())}));
                    let slow = std::rc::Rc::new(SlowDrop { ms: slow_drop_ms, log: s.log.clone() });
                    fn_service(move |stream: TcpStream| {
                        let _keep = &slow; // the service instance owns it: dropped with the service
                        if s.poison_next.swap(false, Ordering::SeqCst) {
                            s.log.emit(json!({"e": "Poisoned", "tag": "a", "thread": format!("{:?}", thread::current().id())}));
                            panic!("poisoned call: the worker future dies");
                        }
                        serve(stream, "a", s.clone())
                    })
                })
                .unwrap();
            let mut addr_c = vec![];
            if multi {
                // two free loopback ports (picked, released, then bound by the builder itself)
                for _ in 0..2 {
                    let l = std::net::TcpListener::bind("127.0.0.1:0").unwrap();
                    addr_c.push(l.local_addr().unwrap());
                }
                let sc_ = sh2.clone();
                b = b
                    .bind("c", &addr_c[..], move || {
                        let s = sc_.clone();
                        s.log.emit(json!({"e": "FactoryNew", "tag": "c", "thread": format!("{:?}", thread::current().id())}));
                        fn_service(move |stream: TcpStream| serve(stream, "c", s.clone()))
                    })
                    .unwrap();
            }
            let mut addr_b = None;
            if uds {
                let sb = sh2.clone();
                b = b
                    .bind_uds("b", &upath, move || {
                        let s = sb.clone();
                        s.log.emit(json!({"e": "FactoryNew", "tag": "b", "thread": format!("{:?}", thread::current().id())}));
                        fn_service(move |stream: UnixStream| serve(stream, "b", s.clone()))
                    })
                    .unwrap();
            } else {
                let lb = std::net::TcpListener::bind("127.0.0.1:0").unwrap();
                addr_b = Some(lb.local_addr().unwrap());
                let sb = sh2.clone();
                b = b
                    .listen("b", lb, move || {
                        let s = sb.clone();
                        s.log.emit(json!({"e": "FactoryNew", "tag": "b", "thread": format!("{:?}", thread::current().id())}));
                        fn_service(move |stream: TcpStream| serve(stream, "b", s.clone()))
                    })
                    .unwrap();
            }
            let server = b.run();
            tx.send((server.handle(), addr_a, addr_b, addr_c)).unwrap();
            let r = server.await;
            sh2.log.emit(json!({"e": "ServerResolved", "ok": r.is_ok()}));
        });
    });
    let (handle, addr_a, addr_b, addr_c) = rx.recv_timeout(Duration::from_secs(10)).expect("server start");
    let rt = tokio::runtime::Builder::new_current_thread().enable_all().build().unwrap();

    let mut clients: Vec<Client> = vec![];
    let mut next_id: u8 = 0;
    let count = |l: &Log, what: &str| l.take().iter().filter(|v| v["e"] == what).count();
    for (k, st) in sc["steps"].as_array().unwrap().iter().enumerate() {
        let d = st["do"].as_str().unwrap_or("");
        let mut res = json!({"e": "Step", "k": k, "do": d, "ok": true});
        match d {
            "connect" | "poison" => {
                if d == "poison" {
                    sh.poison_next.store(true, Ordering::SeqCst);
                }
                let n = if d == "poison" { 1 } else { st["n"].as_u64().unwrap_or(1) };
                let mut ids = vec![];
                let mut errs = vec![];
                for _ in 0..n {
                    let id = if d == "poison" { POISON } else { let i = next_id; next_id += 1; i };
                    let to_b = st["l"] == "b";
                    // logged BEFORE the connect so that it always precedes the service-side ConnStarted
                    log.emit(json!({"e": "ClientConnecting", "c": id, "l": st["l"]}));
                    let r: std::io::Result<Client> = if to_b && uds {
                        StdUnixStream::connect(&uds_path).and_then(|mut s| s.write_all(&[id]).map(|_| Client::Uds(s)))
                    } else {
                        let addr = match st["l"].as_str() {
                            Some("c1") => addr_c[0],
                            Some("c2") => addr_c[1],
                            _ if to_b => addr_b.unwrap(),
                            _ => addr_a,
                        };
                        StdTcpStream::connect_timeout(&addr, Duration::from_secs(3)).and_then(|mut s| s.write_all(&[id]).map(|_| Client::Tcp(s)))
                    };
                    match r {
                        Ok(c) => {
                            clients.push(c);
                            ids.push(id);
                            log.emit(json!({"e": "ClientConnected", "c": id, "l": st["l"]}));
                        }
                        Err(e) => {
                            errs.push(e.to_string());
                            log.emit(json!({"e": "ClientConnectFailed", "c": id, "l": st["l"], "err": e.to_string()}));
                        }
                    }
                }
                if d == "poison" {
                    // the call is about to panic: wait until it has started to (then the worker future is being torn down)
                    let before = st["seen"].as_u64().unwrap_or(0) as usize;
                    let _ = wait_until(Duration::from_secs(2), || count(&log, "Poisoned") > before);
                    thread::sleep(Duration::from_millis(st["after_ms"].as_u64().unwrap_or(0)));
                }
                res["ids"] = json!(ids);
                res["ok"] = json!(errs.is_empty());
            }
            "stress" => {
                // `threads` client threads, each opening `each` short connections to listener a one after another (the
                // service finishes them at once): completions and dispatches race on the real threads; afterwards every
                // one of them must have been served
                let threads = st["threads"].as_u64().unwrap_or(8) as usize;
                let each = st["each"].as_u64().unwrap_or(200) as usize;
                let before = sh.quick.load(Ordering::SeqCst);
                sh.hold_us.store(st["hold_us"].as_u64().unwrap_or(0) as usize, Ordering::SeqCst);
                // "both": odd client threads use listener b (UDS or the second TCP listener);
                // "toggle_ms": meanwhile the server is paused and resumed every that many milliseconds (ends resumed)
                let both = st["both"].as_bool().unwrap_or(false);
                let toggle_ms = st["toggle_ms"].as_u64().unwrap_or(0);
                let stop_toggle = Arc::new(AtomicBool::new(false));
                let toggler = (toggle_ms > 0).then(|| {
                    let h = handle.clone();
                    let stop = stop_toggle.clone();
                    thread::spawn(move || {
                        let rt = tokio::runtime::Builder::new_current_thread().enable_all().build().unwrap();
                        let mut n = 0u64;
                        while !stop.load(Ordering::SeqCst) {
                            rt.block_on(h.pause());
                            thread::sleep(Duration::from_millis(toggle_ms));
                            rt.block_on(h.resume());
                            thread::sleep(Duration::from_millis(toggle_ms));
                            n += 1;
                        }
                        rt.block_on(h.resume());
                        n
                    })
                });
                let hs: Vec<_> = (0..threads)
                    .map(|t| {
                        let upath = uds_path.clone();
                        let to_b = both && t % 2 == 1;
                        thread::spawn(move || {
                            let mut sent = 0usize;
                            // a server that stops serving must not hold the driver for hours: the phase ends after 20 s
                            let t0 = Instant::now();
                            for _ in 0..each {
                                if t0.elapsed() > Duration::from_secs(20) {
                                    break;
                                }
                                let mut b = [0u8; 1];
                                if to_b && uds {
                                    if let Ok(mut s) = StdUnixStream::connect(&upath) {
                                        if s.write_all(&[QUICK]).is_ok() {
                                            sent += 1;
                                        }
                                        let _ = s.set_read_timeout(Some(Duration::from_millis(1000)));
                                        let _ = std::io::Read::read(&mut s, &mut b);
                                    }
                                    continue;
                                }
                                let addr = if to_b { addr_b.unwrap_or(addr_a) } else { addr_a };
                                if let Ok(mut s) = StdTcpStream::connect_timeout(&addr, Duration::from_secs(3)) {
                                    if s.write_all(&[QUICK]).is_ok() {
                                        sent += 1;
                                    }
                                    // wait for the server to close (the service is done): keeps the number of open sockets small
                                    let _ = s.set_read_timeout(Some(Duration::from_millis(1000)));
                                    let _ = std::io::Read::read(&mut s, &mut b);
                                }
                            }
                            sent
                        })
                    })
                    .collect();
                let sent: usize = hs.into_iter().map(|h| h.join().unwrap_or(0)).sum();
                stop_toggle.store(true, Ordering::SeqCst);
                if let Some(t) = toggler {
                    res["toggles"] = json!(t.join().unwrap_or(0));
                }
                let ok = wait_until(Duration::from_secs(5), || sh.quick.load(Ordering::SeqCst) >= before + sent);
                res["sent"] = json!(sent);
                res["maxLive"] = json!(sh.max_live.load(Ordering::SeqCst));
                res["served"] = json!(sh.quick.load(Ordering::SeqCst) - before);
                // (a phase cut short by its deadline has not shown that every connection is served)
                res["ok"] = json!(ok && sent == threads * each);
            }
            "connect_panic" => {
                // a client whose handler panics after it has started: the connection is over, its slot is free again
                let before = count(&log, "HandlerPanics");
                if let Ok(mut s) = StdTcpStream::connect_timeout(&addr_a, Duration::from_secs(3)) {
                    let _ = s.write_all(&[PANIC_FUT]);
                    clients.push(Client::Tcp(s));
                }
                let ok = wait_until(Duration::from_secs(3), || count(&log, "HandlerPanics") > before);
                res["ok"] = json!(ok);
            }
            "connect_rst" => {
                // clients that connect and abort at once (SO_LINGER 0: the kernel sends RST).  A connection that was reset
                // while it sat in the backlog is still handed out by accept(): it must reach its service like any other
                let n = st["n"].as_u64().unwrap_or(1);
                let mut done = 0;
                for _ in 0..n {
                    if let Ok(s) = StdTcpStream::connect_timeout(&addr_a, Duration::from_secs(3)) {
                        let _ = socket2::SockRef::from(&s).set_linger(Some(Duration::from_secs(0)));
                        drop(s);
                        done += 1;
                    }
                }
                res["ok"] = json!(done == n);
            }
            "await_called" => {
                let n = st["count"].as_u64().unwrap_or(0) as usize;
                let ok = wait_until(Duration::from_millis(st["ms"].as_u64().unwrap_or(3000)), || sh.called.load(Ordering::SeqCst) >= n);
                res["ok"] = json!(ok);
                res["want"] = json!(n);
                res["called"] = json!(sh.called.load(Ordering::SeqCst));
            }
            "await_started" => {
                let n = st["count"].as_u64().unwrap_or(0) as usize;
                let ok = wait_until(Duration::from_millis(st["ms"].as_u64().unwrap_or(3000)), || count(&log, "ConnStarted") >= n);
                res["ok"] = json!(ok);
                res["want"] = json!(n);
            }
            "await_finished" => {
                let n = st["count"].as_u64().unwrap_or(0) as usize;
                let ok = wait_until(Duration::from_millis(st["ms"].as_u64().unwrap_or(3000)), || count(&log, "ConnFinished") >= n);
                res["ok"] = json!(ok);
                res["want"] = json!(n);
            }
            "release" => sh.release[st["c"].as_u64().unwrap_or(0) as usize].store(true, Ordering::SeqCst),
            // release every connection that is in progress right now (and only those)
            "release_live" => {
                let evs = log.take();
                for v in evs.iter().filter(|v| v["e"] == "ConnStarted") {
                    let c = v["c"].as_u64().unwrap_or(0) as usize;
                    sh.release[c].store(true, Ordering::SeqCst);
                }
            }
            "release_all" => sh.release_all.store(true, Ordering::SeqCst),
            "unrelease_all" => sh.release_all.store(false, Ordering::SeqCst),
            "pause" => rt.block_on(handle.pause()),
            "resume" => rt.block_on(handle.resume()),
            "sleep" => thread::sleep(Duration::from_millis(st["ms"].as_u64().unwrap_or(100))),
            "quiet" => {
                let before = count(&log, "ConnStarted");
                thread::sleep(Duration::from_millis(st["ms"].as_u64().unwrap_or(300)));
                let after = count(&log, "ConnStarted");
                res["ok"] = json!(before == after);
                res["startedDuring"] = json!(after - before);
            }
            "stop" => {
                let g = st["graceful"].as_bool().unwrap_or(false);
                log.emit(json!({"e": "Stopping"}));
                let fut = handle.stop(g);
                let ok = rt.block_on(async { tokio::time::timeout(Duration::from_secs(6), fut).await.is_ok() });
                res["ok"] = json!(ok);
            }
            other => panic!("driver: unknown load step {other}"),
        }
        let failed_stress = d == "stress" && res["ok"] == json!(false);
        log.emit(res);
        if failed_stress {
            // the server has stopped serving: the verdict is in, the remaining rounds would only wait for their deadlines
            break;
        }
    }
    // wind down
    sh.release_all.store(true, Ordering::SeqCst);
    log.emit(json!({"e": "Stopping"}));
    let fut = handle.stop(false);
    let _ = rt.block_on(async { tokio::time::timeout(Duration::from_secs(3), fut).await });
    drop(clients);
    let t0 = Instant::now();
    while !srv_thread.is_finished() && t0.elapsed() < Duration::from_secs(3) {
        thread::sleep(Duration::from_millis(5));
    }
    let _ = std::fs::remove_file(&uds_path);
    log.emit(json!({"e": "End"}));
    log.take()
}

/// cumulative projection for ServerLoadTrace.tla
pub fn project(run: usize, sc: &Value, events: &[Value]) -> Vec<Value> {
    let limit = sc["limit"].as_u64().unwrap_or(1);
    let mut live: BTreeMap<String, Vec<u64>> = BTreeMap::new();
    let mut started: Vec<Value> = vec![]; // [c, tag]
    let mut connected: BTreeMap<u64, String> = BTreeMap::new();
    let mut nstarted = 0u64;
    let mut nfinished = 0u64;
    let mut dup = false;
    let mut wrong_tag = false;
    let mut factories: BTreeMap<String, u64> = BTreeMap::new();
    let mut poisoned = 0u64;
    // service instances destroyed while the server was running (before a stop step): a worker really died
    let mut died = 0u64;
    let mut stopping = false;
    let mut out = vec![];
    for (k, e) in events.iter().enumerate() {
        let name = e["e"].as_str().unwrap_or("");
        match name {
            "ClientConnecting" => {
                connected.insert(e["c"].as_u64().unwrap_or(0), e["l"].as_str().unwrap_or("").to_string());
            }
            "ConnStarted" => {
                let c = e["c"].as_u64().unwrap_or(0);
                let th = e["thread"].as_str().unwrap_or("").to_string();
                if started.iter().any(|s| s[0] == json!(c)) {
                    dup = true;
                }
                let want = connected.get(&c).map(|l| if l.starts_with('c') { "c" } else { l.as_str() });
                if want != e["tag"].as_str() {
                    wrong_tag = true;
                }
                started.push(json!([c, e["tag"]]));
                live.entry(th).or_default().push(c);
                nstarted += 1;
            }
            "ConnFinished" => {
                let c = e["c"].as_u64().unwrap_or(0);
                for v in live.values_mut() {
                    v.retain(|x| *x != c);
                }
                nfinished += 1;
            }
            "FactoryNew" => *factories.entry(e["tag"].as_str().unwrap_or("").to_string()).or_default() += 1,
            "Poisoned" => poisoned += 1,
            "ServiceDropped" if !stopping => died += 1,
            "Stopping" => stopping = true,
            _ => {}
        }
        let maxlive = live.values().map(|v| v.len() as u64).max().unwrap_or(0);
        out.push(json!({"ev": "step", "run": run, "k": k, "e": name, "limit": limit,
            "maxLivePerWorker": maxlive, "nstarted": nstarted, "nfinished": nfinished, "dupServed": dup, "wrongService": wrong_tag,
            "stepOk": e.get("ok").and_then(|o| o.as_bool()).unwrap_or(true),
            "stepDo": e.get("do").and_then(|d| d.as_str()).unwrap_or(""),
            "factoriesA": factories.get("a").cloned().unwrap_or(0), "poisoned": poisoned, "died": died,
            "stressMaxLive": e.get("maxLive").and_then(|m| m.as_u64()).unwrap_or(0),
            "workers": sc["workers"].as_u64().unwrap_or(1), "raw": e}));
    }
    out
}
