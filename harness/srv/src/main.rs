use actix_server::verif::{Act, LKind, Sim, SimCfg};

fn main() {
    let dir = std::env::temp_dir().join(format!("vsrv-{}", std::process::id()));
    std::fs::create_dir_all(&dir).unwrap();
    let mut sim = Sim::new(SimCfg { workers: 1, limit: 1, listeners: vec![LKind::Tcp, LKind::Uds], shutdown_timeout_ms: 2000, dir: dir.display().to_string() }).unwrap();
    sim.apply(&Act::Connect(0));
    sim.apply(&Act::Connect(1));
    println!("{:?}", sim.snapshot());
    sim.iterate(vec![]);
    println!("{:?}", sim.snapshot());
    sim.apply(&Act::WorkerPoll(0));
    println!("{:?}", sim.snapshot());
    sim.apply(&Act::Finish(0));
    println!("{:?}", sim.snapshot());
    sim.iterate(vec![]);
    sim.apply(&Act::WorkerPoll(0));
    sim.iterate(vec![]);
    println!("{:?}", sim.snapshot());
    drop(sim);
    let _ = std::fs::remove_dir_all(&dir);
}
