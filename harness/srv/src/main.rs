//! Stepped conformance driver for actix-server (C01-C08): interprets schedules (environment actions,
//! some anchored at yield points inside an accept-loop iteration) on the engine in
//! `actix_server::verif` and records one ground-truth observation per step as ndjson.
//!
//! `vsrv replay --schedules F --trace T`
//! Schedule (one JSON object per line):
//!   {"cfg": {"W":2,"Limit":1,"listeners":["tcp","uds"],"shutdown_ms":2000}, "steps":[ STEP, ... ]}
//! STEP: {"do":"Connect","l":0} {"do":"WorkerPoll","i":0} {"do":"Finish","c":0} {"do":"Kill","i":0}
//!       {"do":"Replace","i":0} {"do":"Cmd","x":"Pause|Resume|Stop"} {"do":"Inject","l":0,"kind":"fatal|conn|<errno>"}
//!       {"do":"Advance","ms":510} {"do":"WakeAvailable","i":0} {"do":"StopWorker","i":0,"graceful":true}
//!       {"do":"SetReady","i":0,"t":0,"script":[0,1,2]} {"do":"SetCreate","i":0,"t":0,"script":[0,1]}
//!       {"do":"Iter","anchored":[{"at":"sent","nth":1,"step":STEP}, ...]}   one real accept-loop iteration
//!       {"do":"Settle"}     iterate until nothing changes; the record is marked quiescent ("q":true)
//!       {"do":"PollWoken"}  poll every worker whose waker fired (timers, stop messages)

#![recursion_limit = "256"]
mod builder;
mod e2e;
mod load;

use actix_server::verif::{Act, AvailProbe, LKind, Sim, SimCfg, Snap, SvcEvent};
use vcore::{arg, geti, gets, json, read_ndjson, Trace, Value};

fn parse_act(s: &Value) -> Option<Act> {
    let d = gets(s, "do");
    Some(match d {
        "Connect" => Act::Connect(geti(s, "l") as usize),
        "WorkerPoll" => Act::WorkerPoll(geti(s, "i") as usize),
        "Finish" | "TearDown" => Act::Finish(geti(s, "c") as usize),
        "Kill" => Act::Kill(geti(s, "i") as usize),
        "Replace" => Act::Replace(geti(s, "i") as usize),
        "Cmd" => match gets(s, "x") {
            "Pause" => Act::Pause,
            "Resume" => Act::Resume,
            "Stop" => Act::Stop,
            other => panic!("bad cmd {other}"),
        },
        "WakeAvailable" => Act::WakeAvailable(geti(s, "i") as usize),
        "Inject" => {
            let errno = match s.get("kind").and_then(|k| k.as_str()) {
                Some("fatal") => 24,  // EMFILE
                Some("conn") => 103,  // ECONNABORTED
                Some("enfile") => 23, // ENFILE
                Some("reset") => 104, // ECONNRESET
                Some("refused") => 111,
                _ => geti(s, "errno") as i32,
            };
            Act::Inject(geti(s, "l") as usize, errno)
        }
        "Advance" | "Tick" => Act::Advance(s.get("ms").and_then(|m| m.as_u64()).unwrap_or(510)),
        "StopWorker" => Act::StopWorker(
            geti(s, "i") as usize,
            s.get("graceful").and_then(|g| g.as_bool()).unwrap_or(true),
        ),
        "DropStopHandle" => Act::DropStopHandle(geti(s, "i") as usize),
        "PushReady" => Act::PushReady(geti(s, "i") as usize, geti(s, "t") as usize, geti(s, "a") as u8),
        "PushCreate" => Act::PushCreate(geti(s, "i") as usize, geti(s, "t") as usize, geti(s, "a") as u8),
        "SetReady" => Act::SetReady(
            geti(s, "i") as usize,
            geti(s, "t") as usize,
            s["script"].as_array().unwrap().iter().map(|x| x.as_u64().unwrap() as u8).collect(),
        ),
        "SetCreate" => Act::SetCreate(
            geti(s, "i") as usize,
            geti(s, "t") as usize,
            s["script"].as_array().unwrap().iter().map(|x| x.as_u64().unwrap() as u8).collect(),
        ),
        _ => return None,
    })
}

/// what `Settle` compares to decide that the accept thread has nothing left to do
fn signature(s: &Snap) -> String {
    format!(
        "{:?}|{:?}|{:?}|{}|{}|{}|{:?}|{:?}|{:?}|{}|{}",
        s.accepted.len(),
        s.dispatched.len(),
        s.wq,
        s.next,
        s.paused,
        s.timeout_ms,
        s.avail,
        s.handles,
        s.sock_backoff,
        s.exited,
        s.panicked
    )
}

struct Run {
    sim: Sim,
    w: usize,
    /// per dispatch (in order): [cid+1, worker, clean(bool)] where clean = after the increment every
    /// handle in the rotation was marked available and below the limit, and no fault/rejoin followed
    dlog: Vec<(usize, usize, bool, usize, bool, usize)>,
    /// ground-truth reading of "while no worker is saturated": a calm phase starts at a settled state in which every
    /// worker is in the rotation, alive and below its limit (then - lemma C04_BitsTrueWhenCalm of the specification - all
    /// availability bits are set) and ends as soon as some worker reaches its limit or a worker dies / is replaced
    calm_phase: bool,
    /// per dispatch: the phase was calm and after this send every worker was still below its limit
    dcalm: Vec<bool>,
    /// per dispatch: the accept thread's availability bits (by worker index) right after it
    davail: Vec<Vec<bool>>,
    dmarked: Vec<bool>,
    dturn: Vec<(usize, bool)>,
    ever_faulted: bool,
    pending_faults: Vec<usize>,
    injected: Vec<usize>, // outstanding injected errors per listener
    killed: Vec<bool>,
    /// per worker: a stop message was sent and no poll has received it yet: "none" | "forced" | "graceful"
    stop_sent: Vec<String>,
    /// per worker: virtual time at which a poll moved it into its graceful shutdown state (-1: not)
    shutdown_since: Vec<i64>,
    shutdown_ms: u64,
    limit: usize,
    nlisteners: usize,
}

fn one_based(v: &[usize]) -> Vec<usize> {
    v.iter().map(|c| c + 1).collect()
}

impl Run {
    /// service-side events of the step, in the vocabulary of Worker.tla (tokens and connections 1-based)
    fn events(&self, s: &Snap) -> Vec<Value> {
        let mut out = vec![];
        for (kind, _w, token, val) in s.svc_new.iter() {
            match kind.as_str() {
                "ready" => out.push(json!({"t": "ready", "k": token + 1, "a": val})),
                "call" => out.push(json!({"t": "call", "k": token + 1, "c": val + 1})),
                _ => out.push(json!({"t": if *val == 1 { "create" } else { "createfail" }, "k": token + 1})),
            }
        }
        out
    }

    /// projects a snapshot onto the specification's variables (connection ids 1-based)
    fn project(&mut self, s: &Snap) -> Value {
        let w = self.w;
        let ncl = s.listener.len();
        let called: Vec<usize> = s.calls.iter().filter(|c| c.0 >= 0).map(|c| c.0 as usize).collect();
        // backlog per listener: connected, not yet accepted, in connect order
        let mut backlog = vec![vec![]; self.nlisteners];
        for cid in 0..ncl {
            if s.connected[cid] && !s.accepted.contains(&cid) {
                backlog[s.listener[cid]].push(cid + 1);
            }
        }
        // queued at worker i: dispatched to the current generation of i and not yet called
        let mut chan = vec![vec![]; w];
        for (cid, wi, gen) in s.dispatched.iter() {
            if !called.contains(cid) && s.alive[*wi] && *gen == s.wgen[*wi] {
                chan[*wi].push(cid + 1);
            }
        }
        // measured channel lengths must agree with the reconstruction; if not, report both
        let chan_len: Vec<i64> = s.chan.clone();
        let mut inprog = vec![vec![]; w];
        let mut old_inprog = vec![vec![]; w];
        for (wi, v) in s.inprog.iter().enumerate() {
            for cid in v {
                // generation of the call
                let gen = s.calls.iter().find(|c| c.0 == *cid as i64).map(|c| c.4).unwrap_or(0);
                if gen == s.wgen[wi] && s.alive[wi] {
                    inprog[wi].push(cid + 1);
                } else {
                    old_inprog[wi].push(cid + 1);
                }
            }
        }
        let closed: Vec<usize> = (0..ncl).filter(|c| s.closed[*c]).map(|c| c + 1).collect();
        let served: Vec<Value> = s
            .calls
            .iter()
            .map(|c| json!([c.0 + 1, c.1, c.2 + 1]))
            .collect();
        let wq: Vec<Value> = s
            .wq
            .iter()
            .map(|n| {
                if let Some(r) = n.strip_prefix("WA") {
                    json!(["WA", r.parse::<usize>().unwrap()])
                } else if let Some(r) = n.strip_prefix("WK") {
                    json!(["WK", r.parse::<usize>().unwrap()])
                } else {
                    json!([n, 0])
                }
            })
            .collect();
        let spin = s.panicked.starts_with("verif-spin");
        json!({
            "backlog": backlog, "chan": chan, "chanLen": chan_len, "inprog": inprog, "oldInprog": old_inprog,
            "counter": s.counter, "avail": s.avail, "handles": s.handles, "next": s.next,
            "paused": s.paused, "running": !s.exited && s.panicked.is_empty(),
            "wq": wq, "alive": s.alive,
            "lstTimer": s.sock_backoff.iter().zip(s.sock_expired.iter())
                .map(|(b, e)| if *e { 1 } else if *b { 2 } else { 0 }).collect::<Vec<_>>(),
            "timeoutSet": s.timeout_ms >= 0,
            "timeoutMs": s.timeout_ms, "lstRemain": s.sock_remain_ms, "wwoken": s.wwoken,
            "pathOk": s.uds_path,
            "errq": self.injected,
            "connRefused": (0..ncl).any(|c| !s.connected[c]),
            "panicked": !s.panicked.is_empty() && !spin, "spin": spin, "panicMsg": s.panicked,
            "served": served, "closed": closed,
            "listener": s.listener.iter().map(|l| l + 1).collect::<Vec<_>>(),
            "connected": s.connected,
            "dlog": self.dlog.iter().enumerate().map(|(k, d)| json!([d.0, d.1, d.2, d.3, d.4, d.5, self.dcalm.get(k).copied().unwrap_or(false), self.davail.get(k).cloned().unwrap_or_default(), self.dmarked.get(k).copied().unwrap_or(true), self.dturn.get(k).map(|t| t.0).unwrap_or(0), self.dturn.get(k).map(|t| t.1).unwrap_or(false)])).collect::<Vec<_>>(),
            "faults": s.faults, "everFaulted": self.ever_faulted,
            "cmdq": pending_faults(s),
            "skipped": s.skipped,
            "accepted": one_based(&s.accepted),
            "droppedNoHandle": s.dropped.iter().filter(|d| d.1).map(|d| d.0 + 1).collect::<Vec<_>>(),
            "droppedOther": s.dropped.iter().filter(|d| !d.1).map(|d| d.0 + 1).collect::<Vec<_>>(),
            "finished": one_based(&s.finished),
            "wstate": s.wstate, "sstatus": s.sstatus, "now": s.now_ms,
            "pe": self.events(s), "scriptsEmpty": s.scripts_empty,
            "stopReply": s.stop_reply, "stopReplyAt": s.stop_reply_at,
        })
    }
}

/// faults reported by the accept thread and not yet answered by a replacement
fn pending_faults(s: &Snap) -> Vec<usize> {
    let mut rep = s.replaced.clone();
    let mut out = vec![];
    for f in s.faults.iter() {
        if let Some(p) = rep.iter().position(|r| r == f) {
            rep.remove(p);
        } else {
            out.push(*f);
        }
    }
    out
}

/// the strict trace's view of an environment step of the schedule (spec-level arguments: listeners and connection ids
/// 1-based, workers 0-based); `None` for steps outside AcceptDispatch.tla's alphabet
fn strict_env(st: &Value) -> Option<Value> {
    Some(match gets(st, "do") {
        "Connect" => json!({"do": "Connect", "l": geti(st, "l") + 1}),
        "WorkerPoll" => json!({"do": "WorkerPoll", "i": geti(st, "i")}),
        "Finish" | "TearDown" => json!({"do": "Finish", "c": geti(st, "c") + 1}),
        "Kill" => json!({"do": "Kill", "i": geti(st, "i")}),
        "Replace" => json!({"do": "Replace", "i": geti(st, "i")}),
        "Cmd" => json!({"do": "Cmd", "x": gets(st, "x")}),
        "WakeAvailable" => json!({"do": "WakeAvailable", "i": geti(st, "i")}),
        "Inject" => {
            let kind = match st.get("kind").and_then(|k| k.as_str()) {
                Some("conn") | Some("reset") | Some("refused") => "conn",
                Some(_) => "fatal",
                None => match geti(st, "errno") {
                    103 | 104 | 111 => "conn",
                    _ => "fatal",
                },
            };
            json!({"do": "Inject", "l": geti(st, "l") + 1, "kind": kind})
        }
        "Advance" | "Tick" => json!({"do": "Advance"}),
        _ => return None,
    })
}

/// events of one call of `Sim::iterate*` for the strict trace: the yield points in order, anchored environment actions
/// where they fired, the end of the iteration with the measured state, then the anchored actions that were applied
/// after it because their yield point was not reached
fn strict_iter(strict: &mut Option<Trace>, run: &mut Run, run_id: usize, s: &Snap, anchored: &[Value]) {
    let proj = run.project(s);
    let Some(t) = strict.as_mut() else { return };
    let (ran, bare, missed) = run.sim.last_iter.clone();
    let emit_env = |t: &mut Trace, a: &Value, in_iter: bool, skipped: bool| match strict_env(&a["step"]) {
        Some(mut e) => {
            if skipped {
                e = json!({"do": "Noop"}); // the engine found the action not applicable (nothing happened)
            }
            e["ev"] = json!("env");
            e["run"] = json!(run_id);
            e["in_iter"] = json!(in_iter);
            e["has_st"] = json!(false);
            t.emit(&e);
        }
        None => t.emit(&json!({"ev": "unsupported", "run": run_id, "do": gets(&a["step"], "do")})),
    };
    if ran {
        if bare {
            t.emit(&json!({"ev": "env", "run": run_id, "do": "BareWake", "in_iter": false, "has_st": false}));
        }
        for (pi, (kind, arg)) in s.points.iter().enumerate() {
            if kind == "skipped" {
                continue;
            }
            if kind == "fired" {
                let skipped = s.points.get(pi + 1).map(|(k, a)| k == "skipped" && a == arg).unwrap_or(false);
                emit_env(t, &anchored[*arg], true, skipped);
            } else {
                t.emit(&json!({"ev": "pt", "run": run_id, "kind": kind, "arg": arg}));
            }
        }
        // anchored actions whose yield point was not reached were applied right after the iteration, before the
        // state was measured: the measurement belongs to the last of them
        if missed.is_empty() {
            t.emit(&json!({"ev": "iterend", "run": run_id, "has_st": true, "st": proj}));
        } else {
            t.emit(&json!({"ev": "iterend", "run": run_id, "has_st": false}));
        }
    }
    let nm = missed.len();
    for (k, (i, skipped)) in missed.into_iter().enumerate() {
        if ran && k + 1 == nm {
            match strict_env(&anchored[i]["step"]) {
                Some(mut e) => {
                    if skipped {
                        e = json!({"do": "Noop"});
                    }
                    e["ev"] = json!("env");
                    e["run"] = json!(run_id);
                    e["in_iter"] = json!(false);
                    e["has_st"] = json!(true);
                    e["st"] = proj.clone();
                    t.emit(&e);
                }
                None => t.emit(&json!({"ev": "unsupported", "run": run_id, "do": gets(&anchored[i]["step"], "do")})),
            }
        } else {
            emit_env(t, &anchored[i], false, skipped);
        }
    }
    // the state after the late actions (and after a blocked iteration) is not measured separately: the next
    // event that carries a state is compared
}

fn run_schedule(run_id: usize, sch: &Value, dir: &str, trace: &mut Trace, strict: &mut Option<Trace>) -> Value {
    let cfg = &sch["cfg"];
    let w = geti(cfg, "W") as usize;
    let limit = geti(cfg, "Limit") as usize;
    let listeners: Vec<LKind> = cfg["listeners"]
        .as_array()
        .unwrap()
        .iter()
        .map(|k| if k.as_str() == Some("uds") { LKind::Uds } else { LKind::Tcp })
        .collect();
    let rundir = format!("{dir}/r{run_id}");
    std::fs::create_dir_all(&rundir).unwrap();
    let sim = Sim::new(SimCfg {
        workers: w,
        limit,
        listeners: listeners.clone(),
        shutdown_timeout_ms: cfg.get("shutdown_ms").and_then(|m| m.as_u64()).unwrap_or(2000),
        dir: rundir.clone(),
    })
    .expect("sim");
    let mut run = Run {
        sim,
        w,
        dlog: vec![],
        calm_phase: false,
        dcalm: vec![],
        davail: vec![],
        dmarked: vec![],
        dturn: vec![],
        ever_faulted: false,
        pending_faults: vec![],
        injected: vec![0; listeners.len()],
        killed: vec![false; w],
        stop_sent: vec!["none".to_string(); w],
        shutdown_since: vec![-1; w],
        shutdown_ms: cfg.get("shutdown_ms").and_then(|m| m.as_u64()).unwrap_or(2000),
        limit,
        nlisteners: listeners.len(),
    };
    let mut prev = run.sim.snapshot();
    let st0 = run.project(&prev);
    trace.emit(&json!({"ev": "reset", "run": run_id, "W": w, "Limit": limit, "L": listeners.len(),
        "uds": listeners.iter().enumerate().filter(|(_, k)| **k == LKind::Uds).map(|(i, _)| i + 1).collect::<Vec<_>>(),
        "st": st0}));
    if let Some(t) = strict.as_mut() {
        t.emit(&json!({"ev": "reset", "run": run_id, "W": w, "Limit": limit, "L": listeners.len(),
            "uds": listeners.iter().enumerate().filter(|(_, k)| **k == LKind::Uds).map(|(i, _)| i + 1).collect::<Vec<_>>()}));
    }
    let mut anchors_missed = 0usize;
    let mut steps_done = 0usize;
    let steps = sch["steps"].as_array().unwrap();
    for (k, st) in steps.iter().enumerate() {
        let d = gets(st, "do");
        let mut q = false;
        let mut pe = false; // paused for the whole step
        let disp_before = prev.dispatched.len();
        let mut resume_seen = prev.wq.iter().any(|n| n == "Resume");
        let mut pre_snap: Option<Snap> = None; // the step's snapshot when it was already taken (and absorbed)
        let mut paused_dispatch = false; // Settle: some iteration started paused (no Resume queued) and dispatched
        match d {
            "Iter" => {
                let mut anchored = vec![];
                if let Some(a) = st.get("anchored").and_then(|a| a.as_array()) {
                    for x in a {
                        let inner = &x["step"];
                        if gets(inner, "do") == "Cmd" && gets(inner, "x") == "Resume" {
                            resume_seen = true;
                        }
                        note_env(&mut run, inner);
                        if let Some(act) = parse_act(inner) {
                            anchored.push((gets(x, "at").to_string(), geti(x, "nth") as usize, act));
                        }
                    }
                }
                pe = prev.paused && !resume_seen;
                anchors_missed += run.sim.iterate(anchored);
                let s = run.sim.snapshot();
                absorb(&mut run, &s);
                let anch: Vec<Value> = st.get("anchored").and_then(|a| a.as_array()).cloned().unwrap_or_default();
                strict_iter(strict, &mut run, run_id, &s, &anch);
                pre_snap = Some(s);
            }
            "Settle" => {
                let mut stable = 0;
                let mut last = signature(&prev);
                for _ in 0..40 {
                    if prev.wq.iter().any(|n| n == "Resume") {
                        resume_seen = true;
                    }
                    // an iteration that starts paused, with no Resume waiting, must not dispatch
                    let p0 = prev.paused && !prev.wq.iter().any(|n| n == "Resume");
                    let d0 = prev.dispatched.len();
                    run.sim.iterate(vec![]);
                    let s = run.sim.snapshot();
                    if p0 && s.dispatched.len() > d0 {
                        paused_dispatch = true;
                    }
                    let sig = signature(&s);
                    // settled = the accept thread is blocked in its poll (no readiness or waker event pending, no
                    // back-off deadline due) and nothing it can see has changed.  The waker queue is NOT required to be
                    // empty: interests left in the queue of a blocked accept thread are wake-ups that were lost.
                    let blocked = !run.sim.last_iter.0;
                    absorb(&mut run, &s);
                    strict_iter(strict, &mut run, run_id, &s, &[]);
                    prev = s;
                    if sig == last && blocked {
                        stable += 1;
                        if stable >= 2 {
                            break;
                        }
                    } else {
                        stable = 0;
                    }
                    last = sig;
                }
                // a back-off deadline that has passed but is still set: give the loop the chance to see its own poll
                // time out (an iteration without the bare wake; only possible while it has a poll timeout)
                if prev.sock_expired.iter().any(|x| *x) && prev.timeout_ms >= 0 && prev.panicked.is_empty() && !prev.exited {
                    run.sim.iterate_let_poll_time_out();
                    let s = run.sim.snapshot();
                    absorb(&mut run, &s);
                    strict_iter(strict, &mut run, run_id, &s, &[]);
                    run.sim.iterate(vec![]);
                    let s = run.sim.snapshot();
                    absorb(&mut run, &s);
                    strict_iter(strict, &mut run, run_id, &s, &[]);
                    prev = s;
                }
                q = stable >= 2;
                pe = false;
                // a calm phase starts here if every worker is in the rotation, alive, below its limit (measured), nothing
                // is queued for the accept thread and no fault report is unanswered
                let mut hs = prev.handles.clone();
                hs.sort();
                if q && prev.panicked.is_empty() && !prev.exited && prev.wq.is_empty() && hs == (0..w).collect::<Vec<_>>()
                    && prev.alive.iter().all(|a| *a) && pending_faults(&prev).is_empty()
                    && (0..w).all(|i| (prev.chan[i].max(0) as usize) + prev.inprog[i].len() < limit)
                {
                    run.calm_phase = true;
                }
            }
            "PollWoken" => {
                for i in run.sim.woken_workers() {
                    run.sim.apply(&Act::WorkerPoll(i));
                    if let Some(t) = strict.as_mut() {
                        t.emit(&json!({"ev": "env", "run": run_id, "do": "WorkerPoll", "i": i, "in_iter": false, "has_st": false}));
                    }
                }
            }
            _ => {
                note_env(&mut run, st);
                match parse_act(st) {
                    Some(act) => run.sim.apply(&act),
                    None => panic!("driver: unknown step {st}"),
                }
            }
        }
        let s = match pre_snap.take() {
            Some(s) => s,
            None => {
                let s = run.sim.snapshot();
                absorb(&mut run, &s);
                s
            }
        };
        if d != "Iter" && d != "Settle" && d != "PollWoken" {
            let proj = run.project(&s);
            if let Some(t) = strict.as_mut() {
                match strict_env(st) {
                    Some(mut e) => {
                        if s.skipped.len() > prev.skipped.len() {
                            e = json!({"do": "Noop"}); // not applicable: the engine did nothing
                        }
                        e["ev"] = json!("env");
                        e["run"] = json!(run_id);
                        e["in_iter"] = json!(false);
                        e["has_st"] = json!(true);
                        e["st"] = proj;
                        t.emit(&e);
                    }
                    None => t.emit(&json!({"ev": "unsupported", "run": run_id, "do": d})),
                }
            }
        }
        let ndisp = s.dispatched.len() - disp_before.min(s.dispatched.len());
        // worker-side bookkeeping for the Worker.tla predicates
        let prev_stop = run.stop_sent.clone();
        let prev_total: Vec<i64> = (0..w).map(|i| prev.chan[i].max(0) + prev.inprog[i].len() as i64).collect();
        let prev_live: Vec<i64> = (0..w).map(|i| prev.inprog[i].len() as i64).collect();
        let mut reply_now = vec!["none".to_string(); w];
        for i in 0..w {
            if prev.stop_reply[i] == -1 && s.stop_reply[i] != -1 {
                reply_now[i] = match s.stop_reply[i] { 1 => "true", 0 => "false", _ => "dropped" }.to_string();
            }
            let polled = d == "PollWoken" || (d == "WorkerPoll" && geti(st, "i") as usize == i);
            if polled && prev_stop[i] != "none" {
                run.stop_sent[i] = "none".to_string();
            }
            if s.wstate[i] == "Shutdown" && prev.wstate[i] != "Shutdown" {
                run.shutdown_since[i] = s.now_ms as i64;
            }
        }
        if d == "StopWorker" {
            let i = geti(st, "i") as usize;
            let g = st.get("graceful").and_then(|g| g.as_bool()).unwrap_or(true);
            if s.alive[i] {
                run.stop_sent[i] = if g { "graceful" } else { "forced" }.to_string();
            }
        }
        let polled_workers: Vec<usize> = match d {
            "WorkerPoll" => vec![geti(st, "i") as usize],
            "PollWoken" => (0..w).collect(),
            _ => vec![],
        };
        // virtual time moved inside this iteration (an anchored Advance, fired at its yield point or applied after the
        // iteration when the yield point was never reached)
        let adv_in_iter = st.get("anchored").and_then(|a| a.as_array()).map(|a| a.iter().any(|x| x["step"]["do"] == "Advance")).unwrap_or(false);
        let mut rec = json!({"ev": "step", "run": run_id, "k": k, "do": d, "q": q, "advInIter": adv_in_iter,
            "iterRan": d == "Iter" && run.sim.last_iter.0, "lastPR": s.last_pr,
            "pe": pe && d == "Iter", "pausedDispatch": paused_dispatch, "ndisp": ndisp, "st": run.project(&s),
            "polled": polled_workers, "prevStop": prev_stop, "prevTotal": prev_total, "prevLive": prev_live, "replyNow": reply_now,
            "prevWstate": prev.wstate, "prevSstatus": prev.sstatus,
            "shutdownSince": run.shutdown_since, "shutdownMs": run.shutdown_ms});
        if d != "Iter" && d != "Settle" {
            rec["arg"] = st.clone();
        }
        trace.emit(&rec);
        steps_done += 1;
        if !s.engine_errors.is_empty() {
            eprintln!("ENGINE-ERROR in run {run_id}: {:?}", s.engine_errors);
            std::process::exit(3);
        }
        let dead = !s.panicked.is_empty();
        prev = s;
        if dead {
            break;
        }
    }
    let log: Vec<String> = run
        .sim
        .svc_log()
        .iter()
        .map(|e| match e {
            SvcEvent::Create { worker, token, ok } => format!("create w{worker} t{token} {ok}"),
            SvcEvent::Ready { worker, token, inst, ans } => format!("ready w{worker} t{token} #{inst} {ans}"),
            SvcEvent::Call { worker, token, inst, peer, .. } => format!("call w{worker} t{token} #{inst} {peer}"),
        })
        .collect();
    let _ = log;
    drop(run);
    let _ = std::fs::remove_dir_all(&rundir);
    json!({"steps": steps_done, "anchors_missed": anchors_missed})
}

/// bookkeeping of environment facts the projection needs (which faults are pending, injected errors)
fn note_env(run: &mut Run, st: &Value) {
    match gets(st, "do") {
        "Kill" => {
            run.calm_phase = false;
            if let Some(l) = run.dcalm.last_mut() {
                *l = false; // the rotation is disturbed between the last dispatch and the next one
            }
            run.ever_faulted = true;
            run.killed[geti(st, "i") as usize] = true;
        }
        "Replace" => {
            run.calm_phase = false;
            if let Some(l) = run.dcalm.last_mut() {
                *l = false;
            }
            let i = geti(st, "i") as usize;
            run.killed[i] = false;
            run.pending_faults.retain(|x| *x != i);
        }
        "Inject" => run.injected[geti(st, "l") as usize] += 1,
        _ => {}
    }
}

/// folds what happened during a step (yield-point log, fault reports) into the run's ghost state
fn absorb(run: &mut Run, s: &Snap) {
    // dispatch log with the "clean" flag the engine measured at the matching inc point
    run.dlog = s
        .dispatched
        .iter()
        .enumerate()
        .map(|(k, (cid, wi, gen))| {
            (cid + 1, *wi, s.dclean.get(k).copied().unwrap_or(false), s.dload.get(k).copied().unwrap_or(0), s.dafterfail.get(k).copied().unwrap_or(false), *gen)
        })
        .collect();
    run.dmarked = s.dmarked.clone();
    run.dturn = s.dturn.clone();
    run.davail = s.davail.iter().map(|m| (0..run.killed.len()).map(|i| m & (1 << i) != 0).collect()).collect();
    for k in run.dcalm.len()..s.dispatched.len() {
        let below = s.dmaxload.get(k).map(|m| *m < run.limit).unwrap_or(false);
        run.dcalm.push(run.calm_phase && below);
        if !below {
            run.calm_phase = false;
        }
    }
    // injected errors not yet consumed, per listener (the engine's own injection queue)
    if s.inject_left.len() == run.injected.len() {
        run.injected = s.inject_left.clone();
    }
    for f in s.faults.iter() {
        if !run.pending_faults.contains(f) && run.killed[*f] {
            run.pending_faults.push(*f);
        }
    }
}

fn main() {
    vcore::quiet_panics();
    let mode = std::env::args().nth(1).expect("mode");
    match mode.as_str() {
        "replay" => {
            let schedules = read_ndjson(&arg("--schedules").expect("--schedules"));
            let mut trace = Trace::create(&arg("--trace").expect("--trace"));
            let mut strict = arg("--strict").map(|p| Trace::create(&p));
            let dir = std::env::temp_dir().join(format!("vsrv-{}", std::process::id()));
            std::fs::create_dir_all(&dir).unwrap();
            let mut steps = 0u64;
            let mut missed = 0u64;
            for (i, sch) in schedules.iter().enumerate() {
                let r = run_schedule(i, sch, &dir.display().to_string(), &mut trace, &mut strict);
                steps += r["steps"].as_u64().unwrap();
                missed += r["anchors_missed"].as_u64().unwrap();
            }
            trace.finish();
            if let Some(t) = strict {
                t.finish();
            }
            let _ = std::fs::remove_dir_all(&dir);
            println!(
                "{}",
                json!({"runs": schedules.len(), "steps": steps, "anchors_missed": missed,
                       "mismatches": 0, "first_mismatches": []})
            );
        }
        // Availability: replay set_available sequences (TLC edge paths) on the real structure; after every
        // operation report get_available over ALL 512 indices and available()
        "avail" => {
            let schedules = read_ndjson(&arg("--schedules").expect("--schedules"));
            let mut trace = Trace::create(&arg("--trace").expect("--trace"));
            let mut steps = 0usize;
            let mut mismatches = vec![];
            for (run, sch) in schedules.iter().enumerate() {
                let mut a = AvailProbe::new();
                trace.emit(&json!({"ev": "reset", "run": run}));
                let mut bad = false;
                for (k, op) in sch.as_array().unwrap().iter().enumerate() {
                    let i = geti(op, "i") as usize;
                    let b = op["b"].as_bool().unwrap();
                    let r = vcore::catch(|| a.set(i, b));
                    let after: Vec<usize> = (0..512).filter(|j| a.get(*j)).collect();
                    let obs = json!({"ev": "set", "run": run, "i": i, "b": b, "after": after, "any": a.any(),
                                     "panic": r.is_err()});
                    trace.emit(&obs);
                    steps += 1;
                    let mut exp: Vec<usize> = op["after"].as_array().unwrap().iter().map(|x| x.as_u64().unwrap() as usize).collect();
                    exp.sort();
                    if !bad && (exp != after || op["any"] != obs["any"] || r.is_err()) {
                        bad = true;
                        mismatches.push(json!({"run": run, "step": k, "expected": op, "observed": obs}));
                    }
                }
            }
            trace.finish();
            println!("{}", json!({"runs": schedules.len(), "steps": steps, "mismatches": mismatches.len(),
                                  "first_mismatches": mismatches.iter().take(20).collect::<Vec<_>>()}));
        }
        // offset table (from TLC) against Availability::offset for all 512 indices, and the exhaustive pair check:
        // from the empty and from the full structure, set(i) changes get(j) for j = i only
        "avail-table" => {
            let table = &read_ndjson(&arg("--table").expect("--table"))[0]["table"];
            let mut bad = vec![];
            for (i, e) in table.as_array().unwrap().iter().enumerate() {
                let (w, b) = AvailProbe::offset(i);
                if e[0].as_u64() != Some(w as u64) || e[1].as_u64() != Some(b as u64) {
                    bad.push(json!({"kind": "offset", "i": i, "spec": e, "impl": [w, b]}));
                }
            }
            let mut pairs = 0u64;
            for i in 0..512usize {
                let mut e = AvailProbe::new();
                e.set(i, true);
                let mut f = AvailProbe::new();
                for j in 0..512 {
                    f.set(j, true);
                }
                f.set(i, false);
                for j in 0..512usize {
                    pairs += 2;
                    if e.get(j) != (i == j) {
                        bad.push(json!({"kind": "set-from-empty", "i": i, "j": j, "get": e.get(j)}));
                    }
                    if f.get(j) != (i != j) {
                        bad.push(json!({"kind": "clear-from-full", "i": i, "j": j, "get": f.get(j)}));
                    }
                }
                if !e.any() {
                    bad.push(json!({"kind": "any", "i": i}));
                }
                e.set(i, false);
                if e.any() {
                    bad.push(json!({"kind": "any-after-clear", "i": i}));
                }
            }
            let overflow_panics = vcore::catch(|| AvailProbe::offset(512)).is_err();
            println!("{}", json!({"indices": 512, "pairs": pairs, "mismatches": bad.len(), "overflow_panics": overflow_panics,
                                  "first_mismatches": bad.iter().take(10).collect::<Vec<_>>()}));
        }
        // end-to-end shutdown scenarios on a real Server (real threads / sockets / time, child process for signals)
        "e2e" => {
            let scenarios = read_ndjson(&arg("--scenarios").expect("--scenarios"));
            let mut trace = Trace::create(&arg("--trace").expect("--trace"));
            e2e::install_delay_subscriber();
            // all scenarios run concurrently (they mostly sleep) - except the ones that hold the accept thread through the
            // process-wide tracing subscriber: those run alone, afterwards
            let handles: Vec<_> = scenarios
                .iter()
                .cloned()
                .map(|sc| {
                    if sc.get("accept_delay_ms").is_some() {
                        return None;
                    }
                    Some(std::thread::spawn(move || {
                        if sc.get("signal").is_some() {
                            e2e::run_signal_scenario(&sc)
                        } else {
                            e2e::run_scenario(&sc)
                        }
                    }))
                })
                .collect();
            let mut nev = 0usize;
            for (run, (h, sc)) in handles.into_iter().zip(scenarios.iter()).enumerate() {
                let events = match h {
                    Some(h) => h.join().unwrap_or_else(|_| vec![json!({"e": "DriverPanic"}), json!({"e": "End"})]),
                    None => {
                        let ms = sc["accept_delay_ms"].as_u64().unwrap_or(0);
                        e2e::ACCEPT_RESUME_DELAY_MS.store(ms, std::sync::atomic::Ordering::SeqCst);
                        let sc2 = sc.clone();
                        let ev = std::thread::spawn(move || e2e::run_scenario(&sc2))
                            .join()
                            .unwrap_or_else(|_| vec![json!({"e": "DriverPanic"}), json!({"e": "End"})]);
                        e2e::ACCEPT_RESUME_DELAY_MS.store(0, std::sync::atomic::Ordering::SeqCst);
                        ev
                    }
                };
                trace.emit(&json!({"ev": "reset", "run": run, "scenario": sc}));
                for rec in project_e2e(run, sc, &events) {
                    trace.emit(&rec);
                    nev += 1;
                }
            }
            trace.finish();
            println!("{}", json!({"runs": scenarios.len(), "steps": nev, "mismatches": 0, "first_mismatches": []}));
        }
        "e2e-child" => e2e::child_main(),
        // join_all: TLC vectors (scripts, expected rounds / polls / result) against the crate's JoinAll
        "joinall" => {
            let vectors = read_ndjson(&arg("--vectors").expect("--vectors"));
            let mut trace = Trace::create(&arg("--trace").expect("--trace"));
            let mut bad = vec![];
            for (run, v) in vectors.iter().enumerate() {
                let k: Vec<usize> = v["k"].as_array().unwrap().iter().map(|x| x.as_u64().unwrap() as usize).collect();
                let r = vcore::catch(|| actix_server::verif::join_all_probe(&k));
                let obs = match r {
                    Ok((rounds, polls, result)) => json!({"ev": "joinall", "run": run, "k": k, "rounds": rounds, "polls": polls, "result": result, "panic": ""}),
                    Err(m) => json!({"ev": "joinall", "run": run, "k": k, "rounds": 0, "polls": [], "result": [], "panic": m}),
                };
                trace.emit(&obs);
                if obs["rounds"] != v["rounds"] || obs["polls"] != v["polls"] || obs["result"] != v["result"] {
                    bad.push(json!({"run": run, "expected": v, "observed": obs}));
                }
            }
            trace.finish();
            println!("{}", json!({"runs": vectors.len(), "steps": vectors.len(), "mismatches": bad.len(),
                                  "first_mismatches": bad.iter().take(10).collect::<Vec<_>>()}));
        }
        // end-to-end load scenarios on a real Server built through ServerBuilder
        "e2e-load" => {
            let scenarios = read_ndjson(&arg("--scenarios").expect("--scenarios"));
            let mut trace = Trace::create(&arg("--trace").expect("--trace"));
            let dir = std::env::temp_dir().join(format!("vsrv-load-{}", std::process::id()));
            std::fs::create_dir_all(&dir).unwrap();
            let d = dir.display().to_string();
            let handles: Vec<_> = scenarios
                .iter()
                .cloned()
                .map(|sc| {
                    let d = d.clone();
                    std::thread::spawn(move || load::run_scenario(&sc, &d))
                })
                .collect();
            let mut nev = 0usize;
            for (run, (h, sc)) in handles.into_iter().zip(scenarios.iter()).enumerate() {
                let events = h.join().unwrap_or_else(|_| vec![json!({"e": "DriverPanic"}), json!({"e": "End"})]);
                trace.emit(&json!({"ev": "reset", "run": run, "scenario": sc}));
                for rec in load::project(run, sc, &events) {
                    trace.emit(&rec);
                    nev += 1;
                }
            }
            trace.finish();
            let _ = std::fs::remove_dir_all(&dir);
            println!("{}", json!({"runs": scenarios.len(), "steps": nev, "mismatches": 0, "first_mismatches": []}));
        }
        // ServerBuilder call sequences (layouts from Builder.tla) + events on the running server
        "builder" => {
            let scenarios = read_ndjson(&arg("--scenarios").expect("--scenarios"));
            let mut trace = Trace::create(&arg("--trace").expect("--trace"));
            let dir = std::env::temp_dir().join(format!("vsrv-bld-{}", std::process::id()));
            std::fs::create_dir_all(&dir).unwrap();
            let d = dir.display().to_string();
            let mut nev = 0usize;
            // a panic of the code under test on a server thread is data (recorded as run ok=false), keep stderr quiet
            std::panic::set_hook(Box::new(|_| {}));
            for (chunk_no, chunk) in scenarios.chunks(12).enumerate() {
                let handles: Vec<_> = chunk
                    .iter()
                    .cloned()
                    .enumerate()
                    .map(|(k, sc)| {
                        let d = d.clone();
                        std::thread::spawn(move || builder::run_scenario(&sc, &d, chunk_no * 12 + k))
                    })
                    .collect();
                for (k, h) in handles.into_iter().enumerate() {
                    let run = chunk_no * 12 + k;
                    let recs = h.join().unwrap_or_else(|_| vec![json!({"ev": "reset", "scenario": chunk[k]}), json!({"ev": "driverpanic"})]);
                    for mut rec in recs {
                        rec["run"] = json!(run);
                        trace.emit(&rec);
                        nev += 1;
                    }
                }
            }
            trace.finish();
            let _ = std::fs::remove_dir_all(&dir);
            println!("{}", json!({"runs": scenarios.len(), "steps": nev, "mismatches": 0, "first_mismatches": []}));
        }
        other => panic!("unknown mode {other}"),
    }
}

/// cumulative projection of an event list onto what ServerStopTrace.tla's predicates read
fn project_e2e(run: usize, sc: &Value, events: &[Value]) -> Vec<Value> {
    let timeout_ms = sc["shutdown_s"].as_u64().unwrap_or(1).min(2_000_000) * 1000; // (TLC integers are 32 bit)
    let held_forever = sc["release"]
        .as_array()
        .map(|a| a.iter().any(|r| r["at"] == "never"))
        .unwrap_or(false)
        || (sc.get("signal").is_some() && sc["close_after_ms"].is_null());
    let mut live: Vec<u64> = vec![];
    let mut live_at_stop: Vec<u64> = vec![];
    let mut stop_ms: i64 = -1;
    let mut graceful = true;
    let mut stops: Vec<u64> = vec![];
    let mut resolved: Vec<u64> = vec![];
    let mut dropped: Vec<u64> = vec![];
    let mut server_done = false;
    let mut server_done_ms: i64 = -1;
    let mut late_served = false;
    // connections whose service future was dropped unfinished during a graceful stop before shutdown_timeout
    let mut killed_early: Vec<u64> = vec![];
    // a connection attempt made after the Server future resolved was accepted by the kernel: the server still listens
    let mut late_connected = false;
    let mut out = vec![];
    for (k, e) in events.iter().enumerate() {
        let name = e["e"].as_str().unwrap_or("");
        let ms = e["ms"].as_i64().unwrap_or(0);
        match name {
            "LateConnect" => {
                if e["connected"].as_bool().unwrap_or(false) {
                    late_connected = true;
                }
            }
            "ConnKilled" => {
                if stop_ms >= 0 && graceful && ms - stop_ms < timeout_ms as i64 - 100 {
                    killed_early.push(e["c"].as_u64().unwrap_or(0));
                }
            }
            "ConnStarted" => {
                let c = e["c"].as_u64().unwrap_or(0);
                live.push(c);
                if server_done {
                    late_served = true;
                }
            }
            "ConnFinished" => {
                let c = e["c"].as_u64().unwrap_or(0);
                live.retain(|x| *x != c);
            }
            "StopCalled" => {
                if e.get("signal").is_none() {
                    // a signal has no stop future to resolve
                    stops.push(e["id"].as_u64().unwrap_or(0));
                }
                if stop_ms < 0 {
                    stop_ms = ms;
                    graceful = e["graceful"].as_bool().unwrap_or(true);
                    live_at_stop = live.clone();
                }
            }
            "StopFutureDropped" => dropped.push(e["id"].as_u64().unwrap_or(0)),
            "StopResolved" => resolved.push(e["id"].as_u64().unwrap_or(0)),
            "ServerResolved" | "ChildExited" => {
                if name == "ServerResolved" || e["ok"].as_bool().unwrap_or(false) {
                    if !server_done {
                        server_done_ms = ms;
                    }
                    server_done = true;
                }
            }
            _ => {}
        }
        let still: Vec<u64> = live_at_stop.iter().cloned().filter(|c| live.contains(c)).collect();
        out.push(json!({"ev": "step", "run": run, "k": k, "e": name, "ms": ms,
            "live": live, "liveAtStopStillLive": still, "stopMs": stop_ms, "graceful": graceful,
            "sinceStop": if stop_ms >= 0 { ms - stop_ms } else { -1 }, "timeoutMs": timeout_ms,
            "stops": stops, "resolved": resolved, "dropped": dropped,
            "serverDone": server_done, "doneSinceStop": if server_done && stop_ms >= 0 { server_done_ms - stop_ms } else { -1 },
            "lateServed": late_served, "heldForever": held_forever, "killedEarly": killed_early, "lateConnected": late_connected,
            "workers": sc["workers"].as_u64().unwrap_or(1),
            "replHandles": if name == "WorkerReplaced" { e["handles"].clone() } else { json!([]) }, "raw": e}));
    }
    out
}
