//! C14: edge paths of spec/codec/FramedWrite.tla replayed on the real `Framed` sink over a scripted `AsyncWrite`.
//!
//! A schedule is a list of operations `{op: ready|send|flush|close, n, io: [{c,a,k}..], res, held, empty, full}`;
//! `io` is the transport's answers for that operation (c = "w" poll_write, "f" poll_flush, "s" poll_shutdown).
//! The scripted transport pops them per call kind and records what it was really asked and answered; the
//! observation carries the number of bytes the transport holds and whether they are byte-identical to the prefix
//! of the concatenation of the encodings accepted so far (position-dependent payload pattern).

use std::{
    collections::VecDeque,
    io,
    pin::Pin,
    task::{Context, Poll},
};

use actix_codec::{AsyncRead, AsyncWrite, BytesCodec, Decoder, Encoder, Framed, LinesCodec, ReadBuf};
use bytes::Bytes;
use futures_sink::Sink;
use vcore::{arg, catch, geti, gets, json, read_ndjson, Trace, Value, Wakers};

use crate::{uarg, Rng};

#[derive(Default)]
pub struct ScriptIo {
    w: VecDeque<Value>,
    f: VecDeque<Value>,
    s: VecDeque<Value>,
    log: Vec<Value>,
    held: Vec<u8>,
}

impl ScriptIo {
    fn load(&mut self, io: &[Value]) {
        self.w.clear();
        self.f.clear();
        self.s.clear();
        self.log.clear();
        for a in io {
            match gets(a, "c") {
                "w" => self.w.push_back(a.clone()),
                "f" => self.f.push_back(a.clone()),
                _ => self.s.push_back(a.clone()),
            }
        }
    }
    fn ctl(&mut self, kind: &str) -> Poll<io::Result<()>> {
        let q = if kind == "f" { &mut self.f } else { &mut self.s };
        match q.pop_front() {
            None => {
                self.log.push(json!({"c": kind, "a": "pending", "k": 0, "u": 1}));
                Poll::Pending
            }
            Some(a) => {
                let ans = gets(&a, "a").to_string();
                self.log.push(json!({"c": kind, "a": ans, "k": 0}));
                match ans.as_str() {
                    "ok" => Poll::Ready(Ok(())),
                    "pending" => Poll::Pending,
                    _ => Poll::Ready(Err(io::Error::new(crate::rd::scripted_kind(), "scripted"))),
                }
            }
        }
    }
}

impl AsyncWrite for ScriptIo {
    fn poll_write(mut self: Pin<&mut Self>, _: &mut Context<'_>, buf: &[u8]) -> Poll<io::Result<usize>> {
        match self.w.pop_front() {
            None => {
                self.log.push(json!({"c": "w", "a": "pending", "k": 0, "u": 1}));
                Poll::Pending
            }
            Some(a) => match gets(&a, "a") {
                "take" => {
                    let n = (geti(&a, "k") as usize).min(buf.len());
                    self.held.extend_from_slice(&buf[..n]);
                    self.log.push(json!({"c": "w", "a": if n == 0 { "zero" } else { "take" }, "k": n}));
                    Poll::Ready(Ok(n))
                }
                "pending" => {
                    self.log.push(json!({"c": "w", "a": "pending", "k": 0}));
                    Poll::Pending
                }
                "zero" => {
                    self.log.push(json!({"c": "w", "a": "zero", "k": 0}));
                    Poll::Ready(Ok(0))
                }
                _ => {
                    self.log.push(json!({"c": "w", "a": "err", "k": 0}));
                    Poll::Ready(Err(io::Error::new(crate::rd::scripted_kind(), "scripted")))
                }
            },
        }
    }
    fn poll_flush(mut self: Pin<&mut Self>, _: &mut Context<'_>) -> Poll<io::Result<()>> {
        self.ctl("f")
    }
    fn poll_shutdown(mut self: Pin<&mut Self>, _: &mut Context<'_>) -> Poll<io::Result<()>> {
        self.ctl("s")
    }
}

impl AsyncRead for ScriptIo {
    fn poll_read(self: Pin<&mut Self>, _: &mut Context<'_>, _: &mut ReadBuf<'_>) -> Poll<io::Result<()>> {
        Poll::Pending
    }
}

fn poll_res(p: Poll<Result<(), io::Error>>) -> String {
    match p {
        Poll::Pending => "pending".into(),
        Poll::Ready(Ok(())) => "ok".into(),
        Poll::Ready(Err(e)) if e.kind() == io::ErrorKind::WriteZero => "writezero".into(),
        Poll::Ready(Err(e)) if crate::rd::is_scripted_kind(e.kind()) => "ioerr".into(),
        Poll::Ready(Err(e)) => format!("err:{:?}", e.kind()),
    }
}

/// One run: a real Framed over the scripted transport, `stream` = what the transport must end up holding.
struct Run<U, I> {
    framed: Option<Framed<ScriptIo, U>>,
    stream: Vec<u8>,
    mk: fn(&[u8]) -> (I, Vec<u8>),
    wakers: Wakers,
}

impl<U, I> Run<U, I>
where
    U: Decoder + Encoder<I, Error = io::Error> + Unpin,
{
    fn new(codec: U, mk: fn(&[u8]) -> (I, Vec<u8>)) -> Self {
        Run { framed: Some(Framed::new(ScriptIo::default(), codec)), stream: vec![], mk, wakers: Wakers::new(1) }
    }

    /// the Framed is taken apart and put together again (into_parts/from_parts, into_map_io, into_map_codec): the write
    /// buffer must carry over - a stuttering step for the specification
    fn rebuild(&mut self, kind: usize) {
        let f = self.framed.take().expect("framed");
        self.framed = Some(match kind % 3 {
            0 => Framed::from_parts(f.into_parts()),
            1 => f.into_map_io(|io| io),
            _ => f.into_map_codec(|c| c),
        });
    }

    fn step(&mut self, op: &str, n: usize, io: &[Value]) -> Value {
        let framed = self.framed.as_mut().expect("framed");
        framed.io_mut().load(io);
        let waker = self.wakers.waker(1);
        let mut cx = Context::from_waker(&waker);
        let r = catch(|| match op {
            "send" => {
                // position-dependent payload: byte j of the whole accepted stream is pat(j)
                let off = self.stream.len();
                let payload: Vec<u8> = (off..off + n).map(pat).collect();
                let (item, encoding) = (self.mk)(&payload);
                let r = Pin::new(&mut *framed).start_send(item);
                if r.is_ok() {
                    self.stream.extend_from_slice(&encoding);
                }
                poll_res(Poll::Ready(r))
            }
            "ready" => poll_res(Pin::new(&mut *framed).poll_ready(&mut cx)),
            "flush" => poll_res(Pin::new(&mut *framed).poll_flush(&mut cx)),
            "close" => poll_res(Pin::new(&mut *framed).poll_close(&mut cx)),
            other => panic!("driver: unknown op {other}"),
        });
        let res = r.unwrap_or_else(|msg| format!("panic: {msg}"));
        let empty = framed.is_write_buf_empty();
        let full = framed.is_write_buf_full();
        let t = framed.io_mut();
        let prefix_ok = t.held.len() <= self.stream.len() && t.held[..] == self.stream[..t.held.len()];
        json!({"ev": op, "n": n, "io": t.log, "res": res, "held": t.held.len(), "prefix_ok": prefix_ok,
               "empty": empty, "full": full})
    }
}

fn pat(j: usize) -> u8 {
    b'a' + ((j * 7 + j / 23) % 23) as u8
}
fn mk_bytes(p: &[u8]) -> (Bytes, Vec<u8>) {
    (Bytes::copy_from_slice(p), p.to_vec())
}
/// LinesCodec item whose encoding has exactly p.len() bytes: p.len()-1 characters plus the LF the codec appends
fn mk_line(p: &[u8]) -> (String, Vec<u8>) {
    let s = String::from_utf8(p[..p.len() - 1].to_vec()).unwrap();
    let mut enc = s.clone().into_bytes();
    enc.push(b'\n');
    (s, enc)
}

trait Stepper {
    fn step(&mut self, op: &str, n: usize, io: &[Value]) -> Value;
    fn rebuild(&mut self, kind: usize);
}
impl<U, I> Stepper for Run<U, I>
where
    U: Decoder + Encoder<I, Error = io::Error> + Unpin,
{
    fn step(&mut self, op: &str, n: usize, io: &[Value]) -> Value {
        Run::step(self, op, n, io)
    }
    fn rebuild(&mut self, kind: usize) {
        Run::rebuild(self, kind)
    }
}
fn new_run(codec: &str) -> Box<dyn Stepper> {
    if codec == "lines" {
        Box::new(Run::new(LinesCodec::default(), mk_line))
    } else {
        Box::new(Run::new(BytesCodec, mk_bytes))
    }
}

fn agrees(exp: &Value, obs: &Value) -> bool {
    if exp.get("res").is_none() {
        return obs["prefix_ok"] == true;
    }
    ["res", "io", "held", "empty", "full"].iter().all(|k| exp[*k] == obs[*k]) && obs["prefix_ok"] == true
}

fn random_io(rng: &mut Rng) -> Vec<Value> {
    let mut io = vec![];
    if rng.below(6) == 0 {
        // a trickling transport: a long run of small partial writes inside ONE flush / ready / close call, ended by a
        // Pending, an error or a transport that takes the rest
        let k = [1usize, 7, 64, 100, 500][rng.below(5)];
        for _ in 0..(5 + rng.below(60)) {
            io.push(json!({"c": "w", "a": "take", "k": k}));
        }
        match rng.below(4) {
            0 => io.push(json!({"c": "w", "a": "pending", "k": 0})),
            1 => io.push(json!({"c": "w", "a": "err", "k": 0})),
            _ => {}
        }
    }
    for _ in 0..rng.below(5) {
        io.push(match rng.below(12) {
            0 => json!({"c": "w", "a": "pending", "k": 0}),
            1 => json!({"c": "w", "a": "zero", "k": 0}),
            2 => json!({"c": "w", "a": "err", "k": 0}),
            3 | 4 => json!({"c": "w", "a": "take", "k": 1 + rng.below(3)}),
            5 | 6 => {
                let k = [1023, 1024, 1025, 4096, 8191, 8192][rng.below(6)];
                json!({"c": "w", "a": "take", "k": k})
            }
            7 => json!({"c": "w", "a": "take", "k": 1 + rng.below(9000)}),
            _ => json!({"c": "w", "a": "take", "k": 1 << 20}),
        });
    }
    if io.last().map(|a| a["a"] == "take").unwrap_or(true) {
        io.push(json!({"c": "w", "a": "take", "k": 1 << 20}));
    }
    let ctl = |rng: &mut Rng| ["ok", "ok", "ok", "pending", "err"][rng.below(5)];
    io.push(json!({"c": "f", "a": ctl(rng), "k": 0}));
    io.push(json!({"c": "s", "a": ctl(rng), "k": 0}));
    io
}

pub fn main() {
    let mut trace = Trace::create(&arg("--trace").expect("--trace"));
    let schedules = arg("--schedules").map(|p| read_ndjson(&p)).unwrap_or_default();
    let mut mismatches: Vec<Value> = vec![];
    let (mut runs, mut steps) = (0usize, 0usize);

    // seeded random operation sequences with arbitrary sizes and transport answers (judged by TLC only)
    let nrand = uarg("--random", 0);
    let len = uarg("--len", 12);
    let mut rng = Rng::seeded(uarg("--seed", 1) as u64, 14);
    for run in 0..nrand {
        let codec = if run % 2 == 0 { "bytes" } else { "lines" };
        let mut r = new_run(codec);
        trace.emit(&json!({"ev": "reset", "run": run, "codec": codec}));
        for _ in 0..len {
            let (op, n) = match rng.below(8) {
                0..=3 => ("send", match rng.below(4) {
                    0 => [1, 1023, 1024, 1025, 8191, 8192, 8193][rng.below(7)],
                    1 => 1 + rng.below(20000),
                    _ => 1 + rng.below(3000),
                }),
                4 | 5 => ("ready", 0),
                6 => ("flush", 0),
                _ => ("close", 0),
            };
            let io = if op == "send" { vec![] } else { random_io(&mut rng) };
            if run % 2 == 1 && rng.below(3) == 0 {
                r.rebuild(rng.below(3));
            }
            let mut obs = r.step(op, n, &io);
            obs["run"] = json!(run);
            trace.emit(&obs);
            steps += 1;
        }
        runs += 1;
    }

    for (run, sch) in schedules.iter().enumerate() {
        let codec = if run % 2 == 0 { "bytes" } else { "lines" };
        let mut r = new_run(codec);
        trace.emit(&json!({"ev": "reset", "run": run, "codec": codec}));
        let mut bad = false;
        for (k, exp) in sch.as_array().unwrap().iter().enumerate() {
            let io = exp["io"].as_array().cloned().unwrap_or_default();
            if run % 3 == 2 && k > 0 {
                r.rebuild(run / 3 + k); // taken apart and rebuilt between two operations
            }
            let mut obs = r.step(gets(exp, "op"), geti(exp, "n") as usize, &io);
            obs["run"] = json!(run);
            trace.emit(&obs);
            steps += 1;
            if !bad && !agrees(exp, &obs) {
                bad = true;
                mismatches.push(json!({"run": run, "step": k, "expected": exp, "observed": obs}));
            }
        }
        runs += 1;
    }
    trace.finish();
    println!(
        "{}",
        json!({"runs": runs, "steps": steps, "mismatches": mismatches.len(),
               "first_mismatches": mismatches.iter().take(20).collect::<Vec<_>>()})
    );
}
