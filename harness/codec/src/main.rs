//! Conformance driver for actix-codec: LinesCodec (C15), Framed write half (C14), Framed read half (C13).
//!
//! `vcodec lines --vectors F --trace T [--random N --seed S]`      TLC vectors of Lines.tla on the real LinesCodec
//! `vcodec write --schedules F --trace T [--random N --len L --seed S]`   FramedWrite.tla edge paths on the real Framed sink
//! `vcodec read  --schedules F --trace T`                          FramedRead.tla edge paths on the real Framed stream
//! `vcodec readlong --random N --seed S --trace T`                 long random streams against the cross-checked reference
//!
//! Every step is recorded as one ndjson record of *observed* results; the last stdout line is the JSON summary.

mod lines;
mod rd;
mod wr;

pub struct Rng(pub u64);
impl Rng {
    pub fn seeded(seed: u64, salt: u64) -> Rng {
        Rng(seed.wrapping_mul(2654435761).wrapping_add(salt * 7919 + 1) | 1)
    }
    pub fn next(&mut self) -> u64 {
        self.0 ^= self.0 << 13;
        self.0 ^= self.0 >> 7;
        self.0 ^= self.0 << 17;
        self.0
    }
    pub fn below(&mut self, n: usize) -> usize {
        (self.next() % n as u64) as usize
    }
    pub fn range(&mut self, lo: usize, hi: usize) -> usize {
        lo + self.below(hi - lo + 1)
    }
}

pub fn bytes_of(v: &vcore::Value) -> Vec<u8> {
    v.as_array()
        .unwrap_or_else(|| panic!("expected byte array, got {v}"))
        .iter()
        .map(|b| b.as_u64().unwrap() as u8)
        .collect()
}

pub fn uarg(name: &str, default: usize) -> usize {
    vcore::arg(name).map(|s| s.parse().unwrap()).unwrap_or(default)
}

fn main() {
    vcore::quiet_panics();
    let mode = std::env::args().nth(1).expect("mode");
    match mode.as_str() {
        "lines" => lines::main(),
        "write" => wr::main(),
        "read" => rd::main(false),
        "readlong" => rd::main(true),
        other => panic!("unknown mode {other}"),
    }
}
