pub fn main(_long: bool) {}
