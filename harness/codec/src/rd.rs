//! C13: edge paths of spec/codec/FramedRead.tla replayed on the real `Framed` stream over a scripted `AsyncRead`,
//! and long random streams judged by the reference `frames()` (a transliteration of WholeStreamFrames that is
//! cross-checked against every TLC-computed `want` of the small domain).
//!
//! schedule: `{codec, input:[bytes], want:[items], polls:[{io:[{a,k}..], res:{k,v}}..]}`; the read results of all
//! polls form one global script; the scripted reader pops the next answer on every poll_read, whichever poll it
//! is in, and records per poll what it really answered.

use std::{
    collections::VecDeque,
    io,
    pin::Pin,
    task::{Context, Poll},
};

use actix_codec::{AsyncRead, AsyncWrite, BytesCodec, Decoder, Framed, LinesCodec, ReadBuf};
use bytes::{Buf, BytesMut};
use futures_core::Stream;
use vcore::{arg, catch, geti, gets, json, read_ndjson, Trace, Value, Wakers};

use crate::{bytes_of, lines::ref_flat, uarg, Rng};

// ------------------------------------------------------------------------------------------
// the length-prefixed test codec: header byte h (h == bad: decode error, consumes the byte),
// payload of h*scale bytes; at end of stream a non-empty remainder is yielded as a "tail" frame.
// With `end_frame` ("lpe") the codec is stateful: once the buffer is empty decode_eof yields exactly
// one "end" frame (an end-of-stream frame produced from codec state on an EMPTY buffer), then None.
// ------------------------------------------------------------------------------------------
pub struct LpCodec {
    pub scale: usize,
    pub bad: u8,
    pub end_frame: bool,
    pub ended: bool,
}
pub enum LpItem {
    Frame(Vec<u8>),
    Tail(Vec<u8>),
    End,
}
impl Decoder for LpCodec {
    type Item = LpItem;
    type Error = io::Error;
    fn decode(&mut self, src: &mut BytesMut) -> Result<Option<LpItem>, io::Error> {
        if src.is_empty() {
            return Ok(None);
        }
        if src[0] == self.bad {
            src.advance(1);
            return Err(io::Error::new(io::ErrorKind::InvalidData, "bad header"));
        }
        let need = src[0] as usize * self.scale;
        if src.len() < 1 + need {
            return Ok(None);
        }
        let mut f = src.split_to(1 + need);
        f.advance(1);
        Ok(Some(LpItem::Frame(f.to_vec())))
    }
    fn decode_eof(&mut self, src: &mut BytesMut) -> Result<Option<LpItem>, io::Error> {
        match self.decode(src)? {
            Some(f) => Ok(Some(f)),
            None if !src.is_empty() => Ok(Some(LpItem::Tail(src.split().to_vec()))),
            None if self.end_frame && !self.ended => {
                self.ended = true;
                Ok(Some(LpItem::End))
            }
            None => Ok(None),
        }
    }
}

/// in-memory item: (kind, payload)
type Item = (&'static str, Vec<u8>);
fn item_json(i: &Item) -> Value {
    json!({"k": i.0, "v": i.1})
}

// ---- reference: transliteration of LpDec / LpDecEof / BytesDec / Phase / WholeStreamFrames ----
fn lp_dec(b: &[u8], scale: usize, bad: u8) -> (Option<Item>, &[u8]) {
    if b.is_empty() {
        (None, b)
    } else if b[0] == bad {
        (Some(("err", vec![])), &b[1..])
    } else {
        let need = b[0] as usize * scale;
        if b.len() < 1 + need {
            (None, b)
        } else {
            (Some(("ok", b[1..1 + need].to_vec())), &b[1 + need..])
        }
    }
}
fn lp_dec_eof(b: &[u8], scale: usize, bad: u8) -> (Option<Item>, &[u8]) {
    let d = lp_dec(b, scale, bad);
    if d.0.is_some() {
        d
    } else if b.is_empty() {
        (None, b)
    } else {
        (Some(("tail", b.to_vec())), &b[b.len()..])
    }
}
pub fn frames(codec: &str, input: &[u8], scale: usize, bad: u8) -> Vec<Item> {
    match codec {
        "lp" | "lpe" => {
            let mut out = vec![];
            let mut rest = input;
            for eof in [false, true] {
                loop {
                    let d = if eof { lp_dec_eof(rest, scale, bad) } else { lp_dec(rest, scale, bad) };
                    rest = d.1;
                    match d.0 {
                        None => break,
                        Some(i) => out.push(i),
                    }
                }
            }
            if codec == "lpe" {
                out.push(("end", vec![])); // LpeDecEof: one End frame once the buffer is empty
            }
            out
        }
        "lines" => ref_flat(input)
            .iter()
            .map(|v| (if v["k"] == "ok" { "ok" } else { "err" }, bytes_of(&v["v"])))
            .collect(),
        _ => {
            if input.is_empty() {
                vec![]
            } else {
                vec![("ok", input.to_vec())]
            }
        }
    }
}
/// Norm of FramedRead.tla: BytesCodec frames are compared by concatenation only
fn norm(codec: &str, items: &[Item]) -> Vec<Item> {
    if codec == "bytes" {
        let cat: Vec<u8> = items.iter().flat_map(|i| i.1.iter().cloned()).collect();
        if cat.is_empty() { vec![] } else { vec![("ok", cat)] }
    } else {
        items.to_vec()
    }
}
fn is_prefix(codec: &str, items: &[Item], want: &[Item]) -> bool {
    let (a, b) = (norm(codec, items), norm(codec, want));
    if codec == "bytes" {
        match (a.first(), b.first()) {
            (None, _) => true,
            (Some(x), Some(y)) => x.1.len() <= y.1.len() && x.1[..] == y.1[..x.1.len()],
            _ => false,
        }
    } else {
        a.len() <= b.len() && a[..] == b[..a.len()]
    }
}

// ------------------------------------------------------------------------------------------
// scripted transport
// ------------------------------------------------------------------------------------------
pub struct ScriptRead {
    input: Vec<u8>,
    pos: usize,
    script: VecDeque<(String, usize)>,
    log: Vec<Value>,
    unscripted: usize,
    reads: usize,
    at_eof: bool,
}
impl AsyncRead for ScriptRead {
    fn poll_read(mut self: Pin<&mut Self>, _: &mut Context<'_>, buf: &mut ReadBuf<'_>) -> Poll<io::Result<()>> {
        self.reads += 1;
        match self.script.pop_front() {
            None if self.at_eof => {
                // a transport that reached end of stream keeps answering 0 bytes
                self.unscripted += 1;
                if self.unscripted > 64 {
                    panic!("runaway: more than 64 reads after end of stream");
                }
                self.log.push(json!({"a": "eof", "k": 0, "u": 1}));
                Poll::Ready(Ok(()))
            }
            None => {
                self.unscripted += 1;
                if self.unscripted > 64 {
                    panic!("runaway: more than 64 reads beyond the end of the script");
                }
                self.log.push(json!({"a": "pending", "k": 0, "u": 1}));
                Poll::Pending
            }
            Some((a, k)) => match a.as_str() {
                "data" => {
                    let n = k.min(self.input.len() - self.pos).min(buf.remaining());
                    let p = self.pos;
                    buf.put_slice(&self.input[p..p + n]);
                    self.pos += n;
                    if n < k && self.pos < self.input.len() {
                        // the buffer offered less room than the chunk: the rest of the chunk comes with the next read
                        self.script.push_front(("data".into(), k - n));
                    }
                    self.log.push(json!({"a": if n == 0 { "eof" } else { "data" }, "k": n}));
                    Poll::Ready(Ok(()))
                }
                "eof" => {
                    self.at_eof = true;
                    self.log.push(json!({"a": "eof", "k": 0}));
                    Poll::Ready(Ok(()))
                }
                "pending" => {
                    self.log.push(json!({"a": "pending", "k": 0}));
                    Poll::Pending
                }
                _ => {
                    self.log.push(json!({"a": "err", "k": 0}));
                    Poll::Ready(Err(io::Error::new(scripted_kind(), "scripted")))
                }
            },
        }
    }
}

/// the transport's errors come in several kinds (whatever the kind, the error must be surfaced as a stream item)
pub fn scripted_kind() -> io::ErrorKind {
    use std::sync::atomic::{AtomicUsize, Ordering};
    static N: AtomicUsize = AtomicUsize::new(0);
    const KINDS: [io::ErrorKind; 6] = [io::ErrorKind::Other, io::ErrorKind::Interrupted, io::ErrorKind::ConnectionReset,
        io::ErrorKind::TimedOut, io::ErrorKind::BrokenPipe, io::ErrorKind::UnexpectedEof];
    KINDS[N.fetch_add(1, Ordering::Relaxed) % KINDS.len()]
}
pub fn is_scripted_kind(k: io::ErrorKind) -> bool {
    matches!(k, io::ErrorKind::Other | io::ErrorKind::Interrupted | io::ErrorKind::ConnectionReset | io::ErrorKind::TimedOut
        | io::ErrorKind::BrokenPipe | io::ErrorKind::UnexpectedEof)
}
impl AsyncWrite for ScriptRead {
    fn poll_write(self: Pin<&mut Self>, _: &mut Context<'_>, _: &[u8]) -> Poll<io::Result<usize>> {
        Poll::Pending
    }
    fn poll_flush(self: Pin<&mut Self>, _: &mut Context<'_>) -> Poll<io::Result<()>> {
        Poll::Pending
    }
    fn poll_shutdown(self: Pin<&mut Self>, _: &mut Context<'_>) -> Poll<io::Result<()>> {
        Poll::Pending
    }
}

trait Poller {
    /// one poll_next: (item, reads answered during the call, bytes delivered so far)
    fn poll(&mut self) -> (Item, Vec<Value>, usize);
    fn reads(&mut self) -> usize;
    /// the Framed is taken apart and put together again (into_parts/from_parts, into_map_io, into_map_codec): buffered
    /// bytes, flags and codec state must carry over - for the specification this is a stuttering step
    fn rebuild(&mut self, kind: usize);
}
struct Run<U: Decoder> {
    framed: Option<Framed<ScriptRead, U>>,
    conv: fn(U::Item) -> Item,
    wakers: Wakers,
}
impl<U: Decoder<Error = io::Error> + Unpin> Poller for Run<U> {
    fn poll(&mut self) -> (Item, Vec<Value>, usize) {
        let framed = self.framed.as_mut().expect("framed");
        framed.io_mut().log.clear();
        let waker = self.wakers.waker(1);
        let mut cx = Context::from_waker(&waker);
        let conv = self.conv;
        let r = catch(|| match Pin::new(&mut *framed).poll_next(&mut cx) {
            Poll::Pending => ("pending", vec![]),
            Poll::Ready(None) => ("none", vec![]),
            Poll::Ready(Some(Ok(it))) => conv(it),
            Poll::Ready(Some(Err(e))) if is_scripted_kind(e.kind()) => ("ioerr", vec![]),
            Poll::Ready(Some(Err(e))) if e.kind() == io::ErrorKind::InvalidData => ("err", vec![]),
            Poll::Ready(Some(Err(_))) => ("err:other", vec![]),
        });
        let item = r.unwrap_or(("panic", vec![]));
        let t = framed.io_mut();
        (item, t.log.clone(), t.pos)
    }
    fn reads(&mut self) -> usize {
        self.framed.as_mut().expect("framed").io_mut().reads
    }
    fn rebuild(&mut self, kind: usize) {
        let f = self.framed.take().expect("framed");
        self.framed = Some(match kind % 3 {
            0 => Framed::from_parts(f.into_parts()),
            1 => f.into_map_io(|io| io),
            _ => f.into_map_codec(|c| c),
        });
    }
}
fn new_run(codec: &str, input: Vec<u8>, script: VecDeque<(String, usize)>, scale: usize, bad: u8) -> Box<dyn Poller> {
    let io = ScriptRead { input, pos: 0, script, log: vec![], unscripted: 0, reads: 0, at_eof: false };
    let wakers = Wakers::new(1);
    match codec {
        "lp" | "lpe" => Box::new(Run {
            framed: Some(Framed::new(io, LpCodec { scale, bad, end_frame: codec == "lpe", ended: false })),
            conv: |i| match i {
                LpItem::Frame(v) => ("ok", v),
                LpItem::Tail(v) => ("tail", v),
                LpItem::End => ("end", vec![]),
            },
            wakers,
        }),
        "lines" => Box::new(Run {
            framed: Some(Framed::new(io, LinesCodec::default())),
            conv: |s: String| ("ok", s.into_bytes()),
            wakers,
        }),
        _ => Box::new(Run { framed: Some(Framed::new(io, BytesCodec)), conv: |b: BytesMut| ("ok", b.to_vec()), wakers }),
    }
}

/// property C13 on one observed run: items up to the first None / I/O error item.
/// Returns None if the property holds on what was observed, else a description.
fn judge(codec: &str, items: &[Item], want: &[Item], err_delivered: bool) -> Option<String> {
    // an I/O error item does not end the stream: the frames behind it still have to come, in order
    let end = items.iter().position(|i| i.0 == "none" || i.0 == "panic");
    let yielded_all = &items[..end.unwrap_or(items.len())];
    let surfaced = yielded_all.iter().any(|i| i.0 == "ioerr");
    let yielded_vec: Vec<Item> = yielded_all.iter().filter(|i| i.0 != "ioerr").cloned().collect();
    let yielded = &yielded_vec[..];
    if let Some(e) = end {
        if items[e].0 == "panic" {
            return Some("the stream panicked / ran away instead of yielding".into());
        }
    }
    if !is_prefix(codec, yielded, want) {
        return Some("yielded items are not a prefix of the whole-stream frames".into());
    }
    match end.map(|e| items[e].0) {
        Some("none") if norm(codec, yielded) != norm(codec, want) => {
            Some("None before all whole-stream frames were yielded".into())
        }
        Some("none") if err_delivered && !surfaced => Some("an I/O error was delivered but never surfaced".into()),
        _ if surfaced && !err_delivered => Some("an I/O error item without an I/O error".into()),
        _ => None,
    }
}

pub fn main(long: bool) {
    let mut trace = Trace::create(&arg("--trace").expect("--trace"));
    if long {
        return main_long(trace);
    }
    let schedules = arg("--schedules").map(|p| read_ndjson(&p)).unwrap_or_default();
    let mut mismatches: Vec<Value> = vec![];
    let mut prop_failures: Vec<Value> = vec![];
    let mut ref_mismatches: Vec<Value> = vec![];
    let (mut runs, mut steps, mut terminated) = (0usize, 0usize, 0usize);
    for (run, sch) in schedules.iter().enumerate() {
        let codec = gets(sch, "codec");
        let input = bytes_of(&sch["input"]);
        let want: Vec<Item> = sch["want"]
            .as_array()
            .unwrap()
            .iter()
            .map(|v| (kind(gets(v, "k")), bytes_of(&v["v"])))
            .collect();
        if frames(codec, &input, 1, 9) != want {
            ref_mismatches.push(json!({"run": run, "codec": codec, "input": input, "want": sch["want"]}));
        }
        let polls = sch["polls"].as_array().unwrap();
        let script: VecDeque<(String, usize)> = polls
            .iter()
            .flat_map(|p| p["io"].as_array().unwrap().iter())
            .map(|a| (gets(a, "a").to_string(), geti(a, "k") as usize))
            .collect();
        let mut r = new_run(codec, input.clone(), script, 1, 9);
        trace.emit(&json!({"ev": "reset", "run": run, "codec": codec, "input": input}));
        let mut items: Vec<Item> = vec![];
        let mut err_delivered = false;
        let mut bad = false;
        for (k, exp) in polls.iter().enumerate() {
            if run % 3 == 1 && k > 0 {
                r.rebuild(run / 3 + k); // taken apart and rebuilt between two polls
            }
            let (item, io, pos) = r.poll();
            err_delivered |= io.iter().any(|a| a["a"] == "err");
            let obs = json!({"ev": "poll", "run": run, "io": io, "res": item_json(&item), "pos": pos});
            trace.emit(&obs);
            steps += 1;
            if item.0 != "pending" {
                items.push(item);
            }
            if !bad && exp.get("res").is_some() && (exp["res"] != obs["res"] || exp["io"] != obs["io"]) {
                bad = true;
                mismatches.push(json!({"run": run, "step": k, "expected": exp, "observed": obs}));
            }
        }
        if items.iter().any(|i| i.0 == "none") {
            terminated += 1;
        }
        if let Some(why) = judge(codec, &items, &want, err_delivered) {
            prop_failures.push(json!({"run": run, "why": why,
                "observed_items": items.iter().map(item_json).collect::<Vec<_>>()}));
        }
        runs += 1;
    }
    trace.finish();
    println!(
        "{}",
        json!({"runs": runs, "steps": steps, "terminated_with_none": terminated,
               "mismatches": mismatches.len(), "first_mismatches": mismatches.iter().take(20).collect::<Vec<_>>(),
               "prop_failures": prop_failures.len(), "first_prop_failures": prop_failures.iter().take(20).collect::<Vec<_>>(),
               "ref_mismatches": ref_mismatches.len(), "first_ref_mismatches": ref_mismatches.iter().take(3).collect::<Vec<_>>()})
    );
}

fn kind(k: &str) -> &'static str {
    match k {
        "ok" => "ok",
        "tail" => "tail",
        "end" => "end",
        "err" => "err",
        "none" => "none",
        "ioerr" => "ioerr",
        _ => "other",
    }
}

/// long random streams (20-64 KiB) with random chunkings (reads of up to 9000 bytes), Pendings and, in a third of
/// the runs, one I/O error; judged by `frames()` + `judge`.  One summary record per run in the trace.
fn main_long(mut trace: Trace) {
    let n = uarg("--random", 10);
    let mut rng = Rng::seeded(uarg("--seed", 1) as u64, 13);
    let mut failures: Vec<Value> = vec![];
    let (mut steps, mut total_bytes, mut total_frames, mut max_read) = (0usize, 0usize, 0usize, 0usize);
    for run in 0..n {
        let (codec, scale) = [("lp", 1usize), ("lines", 1), ("bytes", 1), ("lp", 40), ("lpe", 1)][run % 5];
        let len = rng.range(20 * 1024, 64 * 1024);
        let mut input: Vec<u8> = Vec::with_capacity(len + 16);
        match codec {
            "lp" | "lpe" => {
                while input.len() < len {
                    let h = match rng.below(20) {
                        0 => 255u8, // invalid header
                        1 => 0,
                        2 | 3 => 254,
                        _ => rng.below(if scale == 1 { 254 } else { 120 }) as u8,
                    };
                    input.push(h);
                    if h != 255 {
                        for j in 0..h as usize * scale {
                            input.push((j * 13 + run) as u8);
                        }
                    }
                }
                if rng.below(2) == 0 {
                    input.truncate(len); // usually cuts the last frame: a tail frame at end of stream
                }
            }
            "lines" => {
                while input.len() < len {
                    match rng.below(40) {
                        0 | 1 => input.push(10),
                        2 => input.extend([13, 10]),
                        3 => input.push(13),
                        4 => input.extend([195, 169]),
                        5 if rng.below(8) == 0 => input.push(255),
                        6 if rng.below(30) == 0 => input.extend((0..rng.range(1000, 9000)).map(|_| 97u8)),
                        _ => input.push(97),
                    }
                }
            }
            _ => input.extend((0..len).map(|j| (j * 31 + j / 255) as u8)),
        }
        let with_err = run % 3 == 2;
        let err_at = rng.below(input.len());
        let mut script: VecDeque<(String, usize)> = VecDeque::new();
        let (mut p, mut err_put) = (0usize, false);
        while p < input.len() {
            if with_err && !err_put && p >= err_at {
                script.push_back(("err".into(), 0));
                err_put = true;
            }
            if rng.below(5) == 0 {
                script.push_back(("pending".into(), 0));
            }
            let k = match rng.below(6) {
                0 => rng.range(1, 8),
                1 => [1023, 1024, 1025, 8191, 8192, 8193][rng.below(6)],
                2 | 3 => rng.range(1, 9000),
                _ => rng.range(1, 1500),
            }
            .min(input.len() - p);
            script.push_back(("data".into(), k));
            p += k;
        }
        if with_err && !err_put {
            script.push_back(("err".into(), 0)); // the error position fell into the last chunk
        }
        script.push_back(("eof".into(), 0));
        let nscript = script.len();
        let want = frames(codec, &input, scale, 255);
        let mut r = new_run(codec, input.clone(), script, scale, 255);
        let mut items: Vec<Item> = vec![];
        let mut err_delivered = false;
        let mut polls = 0usize;
        loop {
            if run % 2 == 1 && polls > 0 && polls % 3 == 0 {
                r.rebuild(polls);
            }
            let (item, io, _pos) = r.poll();
            polls += 1;
            for a in &io {
                if a["a"] == "data" {
                    max_read = max_read.max(a["k"].as_u64().unwrap() as usize);
                }
                err_delivered |= a["a"] == "err";
            }
            let k = item.0;
            if k != "pending" {
                items.push(item);
            }
            if k == "none" || k == "panic" || polls > want.len() + 2 * nscript + 10 {
                break;
            }
        }
        steps += polls;
        total_bytes += input.len();
        total_frames += items.len();
        let verdict = judge(codec, &items, &want, err_delivered).or_else(|| {
            let last = items.last().map(|i| i.0).unwrap_or("");
            if last != "none" {
                Some("the stream never ended".to_string())
            } else if with_err != items.iter().any(|i| i.0 == "ioerr") {
                Some("I/O error not surfaced / surfaced without cause".to_string())
            } else {
                None
            }
        });
        let rec = json!({"ev": "long", "run": run, "codec": codec, "scale": scale, "len": input.len(), "reads": r.reads(),
                         "polls": polls, "items": items.len(), "want": want.len(), "with_err": with_err,
                         "ok": verdict.is_none()});
        trace.emit(&rec);
        if let Some(why) = verdict {
            failures.push(json!({"run": run, "why": why, "summary": rec}));
        }
    }
    trace.finish();
    println!(
        "{}",
        json!({"runs": n, "steps": steps, "bytes": total_bytes, "items": total_frames, "max_read": max_read,
               "mismatches": failures.len(), "first_mismatches": failures.iter().take(20).collect::<Vec<_>>()})
    );
}
