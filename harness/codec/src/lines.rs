//! C15: TLC vectors of spec/codec/Lines.tla replayed on the real `LinesCodec`.

use actix_codec::{Decoder, Encoder, LinesCodec};
use bytes::BytesMut;
use vcore::{arg, catch, json, read_ndjson, Trace, Value};

use crate::{bytes_of, uarg, Rng};

fn item(r: Result<Option<String>, std::io::Error>) -> Option<Value> {
    match r {
        Ok(None) => None,
        Ok(Some(s)) => Some(json!({"k": "ok", "v": s.as_bytes()})),
        Err(e) if e.kind() == std::io::ErrorKind::InvalidData => Some(json!({"k": "err", "v": []})),
        Err(e) => Some(json!({"k": format!("err:{:?}", e.kind()), "v": []})),
    }
}

/// whole input in one BytesMut: repeated `decode` until None, then repeated `decode_eof` until None
pub fn real_decode_all(input: &[u8]) -> (Vec<Value>, Vec<Value>) {
    let mut codec = LinesCodec::default();
    let mut buf = BytesMut::from(input);
    let bound = input.len() + 2;
    let mut dec = vec![];
    let mut eof = vec![];
    let r = catch(|| {
        loop {
            match item(codec.decode(&mut buf)) {
                None => break,
                Some(i) => dec.push(i),
            }
            if dec.len() > bound {
                dec.push(json!({"k": "nonterminating", "v": []}));
                break;
            }
        }
        loop {
            match item(codec.decode_eof(&mut buf)) {
                None => break,
                Some(i) => eof.push(i),
            }
            if eof.len() > bound {
                eof.push(json!({"k": "nonterminating", "v": []}));
                break;
            }
        }
    });
    if let Err(msg) = r {
        eof.push(json!({"k": format!("panic: {msg}"), "v": []}));
    }
    (dec, eof)
}

/// whole input in one BytesMut, drained with `decode_eof` alone (a fresh codec)
pub fn real_eof_only(input: &[u8]) -> Vec<Value> {
    let mut codec = LinesCodec::default();
    let mut buf = BytesMut::from(input);
    let bound = input.len() + 2;
    let mut out = vec![];
    let r = catch(|| loop {
        match item(codec.decode_eof(&mut buf)) {
            None => break,
            Some(i) => out.push(i),
        }
        if out.len() > bound {
            out.push(json!({"k": "nonterminating", "v": []}));
            break;
        }
    });
    if let Err(msg) = r {
        out.push(json!({"k": format!("panic: {msg}"), "v": []}));
    }
    out
}

pub fn real_encode_all(items: &[Vec<u8>]) -> Vec<u8> {
    let mut codec = LinesCodec::default();
    let mut buf = BytesMut::new();
    for it in items {
        let s = std::str::from_utf8(it).expect("round-trip items are valid UTF-8");
        codec.encode(s, &mut buf).unwrap();
    }
    buf.to_vec()
}

// ---- reference: transliteration of RefLines / RefUtf8 / RefItem of LinesCodec.tla ----
fn ref_utf8(s: &[u8]) -> bool {
    if s.is_empty() {
        true
    } else if s[0] < 128 {
        ref_utf8(&s[1..])
    } else if s.len() >= 2 && s[0] == 0xC3 && s[1] == 0xA9 {
        ref_utf8(&s[2..])
    } else {
        false
    }
}
fn ref_item(line: &[u8]) -> Value {
    if ref_utf8(line) {
        json!({"k": "ok", "v": line})
    } else {
        json!({"k": "err", "v": []})
    }
}
fn ref_strip(line: &[u8]) -> &[u8] {
    if line.last() == Some(&13) {
        &line[..line.len() - 1]
    } else {
        line
    }
}
/// (terminated lines, final unterminated line)
pub fn ref_lines(s: &[u8]) -> (Vec<Value>, Vec<Value>) {
    let parts: Vec<&[u8]> = s.split(|b| *b == 10).collect();
    let k = parts.len();
    let lines = parts[..k - 1].iter().map(|p| ref_item(ref_strip(p))).collect();
    let last = ref_strip(parts[k - 1]);
    (lines, if last.is_empty() { vec![] } else { vec![ref_item(last)] })
}
pub fn ref_flat(s: &[u8]) -> Vec<Value> {
    let (mut a, b) = ref_lines(s);
    a.extend(b);
    a
}

const ALPHABET: [u8; 6] = [97, 13, 10, 195, 169, 255];

pub fn main() {
    let mut trace = Trace::create(&arg("--trace").expect("--trace"));
    let vectors = arg("--vectors").map(|p| read_ndjson(&p)).unwrap_or_default();
    let mut mismatches: Vec<Value> = vec![];
    let mut ref_mismatches: Vec<Value> = vec![];
    let (mut nvec, mut nrt, mut nrand) = (0usize, 0usize, 0usize);
    trace.emit(&json!({"ev": "reset"}));
    for (run, v) in vectors.iter().enumerate() {
        if v["t"] == "vec" {
            let input = bytes_of(&v["in"]);
            let (dec, eof) = real_decode_all(&input);
            let eofonly = real_eof_only(&input);
            let want_eo: Vec<Value> = v["dec"].as_array().unwrap().iter().chain(v["eof"].as_array().unwrap()).cloned().collect();
            let obs = json!({"ev": "vec", "in": input, "dec": dec, "eof": eof, "eofonly": eofonly});
            if obs["dec"] != v["dec"] || obs["eof"] != v["eof"] || obs["eofonly"] != json!(want_eo) {
                mismatches.push(json!({"run": run, "step": 0, "expected": v, "observed": obs}));
            }
            let (rl, re) = ref_lines(&input);
            if json!(rl) != v["dec"] || json!(re) != v["eof"] {
                ref_mismatches.push(json!({"run": run, "vector": v, "reference": [rl, re]}));
            }
            trace.emit(&obs);
            nvec += 1;
        } else {
            let items: Vec<Vec<u8>> = v["items"].as_array().unwrap().iter().map(bytes_of).collect();
            let enc = real_encode_all(&items);
            let (d, e) = real_decode_all(&enc);
            let dec: Vec<Value> = d.into_iter().chain(e).collect();
            let obs = json!({"ev": "rt", "items": items, "enc": enc, "dec": dec});
            if obs["enc"] != v["enc"] || obs["dec"] != v["dec"] {
                mismatches.push(json!({"run": run, "step": 0, "expected": v, "observed": obs}));
            }
            if json!(ref_flat(&bytes_of(&v["enc"]))) != v["dec"] {
                ref_mismatches.push(json!({"run": run, "vector": v}));
            }
            trace.emit(&obs);
            nrt += 1;
        }
    }
    // random longer strings / item sequences through the cross-checked reference
    let n = uarg("--random", 0);
    let mut rng = Rng::seeded(uarg("--seed", 1) as u64, 15);
    for r in 0..n {
        let run = vectors.len() + r;
        if r % 3 != 2 {
            let len = rng.range(8, 400);
            let input: Vec<u8> = (0..len).map(|_| ALPHABET[rng.below(6)]).collect();
            let (dec, eof) = real_decode_all(&input);
            let obs = json!({"ev": "vec", "in": input, "dec": dec, "eof": eof, "eofonly": real_eof_only(&input), "random": true});
            let (rl, re) = ref_lines(&input);
            if obs["dec"] != json!(rl) || obs["eof"] != json!(re) || obs["eofonly"] != json!(ref_flat(&input)) {
                mismatches.push(json!({"run": run, "step": 0, "observed": obs,
                    "expected": {"t": "vec", "in": input, "dec": rl, "eof": re}}));
            }
            if r < 60 {
                trace.emit(&obs);
            }
        } else {
            // clean items: no LF, not ending in CR, valid UTF-8  => decode(encode(items)) == items
            let k = rng.range(1, 6);
            let items: Vec<Vec<u8>> = (0..k)
                .map(|_| {
                    let mut it: Vec<u8> = vec![];
                    for _ in 0..rng.below(40) {
                        match rng.below(4) {
                            0 => it.push(13),
                            1 => it.extend([195, 169]),
                            _ => it.push(97),
                        }
                    }
                    while it.last() == Some(&13) {
                        it.pop();
                    }
                    it
                })
                .collect();
            let enc = real_encode_all(&items);
            let (d, e) = real_decode_all(&enc);
            let dec: Vec<Value> = d.into_iter().chain(e).collect();
            let want: Vec<Value> = items.iter().map(|i| json!({"k": "ok", "v": i})).collect();
            let want_enc: Vec<u8> = items.iter().flat_map(|i| i.iter().cloned().chain([10u8])).collect();
            let obs = json!({"ev": "rt", "items": items, "enc": enc, "dec": dec, "random": true});
            if obs["dec"] != json!(want) || enc != want_enc {
                mismatches.push(json!({"run": run, "step": 0, "observed": obs,
                    "expected": {"t": "rt", "items": items, "enc": want_enc, "dec": want}}));
            }
            if r < 60 {
                trace.emit(&obs);
            }
        }
        nrand += 1;
    }
    trace.finish();
    println!(
        "{}",
        json!({"runs": nvec + nrt + nrand, "steps": nvec + nrt + nrand, "vec": nvec, "rt": nrt, "random": nrand,
               "mismatches": mismatches.len(), "first_mismatches": mismatches.iter().take(20).collect::<Vec<_>>(),
               "ref_mismatches": ref_mismatches.len(), "first_ref_mismatches": ref_mismatches.iter().take(5).collect::<Vec<_>>()})
    );
}
