//! Conformance driver for actix_tls::connect (C19), public API only.
//!
//! `vconnect vectors --schedules F --trace T [--seed S] [--host-type string|static] [--rounds K]`
//!
//! F: ndjson, one vector per line, produced by TLC from spec/connect/Connect.tla and grouped by the check:
//!    `{"inp": <input record>, "allowed": [<expected observation>, ..]}`.
//! For every vector the *real* service named by `inp.svc` is called once:
//!    "tcp"        TcpConnectorService           "resolver"  ResolverService (custom resolver with a call log)
//!    "connector"  ConnectorService              "tls"       ConnectorService, then the rustls 0.23 / OpenSSL
//!                                                          TlsConnectorService on the returned connection
//! Address flavours of the model are bound to real sockets once per process:
//!    up/up6    std TcpListener on 127.0.0.1 / ::1 (never polled; drained and counted after every call)
//!    ref/ref6  closed port outside the ephemeral range (probed: connection refused)
//!    unr       255.255.255.255 (probed: fails fast with an error other than "refused")
//!    pu        one port number listening on both loopbacks, pd: one port number closed on both, zero: port 0
//!    tls       in-process TLS echo servers (tokio-rustls / tokio-openssl acceptors) with rcgen certificates
//!              (SAN good.verif.test, *.wild.verif.test, 127.0.0.1) issued by a CA the client trusts / does not
//! Observed (ground truth, never copied from the vector): result variant, raw OS error of an I/O error mapped
//! to the flavours that produce the same error in a calibration connect, peer address of the returned
//! stream mapped back to the flavour table, which listeners accepted how many connections, the resolver's
//! call log, `ConnectInfo::port()` of the request, addresses of the returned ConnectInfo, echo of a seeded random payload through the TLS
//! stream (differential: bytes written == bytes read back).
//! A connection that reaches a flavour listener after its call returned (dial still in flight) is attributed
//! to that call (drained before the next call starts, after a grace period when the call ended abnormally);
//! only arrivals before the first call are reported as unattributable (`leftover_accepts`).
//! T: ndjson `{"ev":"reset"}` / `{"ev":"call","i":..,"inp":..,"obs":..,"raw":..}` / `{"ev":"end"}` per vector, judged
//! by TLC (ConnectTrace.tla, predicate C19_Holds).  Last stdout line: the standard JSON summary.

use std::{
    cell::RefCell,
    collections::{BTreeMap, HashMap},
    io,
    net::{IpAddr, Ipv4Addr, Ipv6Addr, SocketAddr, TcpListener as StdListener},
    rc::Rc,
    sync::{
        atomic::{AtomicUsize, Ordering},
        Arc,
    },
    time::Duration,
};

use actix_rt::net::TcpStream;
use actix_service::Service;
use actix_tls::connect::{
    tcp::TcpConnector, ConnectError, ConnectInfo, Connection, Connector, Host, Resolve, Resolver,
};
use futures_core::future::LocalBoxFuture;
use tokio::io::{AsyncReadExt, AsyncWriteExt};
use tokio_rustls_026::rustls::{
    self,
    pki_types::{CertificateDer, PrivateKeyDer, PrivatePkcs8KeyDer},
};
use vcore::{arg, catch, json, quiet_panics, read_ndjson, Trace, Value};

const NAME_HOST: &str = "verif.test";
const MAX_POS: usize = 6;
const CALL_TIMEOUT: Duration = Duration::from_secs(10);

struct Rng(u64);
impl Rng {
    fn next(&mut self) -> u64 {
        self.0 ^= self.0 << 13;
        self.0 ^= self.0 >> 7;
        self.0 ^= self.0 << 17;
        self.0
    }
    fn below(&mut self, n: usize) -> usize {
        (self.next() % n as u64) as usize
    }
    fn bytes(&mut self, n: usize) -> Vec<u8> {
        (0..n).map(|_| self.next() as u8).collect()
    }
}

// ---------------------------------------------------------------------------------------------
// host types
// ---------------------------------------------------------------------------------------------
trait MkHost: Host + Clone + std::fmt::Debug {
    fn mk(s: String) -> Self;
}
impl MkHost for String {
    fn mk(s: String) -> Self {
        s
    }
}
impl MkHost for &'static str {
    fn mk(s: String) -> Self {
        Box::leak(s.into_boxed_str())
    }
}

// ---------------------------------------------------------------------------------------------
// the environment: flavour table
// ---------------------------------------------------------------------------------------------
type Id = (String, usize); // (flavour, pos)

struct Env {
    addr_of: HashMap<Id, SocketAddr>,
    id_of: HashMap<SocketAddr, Id>,
    listeners: Vec<(Id, StdListener)>,
    pu_port: u16,
    pd_port: u16,
    have_v6: bool,
    have_bind: bool,
    /// (flavour, bind) -> raw os error of a calibration connect
    errno: HashMap<(String, bool), Option<i32>>,
    tls: Option<TlsEnv>,
    leftovers: u64,
}

fn lo4() -> IpAddr {
    IpAddr::V4(Ipv4Addr::LOCALHOST)
}
fn lo6() -> IpAddr {
    IpAddr::V6(Ipv6Addr::LOCALHOST)
}
fn bind_ip() -> IpAddr {
    IpAddr::V4(Ipv4Addr::new(127, 0, 0, 2))
}

fn std_connect_errno(addr: SocketAddr, bind: bool) -> Result<(), Option<i32>> {
    // same socket calls as the code under test, via tokio, on a throw-away runtime
    let rt = tokio::runtime::Builder::new_current_thread().enable_all().build().unwrap();
    rt.block_on(async move {
        let r = tokio::time::timeout(Duration::from_secs(2), async move {
            if bind {
                let s = tokio::net::TcpSocket::new_v4()?;
                s.bind(SocketAddr::new(bind_ip(), 0))?;
                s.connect(addr).await
            } else {
                tokio::net::TcpStream::connect(addr).await
            }
        })
        .await;
        match r {
            Ok(Ok(_)) => Ok(()),
            Ok(Err(e)) => Err(e.raw_os_error()),
            Err(_) => Err(Some(-1)), // timed out
        }
    })
}

fn closed_port(rng: &mut Rng, v6: bool) -> u16 {
    // outside the ephemeral range, so it is never picked as a source port or by a `:0` bind
    for _ in 0..2000 {
        let p = 20000 + rng.below(10000) as u16;
        let ok4 = matches!(std_connect_errno(SocketAddr::new(lo4(), p), false), Err(Some(e)) if e == 111);
        let ok6 = !v6 || matches!(std_connect_errno(SocketAddr::new(lo6(), p), false), Err(Some(e)) if e == 111);
        if ok4 && ok6 {
            return p;
        }
    }
    panic!("driver: no closed port found");
}

impl Env {
    fn new(rng: &mut Rng) -> Env {
        let mut env = Env {
            addr_of: HashMap::new(),
            id_of: HashMap::new(),
            listeners: vec![],
            pu_port: 0,
            pd_port: 0,
            have_v6: StdListener::bind(SocketAddr::new(lo6(), 0)).is_ok(),
            have_bind: std::net::TcpListener::bind(SocketAddr::new(bind_ip(), 0)).is_ok(),
            errno: HashMap::new(),
            tls: None,
            leftovers: 0,
        };
        let v6 = env.have_v6;
        for pos in 1..=MAX_POS {
            env.listen(("up".into(), pos), SocketAddr::new(lo4(), 0));
            if v6 {
                env.listen(("up6".into(), pos), SocketAddr::new(lo6(), 0));
            }
            let p = closed_port(rng, v6);
            env.put(("ref".into(), pos), SocketAddr::new(lo4(), p));
            if v6 {
                let p6 = closed_port(rng, v6);
                env.put(("ref6".into(), pos), SocketAddr::new(lo6(), p6));
            }
            env.put(
                ("unr".into(), pos),
                SocketAddr::new(IpAddr::V4(Ipv4Addr::BROADCAST), 9 + pos as u16),
            );
        }
        // port slot pu: one port number live on both loopbacks
        for _ in 0..2000 {
            let p = 20000 + rng.below(10000) as u16;
            let a = StdListener::bind(SocketAddr::new(lo4(), p));
            let b = if v6 { StdListener::bind(SocketAddr::new(lo6(), p)).ok() } else { None };
            if let (Ok(a), true) = (a, !v6 || b.is_some()) {
                a.set_nonblocking(true).unwrap();
                env.put(("pu4".into(), 0), SocketAddr::new(lo4(), p));
                env.listeners.push((("pu4".into(), 0), a));
                if let Some(b) = b {
                    b.set_nonblocking(true).unwrap();
                    env.put(("pu6".into(), 0), SocketAddr::new(lo6(), p));
                    env.listeners.push((("pu6".into(), 0), b));
                }
                env.pu_port = p;
                break;
            }
        }
        assert!(env.pu_port != 0, "driver: no dual-stack port found");
        env.pd_port = closed_port(rng, v6);
        env.put(("pd4".into(), 0), SocketAddr::new(lo4(), env.pd_port));
        env.put(("pd6".into(), 0), SocketAddr::new(lo6(), env.pd_port));
        env.put(("zero4".into(), 0), SocketAddr::new(lo4(), 0));
        env.put(("zero6".into(), 0), SocketAddr::new(lo6(), 0));
        // calibration: what error does each failing flavour give (with and without local bind)
        for fl in ["ref", "unr", "ref6", "pd4", "pd6", "zero4", "zero6"] {
            for bind in [false, true] {
                if (bind && !env.have_bind) || (fl.ends_with('6') && (!v6 || bind)) {
                    continue;
                }
                let pos = if ["ref", "unr", "ref6"].contains(&fl) { 1 } else { 0 };
                let addr = env.addr_of[&(fl.to_string(), pos)];
                let e = match std_connect_errno(addr, bind) {
                    Ok(()) => None, // unexpectedly connects: flavour unusable
                    Err(e) => e,
                };
                env.errno.insert((fl.to_string(), bind), e);
            }
        }
        env
    }
    fn put(&mut self, id: Id, addr: SocketAddr) {
        self.addr_of.insert(id.clone(), addr);
        self.id_of.insert(addr, id);
    }
    fn listen(&mut self, id: Id, at: SocketAddr) {
        let l = StdListener::bind(at).expect("driver: bind loopback listener");
        l.set_nonblocking(true).unwrap();
        let addr = l.local_addr().unwrap();
        self.put(id.clone(), addr);
        self.listeners.push((id, l));
    }
    /// accept everything pending on every live listener; returns id -> (count, peers)
    fn drain(&self) -> BTreeMap<Id, Vec<SocketAddr>> {
        let mut out: BTreeMap<Id, Vec<SocketAddr>> = BTreeMap::new();
        for (id, l) in &self.listeners {
            loop {
                match l.accept() {
                    Ok((_s, peer)) => out.entry(id.clone()).or_default().push(peer),
                    Err(e) if e.kind() == io::ErrorKind::WouldBlock => break,
                    Err(_) => break,
                }
            }
        }
        out
    }
    fn unr_usable(&self, bind: bool) -> bool {
        matches!(self.errno.get(&("unr".to_string(), bind)), Some(Some(e)) if *e > 0)
    }
    fn port_of(&self, slot: &str) -> Option<u16> {
        match slot {
            "pu" => Some(self.pu_port),
            "pd" => Some(self.pd_port),
            _ => None,
        }
    }
    fn slot_of(&self, port: u16) -> String {
        if port == self.pu_port {
            "pu".into()
        } else if port == self.pd_port {
            "pd".into()
        } else if port == 0 {
            "zero".into()
        } else {
            format!("{port}")
        }
    }
    fn id_json(&self, addr: &SocketAddr) -> Value {
        match self.id_of.get(addr) {
            Some((fl, pos)) => json!({"fl": fl, "pos": pos}),
            None => json!({"fl": format!("unknown:{addr}"), "pos": 0}),
        }
    }
}

// ---------------------------------------------------------------------------------------------
// TLS environment
// ---------------------------------------------------------------------------------------------
struct TlsEnv {
    /// (trusted, server kind) -> address of the echo server
    servers: HashMap<(bool, &'static str), (SocketAddr, Arc<AtomicUsize>)>,
    rustls_client: Arc<rustls::ClientConfig>,
    openssl_client: tls_openssl::ssl::SslConnector,
}

struct Issued {
    cert_der: Vec<u8>,
    cert_pem: String,
    key_der: Vec<u8>,
    key_pem: String,
}

fn make_ca(cn: &str) -> (rcgen::Certificate, rcgen::KeyPair) {
    let key = rcgen::KeyPair::generate().expect("rcgen key");
    let mut p = rcgen::CertificateParams::new(Vec::<String>::new()).expect("rcgen params");
    p.is_ca = rcgen::IsCa::Ca(rcgen::BasicConstraints::Unconstrained);
    p.distinguished_name.push(rcgen::DnType::CommonName, cn);
    p.key_usages = vec![
        rcgen::KeyUsagePurpose::KeyCertSign,
        rcgen::KeyUsagePurpose::DigitalSignature,
        rcgen::KeyUsagePurpose::CrlSign,
    ];
    let cert = p.self_signed(&key).expect("rcgen ca");
    (cert, key)
}

fn issue(ca: &rcgen::Certificate, ca_key: &rcgen::KeyPair) -> Issued {
    let key = rcgen::KeyPair::generate().expect("rcgen key");
    let mut p = rcgen::CertificateParams::new(vec![
        "good.verif.test".to_string(),
        "*.wild.verif.test".to_string(),
        "127.0.0.1".to_string(),
    ])
    .expect("rcgen params");
    p.distinguished_name.push(rcgen::DnType::CommonName, "verif leaf");
    p.extended_key_usages = vec![rcgen::ExtendedKeyUsagePurpose::ServerAuth];
    let cert = p.signed_by(&key, ca, ca_key).expect("rcgen leaf");
    Issued {
        cert_der: cert.der().to_vec(),
        cert_pem: cert.pem(),
        key_der: key.serialize_der(),
        key_pem: key.serialize_pem(),
    }
}

async fn echo<S: AsyncReadExt + AsyncWriteExt + Unpin>(mut s: S) {
    let mut buf = vec![0u8; 16 * 1024];
    loop {
        match s.read(&mut buf).await {
            Ok(0) | Err(_) => break,
            Ok(n) => {
                if s.write_all(&buf[..n]).await.is_err() || s.flush().await.is_err() {
                    break;
                }
            }
        }
    }
    let _ = s.shutdown().await;
}

async fn start_tls_env() -> TlsEnv {
    let _ = rustls::crypto::aws_lc_rs::default_provider().install_default();
    let (ca1, ca1_key) = make_ca("verif trusted CA");
    let (ca2, ca2_key) = make_ca("verif untrusted CA");
    let mut servers = HashMap::new();
    for (trusted, ca, ca_key) in [(true, &ca1, &ca1_key), (false, &ca2, &ca2_key)] {
        let leaf = issue(ca, ca_key);
        // rustls server
        let cfg = rustls::ServerConfig::builder()
            .with_no_client_auth()
            .with_single_cert(
                vec![CertificateDer::from(leaf.cert_der.clone())],
                PrivateKeyDer::Pkcs8(PrivatePkcs8KeyDer::from(leaf.key_der.clone())),
            )
            .expect("rustls server config");
        let acceptor = tokio_rustls_026::TlsAcceptor::from(Arc::new(cfg));
        let l = tokio::net::TcpListener::bind(SocketAddr::new(lo4(), 0)).await.unwrap();
        let count = Arc::new(AtomicUsize::new(0));
        servers.insert((trusted, "rustls"), (l.local_addr().unwrap(), count.clone()));
        actix_rt::spawn(async move {
            loop {
                if let Ok((io, _)) = l.accept().await {
                    count.fetch_add(1, Ordering::SeqCst);
                    let acc = acceptor.clone();
                    actix_rt::spawn(async move {
                        if let Ok(Ok(s)) = tokio::time::timeout(Duration::from_secs(10), acc.accept(io)).await {
                            echo(s).await;
                        }
                    });
                }
            }
        });
        // openssl server
        use tls_openssl::{
            pkey::PKey,
            ssl::{Ssl, SslAcceptor, SslMethod},
            x509::X509,
        };
        let mut b = SslAcceptor::mozilla_intermediate_v5(SslMethod::tls()).expect("ssl acceptor");
        b.set_private_key(&PKey::private_key_from_pem(leaf.key_pem.as_bytes()).unwrap()).unwrap();
        b.set_certificate(&X509::from_pem(leaf.cert_pem.as_bytes()).unwrap()).unwrap();
        let acc = Arc::new(b.build());
        let l = tokio::net::TcpListener::bind(SocketAddr::new(lo4(), 0)).await.unwrap();
        let count = Arc::new(AtomicUsize::new(0));
        servers.insert((trusted, "openssl"), (l.local_addr().unwrap(), count.clone()));
        actix_rt::spawn(async move {
            loop {
                if let Ok((io, _)) = l.accept().await {
                    count.fetch_add(1, Ordering::SeqCst);
                    let acc = acc.clone();
                    actix_rt::spawn(async move {
                        let ssl = match Ssl::new(acc.context()) {
                            Ok(s) => s,
                            Err(_) => return,
                        };
                        let mut s = match tokio_openssl::SslStream::new(ssl, io) {
                            Ok(s) => s,
                            Err(_) => return,
                        };
                        let ok = tokio::time::timeout(Duration::from_secs(10), std::pin::Pin::new(&mut s).accept()).await;
                        if let Ok(Ok(())) = ok {
                            echo(s).await;
                        }
                    });
                }
            }
        });
    }
    // clients trust CA 1 only
    let mut roots = rustls::RootCertStore::empty();
    roots.add(CertificateDer::from(ca1.der().to_vec())).expect("add root");
    let rustls_client = Arc::new(
        rustls::ClientConfig::builder()
            .with_root_certificates(roots)
            .with_no_client_auth(),
    );
    let mut ob = tls_openssl::ssl::SslConnector::builder(tls_openssl::ssl::SslMethod::tls()).expect("ssl connector");
    ob.cert_store_mut()
        .add_cert(tls_openssl::x509::X509::from_der(ca1.der()).unwrap())
        .expect("add root");
    TlsEnv {
        servers,
        rustls_client,
        openssl_client: ob.build(),
    }
}

// ---------------------------------------------------------------------------------------------
// custom resolver with a call log
// ---------------------------------------------------------------------------------------------
#[derive(Clone)]
enum Answer {
    Ok(Vec<SocketAddr>),
    Empty,
    Err,
}
struct LogResolver {
    log: Rc<RefCell<Vec<(String, u16)>>>,
    answer: Answer,
}
impl Resolve for LogResolver {
    fn lookup<'a>(
        &'a self,
        host: &'a str,
        port: u16,
    ) -> LocalBoxFuture<'a, Result<Vec<SocketAddr>, Box<dyn std::error::Error>>> {
        self.log.borrow_mut().push((host.to_string(), port));
        let a = self.answer.clone();
        Box::pin(async move {
            // resolve asynchronously, as a real resolver would
            tokio::task::yield_now().await;
            match a {
                Answer::Ok(v) => Ok(v),
                Answer::Empty => Ok(vec![]),
                Answer::Err => Err("scripted resolver failure".into()),
            }
        })
    }
}

// ---------------------------------------------------------------------------------------------
// one vector
// ---------------------------------------------------------------------------------------------
fn strs(v: &Value, k: &str) -> Vec<String> {
    v[k].as_array().map(|a| a.iter().map(|x| x.as_str().unwrap().to_string()).collect()).unwrap_or_default()
}

fn entries(env: &Env, fls: &[String]) -> Vec<SocketAddr> {
    fls.iter().enumerate().map(|(i, fl)| env.addr_of[&(fl.clone(), i + 1)]).collect()
}

fn needs(inp: &Value) -> (bool, bool, bool) {
    let all: Vec<String> = strs(inp, "preset").into_iter().chain(strs(inp, "rlist")).collect();
    let v6 = all.iter().any(|f| f.ends_with('6')) || inp["hostKind"] == "localhost";
    let unr = all.iter().any(|f| f == "unr");
    (inp["bind"].as_bool().unwrap_or(false), v6, unr)
}

fn connect_err(env: &Env, e: &ConnectError, bind: bool) -> (String, Vec<String>, Value) {
    match e {
        ConnectError::Resolver(err) => ("Resolver".into(), vec![], json!({"msg": err.to_string()})),
        ConnectError::NoRecords => ("NoRecords".into(), vec![], json!({})),
        ConnectError::InvalidInput => ("InvalidInput".into(), vec![], json!({})),
        ConnectError::Unresolved => ("Unresolved".into(), vec![], json!({})),
        ConnectError::Io(err) => {
            let raw = err.raw_os_error();
            let fls: Vec<String> = env
                .errno
                .iter()
                .filter(|((_, b), v)| *b == bind && raw.is_some() && **v == raw)
                .map(|((fl, _), _)| fl.clone())
                .collect();
            ("Io".into(), fls, json!({"errno": raw, "kind": format!("{:?}", err.kind()), "msg": err.to_string()}))
        }
    }
}

fn build_info<R: MkHost>(env: &Env, inp: &Value, host: String, preset: &[SocketAddr]) -> ConnectInfo<R> {
    let via = inp["via"].as_str().unwrap_or("new");
    let mut info = if via == "with_addr" {
        ConnectInfo::with_addr(R::mk(host), preset[0])
    } else {
        ConnectInfo::new(R::mk(host))
    };
    if let Some(p) = env.port_of(inp["setPort"].as_str().unwrap_or("none")) {
        info = info.set_port(p);
    }
    match via {
        "set_addr" => info = info.set_addr(preset.first().copied()),
        "set_addrs" => info = info.set_addrs(preset.to_vec()),
        _ => {}
    }
    if inp["bind"].as_bool().unwrap_or(false) {
        info = info.set_local_addr(bind_ip());
    }
    info
}

fn host_string(env: &Env, inp: &Value) -> String {
    let base = match inp["hostKind"].as_str().unwrap() {
        "name" => NAME_HOST.to_string(),
        "ip" => "127.0.0.1".to_string(),
        "localhost" => "localhost".to_string(),
        "nxdomain" => "no-such-host.invalid".to_string(),
        "tlsname" if inp["name"]["id"] == "toolong" => "a.".repeat(148) + "test", // 300 characters
        "tlsname" => inp["name"]["text"].as_str().unwrap().to_string(),
        other => panic!("driver: hostKind {other}"),
    };
    match env.port_of(inp["hostPort"].as_str().unwrap_or("none")) {
        Some(p) => format!("{base}:{p}"),
        None => base,
    }
}

fn host_kind(h: &str) -> String {
    match h {
        NAME_HOST => "name".into(),
        "127.0.0.1" => "ip".into(),
        "localhost" => "localhost".into(),
        "no-such-host.invalid" => "nxdomain".into(),
        other => format!("raw:{other}"),
    }
}

struct CallOut {
    obs: Value,
    raw: Value,
}

async fn run_net<R: MkHost>(env: &Env, inp: &Value) -> CallOut {
    let svc = inp["svc"].as_str().unwrap();
    let bind = inp["bind"].as_bool().unwrap_or(false);
    let preset = entries(env, &strs(inp, "preset"));
    let host = host_string(env, inp);
    let log = Rc::new(RefCell::new(Vec::new()));
    let answer = match inp["resolver"].as_str().unwrap() {
        "ok" => Answer::Ok(entries(env, &strs(inp, "rlist"))),
        "empty" => Answer::Empty,
        _ => Answer::Err,
    };
    let resolver = if inp["resolver"] == "default" {
        Resolver::default()
    } else {
        Resolver::custom(LogResolver { log: log.clone(), answer })
    };
    let info: ConnectInfo<R> = build_info(env, inp, host.clone(), &preset);
    let mut obs = json!({"res": "", "variant": "", "errfls": [], "peer": {"fl": "none", "pos": 0}, "accepted": [],
                         "rcalls": [], "addrs": [], "rport": "", "echo": ""});
    let mut raw = json!({"host": host});
    // "the request's port" as the API reports it, before the call
    let req_port = info.port();
    obs["rport"] = json!(env.slot_of(req_port));
    raw["hostname"] = json!(info.hostname());
    let mut keep: Option<TcpStream> = None;
    match svc {
        "resolver" => {
            let via_factory = match inp.get("build").and_then(|v| v.as_str()) {
                Some(v) => v == "factory",
                None => inp.to_string().bytes().fold(0u32, |a, b| a.wrapping_mul(31).wrapping_add(b as u32)) % 2 == 1,
            };
            raw["build"] = json!(if via_factory { "factory" } else { "service" });
            let s = if via_factory {
                actix_service::ServiceFactory::<ConnectInfo<R>>::new_service(&resolver, ()).await.unwrap()
            } else {
                resolver.service()
            };
            match tokio::time::timeout(CALL_TIMEOUT, s.call(info)).await {
                Err(_) => obs["res"] = json!("timeout"),
                Ok(Ok(out)) => {
                    obs["res"] = json!("ok");
                    obs["addrs"] = Value::Array(out.addrs().map(|a| env.id_json(&a)).collect());
                    if out.port() != req_port {
                        obs["rport"] = json!(format!("changed:{}->{}", req_port, out.port()));
                    }
                }
                Ok(Err(e)) => {
                    let (v, fls, r) = connect_err(env, &e, bind);
                    obs["res"] = json!("err");
                    obs["variant"] = json!(v);
                    obs["errfls"] = json!(fls);
                    raw["err"] = r;
                }
            }
        }
        "tcp" | "connector" => {
            // the service comes from `.service()` or from the ServiceFactory impl (`new_service(())`): "build":"factory",
            // or - when the input does not say - decided by the input itself (replays take the same path)
            let via_factory = match inp.get("build").and_then(|v| v.as_str()) {
                Some(v) => v == "factory",
                None => inp.to_string().bytes().fold(0u32, |a, b| a.wrapping_mul(31).wrapping_add(b as u32)) % 2 == 1,
            };
            raw["build"] = json!(if via_factory { "factory" } else { "service" });
            let r: Result<Result<Connection<R, TcpStream>, ConnectError>, _> = if svc == "tcp" {
                let s = if via_factory {
                    actix_service::ServiceFactory::<ConnectInfo<R>>::new_service(&TcpConnector::default(), ()).await.unwrap()
                } else {
                    TcpConnector::default().service()
                };
                tokio::time::timeout(CALL_TIMEOUT, s.call(info)).await
            } else {
                let c = Connector::new(resolver);
                let s = if via_factory {
                    actix_service::ServiceFactory::<ConnectInfo<R>>::new_service(&c, ()).await.unwrap()
                } else {
                    c.service()
                };
                tokio::time::timeout(CALL_TIMEOUT, s.call(info)).await
            };
            match r {
                Err(_) => obs["res"] = json!("timeout"),
                Ok(Ok(conn)) => {
                    obs["res"] = json!("ok");
                    let (io, req) = conn.into_parts();
                    raw["req"] = json!(format!("{:?}", req));
                    if let Ok(p) = io.peer_addr() {
                        obs["peer"] = env.id_json(&p);
                        raw["peer"] = json!(p.to_string());
                    }
                    if let Ok(l) = io.local_addr() {
                        raw["local"] = json!(l.to_string());
                    }
                    keep = Some(io);
                }
                Ok(Err(e)) => {
                    let (v, fls, r) = connect_err(env, &e, bind);
                    obs["res"] = json!("err");
                    obs["variant"] = json!(v);
                    obs["errfls"] = json!(fls);
                    raw["err"] = r;
                }
            }
        }
        other => panic!("driver: svc {other}"),
    }
    // who accepted what during this call
    let acc = env.drain();
    let mut accepted = vec![];
    let mut counts = serde_json::Map::new();
    for (id, peers) in &acc {
        accepted.push(json!({"fl": id.0, "pos": id.1}));
        counts.insert(format!("{}:{}", id.0, id.1), json!(peers.len()));
        // ground truth: the accepted socket is the other end of the returned stream
        if let Some(io) = &keep {
            if peers.len() != 1 || Some(peers[0]) != io.local_addr().ok() {
                raw["accept_anomaly"] = json!(format!("{:?} accepted {:?}", id, peers));
                // more than one connection on a listener: report it as a second, distinct acceptance
                if peers.len() > 1 {
                    accepted.push(json!({"fl": format!("{}(x{})", id.0, peers.len()), "pos": id.1}));
                }
            }
        }
    }
    obs["accepted"] = Value::Array(accepted);
    raw["accept_counts"] = Value::Object(counts);
    obs["rcalls"] = Value::Array(
        log.borrow()
            .iter()
            .map(|(h, p)| json!({"host": host_kind(h), "port": env.slot_of(*p)}))
            .collect(),
    );
    drop(keep);
    CallOut { obs, raw }
}

async fn run_tls<R: MkHost>(env: &Env, inp: &Value, rng: &mut Rng, rounds: usize, server_kind: &'static str) -> CallOut {
    let tls = env.tls.as_ref().unwrap();
    let trusted = inp["trusted"].as_bool().unwrap();
    let (server, _) = tls.servers[&(trusted, server_kind)];
    let counts_before: HashMap<(bool, &'static str), usize> =
        tls.servers.iter().map(|(k, (_, c))| (*k, c.load(Ordering::SeqCst))).collect();
    let host = host_string(env, inp);
    let info: ConnectInfo<R> = ConnectInfo::new(R::mk(host.clone())).set_addr(server);
    let mut obs = json!({"res": "", "variant": "", "errfls": [], "peer": {"fl": "none", "pos": 0}, "accepted": [],
                         "rcalls": [], "addrs": [], "rport": "", "echo": ""});
    let mut raw = json!({"host": host, "server": server_kind, "lib": inp["lib"]});
    obs["rport"] = json!(env.slot_of(info.port()));
    let conn = match tokio::time::timeout(CALL_TIMEOUT, Connector::default().service().call(info)).await {
        Ok(Ok(c)) => Some(c),
        other => {
            obs["res"] = json!("tcp-failed");
            raw["err"] = json!(format!("{:?}", other.map(|r| r.map(|_| ()))));
            None
        }
    };
    // where did the TCP stage connect to?  (the request carries the TLS server's address)
    let mut at_server = false;
    if let Some(c) = &conn {
        if let Ok(p) = c.io_ref().peer_addr() {
            at_server = p == server;
            obs["peer"] = if at_server { json!({"fl": "tls", "pos": 1}) } else { env.id_json(&p) };
            raw["peer"] = json!(p.to_string());
        }
    }
    let conn = match conn {
        Some(c) if at_server => Some(c),
        Some(_) => {
            // connected somewhere else: a handshake with a listener that never answers proves nothing
            obs["res"] = json!("not-attempted");
            None
        }
        None => None,
    };
    // payload rounds: bytes written must come back unchanged
    async fn exchange<S: AsyncReadExt + AsyncWriteExt + Unpin>(s: &mut S, rng: &mut Rng, rounds: usize) -> Result<usize, String> {
        let mut total = 0;
        for r in 0..rounds {
            let n = if r == 0 { 1 + rng.below(64) } else { 1 + rng.below(12 * 1024) };
            let data = rng.bytes(n);
            s.write_all(&data).await.map_err(|e| format!("write: {e}"))?;
            s.flush().await.map_err(|e| format!("flush: {e}"))?;
            let mut back = vec![0u8; n];
            tokio::time::timeout(Duration::from_secs(10), s.read_exact(&mut back))
                .await
                .map_err(|_| "read timeout".to_string())?
                .map_err(|e| format!("read: {e}"))?;
            if back != data {
                return Err(format!("payload of {n} bytes came back altered"));
            }
            total += n;
        }
        Ok(total)
    }
    macro_rules! finish {
        ($r:expr) => {
            match $r {
                Err(_) => obs["res"] = json!("timeout"),
                Ok(Ok(c)) => {
                    obs["res"] = json!("ok");
                    let (mut io, _req) = c.into_parts();
                    match exchange(&mut io, rng, rounds).await {
                        Ok(n) => {
                            obs["echo"] = json!("intact");
                            raw["echo_bytes"] = json!(n);
                        }
                        Err(m) => {
                            obs["echo"] = json!("broken");
                            raw["echo_err"] = json!(m);
                        }
                    }
                    let _ = io.shutdown().await;
                }
                Ok(Err(e)) => {
                    obs["res"] = json!("err");
                    obs["variant"] = json!("Tls");
                    raw["err"] = json!({"kind": format!("{:?}", e.kind()), "msg": e.to_string()});
                }
            }
        };
    }
    match (inp["lib"].as_str().unwrap(), conn) {
        (_, None) => {}
        ("rustls", Some(conn)) => {
            let s = actix_tls::connect::rustls_0_23::TlsConnector::service(tls.rustls_client.clone());
            let r = tokio::time::timeout(CALL_TIMEOUT, s.call(conn)).await;
            finish!(r);
        }
        ("openssl", Some(conn)) => {
            let s = actix_tls::connect::openssl::TlsConnector::service(tls.openssl_client.clone());
            let r = tokio::time::timeout(CALL_TIMEOUT, s.call(conn)).await;
            finish!(r);
        }
        (other, _) => panic!("driver: lib {other}"),
    }
    // who accepted: flavour listeners (kernel queues) and the TLS servers (accept counters; give the
    // server's accept task a moment when the TCP stage did reach it)
    if at_server {
        let c = &tls.servers[&(trusted, server_kind)].1;
        for _ in 0..500 {
            if c.load(Ordering::SeqCst) > counts_before[&(trusted, server_kind)] {
                break;
            }
            tokio::time::sleep(Duration::from_millis(1)).await;
        }
    }
    let mut accepted = vec![];
    for (k, (_, c)) in &tls.servers {
        let d = c.load(Ordering::SeqCst) - counts_before[k];
        if d > 0 {
            let fl = if *k == (trusted, server_kind) { "tls".to_string() } else { format!("tls-other:{}:{}", k.0, k.1) };
            accepted.push(json!({"fl": if d == 1 { fl } else { format!("{fl}(x{d})") }, "pos": 1}));
        }
    }
    for (id, peers) in env.drain() {
        accepted.push(json!({"fl": id.0, "pos": id.1}));
        raw["accept_counts"][format!("{}:{}", id.0, id.1)] = json!(peers.len());
    }
    obs["accepted"] = Value::Array(accepted);
    CallOut { obs, raw }
}

fn same_set(a: &Value, b: &[Value]) -> bool {
    let aa = a.as_array().cloned().unwrap_or_default();
    aa.len() == b.len() && aa.iter().all(|x| b.contains(x)) && b.iter().all(|x| aa.contains(x))
}

/// does the observation equal one of the expected observations the spec printed for this input?
fn matches(inp: &Value, obs: &Value, exp: &Value) -> bool {
    if obs["res"] != exp["res"] {
        return false;
    }
    if inp["svc"] == "tls" {
        return obs["echo"] == exp["echo"] && obs["peer"] == exp["peer"] && same_set(&obs["accepted"], &[exp["peer"].clone()]);
    }
    if obs["variant"] != exp["variant"] || obs["rcalls"] != exp["rcalls"] {
        return false;
    }
    if exp["variant"] == "Io" && !obs["errfls"].as_array().unwrap().contains(&exp["errfl"]) {
        return false;
    }
    if obs["peer"] != exp["peer"] {
        return false;
    }
    let want_acc: Vec<Value> = if exp["peer"]["fl"] == "none" { vec![] } else { vec![exp["peer"].clone()] };
    if !same_set(&obs["accepted"], &want_acc) {
        return false;
    }
    if obs["rport"] != exp["rport"] {
        return false;
    }
    if inp["svc"] == "resolver" && exp["res"] == "ok" && obs["addrs"] != exp["dial"] {
        return false;
    }
    true
}

struct Pending {
    i: usize,
    out: CallOut,
}

/// compares a finished call with the spec's expectation and writes its trace records
struct Judge {
    trace: Trace,
    mismatches: u64,
    first: Vec<Value>,
    late_accepts: u64,
}

impl Judge {
    /// `late`: connections found on the flavour listeners after the call had returned (before the next
    /// call started): they are attributed to this call
    fn finish(&mut self, vecs: &[Value], p: Pending, late: BTreeMap<Id, Vec<SocketAddr>>) {
        let Pending { i, mut out } = p;
        let v = &vecs[i];
        let inp = &v["inp"];
        for (id, peers) in late {
            self.late_accepts += peers.len() as u64;
            let e = json!({"fl": id.0, "pos": id.1});
            let acc = out.obs["accepted"].as_array_mut().unwrap();
            if acc.contains(&e) {
                acc.push(json!({"fl": format!("{}(late again)", id.0), "pos": id.1}));
            } else {
                acc.push(e);
            }
            out.raw["late_accepts"][format!("{}:{}", id.0, id.1)] = json!(peers.len());
        }
        let ok = v["allowed"].as_array().unwrap().iter().any(|e| matches(inp, &out.obs, e));
        if !ok {
            self.mismatches += 1;
            if self.first.len() < 20 {
                self.first.push(json!({"run": i, "step": inp["svc"], "expected": v["allowed"][0], "observed": out.obs, "raw": out.raw}));
            }
        }
        self.trace.emit(&json!({"ev": "reset", "i": i}));
        self.trace.emit(&json!({"ev": "call", "i": i, "inp": inp, "obs": out.obs, "raw": out.raw}));
        self.trace.emit(&json!({"ev": "end", "i": i}));
    }
}

fn main() {
    if std::env::var_os("VERIF_LOUD").is_none() {
        quiet_panics();
    }
    let mode = std::env::args().nth(1).unwrap_or_default();
    if mode != "vectors" {
        eprintln!("usage: vconnect vectors --schedules F --trace T [--seed S] [--host-type string|static] [--rounds K]");
        std::process::exit(2);
    }
    let sfile = arg("--schedules").expect("--schedules");
    let tfile = arg("--trace").expect("--trace");
    let seed: u64 = arg("--seed").and_then(|s| s.parse().ok()).unwrap_or(1);
    let rounds: usize = arg("--rounds").and_then(|s| s.parse().ok()).unwrap_or(3);
    let static_host = arg("--host-type").as_deref() == Some("static");
    let mut rng = Rng(seed.wrapping_mul(0x9E3779B97F4A7C15) | 1);
    let vecs = read_ndjson(&sfile);
    let mut env = Env::new(&mut rng);
    let rt = actix_rt::Runtime::new().expect("runtime");
    if vecs.iter().any(|v| v["inp"]["svc"] == "tls") {
        env.tls = Some(rt.block_on(start_tls_env()));
    }
    let mut judge = Judge { trace: Trace::create(&tfile), mismatches: 0, first: vec![], late_accepts: 0 };
    let mut pending: Option<Pending> = None;
    let mut steps = 0u64;
    let mut skipped: BTreeMap<&'static str, u64> = BTreeMap::new();
    let mut by_svc: BTreeMap<String, u64> = BTreeMap::new();
    let mut connects_ok = 0u64;
    let mut panics = 0u64;

    for (i, v) in vecs.iter().enumerate() {
        let inp = &v["inp"];
        let svc = inp["svc"].as_str().unwrap().to_string();
        let (bind, v6, unr) = needs(inp);
        let skip = if bind && !env.have_bind {
            Some("no_local_bind_addr")
        } else if v6 && !env.have_v6 {
            Some("no_ipv6_loopback")
        } else if unr && !env.unr_usable(bind) {
            Some("no_unreachable_flavour")
        } else {
            None
        };
        if let Some(why) = skip {
            *skipped.entry(why).or_default() += 1;
            continue;
        }
        // connections that arrived after the previous call returned belong to that call (a dial that
        // was still in flight); before the first call they cannot be attributed to anything
        let pre = env.drain();
        match pending.take() {
            Some(p) => judge.finish(&vecs, p, pre),
            None => env.leftovers += pre.values().map(|p| p.len() as u64).sum::<u64>(),
        }
        let server_kind: &'static str = if (i as u64 + seed) % 2 == 0 { "rustls" } else { "openssl" };
        let out = catch(|| {
            rt.block_on(async {
                match (svc.as_str(), static_host) {
                    ("tls", false) => run_tls::<String>(&env, inp, &mut rng, rounds, server_kind).await,
                    ("tls", true) => run_tls::<&'static str>(&env, inp, &mut rng, rounds, server_kind).await,
                    (_, false) => run_net::<String>(&env, inp).await,
                    (_, true) => run_net::<&'static str>(&env, inp).await,
                }
            })
        });
        let out = match out {
            Ok(o) => o,
            Err(msg) => {
                panics += 1;
                CallOut {
                    obs: json!({"res": "panic", "variant": "", "errfls": [], "peer": {"fl": "none", "pos": 0}, "accepted": [],
                                "rcalls": [], "addrs": [], "rport": "", "echo": ""}),
                    raw: json!({"panic": msg}),
                }
            }
        };
        steps += 1;
        *by_svc.entry(svc.clone()).or_default() += 1;
        if out.obs["res"] == "ok" {
            connects_ok += 1;
        }
        // a call that did not end normally may have left a dial in flight: give it a grace period now
        let abnormal = !matches!(out.obs["res"].as_str(), Some("ok") | Some("err"));
        if abnormal {
            rt.block_on(async { tokio::time::sleep(Duration::from_millis(150)).await });
            let late = env.drain();
            judge.finish(&vecs, Pending { i, out }, late);
        } else {
            pending = Some(Pending { i, out });
        }
    }
    if let Some(p) = pending.take() {
        rt.block_on(async { tokio::time::sleep(Duration::from_millis(30)).await });
        let late = env.drain();
        judge.finish(&vecs, p, late);
    }
    let Judge { trace, mismatches, first, late_accepts } = judge;
    trace.finish();
    let errno: BTreeMap<String, Option<i32>> = env
        .errno
        .iter()
        .map(|((fl, b), e)| (format!("{fl}{}", if *b { "+bind" } else { "" }), *e))
        .collect();
    println!(
        "{}",
        json!({"runs": vecs.len(), "steps": steps, "mismatches": mismatches, "first_mismatches": first,
               "skipped": skipped, "by_svc": by_svc, "ok_results": connects_ok, "panics": panics,
               "leftover_accepts": env.leftovers, "late_accepts_attributed": late_accepts,
               "env": {"ipv6_loopback": env.have_v6, "local_bind_127_0_0_2": env.have_bind, "errno": errno,
                       "seed": seed, "host_type": if static_host { "&'static str" } else { "String" }}})
    );
}
