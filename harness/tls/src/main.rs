//! Conformance driver for the TLS acceptor services of actix-tls (C18).
//!
//! `vtls accept --schedules F --trace T [--random N --seed S --acc rustls|openssl|both]`
//!
//! One run = one fresh OS thread (the handshake counter of actix-tls is a lazily created
//! thread-local whose capacity is read at first use) with a current-thread Tokio runtime whose clock
//! is paused.  The real `rustls_0_23::Acceptor` / `openssl::Acceptor` services (built through
//! `ServiceFactory::new_service`) are called on one end of a `tokio::io::duplex`, wrapped in
//! `GatedIo` (an `ActixStream`).  The other end belongs to a scripted client: a real rustls /
//! OpenSSL client handshake, raw garbage, or nothing.  The *gate* decides how many of the client's
//! bytes the server may read and what happens at the scripted instant (open / garbage / EOF).
//! All futures are polled by hand, so the schedule decides exactly when a call future is polled and
//! virtual time moves only in `advance` steps.  Every step is recorded with *observed* values.
//!
//! Two polling disciplines (per run, field `exec` of the schedule):
//! * hand mode: a `poll` step and the sweeps of an `advance` step poll the call future
//!   unconditionally (what is observable at that instant, wake-ups or not);
//! * executor mode: like a wake-driven executor.  Every poll of a call future gets a FRESH waker;
//!   a future is polled only if it was never polled or its most recent waker has fired (plus, at
//!   most once per call and seeded, a poll under a new waker without a wake-up: the future moved
//!   to another task).  A call whose current waker is not woken at its deadline is therefore
//!   observed as still pending when the schedule says it must resolve.

use std::{
    cell::{Cell, RefCell},
    collections::BTreeMap,
    future::Future,
    io,
    pin::Pin,
    rc::Rc,
    sync::{
        atomic::{AtomicBool, Ordering},
        Arc,
    },
    task::{Context, Poll, Wake, Waker},
    time::Duration,
};

use actix_rt::net::{ActixStream, Ready};
use actix_service::{Service, ServiceFactory};
use actix_tls::accept::{self, TlsError};
use rustls_pki_types_1::{CertificateDer, PrivateKeyDer, PrivatePkcs8KeyDer, ServerName};
use tls_openssl::{
    pkey::PKey,
    ssl::{SslAcceptor, SslConnector, SslMethod},
    x509::X509,
};
use tokio::io::{AsyncRead, AsyncReadExt, AsyncWrite, AsyncWriteExt, DuplexStream, ReadBuf};
use tokio_rustls_026::rustls::{ClientConfig, RootCertStore, ServerConfig};
use vcore::{arg, catch, geti, gets, json, quiet_panics, read_ndjson, Trace, Value, Wakers};

// ------------------------------------------------------------------------------------------
// small helpers
// ------------------------------------------------------------------------------------------
#[derive(Clone)]
struct Rng(u64);
impl Rng {
    fn new(seed: u64) -> Self {
        Rng(seed.wrapping_mul(0x9E3779B97F4A7C15) | 1)
    }
    fn next(&mut self) -> u64 {
        self.0 ^= self.0 << 13;
        self.0 ^= self.0 >> 7;
        self.0 ^= self.0 << 17;
        self.0
    }
    fn below(&mut self, n: usize) -> usize {
        ((self.next() >> 11) % n as u64) as usize
    }
    fn bytes(&mut self, n: usize) -> Vec<u8> {
        let mut v = Vec::with_capacity(n + 8);
        while v.len() < n {
            v.extend_from_slice(&self.next().to_le_bytes());
        }
        v.truncate(n);
        v
    }
}

struct Flag(AtomicBool);
impl Wake for Flag {
    fn wake(self: Arc<Self>) {
        self.0.store(true, Ordering::SeqCst);
    }
    fn wake_by_ref(self: &Arc<Self>) {
        self.0.store(true, Ordering::SeqCst);
    }
}
fn new_flag(set: bool) -> Arc<Flag> {
    Arc::new(Flag(AtomicBool::new(set)))
}
fn take_flag(f: &Arc<Flag>) -> bool {
    f.0.swap(false, Ordering::SeqCst)
}

/// Drives a future whose I/O is entirely in memory; `Err` if it does not finish.
fn drive<F: Future>(fut: F, max_polls: usize) -> Result<F::Output, String> {
    let flag = new_flag(false);
    let waker = Waker::from(flag);
    let mut cx = Context::from_waker(&waker);
    let mut fut = std::pin::pin!(fut);
    for _ in 0..max_polls {
        if let Poll::Ready(v) = fut.as_mut().poll(&mut cx) {
            return Ok(v);
        }
    }
    Err("stuck (future still pending)".into())
}

// ------------------------------------------------------------------------------------------
// the transport: server end behind a gate, client end counting what it wrote
// ------------------------------------------------------------------------------------------
struct Gate {
    quota: u64,    // client bytes the server may read
    consumed: u64, // client bytes the server has read
    inject: Vec<u8>,
    inject_pos: usize,
    eof: bool,
    waker: Option<Waker>,
}
impl Gate {
    fn changed(&mut self) {
        if let Some(w) = self.waker.take() {
            w.wake();
        }
    }
}

struct GatedIo {
    inner: RefCell<DuplexStream>,
    gate: Rc<RefCell<Gate>>,
    /// bytes taken from the transport by a readiness probe and not yet handed to a reader: `poll_read_ready` is faithful
    /// (Ready only while a read would return something, like a socket), so a stream that asks for readiness before it
    /// hands out plaintext it has already decrypted is observed to stall
    stash: RefCell<std::collections::VecDeque<u8>>,
}

impl GatedIo {
    fn new(inner: DuplexStream, gate: Rc<RefCell<Gate>>) -> Self {
        GatedIo { inner: RefCell::new(inner), gate, stash: RefCell::new(Default::default()) }
    }

    /// what the gate lets through right now, read from `src` into `buf`
    fn gated_read(gate: &Rc<RefCell<Gate>>, src: &mut DuplexStream, cx: &mut Context<'_>, buf: &mut ReadBuf<'_>) -> Poll<io::Result<()>> {
        let mut g = gate.borrow_mut();
        if buf.remaining() == 0 {
            return Poll::Ready(Ok(()));
        }
        if g.consumed < g.quota {
            let room = (g.quota - g.consumed).min(buf.remaining() as u64) as usize;
            let mut tmp = vec![0u8; room];
            let mut rb = ReadBuf::new(&mut tmp);
            return match Pin::new(src).poll_read(cx, &mut rb) {
                Poll::Ready(Ok(())) => {
                    let n = rb.filled().len();
                    buf.put_slice(rb.filled());
                    g.consumed += n as u64;
                    Poll::Ready(Ok(()))
                }
                Poll::Ready(Err(e)) => Poll::Ready(Err(e)),
                Poll::Pending => {
                    g.waker = Some(cx.waker().clone());
                    Poll::Pending
                }
            };
        }
        if g.inject_pos < g.inject.len() {
            let n = (g.inject.len() - g.inject_pos).min(buf.remaining());
            let from = g.inject_pos;
            buf.put_slice(&g.inject[from..from + n]);
            g.inject_pos += n;
            return Poll::Ready(Ok(()));
        }
        if g.eof {
            return Poll::Ready(Ok(()));
        }
        g.waker = Some(cx.waker().clone());
        Poll::Pending
    }
}

impl AsyncRead for GatedIo {
    fn poll_read(
        self: Pin<&mut Self>,
        cx: &mut Context<'_>,
        buf: &mut ReadBuf<'_>,
    ) -> Poll<io::Result<()>> {
        let this = self.get_mut();
        {
            let mut st = this.stash.borrow_mut();
            if !st.is_empty() {
                while buf.remaining() > 0 {
                    match st.pop_front() {
                        Some(b) => buf.put_slice(&[b]),
                        None => break,
                    }
                }
                return Poll::Ready(Ok(()));
            }
        }
        Self::gated_read(&this.gate, this.inner.get_mut(), cx, buf)
    }
}

impl AsyncWrite for GatedIo {
    fn poll_write(
        self: Pin<&mut Self>,
        cx: &mut Context<'_>,
        buf: &[u8],
    ) -> Poll<io::Result<usize>> {
        Pin::new(self.get_mut().inner.get_mut()).poll_write(cx, buf)
    }
    fn poll_flush(self: Pin<&mut Self>, cx: &mut Context<'_>) -> Poll<io::Result<()>> {
        Pin::new(self.get_mut().inner.get_mut()).poll_flush(cx)
    }
    fn poll_shutdown(self: Pin<&mut Self>, cx: &mut Context<'_>) -> Poll<io::Result<()>> {
        Pin::new(self.get_mut().inner.get_mut()).poll_shutdown(cx)
    }
}

impl ActixStream for GatedIo {
    fn poll_read_ready(&self, cx: &mut Context<'_>) -> Poll<io::Result<Ready>> {
        if !self.stash.borrow().is_empty() {
            return Poll::Ready(Ok(Ready::READABLE));
        }
        // probe: whatever a read would return now is taken into the stash (end of stream counts as readable)
        let mut tmp = vec![0u8; 16 * 1024];
        let mut rb = ReadBuf::new(&mut tmp);
        let mut inner = self.inner.borrow_mut();
        match Self::gated_read(&self.gate, &mut inner, cx, &mut rb) {
            Poll::Ready(Ok(())) => {
                self.stash.borrow_mut().extend(rb.filled().iter().copied());
                Poll::Ready(Ok(Ready::READABLE))
            }
            Poll::Ready(Err(e)) => Poll::Ready(Err(e)),
            Poll::Pending => Poll::Pending,
        }
    }
    fn poll_write_ready(&self, _: &mut Context<'_>) -> Poll<io::Result<Ready>> {
        Poll::Ready(Ok(Ready::WRITABLE))
    }
}

struct CountIo {
    inner: DuplexStream,
    written: Rc<Cell<u64>>,
}
impl AsyncRead for CountIo {
    fn poll_read(
        self: Pin<&mut Self>,
        cx: &mut Context<'_>,
        buf: &mut ReadBuf<'_>,
    ) -> Poll<io::Result<()>> {
        Pin::new(&mut self.get_mut().inner).poll_read(cx, buf)
    }
}
impl AsyncWrite for CountIo {
    fn poll_write(
        self: Pin<&mut Self>,
        cx: &mut Context<'_>,
        buf: &[u8],
    ) -> Poll<io::Result<usize>> {
        let this = self.get_mut();
        let r = Pin::new(&mut this.inner).poll_write(cx, buf);
        if let Poll::Ready(Ok(n)) = &r {
            this.written.set(this.written.get() + *n as u64);
        }
        r
    }
    fn poll_flush(self: Pin<&mut Self>, cx: &mut Context<'_>) -> Poll<io::Result<()>> {
        Pin::new(&mut self.get_mut().inner).poll_flush(cx)
    }
    fn poll_shutdown(self: Pin<&mut Self>, cx: &mut Context<'_>) -> Poll<io::Result<()>> {
        Pin::new(&mut self.get_mut().inner).poll_shutdown(cx)
    }
}

trait Rw: AsyncRead + AsyncWrite + Unpin {}
impl<T: AsyncRead + AsyncWrite + Unpin> Rw for T {}

// ------------------------------------------------------------------------------------------
// TLS material (one self-signed certificate for "localhost", shared by all runs)
// ------------------------------------------------------------------------------------------
/// key material shared by all runs
struct TlsMaterial {
    cert_der: CertificateDer<'static>,
    key_der: Vec<u8>,
    ossl_acceptor: SslAcceptor,
    ossl_connector: SslConnector,
}

/// what one run uses: rustls configurations are built per run, so that session caches (and with
/// them the choice between full and resumed handshakes) depend on that run's history only
struct TlsCtx {
    rustls_server: ServerConfig,
    rustls_client: Arc<ClientConfig>,
    ossl_acceptor: SslAcceptor,
    ossl_connector: SslConnector,
}

fn tls_material() -> TlsMaterial {
    let _ = tokio_rustls_026::rustls::crypto::aws_lc_rs::default_provider().install_default();
    let rcgen::CertifiedKey { cert, key_pair } =
        rcgen::generate_simple_self_signed(vec!["localhost".to_owned()]).expect("rcgen");
    let x509 = X509::from_pem(cert.pem().as_bytes()).expect("x509");
    let pkey = PKey::private_key_from_pem(key_pair.serialize_pem().as_bytes()).expect("pkey");
    let mut ab = SslAcceptor::mozilla_intermediate_v5(SslMethod::tls()).expect("ssl acceptor");
    ab.set_private_key(&pkey).unwrap();
    ab.set_certificate(&x509).unwrap();
    ab.check_private_key().unwrap();
    let mut cb = SslConnector::builder(SslMethod::tls()).expect("ssl connector");
    cb.cert_store_mut().add_cert(x509).unwrap();
    TlsMaterial {
        cert_der: cert.der().clone(),
        key_der: key_pair.serialize_der(),
        ossl_acceptor: ab.build(),
        ossl_connector: cb.build(),
    }
}

fn tls_ctx(m: &TlsMaterial) -> TlsCtx {
    let key_der = PrivateKeyDer::Pkcs8(PrivatePkcs8KeyDer::from(m.key_der.clone()));
    let rustls_server = ServerConfig::builder()
        .with_no_client_auth()
        .with_single_cert(vec![m.cert_der.clone()], key_der)
        .expect("rustls server config");
    let mut roots = RootCertStore::empty();
    roots.add(m.cert_der.clone()).expect("root");
    let rustls_client = Arc::new(
        ClientConfig::builder()
            .with_root_certificates(roots)
            .with_no_client_auth(),
    );
    TlsCtx {
        rustls_server,
        rustls_client,
        ossl_acceptor: m.ossl_acceptor.clone(),
        ossl_connector: m.ossl_connector.clone(),
    }
}

// ------------------------------------------------------------------------------------------
// the services under test, behind one face
// ------------------------------------------------------------------------------------------
enum Outcome {
    Ok(Box<dyn Rw>),
    TlsErr(String),
    Timeout,
    Service,
}
type CallFut = Pin<Box<dyn Future<Output = Outcome>>>;

fn via_clone() -> bool {
    use std::sync::atomic::{AtomicUsize, Ordering};
    static N: AtomicUsize = AtomicUsize::new(0);
    N.fetch_add(1, Ordering::Relaxed) % 2 == 1
}

enum Svc {
    Rustls(accept::rustls_0_23::AcceptorService),
    Openssl(accept::openssl::AcceptorService),
}

impl Svc {
    fn build(acc: &str, tls: &TlsCtx, timeout: Duration) -> Svc {
        match acc {
            "rustls" => {
                let mut a = accept::rustls_0_23::Acceptor::new(tls.rustls_server.clone());
                a.set_handshake_timeout(timeout);
                // a server clones its factories (one per socket, again for a restarted worker): every other service
                // is built from a clone of a clone of the configured acceptor
                let a = if via_clone() { a.clone().clone() } else { a };
                let f = <accept::rustls_0_23::Acceptor as ServiceFactory<GatedIo>>::new_service(
                    &a,
                    (),
                );
                Svc::Rustls(drive(f, 4).expect("new_service").expect("init"))
            }
            "openssl" => {
                let mut a = accept::openssl::Acceptor::new(tls.ossl_acceptor.clone());
                a.set_handshake_timeout(timeout);
                let a = if via_clone() { a.clone().clone() } else { a };
                let f =
                    <accept::openssl::Acceptor as ServiceFactory<GatedIo>>::new_service(&a, ());
                Svc::Openssl(drive(f, 4).expect("new_service").expect("init"))
            }
            other => panic!("driver: unknown acceptor {other}"),
        }
    }

    fn poll_ready(&self, cx: &mut Context<'_>) -> &'static str {
        let r = match self {
            Svc::Rustls(s) => {
                <accept::rustls_0_23::AcceptorService as Service<GatedIo>>::poll_ready(s, cx)
                    .map(|r| r.is_ok())
            }
            Svc::Openssl(s) => {
                <accept::openssl::AcceptorService as Service<GatedIo>>::poll_ready(s, cx)
                    .map(|r| r.is_ok())
            }
        };
        match r {
            Poll::Ready(true) => "ready",
            Poll::Ready(false) => "err",
            Poll::Pending => "pending",
        }
    }

    /// `Service::call`; the returned box owns the acceptor's own future (and with it the guard)
    fn call(&self, io: GatedIo) -> CallFut {
        match self {
            Svc::Rustls(s) => {
                let fut = s.call(io);
                Box::pin(async move {
                    match fut.await {
                        Ok(st) => Outcome::Ok(Box::new(st)),
                        Err(TlsError::Tls(e)) => Outcome::TlsErr(e.to_string()),
                        Err(TlsError::Timeout) => Outcome::Timeout,
                        Err(TlsError::Service(_)) => Outcome::Service,
                    }
                })
            }
            Svc::Openssl(s) => {
                let fut = s.call(io);
                Box::pin(async move {
                    match fut.await {
                        Ok(st) => Outcome::Ok(Box::new(st)),
                        Err(TlsError::Tls(e)) => Outcome::TlsErr(e.to_string()),
                        Err(TlsError::Timeout) => Outcome::Timeout,
                        Err(TlsError::Service(_)) => Outcome::Service,
                    }
                })
            }
        }
    }
}

// ------------------------------------------------------------------------------------------
// scripted clients
// ------------------------------------------------------------------------------------------
type ClientFut = Pin<Box<dyn Future<Output = Result<Box<dyn Rw>, String>>>>;

struct Client {
    fut: Option<ClientFut>,
    flag: Arc<Flag>,
    stream: Option<Box<dyn Rw>>,
    err: Option<String>,
    raw: Option<CountIo>, // clients that are not TLS clients keep the bare end
    written: Rc<Cell<u64>>,
}

fn tls_client(lib: &str, tls: &TlsCtx, io: CountIo) -> ClientFut {
    match lib {
        "rustls" => {
            let conn = tokio_rustls_026::TlsConnector::from(tls.rustls_client.clone());
            Box::pin(async move {
                let name = ServerName::try_from("localhost").unwrap();
                conn.connect(name, io)
                    .await
                    .map(|s| Box::new(s) as Box<dyn Rw>)
                    .map_err(|e| e.to_string())
            })
        }
        _ => {
            let ssl = tls
                .ossl_connector
                .configure()
                .unwrap()
                .into_ssl("localhost")
                .unwrap();
            let mut s = tokio_openssl::SslStream::new(ssl, io).unwrap();
            Box::pin(async move {
                Pin::new(&mut s).connect().await.map_err(|e| e.to_string())?;
                Ok(Box::new(s) as Box<dyn Rw>)
            })
        }
    }
}

#[derive(Clone, Copy, PartialEq)]
enum Fire {
    Never,
    Open,
    Garbage,
    Eof,
    DropClient,
    Trickle,
}

struct Call {
    fut: Option<CallFut>,
    flag: Arc<Flag>,
    t0: tokio::time::Instant,
    gate: Rc<RefCell<Gate>>,
    client: Client,
    fire: Fire,
    fire_at_ms: u64,
    fired: bool,
    npolls: u32,     // polls of the call future so far
    migrated: bool,  // executor mode: already polled once without a wake-up
    /// the caller is busy: the future returned by `call` gets its FIRST poll no earlier than this many ms after the call
    /// (stalling clients only; the handshake timeout counts from the call all the same)
    defer_ms: u64,
}

const GARBAGE: &[u8] = b"GET / HTTP/1.1\r\nHost: localhost\r\nUser-Agent: not-tls\r\n\r\n";
const ECHO_SIZES: [usize; 7] = [0, 1, 1000, 16383, 16384, 16385, 65536];

// ------------------------------------------------------------------------------------------
// one run
// ------------------------------------------------------------------------------------------
struct Run<'a> {
    tls: &'a TlsCtx,
    /// the acceptor service(s) of this thread: one, or - flavour "mixed" - a rustls and an OpenSSL service side by side
    /// (they share the thread's handshake counter); operations alternate between them
    svcs: Vec<Svc>,
    nready: usize,
    ncall: usize,
    wakers: Wakers,
    calls: Vec<Call>,
    rng: Rng,
    t_ticks: u64,
    tick_ms: u64,
    acc: String,
    exec: bool,
    stats: BTreeMap<String, u64>,
}

fn bump(stats: &mut BTreeMap<String, u64>, k: &str, n: u64) {
    *stats.entry(k.to_string()).or_insert(0) += n;
}

impl<'a> Run<'a> {
    fn settle_clients(&mut self) {
        loop {
            let mut any = false;
            for c in self.calls.iter_mut() {
                if c.client.fut.is_some() && take_flag(&c.client.flag) {
                    any = true;
                    let waker = Waker::from(c.client.flag.clone());
                    let mut cx = Context::from_waker(&waker);
                    if let Poll::Ready(r) = c.client.fut.as_mut().unwrap().as_mut().poll(&mut cx) {
                        c.client.fut = None;
                        match r {
                            Ok(s) => c.client.stream = Some(s),
                            Err(e) => c.client.err = Some(e),
                        }
                    }
                }
            }
            if !any {
                break;
            }
        }
    }

    /// Polls call `i` like an executor would within one instant: again while it keeps being woken
    /// (the client answers in between).  `None` = still pending.
    fn poll_call(&mut self, i: usize) -> Result<Option<Outcome>, String> {
        for _ in 0..64 {
            let exec = self.exec;
            let c = &mut self.calls[i];
            if exec {
                c.flag = new_flag(false); // a new waker identity for every poll
            }
            take_flag(&c.flag);
            c.npolls += 1;
            let waker = Waker::from(c.flag.clone());
            let mut cx = Context::from_waker(&waker);
            let fut = c.fut.as_mut().unwrap();
            match catch(|| fut.as_mut().poll(&mut cx)) {
                Err(msg) => return Err(msg),
                Ok(Poll::Ready(o)) => return Ok(Some(o)),
                Ok(Poll::Pending) => {}
            }
            self.settle_clients();
            if !self.calls[i].flag.0.load(Ordering::SeqCst) {
                return Ok(None);
            }
        }
        Ok(None)
    }

    /// executor mode: would a wake-driven executor poll call `i` now?
    fn runnable(&self, i: usize) -> bool {
        !self.exec || self.calls[i].npolls == 0 || self.calls[i].flag.0.load(Ordering::SeqCst)
    }

    /// the future of call `i` has not been polled yet and its caller is still busy
    fn deferred(&self, i: usize) -> bool {
        self.calls[i].npolls == 0 && self.el_ms(i) < self.calls[i].defer_ms
    }

    fn el_ms(&self, i: usize) -> u64 {
        (tokio::time::Instant::now() - self.calls[i].t0).as_millis() as u64
    }

    fn step_ready(&mut self, w: usize) -> Value {
        let before = self.wakers.counts();
        let waker = self.wakers.waker(w);
        let mut cx = Context::from_waker(&waker);
        let k = self.nready % self.svcs.len();
        self.nready += 1;
        let res = match catch(|| self.svcs[k].poll_ready(&mut cx)) {
            Ok(r) => r.to_string(),
            Err(m) => format!("panic: {m}"),
        };
        bump(&mut self.stats, &format!("ready:{}:{res}", self.acc), 1);
        json!({"ev": "ready", "w": w, "res": res, "woken": self.wakers.woken_since(&before),
               "unres": self.calls.len()})
    }

    fn step_call(&mut self, kind: &str, th: u64) -> Value {
        let before = self.wakers.counts();
        let (client_end, server_end) = tokio::io::duplex(1 << 20);
        let gate = Rc::new(RefCell::new(Gate {
            quota: 0,
            consumed: 0,
            inject: vec![],
            inject_pos: 0,
            eof: false,
            waker: None,
        }));
        let io = GatedIo::new(server_end, gate.clone());
        let mut res = String::new();
        let k = (self.ncall + 1) % self.svcs.len();   // readiness of one service is followed by a call on the other
        self.ncall += 1;
        let fut = match catch(|| self.svcs[k].call(io)) {
            Ok(f) => Some(f),
            Err(m) => {
                res = format!("panic: {m}");
                None
            }
        };
        // ----- the client for this script
        let lib = if self.rng.below(2) == 0 { "rustls" } else { "openssl" };
        let tie = th == self.t_ticks;
        let flavour: &str = match kind {
            "complete" if th == 0 => "open",
            "complete" if tie => "hold2",
            "complete" => ["hold1", "hold2"][self.rng.below(2)],
            "fail" if th == 0 => ["garbage0", "eof0", "drop0", "garbage1", "eof1"][self.rng.below(5)],
            "fail" => ["garbage0", "eof0", "drop0", "garbage1", "eof1"][self.rng.below(5)],
            _ => ["silent", "mute", "hello", "halfhello", "hello+3", "trickle", "trickle"][self.rng.below(7)],
        };
        let written = Rc::new(Cell::new(0u64));
        let cio = CountIo {
            inner: client_end,
            written: written.clone(),
        };
        let mut client = Client {
            fut: None,
            flag: new_flag(true),
            stream: None,
            err: None,
            raw: None,
            written,
        };
        if matches!(flavour, "garbage0" | "eof0" | "drop0" | "mute") {
            client.raw = Some(cio); // not a TLS client: writes nothing by itself
        } else {
            client.fut = Some(tls_client(lib, self.tls, cio));
        }
        let fire = match flavour {
            "open" | "hold1" | "hold2" => Fire::Open,
            "garbage0" | "garbage1" => Fire::Garbage,
            "eof0" | "eof1" => Fire::Eof,
            "drop0" => Fire::DropClient,
            "trickle" => Fire::Trickle, // half a hello now, the rest one tick later, then silence
            _ => Fire::Never,
        };
        // a stalling client, one time in three: the first poll comes 1 .. T-1 ticks after the call
        let defer_ms = if kind == "stall" && self.t_ticks > 1 && self.rng.below(3) == 0 {
            (1 + self.rng.below(self.t_ticks as usize - 1) as u64) * self.tick_ms
        } else {
            0
        };
        self.calls.push(Call {
            defer_ms,
            fut,
            flag: new_flag(true),
            t0: tokio::time::Instant::now(),
            gate: gate.clone(),
            client,
            fire,
            fire_at_ms: if fire == Fire::Trickle { self.tick_ms } else { th * self.tick_ms },
            fired: false,
            npolls: 0,
            migrated: false,
        });
        self.settle_clients(); // the TLS client writes its first flight
        let n1 = self.calls.last().unwrap().client.written.get();
        {
            let mut g = gate.borrow_mut();
            g.quota = match flavour {
                "open" | "drop0" => u64::MAX,
                "hold2" | "garbage1" | "eof1" | "hello" => n1,
                "halfhello" | "trickle" => n1 / 2,
                "hello+3" => n1 + 3,
                _ => 0,
            };
        }
        if self.calls.last().unwrap().fire_at_ms == 0 {
            let i = self.calls.len() - 1;
            self.fire(i);
        }
        bump(&mut self.stats, &format!("client:{kind}:{flavour}"), 1);
        json!({"ev": "call", "c": self.calls.len(), "kind": kind, "th": th, "res": res,
               "flavour": flavour, "lib": if self.calls.last().unwrap().client.raw.is_some() { "raw" } else { lib },
               "hello_bytes": n1, "woken": self.wakers.woken_since(&before), "unres": self.calls.len(),
               "defer_ms": defer_ms})
    }

    fn fire(&mut self, i: usize) {
        let c = &mut self.calls[i];
        if c.fired {
            return;
        }
        c.fired = true;
        let mut g = c.gate.borrow_mut();
        match c.fire {
            Fire::Never => {}
            Fire::Open => g.quota = u64::MAX,
            Fire::Garbage => {
                let mut v = GARBAGE.to_vec();
                v.extend_from_slice(&self.rng.bytes(24));
                g.inject = v;
            }
            Fire::Eof => g.eof = true,
            Fire::Trickle => g.quota = c.client.written.get().max(g.quota),
            Fire::DropClient => {
                c.client.raw = None; // the peer goes away: the duplex reports EOF
                c.client.fut = None;
            }
        }
        g.changed();
    }

    /// the finished or abandoned future of call `i` is dropped (this releases the guard)
    fn remove_call(&mut self, i: usize) -> Call {
        let mut c = self.calls.remove(i);
        let f = c.fut.take();
        let _ = catch(move || drop(f));
        c
    }

    fn finish_call(&mut self, i: usize, o: Outcome, el_ms: u64, out: &mut Vec<Value>, before: &[usize]) {
        let mut c = self.remove_call(i);
        let (res, err, server) = match o {
            Outcome::Ok(s) => ("ok", String::new(), Some(s)),
            Outcome::TlsErr(e) => ("tlserr", e, None),
            Outcome::Timeout => ("timeout", String::new(), None),
            Outcome::Service => ("service", String::new(), None),
        };
        bump(&mut self.stats, &format!("res:{}:{res}", self.acc), 1);
        if self.exec {
            bump(&mut self.stats, &format!("exec:res:{}:{res}", self.acc), 1);
            if res == "timeout" && c.npolls >= 3 {
                // timed out after having been polled again under another waker in between
                bump(&mut self.stats, &format!("exec:timeout_after_repoll:{}", self.acc), 1);
            }
        }
        out.push(json!({"ev": "poll", "c": i + 1, "res": res, "el_ms": el_ms, "err": err,
                        "woken": self.wakers.woken_since(before), "unres": self.calls.len()}));
        if let Some(mut server) = server {
            // data-intact clause (differential, not model-decided): bytes both ways, compared here
            // the client's handshake future finishes now (it may have been waiting for our flight)
            for _ in 0..8 {
                if c.client.fut.is_none() {
                    break;
                }
                let waker = Waker::from(c.client.flag.clone());
                let mut cx = Context::from_waker(&waker);
                if let Poll::Ready(r) = c.client.fut.as_mut().unwrap().as_mut().poll(&mut cx) {
                    c.client.fut = None;
                    match r {
                        Ok(s) => c.client.stream = Some(s),
                        Err(e) => c.client.err = Some(e),
                    }
                }
            }
            let mut sizes = vec![ECHO_SIZES[self.rng.below(ECHO_SIZES.len())], self.rng.below(3000)];
            if self.rng.below(8) == 0 {
                sizes = ECHO_SIZES.to_vec();
            }
            let (ok, detail, bytes) = match c.client.stream.as_mut() {
                None => (false, format!("client handshake did not finish: {:?}", c.client.err), 0),
                Some(cl) => {
                    let rng = &mut self.rng;
                    let sz = sizes.clone();
                    let r = drive(
                        async move {
                            let mut total = 0usize;
                            for n in sz {
                                let a = rng.bytes(n);
                                cl.write_all(&a).await.map_err(|e| format!("client write: {e}"))?;
                                cl.flush().await.map_err(|e| format!("client flush: {e}"))?;
                                let mut got = vec![0u8; n];
                                server.read_exact(&mut got).await.map_err(|e| format!("server read: {e}"))?;
                                if got != a {
                                    return Err(format!("client->server payload of {n} bytes differs"));
                                }
                                let b = rng.bytes(n);
                                server.write_all(&b).await.map_err(|e| format!("server write: {e}"))?;
                                server.flush().await.map_err(|e| format!("server flush: {e}"))?;
                                let mut got = vec![0u8; n];
                                cl.read_exact(&mut got).await.map_err(|e| format!("client read: {e}"))?;
                                if got != b {
                                    return Err(format!("server->client payload of {n} bytes differs"));
                                }
                                total += 2 * n;
                            }
                            Ok::<usize, String>(total)
                        },
                        64,
                    );
                    match r {
                        Ok(Ok(t)) => (true, String::new(), t),
                        Ok(Err(e)) => (false, e, 0),
                        Err(e) => (false, e, 0),
                    }
                }
            };
            bump(&mut self.stats, if ok { "echo_ok" } else { "echo_failed" }, 1);
            bump(&mut self.stats, "echo_bytes", bytes as u64);
            for s in &sizes {
                let k = if ECHO_SIZES.contains(s) { format!("echo_size:{s}") } else { "echo_size:random<3000".to_string() };
                bump(&mut self.stats, &k, 1);
            }
            out.push(json!({"ev": "echo", "c": i + 1, "ok": ok, "detail": detail, "sizes": sizes,
                            "bytes": bytes, "unres": self.calls.len()}));
        }
    }

    fn step_poll(&mut self, c: usize, out: &mut Vec<Value>) {
        let before = self.wakers.counts();
        if c == 0 || c > self.calls.len() {
            out.push(json!({"ev": "poll", "c": c, "res": "gone", "el_ms": 0, "err": "", "woken": [], "unres": self.calls.len()}));
            return;
        }
        let i = c - 1;
        let el_ms = self.el_ms(i);
        if !self.runnable(i) || self.deferred(i) {
            // executor mode: its current waker has not fired, so nobody polls it (or its caller is still busy)
            out.push(json!({"ev": "poll", "c": c, "res": "pending", "polled": false, "el_ms": el_ms, "err": "",
                            "woken": [], "unres": self.calls.len()}));
            return;
        }
        match self.poll_call(i) {
            Ok(Some(o)) => self.finish_call(i, o, el_ms, out, &before),
            Ok(None) => out.push(json!({"ev": "poll", "c": c, "res": "pending", "polled": true, "el_ms": el_ms, "err": "",
                                        "woken": self.wakers.woken_since(&before), "unres": self.calls.len()})),
            Err(m) => {
                self.remove_call(i);
                out.push(json!({"ev": "poll", "c": c, "res": format!("panic: {m}"), "el_ms": el_ms, "err": "",
                                "woken": self.wakers.woken_since(&before), "unres": self.calls.len()}));
            }
        }
    }

    fn step_drop(&mut self, c: usize) -> Value {
        let before = self.wakers.counts();
        if c == 0 || c > self.calls.len() {
            return json!({"ev": "drop", "c": c, "res": "gone", "woken": [], "unres": self.calls.len()});
        }
        self.remove_call(c - 1);
        json!({"ev": "drop", "c": c, "res": "", "woken": self.wakers.woken_since(&before), "unres": self.calls.len()})
    }

    /// polls every unresolved call; those that resolve although the schedule let time pass are `early`
    fn sweep(&mut self, early: &mut Vec<Value>, may_migrate: bool) {
        let mut i = 0;
        while i < self.calls.len() {
            if self.deferred(i) {
                i += 1;
                continue;
            }
            if !self.runnable(i) {
                // executor mode.  At most once per call: the future moves to another task, which
                // polls it under its own waker although nothing woke it.
                if may_migrate && !self.calls[i].migrated && self.rng.below(4) == 0 {
                    self.calls[i].migrated = true;
                    bump(&mut self.stats, "exec:migrations", 1);
                } else {
                    i += 1;
                    continue;
                }
            }
            let el_ms = self.el_ms(i);
            match self.poll_call(i) {
                Ok(None) => i += 1,
                Ok(Some(o)) => {
                    let res = match o {
                        Outcome::Ok(_) => "ok",
                        Outcome::TlsErr(_) => "tlserr",
                        Outcome::Timeout => "timeout",
                        Outcome::Service => "service",
                    };
                    early.push(json!({"c": i + 1, "res": res, "el_ms": el_ms}));
                    self.remove_call(i);
                }
                Err(m) => {
                    early.push(json!({"c": i + 1, "res": format!("panic: {m}"), "el_ms": el_ms}));
                    self.remove_call(i);
                }
            }
        }
    }

    /// one tick of virtual time.  Before the clock moves, and again 1 ms before the tick ends, every
    /// unresolved call is polled (an executor would have done so): none may be Ready.
    async fn step_advance(&mut self) -> Value {
        let before = self.wakers.counts();
        let start = tokio::time::Instant::now();
        let mut early = vec![];
        self.sweep(&mut early, true);
        tokio::time::advance(Duration::from_millis(self.tick_ms - 1)).await;
        self.sweep(&mut early, false);
        tokio::time::advance(Duration::from_millis(1)).await;
        let now = tokio::time::Instant::now();
        for i in 0..self.calls.len() {
            let due = self.calls[i].t0 + Duration::from_millis(self.calls[i].fire_at_ms);
            if !self.calls[i].fired && now >= due {
                self.fire(i);
            }
        }
        self.settle_clients();
        json!({"ev": "advance", "early": early, "moved_ms": (now - start).as_millis() as u64,
               "woken": self.wakers.woken_since(&before), "unres": self.calls.len()})
    }
}

/// required wake-up (if any) observed, results equal to the spec's
fn matches(exp: &Value, obs: &Value, tick_ms: u64) -> bool {
    let need = exp.get("woken").and_then(|x| x.as_i64()).unwrap_or(0);
    let woken_ok = need == 0
        || obs["woken"]
            .as_array()
            .map(|a| a.iter().any(|w| w.as_i64() == Some(need)))
            .unwrap_or(false);
    let unres_ok = exp.get("unres") == obs.get("unres");
    match gets(exp, "op") {
        "ready" => exp["res"] == obs["res"] && unres_ok,
        "call" => unres_ok && obs["res"] == "",
        "poll" => {
            exp["res"] == obs["res"]
                && obs["el_ms"].as_u64() == Some(geti(exp, "el") as u64 * tick_ms)
                && unres_ok
                && woken_ok
        }
        "drop" => unres_ok && woken_ok && obs["res"] == "",
        "advance" => unres_ok && obs["early"].as_array().map(|a| a.is_empty()).unwrap_or(false),
        _ => false,
    }
}

struct RunOut {
    recs: Vec<Value>,
    mismatch: Option<Value>,
    steps: usize,
    stats: BTreeMap<String, u64>,
}

/// `sched`: {"acc","limit","T","tick_ms","seed","ops":[..]}  or, with "random": n, n random steps
fn run_one(mat: &TlsMaterial, run: usize, sched: &Value) -> RunOut {
    let tls = &tls_ctx(mat);
    let acc = gets(sched, "acc").to_string();
    let limit = geti(sched, "limit") as usize;
    let t_ticks = geti(sched, "T") as u64;
    let tick_ms = geti(sched, "tick_ms") as u64;
    let seed = geti(sched, "seed") as u64;
    let random = sched.get("random").and_then(|x| x.as_u64()).unwrap_or(0);
    let exec = sched.get("exec").and_then(|x| x.as_bool()).unwrap_or(false);
    let maxcalls = sched.get("maxcalls").and_then(|x| x.as_u64()).unwrap_or(5) as usize;

    // thread-local counter: capacity = MAX_CONN at first use on this (fresh) thread
    accept::max_concurrent_tls_connect(limit);
    let rt = tokio::runtime::Builder::new_current_thread()
        .enable_time()
        .start_paused(true)
        .build()
        .expect("runtime");
    // all futures are polled by hand inside this one task: Tokio's cooperative budget must not make
    // the in-memory transports answer Pending
    rt.block_on(tokio::task::unconstrained(async {
        let timeout = Duration::from_millis(t_ticks * tick_ms);
        let mut r = Run {
            tls,
            svcs: if acc == "mixed" {
                vec![Svc::build("rustls", tls, timeout), Svc::build("openssl", tls, timeout)]
            } else {
                vec![Svc::build(&acc, tls, timeout)]
            },
            nready: 0,
            ncall: 0,
            wakers: Wakers::new(2),
            calls: vec![],
            rng: Rng::new(seed),
            t_ticks,
            tick_ms,
            acc: acc.clone(),
            exec,
            stats: BTreeMap::new(),
        };
        let mut recs = vec![json!({"ev": "reset", "run": run, "acc": acc, "limit": limit, "T": t_ticks,
                                   "tick_ms": tick_ms, "timeout_ms": t_ticks * tick_ms, "seed": seed,
                                   "mode": if exec { "exec" } else { "hand" }})];
        let mut mismatch = None;
        let mut steps = 0usize;
        if random == 0 {
            for (k, exp) in sched["ops"].as_array().unwrap().iter().enumerate() {
                let mut out = vec![];
                match gets(exp, "op") {
                    "ready" => out.push(r.step_ready(geti(exp, "w") as usize)),
                    "call" => out.push(r.step_call(gets(exp, "kind"), geti(exp, "th") as u64)),
                    "poll" => r.step_poll(geti(exp, "c") as usize, &mut out),
                    "drop" => out.push(r.step_drop(geti(exp, "c") as usize)),
                    "advance" => out.push(r.step_advance().await),
                    other => panic!("driver: unknown op {other}"),
                }
                steps += 1;
                let echo_bad = out.iter().any(|o| o["ev"] == "echo" && o["ok"] != true);
                if mismatch.is_none() && exp.get("res").is_some() && (!matches(exp, &out[0], tick_ms) || echo_bad) {
                    mismatch = Some(json!({"run": run, "step": k, "expected": exp,
                                           "observed": if echo_bad { out[out.len() - 1].clone() } else { out[0].clone() }}));
                }
                recs.extend(out);
            }
        } else {
            let mut rng = Rng::new(seed ^ 0xABCDEF);
            for _ in 0..random {
                let mut out = vec![];
                let n = r.calls.len();
                match rng.below(20) {
                    0..=4 => out.push(r.step_ready(1 + rng.below(2))),
                    5..=9 if n < maxcalls => {
                        let kind = ["complete", "complete", "fail", "stall"][rng.below(4)];
                        let th = if kind == "stall" { 0 } else { rng.below(t_ticks as usize + 2) as u64 };
                        out.push(r.step_call(kind, th));
                    }
                    10..=12 if n > 0 => r.step_poll(1 + rng.below(n), &mut out),
                    13 if n > 0 => out.push(r.step_drop(1 + rng.below(n))),
                    14..=19 if n > 0 => {
                        // an executor polls what is due before time moves on
                        let mut c = 1;
                        while c <= r.calls.len() {
                            let len = r.calls.len();
                            r.step_poll(c, &mut out);
                            if r.calls.len() == len {
                                c += 1;
                            }
                        }
                        if !r.calls.is_empty() {
                            out.push(r.step_advance().await);
                        }
                    }
                    _ => {}
                }
                steps += out.iter().filter(|o| o["ev"] != "echo").count();
                recs.extend(out);
            }
        }
        // abandon what is left (releases the guards before the thread ends)
        while !r.calls.is_empty() {
            r.remove_call(0);
        }
        RunOut {
            recs,
            mismatch,
            steps,
            stats: r.stats,
        }
    }))
}

// ------------------------------------------------------------------------------------------
// data-intact clause under transport back-pressure (differential; `vtls data`)
// ------------------------------------------------------------------------------------------
/// One accepted stream per (acceptor, transport buffer size): the handshake and every transfer run with BOTH ends
/// polled concurrently over an in-memory transport whose buffer is much smaller than the payload, so that a write
/// completes only while the peer is reading.  `write_all` + `flush` on one side must make exactly those bytes arrive
/// on the other, with nothing written afterwards.  Time is virtual (paused clock): a transfer that can make no
/// progress runs into the time-out at once instead of hanging.
fn data_run(mat: &TlsMaterial, acc: &str, buf: usize, seed: u64) -> Vec<Value> {
    use tokio::time::timeout;
    let tls = &tls_ctx(mat);
    accept::max_concurrent_tls_connect(8);
    let rt = tokio::runtime::Builder::new_current_thread()
        .enable_time()
        .start_paused(true)
        .build()
        .expect("runtime");
    let mut rng = Rng::new(seed);
    let acc = acc.to_string();
    rt.block_on(async move {
        let mut out = vec![];
        let svc = Svc::build(&acc, tls, Duration::from_secs(30));
        let (client_end, server_end) = tokio::io::duplex(buf);
        let gate = Rc::new(RefCell::new(Gate { quota: u64::MAX, consumed: 0, inject: vec![], inject_pos: 0, eof: false, waker: None }));
        let sfut = svc.call(GatedIo::new(server_end, gate));
        let cfut = tls_client(if rng.below(2) == 0 { "rustls" } else { "openssl" }, tls,
                              CountIo { inner: client_end, written: Rc::new(Cell::new(0)) });
        let hs = timeout(Duration::from_secs(60), async { tokio::join!(sfut, cfut) }).await;
        let (mut server, mut client) = match hs {
            Ok((Outcome::Ok(s), Ok(c))) => (s, c),
            Ok((_, c)) => {
                out.push(json!({"ev": "data", "acc": acc, "buf": buf, "n": 0, "dir": "handshake", "ok": false,
                                "detail": format!("handshake failed (client: {:?})", c.err())}));
                return out;
            }
            Err(_) => {
                out.push(json!({"ev": "data", "acc": acc, "buf": buf, "n": 0, "dir": "handshake", "ok": false, "detail": "handshake made no progress"}));
                return out;
            }
        };
        let mut sizes = vec![1usize, 1000, 16383, 16384, 16385, 48 * 1024, 65536, 1 + rng.below(70000)];
        sizes.push(0);
        for (ni, n) in sizes.into_iter().enumerate() {
            for dir in ["s2c", "c2s"] {
                // every other size goes through write_vectored
                let vectored = ni % 2 == 1 && n >= 3;
                let chunk = [usize::MAX, 1024, 257][rng.below(3)];
                let payload = rng.bytes(n);
                let (w, r): (&mut Box<dyn Rw>, &mut Box<dyn Rw>) = if dir == "s2c" { (&mut server, &mut client) } else { (&mut client, &mut server) };
                let p2 = payload.clone();
                let res = timeout(Duration::from_secs(60), async {
                    let wr = async {
                        if vectored {
                            // the payload as three slices (head, body, tail) written with write_vectored; whatever the
                            // stream reports as written is taken as written
                            let cuts = [n / 10, n - n / 3];
                            let mut done = 0usize;
                            while done < n {
                                let parts: Vec<&[u8]> = [&p2[..cuts[0]], &p2[cuts[0]..cuts[1]], &p2[cuts[1]..]]
                                    .into_iter()
                                    .scan(0usize, |off, sl| {
                                        let start = *off;
                                        *off += sl.len();
                                        Some((start, sl))
                                    })
                                    .filter(|(start, sl)| start + sl.len() > done)
                                    .map(|(start, sl)| if start >= done { sl } else { &sl[done - start..] })
                                    .collect();
                                let ios: Vec<std::io::IoSlice<'_>> = parts.iter().map(|sl| std::io::IoSlice::new(sl)).collect();
                                let k = w.write_vectored(&ios).await.map_err(|e| format!("write_vectored: {e}"))?;
                                if k == 0 {
                                    return Err("write_vectored wrote 0 bytes".to_string());
                                }
                                done += k;
                            }
                        } else {
                            w.write_all(&p2).await.map_err(|e| format!("write: {e}"))?;
                        }
                        w.flush().await.map_err(|e| format!("flush: {e}"))?;
                        Ok::<(), String>(())
                    };
                    let rd = async {
                        // the reader's buffer is the whole payload, 1 KiB or 257 bytes at a time (less than a TLS record:
                        // plaintext that is already decrypted must be handed out without waiting for the transport)
                        let mut got = vec![0u8; n];
                        let mut off = 0usize;
                        while off < n {
                            let end = off.saturating_add(chunk).min(n);
                            let k = r.read(&mut got[off..end]).await.map_err(|e| format!("read: {e}"))?;
                            if k == 0 {
                                return Err("read: early eof".to_string());
                            }
                            off += k;
                        }
                        Ok::<Vec<u8>, String>(got)
                    };
                    tokio::join!(wr, rd)
                })
                .await;
                let (ok, detail) = match res {
                    Ok((Ok(()), Ok(got))) => (got == payload, if got == payload { String::new() } else { "payload differs".to_string() }),
                    Ok((w, r)) => (false, format!("{:?} / {:?}", w.err(), r.err().map(|e| e))),
                    Err(_) => (false, "flushed bytes never reached the peer (no progress)".to_string()),
                };
                out.push(json!({"ev": "data", "acc": acc, "buf": buf, "n": n, "dir": dir, "vectored": vectored, "ok": ok, "detail": detail}));
                if !ok {
                    return out;
                }
            }
        }
        out
    })
}

fn data_main() {
    let mut trace = Trace::create(&arg("--trace").expect("--trace"));
    let seed: u64 = arg("--seed").map(|x| x.parse().unwrap()).unwrap_or(1);
    let rounds: usize = arg("--rounds").map(|x| x.parse().unwrap()).unwrap_or(1);
    let mat = Arc::new(tls_material());
    let (mut n, mut bad, mut bytes) = (0usize, vec![], 0u64);
    for round in 0..rounds {
        for acc in ["rustls", "openssl"] {
            for buf in [1usize << 20, 16384, 4096, 1024] {
                let m = mat.clone();
                let s = seed.wrapping_mul(1000003).wrapping_add((round * 8 + buf % 7) as u64);
                // a fresh thread per stream: the handshake counter is thread-local
                let recs = std::thread::spawn(move || catch(|| data_run(&m, acc, buf, s)))
                    .join()
                    .unwrap_or_else(|_| Err("driver thread panicked".into()));
                let recs = match recs {
                    Ok(r) => r,
                    Err(msg) => vec![json!({"ev": "data", "acc": acc, "buf": buf, "n": 0, "dir": "panic", "ok": false, "detail": msg})],
                };
                for r in recs {
                    n += 1;
                    if r["ok"] == true {
                        bytes += r["n"].as_u64().unwrap_or(0);
                    } else if bad.len() < 10 {
                        bad.push(r.clone());
                    }
                    trace.emit(&r);
                }
            }
        }
    }
    trace.finish();
    println!("{}", json!({"runs": n, "steps": n, "bytes": bytes, "mismatches": bad.len(), "first_mismatches": bad}));
}

fn main() {
    quiet_panics();
    let mode = std::env::args().nth(1).expect("mode");
    if mode == "data" {
        return data_main();
    }
    assert_eq!(mode, "accept", "unknown mode");
    let trace_path = arg("--trace").expect("--trace");
    let mut trace = Trace::create(&trace_path);
    let tls = Arc::new(tls_material());

    let mut jobs: Vec<Value> = vec![];
    if let Some(n) = arg("--random") {
        let n: usize = n.parse().unwrap();
        let seed: u64 = arg("--seed").unwrap().parse().unwrap();
        let len: u64 = arg("--len").map(|x| x.parse().unwrap()).unwrap_or(40);
        let accs: Vec<&str> = match arg("--acc").as_deref() {
            Some("rustls") => vec!["rustls"],
            Some("openssl") => vec!["openssl"],
            _ => vec!["rustls", "openssl"],
        };
        let mut rng = Rng::new(seed ^ 0x5151);
        for k in 0..n {
            let t = 2 + rng.below(4) as u64; // 2..5 ticks
            let timeout_ms = [100u64, 1500, 5000][rng.below(3)];
            let tick_ms = (timeout_ms + t - 1) / t.max(1);
            let tick_ms = if tick_ms * t > 5000 { 5000 / t } else { tick_ms };
            jobs.push(json!({"acc": accs[k % accs.len()], "limit": 1 + rng.below(3), "T": t, "tick_ms": tick_ms,
                             "seed": rng.next() >> 16, "random": len, "maxcalls": 5}));
        }
    }
    let nrandom = jobs.len();
    if let Some(p) = arg("--schedules") {
        jobs.extend(read_ndjson(&p));
    }

    // Runs with the same limit may run side by side (each still on its own fresh thread): the
    // process-wide MAX_CONN is then not changed while any of them can read it.
    let par: usize = arg("--jobs").map(|x| x.parse().unwrap()).unwrap_or(4).max(1);
    let results: Vec<std::sync::Mutex<Option<RunOut>>> = jobs.iter().map(|_| std::sync::Mutex::new(None)).collect();
    for limit in 0..=16i64 {
        let idx: Vec<usize> = (0..jobs.len()).filter(|k| geti(&jobs[*k], "limit") == limit).collect();
        if idx.is_empty() {
            continue;
        }
        accept::max_concurrent_tls_connect(limit as usize);
        let next = std::sync::atomic::AtomicUsize::new(0);
        std::thread::scope(|sc| {
            for _ in 0..par.min(idx.len()) {
                sc.spawn(|| loop {
                    let n = next.fetch_add(1, Ordering::SeqCst);
                    if n >= idx.len() {
                        break;
                    }
                    let k = idx[n];
                    // runs are numbered per kind: random runs first, then schedules 0..
                    let run = if k < nrandom { k } else { k - nrandom };
                    let tls2 = tls.clone();
                    let job2 = jobs[k].clone();
                    let h = std::thread::Builder::new()
                        .name(format!("run-{k}"))
                        .spawn(move || run_one(&tls2, run, &job2))
                        .expect("spawn");
                    match h.join() {
                        Ok(out) => *results[k].lock().unwrap() = Some(out),
                        Err(_) => {
                            eprintln!("driver: run {k} panicked outside the code under test: {}", jobs[k]);
                            std::process::exit(3);
                        }
                    }
                });
            }
        });
    }
    let mut mismatches: Vec<Value> = vec![];
    let mut steps = 0usize;
    let mut stats: BTreeMap<String, u64> = BTreeMap::new();
    for (k, job) in jobs.iter().enumerate() {
        let out = results[k].lock().unwrap().take().expect("driver: a run has a limit outside 0..16");
        for r in &out.recs {
            trace.emit(r);
        }
        steps += out.steps;
        if let Some(m) = out.mismatch {
            mismatches.push(m);
        }
        bump(&mut stats, &format!("runs:{}", gets(job, "acc")), 1);
        if job.get("exec").and_then(|x| x.as_bool()).unwrap_or(false) {
            bump(&mut stats, &format!("exec:runs:{}", gets(job, "acc")), 1);
        }
        for (s, n) in out.stats {
            bump(&mut stats, &s, n);
        }
    }
    trace.finish();
    println!(
        "{}",
        json!({"runs": jobs.len(), "steps": steps, "mismatches": mismatches.len(),
               "first_mismatches": mismatches.iter().take(20).collect::<Vec<_>>(), "stats": stats})
    );
}
