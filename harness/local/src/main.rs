//! Conformance driver for local-channel (C16) and actix_utils::counter::Counter / LocalWaker (C17).
//!
//! `vlocal chan --schedules F --trace T`   replay TLC-derived operation sequences on the real channel
//! `vlocal chan --random N --len L --seed S --trace T`   seeded random sequences (judged by TLC only)
//! `vlocal counter ...` / `vlocal lwaker ...`  same for Counter and LocalWaker
//!
//! Every step is recorded as one ndjson record of *observed* results; when a schedule carries the
//! spec's expected result the first disagreement per run is reported on stdout (JSON summary).

use std::{
    collections::BTreeMap,
    pin::Pin,
    task::{Context, Poll},
};

use actix_utils::counter::{Counter, CounterGuard};
use futures_core::Stream;
use local_channel::mpsc;
use local_waker::LocalWaker;
use vcore::{arg, catch, geti, gets, json, quiet_panics, read_ndjson, Trace, Value, Wakers};

struct Rng(u64);
impl Rng {
    fn next(&mut self) -> u64 {
        self.0 ^= self.0 << 13;
        self.0 ^= self.0 >> 7;
        self.0 ^= self.0 << 17;
        self.0
    }
    fn below(&mut self, n: usize) -> usize {
        (self.next() % n as u64) as usize
    }
}

fn expected_ok(exp: &Value, obs: &Value) -> bool {
    if exp.get("res").is_none() {
        return true; // random mode: no expectation attached
    }
    let woken_ok = {
        let need = exp.get("woken").and_then(|x| x.as_i64()).unwrap_or(0);
        need == 0
            || obs["woken"]
                .as_array()
                .unwrap()
                .iter()
                .any(|w| w.as_i64() == Some(need))
    };
    exp["res"] == obs["res"] && exp["val"] == obs["val"] && woken_ok
}

// ------------------------------------------------------------------------------------------
// channel
// ------------------------------------------------------------------------------------------
struct Chan {
    senders: BTreeMap<i64, mpsc::Sender<i64>>,
    rx: Option<mpsc::Receiver<i64>>,
    next_sid: i64,
    nsent: i64,
    wakers: Wakers,
}

impl Chan {
    fn new() -> Self {
        let (tx, rx) = mpsc::channel();
        let mut senders = BTreeMap::new();
        senders.insert(1, tx);
        Chan {
            senders,
            rx: Some(rx),
            next_sid: 2,
            nsent: 0,
            wakers: Wakers::new(2),
        }
    }

    /// executes one operation, returns the observation record (without run/seq)
    fn step(&mut self, op: &str, sid: i64, w: i64) -> Value {
        let before = self.wakers.counts();
        let mut res = String::new();
        let mut val = 0i64;
        let r = catch(|| match op {
            "send" => {
                self.nsent += 1;
                val = self.nsent;
                res = match self.senders[&sid].send(self.nsent) {
                    Ok(()) => "ok".into(),
                    Err(e) => {
                        assert_eq!(e.into_inner(), self.nsent);
                        "err".into()
                    }
                };
            }
            "clone" => {
                let c = self.senders[&sid].clone();
                val = self.next_sid;
                self.senders.insert(self.next_sid, c);
                self.next_sid += 1;
            }
            "rxsender" => {
                let c = self.rx.as_ref().unwrap().sender();
                val = self.next_sid;
                self.senders.insert(self.next_sid, c);
                self.next_sid += 1;
            }
            "dropsender" => {
                drop(self.senders.remove(&sid));
            }
            "close" => {
                self.senders.get_mut(&sid).unwrap().close();
            }
            "poll" => {
                let waker = self.wakers.waker(w as usize);
                let mut cx = Context::from_waker(&waker);
                match Pin::new(self.rx.as_mut().unwrap()).poll_next(&mut cx) {
                    Poll::Ready(Some(v)) => {
                        res = "some".into();
                        val = v;
                    }
                    Poll::Ready(None) => res = "none".into(),
                    Poll::Pending => res = "pending".into(),
                }
            }
            "droprx" => {
                drop(self.rx.take());
            }
            other => panic!("driver: unknown op {other}"),
        });
        if let Err(msg) = r {
            res = format!("panic: {msg}");
        }
        json!({"ev": op, "sid": sid, "w": w, "res": res, "val": val,
               "woken": self.wakers.woken_since(&before)})
    }

    /// end of a run: the remaining senders, then the receiver, are dropped; a panic of the code under test in a
    /// destructor is data like any other panic
    fn teardown(&mut self) -> Value {
        let r = catch(|| {
            let sids: Vec<i64> = self.senders.keys().cloned().collect();
            for sid in sids {
                drop(self.senders.remove(&sid));
            }
            drop(self.rx.take());
        });
        let res = match r {
            Ok(()) => String::new(),
            Err(msg) => format!("panic: {msg}"),
        };
        json!({"ev": "teardown", "sid": 0, "w": 0, "res": res, "val": 0, "woken": []})
    }

    fn random_op(&self, rng: &mut Rng) -> (String, i64, i64) {
        loop {
            let k = rng.below(9);
            let sids: Vec<i64> = self.senders.keys().cloned().collect();
            let pick = |rng: &mut Rng| sids[rng.below(sids.len())];
            match k {
                0 | 1 | 2 if !sids.is_empty() => return ("send".into(), pick(rng), 0),
                3 if !sids.is_empty() && sids.len() < 3 => return ("clone".into(), pick(rng), 0),
                4 if !sids.is_empty() && rng.below(2) == 0 => {
                    return ("dropsender".into(), pick(rng), 0)
                }
                5 if !sids.is_empty() && rng.below(4) == 0 => return ("close".into(), pick(rng), 0),
                6 | 7 if self.rx.is_some() => return ("poll".into(), 0, 1 + rng.below(2) as i64),
                8 if self.rx.is_some() && sids.len() < 3 && rng.below(3) == 0 => {
                    return ("rxsender".into(), 0, 0)
                }
                8 if self.rx.is_some() && rng.below(12) == 0 => return ("droprx".into(), 0, 0),
                _ => {
                    if sids.is_empty() && self.rx.is_none() {
                        return ("".into(), 0, 0);
                    }
                }
            }
        }
    }
}

// ------------------------------------------------------------------------------------------
// Counter
// ------------------------------------------------------------------------------------------
struct Cnt {
    counters: Vec<Counter>, // clones, all sharing one count
    guards: BTreeMap<i64, CounterGuard>,
    next_gid: i64,
    wakers: Wakers,
}

impl Cnt {
    fn new(cap: usize) -> Self {
        Cnt {
            counters: vec![Counter::new(cap)],
            guards: BTreeMap::new(),
            next_gid: 1,
            wakers: Wakers::new(2),
        }
    }
    /// ops: get(c) -> guard id; drop(g); avail(c, w) -> bool; clone(c); every record carries total()
    fn step(&mut self, op: &str, a: i64, w: i64, inl: bool) -> Value {
        let before = self.wakers.counts();
        let mut res = String::new();
        let mut val = 0i64;
        let inline: std::rc::Rc<std::cell::RefCell<String>> = std::rc::Rc::new(std::cell::RefCell::new("none".into()));
        if op == "drop" && inl {
            // the woken task polls `available` again from inside the wake-up
            let c = self.counters[0].clone();
            let out = inline.clone();
            vcore::WAKE_HOOK.with(|h| {
                *h.borrow_mut() = Some(Box::new(move |_id, waker| {
                    let cx = Context::from_waker(&waker);
                    *out.borrow_mut() = if c.available(&cx) { "true".into() } else { "false".into() };
                }))
            });
        }
        let r = catch(|| match op {
            "get" => {
                let g = self.counters[a as usize].get();
                val = self.next_gid;
                self.guards.insert(self.next_gid, g);
                self.next_gid += 1;
            }
            "drop" => {
                drop(self.guards.remove(&a));
            }
            "avail" => {
                let waker = self.wakers.waker(w as usize);
                let cx = Context::from_waker(&waker);
                res = if self.counters[a as usize].available(&cx) {
                    "true".into()
                } else {
                    "false".into()
                };
            }
            "clone" => {
                let c = self.counters[a as usize].clone();
                self.counters.push(c);
                val = self.counters.len() as i64 - 1;
            }
            other => panic!("driver: unknown op {other}"),
        });
        if let Err(msg) = r {
            res = format!("panic: {msg}");
        }
        vcore::WAKE_HOOK.with(|h| h.borrow_mut().take());
        // a panic of total() is an observation (recorded as an impossible count)
        let totals: Vec<i64> = self.counters.iter().map(|c| catch(|| c.total() as i64).unwrap_or(-1)).collect();
        let inline = inline.borrow().clone();
        json!({"ev": op, "a": a, "w": w, "res": res, "val": val, "inl": inl, "inline": inline,
               "woken": self.wakers.woken_since(&before), "totals": totals})
    }
}

// ------------------------------------------------------------------------------------------
// LocalWaker
// ------------------------------------------------------------------------------------------
/// A re-entrant waker: wraps counting waker `id`; when its last clone is dropped it calls `wake()` on the LocalWaker it
/// is used with (a parked task that owns a guard of the gate it is parked on).
struct ReW {
    inner: std::task::Waker,
    lw: std::rc::Rc<LocalWaker>,
}
impl Drop for ReW {
    fn drop(&mut self) {
        self.lw.wake();
    }
}
mod rew {
    use super::ReW;
    use std::{rc::Rc, task::{RawWaker, RawWakerVTable, Waker}};
    static VT: RawWakerVTable = RawWakerVTable::new(clone, wake, wake_by_ref, drop_w);
    unsafe fn clone(p: *const ()) -> RawWaker {
        Rc::increment_strong_count(p as *const ReW);
        RawWaker::new(p, &VT)
    }
    unsafe fn wake(p: *const ()) {
        let r = Rc::from_raw(p as *const ReW);
        r.inner.wake_by_ref();
        drop(r);
    }
    unsafe fn wake_by_ref(p: *const ()) {
        (*(p as *const ReW)).inner.wake_by_ref();
    }
    unsafe fn drop_w(p: *const ()) {
        drop(Rc::from_raw(p as *const ReW));
    }
    /// single-threaded use only (LocalWaker is !Send anyway)
    pub fn waker(r: Rc<ReW>) -> Waker {
        unsafe { Waker::from_raw(RawWaker::new(Rc::into_raw(r) as *const (), &VT)) }
    }
}

struct Lw {
    lw: std::rc::Rc<LocalWaker>,
    wakers: Wakers,
    taken: Vec<std::task::Waker>,
    /// data pointers of the re-entrant wakers handed out, by waker id (identity for `take`)
    re_ptrs: Vec<(usize, *const ())>,
}

impl Lw {
    fn new() -> Self {
        Lw {
            lw: std::rc::Rc::new(LocalWaker::new()),
            wakers: Wakers::new(2),
            taken: vec![],
            re_ptrs: vec![],
        }
    }
    fn step(&mut self, op: &str, w: i64, re: bool) -> Value {
        let before = self.wakers.counts();
        let mut res = String::new();
        let mut val = 0i64;
        let r = catch(|| match op {
            "register" => {
                let waker = if re {
                    let wk = rew::waker(std::rc::Rc::new(ReW { inner: self.wakers.waker(w as usize), lw: self.lw.clone() }));
                    self.re_ptrs.push((w as usize, wk.data()));
                    wk
                } else {
                    self.wakers.waker(w as usize)
                };
                res = if self.lw.register(&waker) { "true".into() } else { "false".into() };
                // our own handle goes away here: the LocalWaker holds the only clone
            }
            "wake" => self.lw.wake(),
            "take" => match self.lw.take() {
                Some(wk) => {
                    // identify the waker by identity
                    for id in 1..=2usize {
                        if wk.will_wake(&self.wakers.waker(id)) {
                            val = id as i64;
                        }
                    }
                    if let Some((id, _)) = self.re_ptrs.iter().rev().find(|(_, p)| *p == wk.data()) {
                        val = *id as i64;
                    }
                    res = "some".into();
                    self.taken.push(wk);
                }
                None => res = "none".into(),
            },
            other => panic!("driver: unknown op {other}"),
        });
        if let Err(msg) = r {
            res = format!("panic: {msg}");
        }
        json!({"ev": op, "w": w, "re": re, "res": res, "val": val, "woken": self.wakers.woken_since(&before)})
    }
}

impl Lw {
    /// wakers taken out are dropped while the LocalWaker is still alive, then the stored one (a re-entrant waker calls
    /// back into the LocalWaker from its destructor; a panic there is an observation)
    fn teardown(&mut self) -> Value {
        let r = catch(|| {
            self.taken.clear();
            let _ = self.lw.take();
        });
        json!({"ev": "teardown", "w": 0, "re": false, "val": 0, "woken": [], "res": match r { Ok(()) => String::new(), Err(m) => format!("panic: {m}") }})
    }
}

fn exp_eq(exp: &Value, obs: &Value, keys: &[&str]) -> bool {
    if exp.get("res").is_none() {
        return true;
    }
    keys.iter().all(|k| exp.get(*k) == obs.get(*k))
}

fn main() {
    quiet_panics();
    let mode = std::env::args().nth(1).expect("mode");
    let trace_path = arg("--trace").expect("--trace");
    let mut trace = Trace::create(&trace_path);
    let mut mismatches: Vec<Value> = vec![];
    let mut runs = 0usize;
    let mut steps = 0usize;

    let schedules: Vec<Value> = match arg("--schedules") {
        Some(p) => read_ndjson(&p),
        None => vec![],
    };

    match mode.as_str() {
        "chan" => {
            if let Some(n) = arg("--random") {
                let n: usize = n.parse().unwrap();
                let len: usize = arg("--len").unwrap().parse().unwrap();
                let mut rng = Rng(arg("--seed").unwrap().parse::<u64>().unwrap() * 2654435761 + 1);
                for run in 0..n {
                    let mut ch = Chan::new();
                    trace.emit(&json!({"ev": "reset", "run": run}));
                    for _ in 0..len {
                        let (op, sid, w) = ch.random_op(&mut rng);
                        if op.is_empty() {
                            break;
                        }
                        let mut obs = ch.step(&op, sid, w);
                        obs["run"] = json!(run);
                        trace.emit(&obs);
                        steps += 1;
                    }
                    let mut obs = ch.teardown();
                    obs["run"] = json!(run);
                    trace.emit(&obs);
                    std::mem::forget(ch);
                    runs += 1;
                }
            }
            for (run, sch) in schedules.iter().enumerate() {
                let mut ch = Chan::new();
                trace.emit(&json!({"ev": "reset", "run": run}));
                let mut bad = false;
                for (k, exp) in sch.as_array().unwrap().iter().enumerate() {
                    let mut obs = ch.step(gets(exp, "op"), geti(exp, "sid"), geti(exp, "w"));
                    obs["run"] = json!(run);
                    trace.emit(&obs);
                    steps += 1;
                    if !bad && !expected_ok(exp, &obs) {
                        bad = true;
                        mismatches.push(json!({"run": run, "step": k, "expected": exp, "observed": obs}));
                    }
                }
                let mut obs = ch.teardown();
                obs["run"] = json!(run);
                if !bad && obs["res"] != "" {
                    mismatches.push(json!({"run": run, "step": sch.as_array().unwrap().len(), "expected": {"op": "teardown", "res": ""}, "observed": obs}));
                }
                trace.emit(&obs);
                std::mem::forget(ch);
                runs += 1;
            }
        }
        "counter" => {
            for (run, sch) in schedules.iter().enumerate() {
                let cap = geti(sch, "cap");
                let mut c = Cnt::new(cap as usize);
                trace.emit(&json!({"ev": "reset", "run": run, "cap": cap}));
                let mut bad = false;
                for (k, exp) in sch["ops"].as_array().unwrap().iter().enumerate() {
                    let inl = exp.get("inl").and_then(|x| x.as_bool()).unwrap_or(false);
                    let mut obs = c.step(gets(exp, "op"), geti(exp, "a"), geti(exp, "w"), inl);
                    obs["run"] = json!(run);
                    trace.emit(&obs);
                    steps += 1;
                    let total_ok = exp.get("total").is_none()
                        || obs["totals"]
                            .as_array()
                            .unwrap()
                            .iter()
                            .all(|t| Some(t) == exp.get("total"));
                    let inline_ok = exp.get("inline").is_none() || exp["inline"] == obs["inline"];
                    if !bad && !(expected_ok(exp, &obs) && total_ok && inline_ok) {
                        bad = true;
                        mismatches.push(json!({"run": run, "step": k, "expected": exp, "observed": obs}));
                    }
                }
                runs += 1;
            }
        }
        "lwaker" => {
            for (run, sch) in schedules.iter().enumerate() {
                let mut c = Lw::new();
                trace.emit(&json!({"ev": "reset", "run": run}));
                let mut bad = false;
                for (k, exp) in sch.as_array().unwrap().iter().enumerate() {
                    let mut obs = c.step(gets(exp, "op"), geti(exp, "w"), exp.get("re").and_then(|x| x.as_bool()).unwrap_or(false));
                    obs["run"] = json!(run);
                    trace.emit(&obs);
                    steps += 1;
                    let woken_exact = exp.get("wokenset").is_none() || exp["wokenset"] == obs["woken"];
                    if !bad && !(exp_eq(exp, &obs, &["res", "val"]) && woken_exact) {
                        bad = true;
                        mismatches.push(json!({"run": run, "step": k, "expected": exp, "observed": obs}));
                    }
                }
                let mut obs = c.teardown();
                obs["run"] = json!(run);
                if !bad && obs["res"] != "" {
                    mismatches.push(json!({"run": run, "step": sch.as_array().unwrap().len(), "expected": {"op": "teardown", "res": ""}, "observed": obs}));
                }
                trace.emit(&obs);
                std::mem::forget(c);
                runs += 1;
            }
        }
        other => panic!("unknown mode {other}"),
    }
    trace.finish();
    println!(
        "{}",
        json!({"runs": runs, "steps": steps, "mismatches": mismatches.len(),
               "first_mismatches": mismatches.iter().take(20).collect::<Vec<_>>()})
    );
}
