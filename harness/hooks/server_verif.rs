// actix_server::verif (compiled only with --cfg actix_net_verif).
//
// A deterministic, single-threaded "stepped" engine around the REAL accept loop, waker queue,
// counters, availability bits, worker futures and kernel sockets:
//   * `Sim::iterate` runs one iteration of the real `Accept::poll_with` loop (mio poll never blocks:
//     a bare wake is fired first);
//   * workers are real `ServerWorker` futures polled by hand on this thread inside a LocalSet of a
//     process-wide current-thread Tokio runtime with a paused (virtual) clock;
//   * services are scripted (`SimService`): readiness answers come from a script, calls are logged with
//     the worker, the token the service was built for and the peer address (= connection identity),
//     and the connection stays in progress until the environment says `Finish`;
//   * `point()` yield points inside the accept loop call back into the engine so that environment
//     actions can be placed between two shared-memory operations of the accept thread.
// Everything the engine reports is measured (channel lengths, raw counters, sockets' EOF state, the
// service-side log), never copied from the schedule.

use std::{
    cell::{Cell, RefCell},
    collections::{HashMap, HashSet, VecDeque},
    future::Future,
    io::{self, Read as _},
    marker::PhantomData,
    panic::{catch_unwind, AssertUnwindSafe},
    pin::Pin,
    rc::Rc,
    sync::{
        atomic::{AtomicBool, Ordering},
        Arc, Mutex, OnceLock,
    },
    task::{Context, Poll, Wake, Waker},
    time::Duration,
};

use actix_service::{Service, ServiceFactory};
use tokio::sync::{mpsc::UnboundedReceiver, oneshot};

use crate::{
    accept::verif::Stepped,
    server::ServerCommand,
    service::{InternalServiceFactory, StreamNewService},
    socket::{FromStream, MioListener, MioStream},
    waker_queue::{WakerInterest, WakerQueue},
    worker::{self, verif::BuiltWorker},
    ServerHandle,
};

// ------------------------------------------------------------------------------------------------
// hook entry points called from the instrumented code
// ------------------------------------------------------------------------------------------------
thread_local! {
    static STEPPED: Cell<bool> = Cell::new(false);
    static ITER_DONE: Cell<bool> = Cell::new(false);
    static IN_ACCEPT_HOOK: Cell<bool> = Cell::new(false);
    #[allow(clippy::type_complexity)]
    static POINT_CB: RefCell<Option<Box<dyn FnMut(&'static str, usize)>>> = RefCell::new(None);
    static INJECT: RefCell<VecDeque<(String, i32)>> = RefCell::new(VecDeque::new());
    static ACCEPTED_CB: RefCell<Option<Box<dyn FnMut(String)>>> = RefCell::new(None);
}

/// Called at the end of every `poll_with` loop iteration.
pub(crate) fn stepped() -> bool {
    let s = STEPPED.with(|c| c.get());
    if s {
        ITER_DONE.with(|c| c.set(true));
    }
    s
}

thread_local! {
    static STOP_GAP_MS: Cell<u64> = Cell::new(0);
}

/// End-to-end scenarios: the server's command loop (running on the CALLING thread) pauses for `ms` milliseconds
/// between waking the accept thread with `Stop` and sending `Stop` to the workers - a preemption of the server thread at
/// that point, made long enough for the other threads to run.
pub fn set_stop_gap_ms(ms: u64) {
    STOP_GAP_MS.with(|c| c.set(ms));
}

/// Called by `handle_cmd(Stop)` right after the accept thread has been told to stop.
pub(crate) fn stop_gap() {
    let ms = STOP_GAP_MS.with(|c| c.get());
    if ms > 0 {
        std::thread::sleep(Duration::from_millis(ms));
    }
}

type SrvHandlesCb = Box<dyn FnMut(usize, Vec<(usize, bool)>)>;
thread_local! {
    static SRV_HANDLES_CB: RefCell<Option<SrvHandlesCb>> = RefCell::new(None);
}

/// End-to-end scenarios: observer of the server's own worker-handle vector, called on the thread that polls the
/// `Server` future after every `WorkerFaulted` command with the faulted index and (idx, still listening) per handle.
pub fn set_srv_handles_cb(cb: SrvHandlesCb) {
    SRV_HANDLES_CB.with(|c| *c.borrow_mut() = Some(cb));
}

/// Called by `handle_cmd(WorkerFaulted)` after the replacement handle has been stored.
pub(crate) fn srv_handles(idx: usize, handles: Vec<(usize, bool)>) {
    let cb = SRV_HANDLES_CB.with(|c| c.borrow_mut().take());
    if let Some(mut cb) = cb {
        cb(idx, handles);
        SRV_HANDLES_CB.with(|c| *c.borrow_mut() = Some(cb));
    }
}

/// Yield point inside the accept thread.
pub(crate) fn point(kind: &'static str, arg: usize) {
    if !STEPPED.with(|c| c.get()) {
        return;
    }
    let cb = POINT_CB.with(|c| c.borrow_mut().take());
    if let Some(mut cb) = cb {
        cb(kind, arg);
        POINT_CB.with(|c| *c.borrow_mut() = Some(cb));
    }
}

fn listener_key(l: &MioListener) -> String {
    format!("{}", l.local_addr())
}

fn stream_peer_key(s: &MioStream) -> String {
    match s {
        MioStream::Tcp(t) => t.peer_addr().map(|a| a.to_string()).unwrap_or_default(),
        MioStream::Uds(u) => u
            .peer_addr()
            .ok()
            .and_then(|a| a.as_pathname().map(|p| p.display().to_string()))
            .unwrap_or_default(),
    }
}

/// Wraps `MioListener::accept`: optional one-shot error injection, then the real accept (re-entering
/// the function with the hook disabled), then a yield point.
pub(crate) fn accept_hook(l: &MioListener) -> Option<io::Result<MioStream>> {
    if !STEPPED.with(|c| c.get()) || IN_ACCEPT_HOOK.with(|c| c.get()) {
        return None;
    }
    let key = listener_key(l);
    let injected = INJECT.with(|q| {
        let mut q = q.borrow_mut();
        q.iter().position(|(k, _)| *k == key).map(|p| q.remove(p).unwrap().1)
    });
    let res = match injected {
        Some(errno) => Err(io::Error::from_raw_os_error(errno)),
        None => {
            IN_ACCEPT_HOOK.with(|c| c.set(true));
            let r = l.accept();
            IN_ACCEPT_HOOK.with(|c| c.set(false));
            r
        }
    };
    let code = match &res {
        Ok(s) => {
            let peer = stream_peer_key(s);
            let cb = ACCEPTED_CB.with(|c| c.borrow_mut().take());
            if let Some(mut cb) = cb {
                cb(peer);
                ACCEPTED_CB.with(|c| *c.borrow_mut() = Some(cb));
            }
            0
        }
        Err(e) if e.kind() == io::ErrorKind::WouldBlock => 1,
        Err(_) => 2,
    };
    point("accepted", code);
    Some(res)
}

// ------------------------------------------------------------------------------------------------
// runtime (process wide, paused clock)
// ------------------------------------------------------------------------------------------------
fn rt() -> &'static tokio::runtime::Runtime {
    static RT: OnceLock<tokio::runtime::Runtime> = OnceLock::new();
    RT.get_or_init(|| {
        tokio::runtime::Builder::new_current_thread()
            .enable_all()
            .start_paused(true)
            .build()
            .expect("runtime")
    })
}

thread_local! {
    static ENTERED: Cell<bool> = Cell::new(false);
}

/// The runtime context stays entered on this thread for the rest of the process (the guard is leaked
/// on purpose: plain synchronous code of the accept loop reads the virtual clock through it).
fn ensure_entered() {
    ENTERED.with(|e| {
        if !e.get() {
            e.set(true);
            std::mem::forget(rt().enter());
        }
    });
}

pub fn now_ms() -> u64 {
    static START: OnceLock<tokio::time::Instant> = OnceLock::new();
    ensure_entered();
    let s = *START.get_or_init(tokio::time::Instant::now);
    (tokio::time::Instant::now() - s).as_millis() as u64
}

struct FlagWaker(AtomicBool);
impl Wake for FlagWaker {
    fn wake(self: Arc<Self>) {
        self.0.store(true, Ordering::SeqCst);
    }
    fn wake_by_ref(self: &Arc<Self>) {
        self.0.store(true, Ordering::SeqCst);
    }
}

// ------------------------------------------------------------------------------------------------
// scripted services
// ------------------------------------------------------------------------------------------------
#[derive(Debug, Clone)]
pub enum SvcEvent {
    /// factory `create` resolved for (worker, token); ok = result
    Create { worker: usize, token: usize, ok: bool },
    /// poll_ready answer: 0 pending, 1 ready, 2 error
    Ready { worker: usize, token: usize, inst: usize, ans: u8 },
    /// service call with the connection's peer key
    Call { worker: usize, token: usize, inst: usize, gen: usize, peer: String },
}

#[derive(Default)]
struct Shared {
    log: Vec<SvcEvent>,
    ready_script: HashMap<(usize, usize), VecDeque<u8>>,
    create_script: HashMap<(usize, usize), VecDeque<u8>>, // 0 = one Pending poll, 1 = Ok, 2 = Err
    instances: HashMap<(usize, usize), usize>,
    finish: HashSet<String>,
    conn_wakers: HashMap<String, Waker>,
    live: HashMap<String, (usize, usize, usize)>, // peer -> (worker, token, worker generation): service future alive
    done: Vec<String>,                     // peers whose service future completed
}

type Sh = Arc<Mutex<Shared>>;

pub trait PeerKey {
    fn peer_key(&self) -> String;
}
impl PeerKey for actix_rt::net::TcpStream {
    fn peer_key(&self) -> String {
        self.peer_addr().map(|a| a.to_string()).unwrap_or_default()
    }
}
impl PeerKey for actix_rt::net::UnixStream {
    fn peer_key(&self) -> String {
        self.peer_addr()
            .ok()
            .and_then(|a| a.as_pathname().map(|p| p.display().to_string()))
            .unwrap_or_default()
    }
}

struct SimService<Io> {
    worker: usize,
    token: usize,
    inst: usize,
    gen: usize,
    sh: Sh,
    _p: PhantomData<fn(Io)>,
}

struct ConnFut<Io> {
    io: Option<Io>,
    peer: String,
    sh: Sh,
}

impl<Io> Unpin for ConnFut<Io> {}

impl<Io> Future for ConnFut<Io> {
    type Output = Result<(), ()>;
    fn poll(mut self: Pin<&mut Self>, cx: &mut Context<'_>) -> Poll<Self::Output> {
        let mut s = self.sh.lock().unwrap();
        if s.finish.contains(&self.peer) {
            let peer = self.peer.clone();
            s.done.push(peer);
            drop(s);
            self.io.take();
            Poll::Ready(Ok(()))
        } else {
            let peer = self.peer.clone();
            s.conn_wakers.insert(peer, cx.waker().clone());
            Poll::Pending
        }
    }
}

impl<Io> Drop for ConnFut<Io> {
    fn drop(&mut self) {
        if let Ok(mut s) = self.sh.lock() {
            s.live.remove(&self.peer);
            s.conn_wakers.remove(&self.peer);
        }
    }
}

impl<Io: PeerKey + 'static> Service<Io> for SimService<Io> {
    type Response = ();
    type Error = ();
    type Future = ConnFut<Io>;

    fn poll_ready(&self, _: &mut Context<'_>) -> Poll<Result<(), ()>> {
        let mut s = self.sh.lock().unwrap();
        let ans = s
            .ready_script
            .get_mut(&(self.worker, self.token))
            .and_then(|q| q.pop_front())
            .unwrap_or(1);
        s.log.push(SvcEvent::Ready {
            worker: self.worker,
            token: self.token,
            inst: self.inst,
            ans,
        });
        match ans {
            0 => Poll::Pending,
            1 => Poll::Ready(Ok(())),
            _ => Poll::Ready(Err(())),
        }
    }

    fn call(&self, io: Io) -> Self::Future {
        let peer = io.peer_key();
        let mut s = self.sh.lock().unwrap();
        s.log.push(SvcEvent::Call {
            worker: self.worker,
            token: self.token,
            inst: self.inst,
            gen: self.gen,
            peer: peer.clone(),
        });
        s.live.insert(peer.clone(), (self.worker, self.token, self.gen));
        drop(s);
        ConnFut {
            io: Some(io),
            peer,
            sh: self.sh.clone(),
        }
    }
}

struct SimFactory<Io> {
    worker: usize,
    token: usize,
    gen: usize,
    sh: Sh,
    _p: PhantomData<fn(Io)>,
}

struct CreateFut<Io> {
    worker: usize,
    token: usize,
    gen: usize,
    sh: Sh,
    _p: PhantomData<fn(Io)>,
}

impl<Io> Future for CreateFut<Io> {
    type Output = Result<SimService<Io>, ()>;
    fn poll(self: Pin<&mut Self>, _: &mut Context<'_>) -> Poll<Self::Output> {
        let mut s = self.sh.lock().unwrap();
        let step = s
            .create_script
            .get_mut(&(self.worker, self.token))
            .and_then(|q| q.pop_front())
            .unwrap_or(1);
        match step {
            0 => Poll::Pending, // the worker is polled by hand; no waker needed
            1 => {
                let inst = {
                    let e = s.instances.entry((self.worker, self.token)).or_insert(0);
                    *e += 1;
                    *e
                };
                s.log.push(SvcEvent::Create {
                    worker: self.worker,
                    token: self.token,
                    ok: true,
                });
                Poll::Ready(Ok(SimService {
                    worker: self.worker,
                    token: self.token,
                    inst,
                    gen: self.gen,
                    sh: self.sh.clone(),
                    _p: PhantomData,
                }))
            }
            _ => {
                s.log.push(SvcEvent::Create {
                    worker: self.worker,
                    token: self.token,
                    ok: false,
                });
                Poll::Ready(Err(()))
            }
        }
    }
}

impl<Io: PeerKey + 'static> ServiceFactory<Io> for SimFactory<Io> {
    type Response = ();
    type Error = ();
    type Config = ();
    type Service = SimService<Io>;
    type InitError = ();
    type Future = CreateFut<Io>;

    fn new_service(&self, _: ()) -> Self::Future {
        CreateFut {
            worker: self.worker,
            token: self.token,
            gen: self.gen,
            sh: self.sh.clone(),
            _p: PhantomData,
        }
    }
}

fn make_factory<Io>(worker: usize, token: usize, gen: usize, sh: Sh) -> Box<dyn InternalServiceFactory>
where
    Io: FromStream + PeerKey + Send + 'static,
{
    let f = move || SimFactory::<Io> {
        worker,
        token,
        gen,
        sh: sh.clone(),
        _p: PhantomData,
    };
    StreamNewService::<_, Io>::create(
        format!("l{token}"),
        token,
        f,
        "127.0.0.1:8080".parse().unwrap(),
    )
}

// ------------------------------------------------------------------------------------------------
// the engine
// ------------------------------------------------------------------------------------------------
#[derive(Debug, Clone, Copy, PartialEq, Eq)]
pub enum LKind {
    Tcp,
    Uds,
}

#[derive(Debug, Clone)]
pub struct SimCfg {
    pub workers: usize,
    pub limit: usize,
    pub listeners: Vec<LKind>,
    pub shutdown_timeout_ms: u64,
    /// directory for unix socket paths (must exist, unique per run)
    pub dir: String,
}

/// Environment actions (the schedule alphabet).
#[derive(Debug, Clone)]
pub enum Act {
    Connect(usize),
    WorkerPoll(usize),
    Finish(usize),
    Kill(usize),
    Replace(usize),
    Pause,
    Resume,
    Stop,
    WakeAvailable(usize),
    Inject(usize, i32),
    Advance(u64),
    StopWorker(usize, bool),
    SetReady(usize, usize, Vec<u8>),
    SetCreate(usize, usize, Vec<u8>),
    /// append one answer to the readiness script of (worker, token): 0 pending, 1 ready, 2 error
    PushReady(usize, usize, u8),
    /// append one answer to the factory script of (worker, token): 0 one pending poll
    PushCreate(usize, usize, u8),
    DropStopHandle(usize),
}

enum ClientSock {
    Tcp(std::net::TcpStream),
    Uds(std::os::unix::net::UnixStream),
    None,
}

struct Client {
    sock: ClientSock,
    key: String,
    listener: usize,
    connect_errno: i32, // 0 = connected
}

struct WorkerSlot {
    built: Option<BuiltWorker>, // None: killed
    done: bool,                 // worker future returned Ready
    gen: usize,
    flag: Arc<FlagWaker>,
    stop_rx: Option<oneshot::Receiver<bool>>,
    stop_reply: i8, // -1 none yet, 0 false, 1 true, 2 sender dropped
    stop_reply_at: i64,
}

struct LInfo {
    kind: LKind,
    target: String, // address clients connect to
    key: String,    // what MioListener::local_addr displays
    path: Option<String>,
}

struct Env {
    local: tokio::task::LocalSet,
    wq: WakerQueue,
    cfg: SimCfg,
    sh: Sh,
    workers: Vec<WorkerSlot>,
    listeners: Vec<LInfo>,
    clients: Vec<Client>,
    accepted: Vec<usize>,            // cids in accept order
    dispatched: Vec<(usize, usize, usize)>, // (cid, worker idx, worker generation) in dispatch order
    replaced: Vec<usize>,                   // fault reports already answered by a Replace
    skipped: Vec<String>,                   // environment actions that were not applicable
    dclean: Vec<bool>,               // per dispatch: no disturbance of the rotation right after it
    dload: Vec<usize>,               // per dispatch: queued + in progress at the target right after the send
    dafterfail: Vec<bool>,           // per dispatch: an earlier send of the same connection failed (a fault was found)
    davail: Vec<usize>,              // per dispatch: availability bits (by worker index) at the inc yield point
    dmaxload: Vec<usize>,            // per dispatch: largest queued + in progress over all workers right after the send
    faults_at_accept: usize,         // number of fault reports when the connection in hand was accepted
    in_hand: Option<usize>,
    handles_at_turn: usize,
    faults_at_turn: usize,
    mask_at_turn: usize,
    dmarked: Vec<bool>,
    last_pr: &'static str,           // the pause/resume command pushed last (in the order the pushes really happened)
    dturn: Vec<(usize, bool)>,       // per dispatch: handles in the rotation right after it; every handle was marked available at its last turn
    points: Vec<(String, usize)>,
    anchored: Vec<(String, usize, Act, bool)>, // kind, nth (1-based, per iteration), action, fired
    point_counts: HashMap<String, usize>,
    turns: usize,
    max_turns: usize,
    faults: Vec<usize>,
    cmd_rx: UnboundedReceiver<ServerCommand>,
    svc_seen: usize,
    engine_errors: Vec<String>,
    /// accepted connections the accept thread dropped without dispatching them: (cid, no handle was left)
    dropped: Vec<(usize, bool)>,
    /// per applied `Finish`: (cid, the connection's service future was alive at that moment)
    finish_log: Vec<(usize, bool)>,
}

pub struct Sim {
    /// faithful mode (default): an iteration runs only if the real `poll` would return (pending event, or an expired
    /// back-off deadline with a poll timeout set); otherwise the accept thread is blocked and nothing happens.
    /// With `false` every iteration is forced by a bare wake of the poller.
    pub faithful: bool,
    pub blocked_iterations: usize,
    /// what the last call of `iterate*` did: (an iteration of the real loop ran, it was started by a bare wake,
    /// indices of anchored actions whose yield point was not reached and that were applied afterwards)
    pub last_iter: (bool, bool, Vec<(usize, bool)>),
    st: Stepped,
    env: Rc<RefCell<Env>>,
    pub exited: bool,
    pub panicked: Option<String>,
    pub iterations: usize,
}

#[derive(Debug, Clone, Default)]
pub struct Snap {
    pub now_ms: u64,
    pub avail: Vec<bool>,
    pub any_avail: bool,
    pub handles: Vec<usize>,
    pub next: usize,
    pub paused: bool,
    pub timeout_ms: i64,
    pub sock_backoff: Vec<bool>,
    pub sock_expired: Vec<bool>,
    pub sock_remain_ms: Vec<i64>,
    /// per worker: its waker has fired since its last poll (a poll is owed)
    pub wwoken: Vec<bool>,
    pub wq: Vec<String>,
    pub counter: Vec<i64>,
    pub chan: Vec<i64>,
    pub alive: Vec<bool>,
    pub wdone: Vec<bool>,
    pub wgen: Vec<usize>,
    pub wstate: Vec<String>,
    pub sstatus: Vec<Vec<String>>,
    pub stop_reply: Vec<i8>,
    pub stop_reply_at: Vec<i64>,
    /// per connection id
    pub listener: Vec<usize>,
    pub connected: Vec<bool>,
    pub connect_errno: Vec<i32>,
    pub closed: Vec<bool>,
    pub accepted: Vec<usize>,
    pub dispatched: Vec<(usize, usize, usize)>,
    pub in_hand: i64,
    /// service-side: (cid, worker, token, instance, worker generation) in call order
    pub calls: Vec<(i64, usize, usize, usize, usize)>,
    pub dclean: Vec<bool>,
    pub dload: Vec<usize>,
    pub dafterfail: Vec<bool>,
    pub dmaxload: Vec<usize>,
    pub davail: Vec<usize>,
    /// per dispatch: the target's availability bit was set at the last turn of the rotation (or no bit was set at all)
    pub dmarked: Vec<bool>,
    /// per dispatch: handles in the rotation right after it; every handle was marked available at its last turn
    pub dturn: Vec<(usize, bool)>,
    /// the pause/resume command pushed last ("" if none), in the order the pushes really happened
    pub last_pr: String,
    pub inprog: Vec<Vec<usize>>,
    pub finished: Vec<usize>,
    pub uds_path: Vec<bool>,
    pub faults: Vec<usize>,
    pub exited: bool,
    pub panicked: String,
    pub points: Vec<(String, usize)>,
    pub anchors_missed: usize,
    pub replaced: Vec<usize>,
    pub skipped: Vec<String>,
    /// service-side events since the previous snapshot: (kind, worker, token, value) with value = answer for
    /// "ready", connection id for "call", 1/0 for "create"
    pub svc_new: Vec<(String, usize, usize, i64)>,
    pub dropped: Vec<(usize, bool)>,
    pub engine_errors: Vec<String>,
    pub scripts_empty: bool,
    /// injected accept errors not yet consumed, per listener (read off the injection queue itself)
    pub inject_left: Vec<usize>,
    pub finish_log: Vec<(usize, bool)>,
}

fn interest_name(i: &WakerInterest) -> String {
    match i {
        WakerInterest::WorkerAvailable(i) => format!("WA{i}"),
        WakerInterest::Pause => "Pause".into(),
        WakerInterest::Resume => "Resume".into(),
        WakerInterest::Stop => "Stop".into(),
        WakerInterest::Worker(h) => format!("WK{}", h.idx()),
        #[allow(unreachable_patterns)]
        _ => "Other".into(),
    }
}

impl Env {
    fn block_on<F: Future>(&self, f: F) -> F::Output {
        self.local.block_on(rt(), f)
    }

    /// let spawned local tasks (service futures) make progress
    fn drain_local(&self) {
        self.block_on(async {
            for _ in 0..4 {
                tokio::task::yield_now().await;
            }
        });
    }

    /// drains the server command channel (WorkerFaulted reports of the accept thread)
    fn collect_faults(&mut self) {
        while let Ok(cmd) = self.cmd_rx.try_recv() {
            if let ServerCommand::WorkerFaulted(idx) = cmd {
                self.faults.push(idx);
            }
        }
    }

    fn mark_last_dispatch_dirty(&mut self) {
        if let Some(l) = self.dclean.last_mut() {
            *l = false;
        }
    }

    /// queued + in progress at worker i (all generations: conservative)
    fn load(&self, i: usize) -> usize {
        let q = self.workers[i]
            .built
            .as_ref()
            .map(|b| worker::verif::queue_len(&b.fut))
            .unwrap_or(0);
        let live = self.sh.lock().unwrap().live.values().filter(|(w, _, _)| *w == i).count();
        q + live
    }

    /// queued + in progress at the CURRENT generation of worker i (connections of a dead generation do not count)
    fn load_gen(&self, i: usize) -> usize {
        let Some(slot) = self.workers.get(i) else { return 0 };
        let q = slot.built.as_ref().map(|b| worker::verif::queue_len(&b.fut)).unwrap_or(0);
        let gen = slot.gen;
        let live = self.sh.lock().unwrap().live.values().filter(|(w, _, g)| *w == i && *g == gen).count();
        q + live
    }

    fn cid_of_peer(&self, peer: &str) -> i64 {
        self.clients
            .iter()
            .position(|c| c.key == peer)
            .map(|p| p as i64)
            .unwrap_or(-1)
    }

    fn factories_for(&self, worker: usize, gen: usize) -> Vec<Box<dyn InternalServiceFactory>> {
        self.listeners
            .iter()
            .enumerate()
            .map(|(token, l)| match l.kind {
                LKind::Tcp => make_factory::<actix_rt::net::TcpStream>(worker, token, gen, self.sh.clone()),
                LKind::Uds => make_factory::<actix_rt::net::UnixStream>(worker, token, gen, self.sh.clone()),
            })
            .collect()
    }

    fn build_worker(&self, idx: usize, gen: usize) -> BuiltWorker {
        let factories = self.factories_for(idx, gen);
        let wq = self.wq.clone();
        let limit = self.cfg.limit;
        let st = Duration::from_millis(self.cfg.shutdown_timeout_ms);
        // initial creation is not scripted (scripts apply to restarts)
        self.block_on(async move { worker::verif::build(idx, factories, wq, limit, st).await })
            .expect("initial service creation")
    }

    fn apply(&mut self, act: &Act) {
        match act {
            Act::Connect(l) => self.connect(*l),
            Act::WorkerPoll(i) => self.worker_poll(*i),
            Act::Finish(cid) => {
                // a schedule may name a connection that does not exist (yet): not applicable
                if *cid >= self.clients.len() {
                    self.skipped.push(format!("Finish({cid})"));
                    return;
                }
                let key = self.clients[*cid].key.clone();
                let w = {
                    let mut s = self.sh.lock().unwrap();
                    let live = s.live.contains_key(&key);
                    self.finish_log.push((*cid, live));
                    s.finish.insert(key.clone());
                    s.conn_wakers.remove(&key)
                };
                if let Some(w) = w {
                    w.wake();
                }
                self.drain_local();
            }
            Act::Kill(i) => {
                // the worker future (queue receiver first) goes away; connections it already called stay
                // alive as local tasks until TearDown (= Finish of such a connection)
                self.workers[*i].built = None;
                self.mark_last_dispatch_dirty();
            }
            Act::Replace(i) => {
                // the server replaces a worker only in response to a WorkerFaulted(i) report
                self.collect_faults();
                let reported = self.faults.iter().filter(|f| **f == *i).count();
                let answered = self.replaced.iter().filter(|f| **f == *i).count();
                if reported <= answered || self.workers[*i].built.is_some() {
                    self.skipped.push(format!("Replace({i})"));
                    return;
                }
                self.replaced.push(*i);
                let gen = self.workers[*i].gen + 1;
                let mut built = self.build_worker(*i, gen);
                let handle = built.accept.take().unwrap();
                self.mark_last_dispatch_dirty();
                self.workers[*i] = WorkerSlot {
                    built: Some(built),
                    done: false,
                    gen,
                    flag: Arc::new(FlagWaker(AtomicBool::new(true))),
                    stop_rx: None,
                    stop_reply: -1,
                    stop_reply_at: -1,
                };
                self.wq.wake(WakerInterest::Worker(handle));
            }
            Act::Pause => {
                self.last_pr = "Pause";
                self.wq.wake(WakerInterest::Pause)
            }
            Act::Resume => {
                self.last_pr = "Resume";
                self.wq.wake(WakerInterest::Resume)
            }
            Act::Stop => self.wq.wake(WakerInterest::Stop),
            Act::WakeAvailable(i) => self.wq.wake(WakerInterest::WorkerAvailable(*i)),
            Act::Inject(l, errno) => {
                let key = self.listeners[*l].key.clone();
                INJECT.with(|q| q.borrow_mut().push_back((key, *errno)));
            }
            Act::Advance(ms) => {
                let d = Duration::from_millis(*ms);
                self.block_on(async move { tokio::time::advance(d).await });
                self.drain_local();
            }
            Act::StopWorker(i, graceful) => {
                if let Some(b) = self.workers[*i].built.as_ref() {
                    let rx = b.server.stop(*graceful);
                    self.workers[*i].stop_rx = Some(rx);
                    self.workers[*i].flag.0.store(true, Ordering::SeqCst);
                }
            }
            Act::DropStopHandle(i) => {
                self.workers[*i].stop_rx = None;
            }
            Act::SetReady(w, t, script) => {
                self.sh
                    .lock()
                    .unwrap()
                    .ready_script
                    .insert((*w, *t), script.iter().cloned().collect());
            }
            Act::PushReady(w, t, a) => {
                self.sh.lock().unwrap().ready_script.entry((*w, *t)).or_default().push_back(*a);
            }
            Act::PushCreate(w, t, a) => {
                self.sh.lock().unwrap().create_script.entry((*w, *t)).or_default().push_back(*a);
            }
            Act::SetCreate(w, t, script) => {
                self.sh
                    .lock()
                    .unwrap()
                    .create_script
                    .insert((*w, *t), script.iter().cloned().collect());
            }
        }
    }

    fn connect(&mut self, l: usize) {
        let cid = self.clients.len();
        let li = &self.listeners[l];
        let client = match li.kind {
            LKind::Tcp => match std::net::TcpStream::connect(&li.target) {
                Ok(s) => {
                    s.set_nonblocking(true).unwrap();
                    let key = s.local_addr().unwrap().to_string();
                    Client {
                        sock: ClientSock::Tcp(s),
                        key,
                        listener: l,
                        connect_errno: 0,
                    }
                }
                Err(e) => Client {
                    sock: ClientSock::None,
                    key: format!("failed-{cid}"),
                    listener: l,
                    connect_errno: e.raw_os_error().unwrap_or(-1),
                },
            },
            LKind::Uds => {
                use socket2::{Domain, SockAddr, Socket, Type};
                let cpath = format!("{}/c{}.sock", self.cfg.dir, cid);
                let _ = std::fs::remove_file(&cpath);
                let sock = Socket::new(Domain::UNIX, Type::STREAM, None).unwrap();
                sock.bind(&SockAddr::unix(&cpath).unwrap()).unwrap();
                match sock.connect(&SockAddr::unix(&li.target).unwrap()) {
                    Ok(()) => {
                        let s: std::os::unix::net::UnixStream = sock.into();
                        s.set_nonblocking(true).unwrap();
                        Client {
                            sock: ClientSock::Uds(s),
                            key: cpath,
                            listener: l,
                            connect_errno: 0,
                        }
                    }
                    Err(e) => Client {
                        sock: ClientSock::None,
                        key: format!("failed-{cid}"),
                        listener: l,
                        connect_errno: e.raw_os_error().unwrap_or(-1),
                    },
                }
            }
        };
        self.clients.push(client);
    }

    fn worker_poll(&mut self, i: usize) {
        let slot = &mut self.workers[i];
        if slot.done {
            return;
        }
        let Some(built) = slot.built.as_mut() else {
            return;
        };
        let waker = Waker::from(slot.flag.clone());
        slot.flag.0.store(false, Ordering::SeqCst);
        let fut = built.fut.as_mut();
        let done = self.local.block_on(rt(), async move {
            let mut fut = fut;
            std::future::poll_fn(move |_| {
                let mut cx = Context::from_waker(&waker);
                Poll::Ready(fut.as_mut().poll(&mut cx).is_ready())
            })
            .await
        });
        if done {
            self.workers[i].done = true;
            // a finished worker future is dropped by its task: queue ends close
            self.workers[i].built = None;
        }
        self.poll_stop_replies();
        self.drain_local();
    }

    fn poll_stop_replies(&mut self) {
        let now = now_ms() as i64;
        for w in self.workers.iter_mut() {
            if w.stop_reply == -1 {
                if let Some(rx) = w.stop_rx.as_mut() {
                    match rx.try_recv() {
                        Ok(v) => {
                            w.stop_reply = v as i8;
                            w.stop_reply_at = now;
                        }
                        Err(oneshot::error::TryRecvError::Closed) => {
                            w.stop_reply = 2;
                            w.stop_reply_at = now;
                        }
                        Err(oneshot::error::TryRecvError::Empty) => {}
                    }
                }
            }
        }
    }

    /// workers whose waker fired since their last poll (timer, channel, stop message)
    fn woken_workers(&self) -> Vec<usize> {
        self.workers
            .iter()
            .enumerate()
            .filter(|(_, w)| w.built.is_some() && !w.done && w.flag.0.load(Ordering::SeqCst))
            .map(|(i, _)| i)
            .collect()
    }

    fn client_closed(&mut self, cid: usize) -> bool {
        let mut buf = [0u8; 8];
        let r = match &mut self.clients[cid].sock {
            ClientSock::Tcp(s) => s.read(&mut buf),
            ClientSock::Uds(s) => s.read(&mut buf),
            ClientSock::None => return false,
        };
        match r {
            Ok(0) => true,
            Ok(_) => false,
            Err(e) if e.kind() == io::ErrorKind::WouldBlock => false,
            Err(_) => true, // reset
        }
    }

    fn on_point(&mut self, kind: &'static str, arg: usize) {
        // (the "turn" point carries the number of handles in its upper bits; the recorded argument is `next` as before)
        let turn_handles = (arg >> 16) & 0xffff;
        let turn_mask = arg >> 32;
        let arg = if kind == "turn" { arg & 0xffff } else { arg };
        self.points.push((kind.to_string(), arg));
        match kind {
            "turn" => {
                // handles in the rotation / faults reported so far, at the last turn of the connection in hand
                self.collect_faults();
                self.handles_at_turn = turn_handles;
                self.mask_at_turn = turn_mask;
                self.faults_at_turn = self.faults.len();
                self.turns += 1;
                if self.turns > self.max_turns {
                    panic!("verif-spin: accept_one loop turned {} times without dispatching", self.turns);
                }
                return;
            }
            "sent" => {
                self.turns = 0;
                if let Some(cid) = self.in_hand.take() {
                    let gen = self.workers.get(arg).map(|w| w.gen).unwrap_or(0);
                    self.dispatched.push((cid, arg, gen));
                    // the target was marked available at the last turn of the rotation, or nobody was (forced hand-over)
                    self.dmarked.push(self.mask_at_turn == 0 || self.mask_at_turn & (1 << arg) != 0);
                    self.dturn.push((0, self.handles_at_turn > 0 && self.mask_at_turn.count_ones() as usize >= self.handles_at_turn));
                    self.dclean.push(true);
                    self.collect_faults();
                    self.dload.push(self.load_gen(arg));
                    self.dafterfail.push(self.faults.len() > self.faults_at_accept);
                    self.dmaxload.push((0..self.cfg.workers).map(|i| self.load_gen(i)).max().unwrap_or(0));
                }
            }
            "accepted" => {
                self.turns = 0;
                self.collect_faults();
                self.faults_at_accept = self.faults.len();
            }
            "inc" => {
                // rotation disturbed right after this dispatch? (a handle marked unavailable, a worker at
                // the limit, or not all workers in the rotation)
                let nh = (arg & 0xffff) >> 1;
                let any_false = arg & 1 == 1;
                // the accept thread's availability bits right after this dispatch (the bits of the OTHER workers are the
                // ones the rotation saw when it chose the target)
                while self.davail.len() < self.dispatched.len() {
                    self.davail.push(arg >> 16);
                }
                if let Some(t) = self.dturn.last_mut() {
                    t.0 = nh;
                }
                let loaded = (0..self.cfg.workers).any(|i| self.load(i) >= self.cfg.limit);
                if any_false || nh != self.cfg.workers || loaded {
                    self.mark_last_dispatch_dirty();
                }
            }
            _ => {}
        }
        let n = {
            let e = self.point_counts.entry(kind.to_string()).or_insert(0);
            *e += 1;
            *e
        };
        let due: Vec<usize> = self
            .anchored
            .iter()
            .enumerate()
            .filter(|(_, (k, nth, _, fired))| !*fired && k == kind && *nth == n)
            .map(|(i, _)| i)
            .collect();
        for i in due {
            self.anchored[i].3 = true;
            // marker for the strict trace: anchored action i was applied right after this yield point
            self.points.push(("fired".to_string(), i));
            let act = self.anchored[i].2.clone();
            let skipped_before = self.skipped.len();
            // a panic of the ENGINE while applying an environment action must not be mistaken for a panic of the
            // accept thread: it is recorded and turned into a tool error by the driver
            let r = catch_unwind(AssertUnwindSafe(|| self.apply(&act)));
            if self.skipped.len() > skipped_before {
                self.points.push(("skipped".to_string(), i)); // the action was not applicable (strict trace: no-op)
            }
            if let Err(p) = r {
                let msg = p
                    .downcast_ref::<&str>()
                    .map(|s| s.to_string())
                    .or_else(|| p.downcast_ref::<String>().cloned())
                    .unwrap_or_else(|| "panic".into());
                self.engine_errors.push(format!("{act:?}: {msg}"));
            }
        }
    }
}

impl Sim {
    pub fn new(cfg: SimCfg) -> io::Result<Sim> {
        ensure_entered();
        let _ = now_ms();
        let poll = mio::Poll::new()?;
        let wq = WakerQueue::new(poll.registry())?;
        let (cmd_tx, cmd_rx) = tokio::sync::mpsc::unbounded_channel();
        let srv = ServerHandle::new(cmd_tx);

        let mut listeners = vec![];
        let mut sockets = vec![];
        for (token, kind) in cfg.listeners.iter().enumerate() {
            match kind {
                LKind::Tcp => {
                    // listen backlog 1024: schedules may leave more than 128 clients pending (std's default backlog)
                    let std_l: std::net::TcpListener = {
                        use socket2::{Domain, Socket, Type};
                        let s = Socket::new(Domain::IPV4, Type::STREAM, None)?;
                        s.bind(&"127.0.0.1:0".parse::<std::net::SocketAddr>().unwrap().into())?;
                        s.listen(1024)?;
                        s.into()
                    };
                    std_l.set_nonblocking(true)?;
                    let target = std_l.local_addr()?.to_string();
                    let lst = MioListener::from(std_l);
                    listeners.push(LInfo {
                        kind: *kind,
                        target,
                        key: listener_key(&lst),
                        path: None,
                    });
                    sockets.push((token, lst));
                }
                LKind::Uds => {
                    let path = format!("{}/l{}.sock", cfg.dir, token);
                    let _ = std::fs::remove_file(&path);
                    let std_l = std::os::unix::net::UnixListener::bind(&path)?;
                    std_l.set_nonblocking(true)?;
                    let lst = MioListener::from(std_l);
                    listeners.push(LInfo {
                        kind: *kind,
                        target: path.clone(),
                        key: listener_key(&lst),
                        path: Some(path),
                    });
                    sockets.push((token, lst));
                }
            }
        }

        let mut env = Env {
            local: tokio::task::LocalSet::new(),
            wq: wq.clone(),
            cfg: cfg.clone(),
            sh: Arc::new(Mutex::new(Shared::default())),
            workers: vec![],
            listeners,
            clients: vec![],
            accepted: vec![],
            dispatched: vec![],
            replaced: vec![],
            skipped: vec![],
            dclean: vec![],
            dload: vec![],
            dafterfail: vec![],
            dmaxload: vec![],
            davail: vec![],
            faults_at_accept: 0,
            in_hand: None,
            handles_at_turn: 0,
            faults_at_turn: 0,
            mask_at_turn: 0,
            dmarked: vec![],
            last_pr: "",
            dturn: vec![],
            points: vec![],
            anchored: vec![],
            point_counts: HashMap::new(),
            turns: 0,
            max_turns: 4 * cfg.workers + 8,
            faults: vec![],
            cmd_rx,
            svc_seen: 0,
            engine_errors: vec![],
            dropped: vec![],
            finish_log: vec![],
        };
        let mut handles = vec![];
        for idx in 0..cfg.workers {
            let mut built = env.build_worker(idx, 0);
            handles.push(built.accept.take().unwrap());
            env.workers.push(WorkerSlot {
                built: Some(built),
                done: false,
                gen: 0,
                flag: Arc::new(FlagWaker(AtomicBool::new(true))),
                stop_rx: None,
                stop_reply: -1,
                stop_reply_at: -1,
            });
        }
        let st = Stepped::new(poll, wq, sockets, handles, srv)?;
        INJECT.with(|q| q.borrow_mut().clear());
        Ok(Sim {
            faithful: true,
            blocked_iterations: 0,
            last_iter: (false, false, vec![]),
            st,
            env: Rc::new(RefCell::new(env)),
            exited: false,
            panicked: None,
            iterations: 0,
        })
    }

    /// Applies an environment action between accept-loop iterations.
    pub fn apply(&mut self, act: &Act) {
        self.env.borrow_mut().apply(act);
    }

    /// One iteration of the real accept loop; `anchored` actions fire at the n-th (1-based) yield
    /// point of the given kind within this iteration ("accepted", "sent", "inc"). Returns the number of
    /// anchored actions whose yield point was never reached (they are applied after the iteration).
    pub fn iterate(&mut self, anchored: Vec<(String, usize, Act)>) -> usize {
        self.iterate_opt(anchored, true)
    }

    /// An iteration WITHOUT the bare wake: the real `poll` blocks until an event or its own (real-time) timeout.
    /// Only call it when the accept loop has a poll timeout set (at most 510 ms), otherwise it would block forever.
    pub fn iterate_let_poll_time_out(&mut self) -> usize {
        self.iterate_opt(vec![], false)
    }

    fn iterate_opt(&mut self, anchored: Vec<(String, usize, Act)>, bare_wake: bool) -> usize {
        self.last_iter = (false, false, vec![]);
        if self.exited || self.panicked.is_some() {
            return 0;
        }
        let mut bare_wake = bare_wake;
        if self.faithful && bare_wake {
            let pending = self.st.has_pending_events();
            let snap = self.st.snapshot(self.env.borrow().cfg.workers);
            let timer_due = snap.timeout_ms >= 0 && snap.sock_expired.iter().any(|x| *x);
            if pending {
                bare_wake = false; // the real poll returns by itself
            } else if !timer_due {
                // the accept thread would stay blocked in poll: nothing happens; anchored actions still take place
                self.blocked_iterations += 1;
                let mut e = self.env.borrow_mut();
                let n = anchored.len();
                let mut late = vec![];
                for (k, (_, _, a)) in anchored.iter().enumerate() {
                    let before = e.skipped.len();
                    e.apply(a);
                    late.push((k, e.skipped.len() > before));
                }
                drop(e);
                self.last_iter = (false, false, late);
                return n;
            }
            // timer_due: the poll timeout has elapsed in virtual time; the bare wake stands in for the time-out
        }
        {
            let mut e = self.env.borrow_mut();
            e.anchored = anchored.into_iter().map(|(k, n, a)| (k, n, a, false)).collect();
            e.point_counts.clear();
            e.turns = 0;
            // bare wake: the poll below must never block
            if bare_wake {
                let (waker, _) = &*e.wq;
                waker.wake().expect("bare wake");
            }
        }
        let env = self.env.clone();
        POINT_CB.with(|c| {
            *c.borrow_mut() = Some(Box::new(move |kind, arg| env.borrow_mut().on_point(kind, arg)))
        });
        let env = self.env.clone();
        ACCEPTED_CB.with(|c| {
            *c.borrow_mut() = Some(Box::new(move |peer: String| {
                let mut e = env.borrow_mut();
                let cid = e.cid_of_peer(&peer);
                if cid >= 0 {
                    if let Some(prev) = e.in_hand.take() {
                        // the previous connection was accepted and never sent: the accept thread dropped it.  A handle was
                        // left at that moment unless every handle counted at its last turn has been reported faulted since
                        e.collect_faults();
                        let removed = e.faults.len().saturating_sub(e.faults_at_turn);
                        let no_handle = e.handles_at_turn <= removed;
                        e.dropped.push((prev, no_handle));
                    }
                    e.accepted.push(cid as usize);
                    e.in_hand = Some(cid as usize);
                }
            }))
        });
        STEPPED.with(|c| c.set(true));
        ITER_DONE.with(|c| c.set(false));
        let st = &mut self.st;
        let r = catch_unwind(AssertUnwindSafe(|| st.iterate()));
        STEPPED.with(|c| c.set(false));
        POINT_CB.with(|c| *c.borrow_mut() = None);
        ACCEPTED_CB.with(|c| *c.borrow_mut() = None);
        self.iterations += 1;
        self.last_iter = (true, bare_wake, vec![]);
        match r {
            Ok(()) => {
                if !ITER_DONE.with(|c| c.get()) {
                    self.exited = true;
                }
            }
            Err(p) => {
                let msg = if let Some(s) = p.downcast_ref::<&str>() {
                    s.to_string()
                } else if let Some(s) = p.downcast_ref::<String>() {
                    s.clone()
                } else {
                    "panic".to_string()
                };
                self.panicked = Some(msg);
            }
        }
        // the connection in hand was dropped (no worker left) if it was never sent
        let mut e = match self.env.try_borrow_mut() {
            Ok(e) => e,
            Err(_) => return 0, // a panic unwound through the callback while env was borrowed
        };
        // a connection accepted and never sent (see the accepted callback for the rule)
        if let Some(cid) = e.in_hand.take() {
            e.collect_faults();
            let removed = e.faults.len().saturating_sub(e.faults_at_turn);
            let no_handle = e.handles_at_turn <= removed;
            e.dropped.push((cid, no_handle));
        }
        let missed: Vec<(usize, Act)> = e
            .anchored
            .iter()
            .enumerate()
            .filter(|(_, a)| !a.3)
            .map(|(i, a)| (i, a.2.clone()))
            .collect();
        let mut late = vec![];
        for (i, a) in &missed {
            let before = e.skipped.len();
            e.apply(a);
            late.push((*i, e.skipped.len() > before));
        }
        self.last_iter.2 = late;
        e.anchored.clear();
        drop(e);
        self.collect_faults();
        missed.len()
    }

    fn collect_faults(&mut self) {
        self.env.borrow_mut().collect_faults();
    }

    pub fn woken_workers(&self) -> Vec<usize> {
        self.env.borrow().woken_workers()
    }

    pub fn snapshot(&mut self) -> Snap {
        self.collect_faults();
        let mut e = self.env.borrow_mut();
        e.poll_stop_replies();
        let n = e.cfg.workers;
        let a = self.st.snapshot(n);
        let wq: Vec<String> = e.wq.guard().iter().map(interest_name).collect();
        let mut s = Snap {
            now_ms: now_ms(),
            avail: a.avail,
            any_avail: a.any_avail,
            handles: a.handles,
            next: a.next,
            paused: a.paused,
            timeout_ms: a.timeout_ms,
            sock_backoff: a.sock_backoff,
            sock_expired: a.sock_expired,
            sock_remain_ms: a.sock_remain_ms,
            wq,
            exited: self.exited,
            panicked: self.panicked.clone().unwrap_or_default(),
            ..Default::default()
        };
        for w in e.workers.iter() {
            match (&w.built, w.done) {
                (Some(b), false) => {
                    s.counter.push(worker::verif::raw_counter(&b.counter) as i64);
                    s.chan.push(worker::verif::queue_len(&b.fut) as i64);
                    s.alive.push(true);
                    s.wstate.push(worker::verif::state_name(&b.fut).to_string());
                    s.sstatus.push(
                        worker::verif::service_status(&b.fut)
                            .into_iter()
                            .map(String::from)
                            .collect(),
                    );
                }
                _ => {
                    s.counter.push(-1);
                    s.chan.push(-1);
                    s.alive.push(false);
                    s.wstate.push(if w.done { "Done".into() } else { "Dead".into() });
                    s.sstatus.push(vec![]);
                }
            }
            s.wdone.push(w.done);
            s.wgen.push(w.gen);
            s.stop_reply.push(w.stop_reply);
            s.stop_reply_at.push(w.stop_reply_at);
        }
        let ncl = e.clients.len();
        for cid in 0..ncl {
            s.listener.push(e.clients[cid].listener);
            s.connected.push(e.clients[cid].connect_errno == 0);
            s.connect_errno.push(e.clients[cid].connect_errno);
            let c = e.client_closed(cid);
            s.closed.push(c);
        }
        s.accepted = e.accepted.clone();
        s.dispatched = e.dispatched.clone();
        s.dclean = e.dclean.clone();
        s.dload = e.dload.clone();
        s.dafterfail = e.dafterfail.clone();
        s.dmaxload = e.dmaxload.clone();
        s.wwoken = e.workers.iter().map(|w| w.flag.0.load(Ordering::SeqCst)).collect();
        s.davail = e.davail.clone();
        s.dmarked = e.dmarked.clone();
        s.dturn = e.dturn.clone();
        s.last_pr = e.last_pr.to_string();
        s.in_hand = e.in_hand.map(|c| c as i64).unwrap_or(-1);
        s.inprog = vec![vec![]; n];
        {
            let sh = e.sh.lock().unwrap();
            for ev in sh.log.iter() {
                if let SvcEvent::Call {
                    worker,
                    token,
                    inst,
                    gen,
                    peer,
                } = ev
                {
                    s.calls.push((e.cid_of_peer(peer), *worker, *token, *inst, *gen));
                }
            }
            for (peer, (w, _, _)) in sh.live.iter() {
                let cid = e.cid_of_peer(peer);
                if cid >= 0 && *w < n {
                    s.inprog[*w].push(cid as usize);
                }
            }
            for peer in sh.done.iter() {
                let cid = e.cid_of_peer(peer);
                if cid >= 0 {
                    s.finished.push(cid as usize);
                }
            }
        }
        for v in s.inprog.iter_mut() {
            v.sort();
        }
        s.uds_path = e
            .listeners
            .iter()
            .map(|l| l.path.as_ref().map(|p| std::path::Path::new(p).exists()).unwrap_or(true))
            .collect();
        s.faults = e.faults.clone();
        s.points = std::mem::take(&mut e.points);
        {
            let sh = e.sh.lock().unwrap();
            s.svc_new = sh.log[e.svc_seen.min(sh.log.len())..]
                .iter()
                .map(|ev| match ev {
                    SvcEvent::Ready { worker, token, ans, .. } => ("ready".to_string(), *worker, *token, *ans as i64),
                    SvcEvent::Call { worker, token, peer, .. } => ("call".to_string(), *worker, *token, e.cid_of_peer(peer)),
                    SvcEvent::Create { worker, token, ok } => ("create".to_string(), *worker, *token, *ok as i64),
                })
                .collect();
            s.scripts_empty = sh.ready_script.values().all(|q| q.is_empty())
                && sh.create_script.values().all(|q| q.is_empty());
        }
        e.svc_seen += s.svc_new.len();
        s.inject_left = e
            .listeners
            .iter()
            .map(|l| INJECT.with(|q| q.borrow().iter().filter(|(k, _)| *k == l.key).count()))
            .collect();
        s.dropped = e.dropped.clone();
        s.engine_errors = e.engine_errors.clone();
        s.replaced = e.replaced.clone();
        s.skipped = e.skipped.clone();
        s.finish_log = e.finish_log.clone();
        s
    }

    pub fn svc_log(&self) -> Vec<SvcEvent> {
        self.env.borrow().sh.lock().unwrap().log.clone()
    }

    pub fn clear_svc_log(&self) {
        self.env.borrow().sh.lock().unwrap().log.clear();
    }
}

impl Drop for Sim {
    fn drop(&mut self) {
        // drop local tasks (service futures holding guards) inside the runtime context
        if let Ok(mut e) = self.env.try_borrow_mut() {
            for w in e.workers.iter_mut() {
                w.built = None;
            }
            let local = std::mem::replace(&mut e.local, tokio::task::LocalSet::new());
            drop(local);
            for l in e.listeners.iter() {
                if let Some(p) = &l.path {
                    let _ = std::fs::remove_file(p);
                }
            }
            for c in e.clients.iter() {
                if c.key.starts_with('/') {
                    let _ = std::fs::remove_file(&c.key);
                }
            }
        }
    }
}

// ------------------------------------------------------------------------------------------------
// Availability (the accept thread's 512 cached bits): thin public probe for the conformance driver
// ------------------------------------------------------------------------------------------------
pub struct AvailProbe(crate::availability::Availability);

impl Default for AvailProbe {
    fn default() -> Self {
        Self::new()
    }
}

impl AvailProbe {
    pub fn new() -> Self {
        AvailProbe(crate::availability::Availability::default())
    }
    pub fn set(&mut self, idx: usize, avail: bool) {
        self.0.set_available(idx, avail)
    }
    pub fn get(&self, idx: usize) -> bool {
        self.0.get_available(idx)
    }
    pub fn any(&self) -> bool {
        self.0.available()
    }
    pub fn offset(idx: usize) -> (usize, usize) {
        crate::availability::Availability::offset(idx)
    }
}

// ------------------------------------------------------------------------------------------------
// join_all (the future the server awaits the workers' stop replies with): scripted probe
// ------------------------------------------------------------------------------------------------
struct ScriptedFut {
    idx: usize,
    left: usize,
    polls: Arc<Mutex<Vec<usize>>>,
    done: bool,
}

impl Future for ScriptedFut {
    type Output = usize;
    fn poll(mut self: Pin<&mut Self>, _: &mut Context<'_>) -> Poll<usize> {
        let i = self.idx;
        self.polls.lock().unwrap()[i] += 1;
        if self.done {
            panic!("future {i} polled after completion");
        }
        if self.left == 0 {
            self.done = true;
            Poll::Ready(i + 1)
        } else {
            self.left -= 1;
            Poll::Pending
        }
    }
}

/// Runs the crate's `join_all` over futures that are Pending `k[i]` times and then yield `i + 1`.
/// Returns (rounds until Ready (0 = never within the bound), polls per future, result).
pub fn join_all_probe(k: &[usize]) -> (usize, Vec<usize>, Vec<usize>) {
    let polls = Arc::new(Mutex::new(vec![0usize; k.len()]));
    let futs: Vec<ScriptedFut> = k
        .iter()
        .enumerate()
        .map(|(idx, left)| ScriptedFut {
            idx,
            left: *left,
            polls: polls.clone(),
            done: false,
        })
        .collect();
    let mut j = crate::join_all::join_all(futs);
    let waker = Waker::from(Arc::new(FlagWaker(AtomicBool::new(false))));
    let mut cx = Context::from_waker(&waker);
    let mut rounds = 0;
    let mut result = vec![];
    for r in 1..=(k.iter().max().copied().unwrap_or(0) + 3) {
        if let Poll::Ready(v) = Pin::new(&mut j).poll(&mut cx) {
            rounds = r;
            result = v;
            break;
        }
    }
    let p = polls.lock().unwrap().clone();
    (rounds, p, result)
}
