// Child module of actix_server::accept (compiled only with --cfg actix_net_verif).
// Owns a real `Accept` built by `new_with_sockets` and runs its real loop one iteration at a time.
use super::*;

pub(crate) struct Stepped {
    pub accept: Accept,
    pub sockets: Box<[ServerSocketInfo]>,
    /// a second poller watching the accept loop's epoll fd: tells whether `poll` would return at once
    probe: Poll,
}

pub(crate) struct AcceptSnap {
    pub avail: Vec<bool>,
    pub any_avail: bool,
    pub handles: Vec<usize>,
    pub next: usize,
    pub paused: bool,
    pub timeout_ms: i64,
    pub sock_backoff: Vec<bool>,
    /// the back-off deadline of the socket has passed (virtual clock) but is still set
    pub sock_expired: Vec<bool>,
    /// per socket: milliseconds until its back-off deadline (-1: no deadline; 0: passed)
    pub sock_remain_ms: Vec<i64>,
}

impl Stepped {
    pub(crate) fn new(
        poll: Poll,
        waker_queue: WakerQueue,
        sockets: Vec<(usize, MioListener)>,
        handles: Vec<WorkerHandleAccept>,
        srv: ServerHandle,
    ) -> io::Result<Self> {
        let (accept, sockets) = Accept::new_with_sockets(poll, waker_queue, sockets, handles, srv)?;
        let probe = Poll::new()?;
        {
            use std::os::fd::AsRawFd;
            let fd = accept.poll.as_raw_fd();
            probe
                .registry()
                .register(&mut mio::unix::SourceFd(&fd), MioToken(0), Interest::READABLE)?;
        }
        Ok(Stepped { accept, sockets, probe })
    }

    /// One iteration of the real `poll_with` loop (it returns at the stepped() hook, or on Stop).
    pub(crate) fn iterate(&mut self) {
        self.accept.poll_with(&mut self.sockets)
    }

    /// Would the accept loop's `poll` return immediately (a readiness event or a waker event is pending)?
    /// An epoll fd is itself readable while it has ready events; re-registering re-arms the edge.
    pub(crate) fn has_pending_events(&mut self) -> bool {
        use std::os::fd::AsRawFd;
        let fd = self.accept.poll.as_raw_fd();
        if self
            .probe
            .registry()
            .reregister(&mut mio::unix::SourceFd(&fd), MioToken(0), Interest::READABLE)
            .is_err()
        {
            return true;
        }
        let mut ev = mio::Events::with_capacity(4);
        let _ = self.probe.poll(&mut ev, Some(Duration::from_millis(0)));
        !ev.is_empty()
    }

    pub(crate) fn snapshot(&self, nworkers: usize) -> AcceptSnap {
        AcceptSnap {
            avail: (0..nworkers).map(|i| self.accept.avail.get_available(i)).collect(),
            any_avail: self.accept.avail.available(),
            handles: self.accept.handles.iter().map(|h| h.idx()).collect(),
            next: self.accept.next,
            paused: self.accept.paused,
            timeout_ms: self.accept.timeout.map(|d| d.as_millis() as i64).unwrap_or(-1),
            sock_backoff: self.sockets.iter().map(|s| s.timeout.is_some()).collect(),
            sock_expired: self
                .sockets
                .iter()
                .map(|s| s.timeout.map(|t| Instant::now() >= t).unwrap_or(false))
                .collect(),
            sock_remain_ms: self
                .sockets
                .iter()
                .map(|s| s.timeout.map(|t| t.saturating_duration_since(Instant::now()).as_millis() as i64).unwrap_or(-1))
                .collect(),
        }
    }
}

/// Encodes, for the yield point at the top of every turn of the accept_one loop:
/// (availability bits of workers 0..15 << 32) | (number of handles << 16) | next.
pub(crate) fn turn_state(a: &Accept) -> usize {
    let mut mask = 0usize;
    for i in 0..16 {
        if a.avail.get_available(i) {
            mask |= 1 << i;
        }
    }
    (mask << 32) | ((a.handles.len() & 0xffff) << 16) | (a.next & 0xffff)
}

/// Encodes, for the yield point after a counter increment: (availability bits of workers 0..15 << 16) |
/// (number of handles << 1) | (1 if some handle in the rotation is currently marked unavailable).
pub(crate) fn rotation_state(a: &Accept) -> usize {
    let any_false = a.handles.iter().any(|h| !a.avail.get_available(h.idx()));
    let mut mask = 0usize;
    for i in 0..16 {
        if a.avail.get_available(i) {
            mask |= 1 << i;
        }
    }
    (mask << 16) | (a.handles.len() << 1) | (any_false as usize)
}
