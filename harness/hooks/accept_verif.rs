// Child module of actix_server::accept (compiled only with --cfg actix_net_verif).
// Owns a real `Accept` built by `new_with_sockets` and runs its real loop one iteration at a time.
use super::*;

pub(crate) struct Stepped {
    pub accept: Accept,
    pub sockets: Box<[ServerSocketInfo]>,
}

pub(crate) struct AcceptSnap {
    pub avail: Vec<bool>,
    pub any_avail: bool,
    pub handles: Vec<usize>,
    pub next: usize,
    pub paused: bool,
    pub timeout_ms: i64,
    pub sock_backoff: Vec<bool>,
    /// the back-off deadline of the socket has passed (virtual clock) but is still set
    pub sock_expired: Vec<bool>,
}

impl Stepped {
    pub(crate) fn new(
        poll: Poll,
        waker_queue: WakerQueue,
        sockets: Vec<(usize, MioListener)>,
        handles: Vec<WorkerHandleAccept>,
        srv: ServerHandle,
    ) -> io::Result<Self> {
        let (accept, sockets) = Accept::new_with_sockets(poll, waker_queue, sockets, handles, srv)?;
        Ok(Stepped { accept, sockets })
    }

    /// One iteration of the real `poll_with` loop (it returns at the stepped() hook, or on Stop).
    pub(crate) fn iterate(&mut self) {
        self.accept.poll_with(&mut self.sockets)
    }

    pub(crate) fn snapshot(&self, nworkers: usize) -> AcceptSnap {
        AcceptSnap {
            avail: (0..nworkers).map(|i| self.accept.avail.get_available(i)).collect(),
            any_avail: self.accept.avail.available(),
            handles: self.accept.handles.iter().map(|h| h.idx()).collect(),
            next: self.accept.next,
            paused: self.accept.paused,
            timeout_ms: self.accept.timeout.map(|d| d.as_millis() as i64).unwrap_or(-1),
            sock_backoff: self.sockets.iter().map(|s| s.timeout.is_some()).collect(),
            sock_expired: self
                .sockets
                .iter()
                .map(|s| s.timeout.map(|t| Instant::now() >= t).unwrap_or(false))
                .collect(),
        }
    }
}

/// Encodes, for the yield point after a counter increment: (number of handles << 1) | (1 if some handle in
/// the rotation is currently marked unavailable).
pub(crate) fn rotation_state(a: &Accept) -> usize {
    let any_false = a.handles.iter().any(|h| !a.avail.get_available(h.idx()));
    (a.handles.len() << 1) | (any_false as usize)
}
