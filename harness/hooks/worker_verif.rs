// Child module of actix_server::worker (compiled only with --cfg actix_net_verif).
// Builds a real `ServerWorker` future on the current thread and exposes read-only accessors.
use super::*;

pub(crate) struct BuiltWorker {
    pub fut: Pin<Box<ServerWorker>>,
    pub accept: Option<WorkerHandleAccept>,
    pub server: WorkerHandleServer,
    pub counter: Counter,
}

/// The same construction `ServerWorker::start` performs, minus the thread/arbiter plumbing.
pub(crate) async fn build(
    idx: usize,
    factories: Vec<Box<dyn InternalServiceFactory>>,
    waker_queue: WakerQueue,
    limit: usize,
    shutdown_timeout: Duration,
) -> Result<BuiltWorker, ()> {
    let (tx1, conn_rx) = unbounded_channel();
    let (tx2, stop_rx) = unbounded_channel();
    let counter = Counter::new(limit);
    let (accept, server) = handle_pair(idx, tx1, tx2, counter.clone());

    let mut services = Vec::new();
    for (i, factory) in factories.iter().enumerate() {
        let (token, svc) = factory.create().await?;
        services.push((i, token, svc));
    }
    let worker_services = wrap_worker_services(services);

    // the initializer is generated from the one in `ServerWorker::start` (lib/vlib.py gen_worker_literal)
    let worker = include!(concat!(env!("ACTIX_NET_VERIF_DIR"), "/worker_literal.rs"));

    Ok(BuiltWorker {
        fut: Box::pin(worker),
        accept: Some(accept),
        server,
        counter,
    })
}

pub(crate) fn raw_counter(c: &Counter) -> usize {
    c.counter.load(Ordering::SeqCst)
}

pub(crate) fn queue_len(w: &ServerWorker) -> usize {
    w.conn_rx.len()
}

pub(crate) fn state_name(w: &ServerWorker) -> &'static str {
    match w.state {
        WorkerState::Available => "Available",
        WorkerState::Unavailable => "Unavailable",
        WorkerState::Restarting(_) => "Restarting",
        WorkerState::Shutdown(_) => "Shutdown",
        // a tree under check may have grown a state the specification does not know
        #[allow(unreachable_patterns)]
        _ => "Other",
    }
}

pub(crate) fn service_status(w: &ServerWorker) -> Vec<&'static str> {
    w.services
        .iter()
        .map(|s| match s.status {
            WorkerServiceStatus::Available => "Available",
            WorkerServiceStatus::Unavailable => "Unavailable",
            WorkerServiceStatus::Failed => "Failed",
            WorkerServiceStatus::Restarting => "Restarting",
            WorkerServiceStatus::Stopping => "Stopping",
            WorkerServiceStatus::Stopped => "Stopped",
            #[allow(unreachable_patterns)]
            _ => "Other",
        })
        .collect()
}
