//! Conformance driver for the actix-service combinators (C11, C12).
//!
//! `vservice run --schedules F --trace T [--sample-mod M --sample-rem R] [--max-flagged N]`
//!
//! A schedule (one JSON object per line, printed by TLC from spec/service/Combinators.tla) is a vector
//! `{t: term with leaf scripts, req, cfg, log: expected rounds}`.  The driver builds the REAL combinators for the
//! term (build.rs), drives them with a manual executor - new_service -> poll (init) -> poll_ready* -> call ->
//! poll* - handing out a fresh waker per poll, records every round `{ph,w,res,acc}` as observed, and compares
//! it with the expected round: same phase / waker id / root result and the same MULTISET of leaf accesses.
//! Recorded runs (all flagged ones, plus every run with index % M == R) go to the trace file for TLC
//! (CombinatorsTrace.tla), which is what decides about violations.  Panics of the code under test are data.

mod build;
mod model;

use std::{
    task::{Context, Poll},
};

use actix_service::{Service, ServiceFactory};
use vcore::{arg, catch, json, quiet_panics, read_ndjson, Trace, Value};

use build::{build_fac, build_svc, is_factory, Dyn};
use model::*;

const MAX_ROUNDS: usize = 40;

fn res(k: &str, v: &str) -> Value {
    json!({"k": k, "v": v})
}

fn round(ph: &str, w: i64, r: Value) -> Value {
    json!({"ev": "round", "ph": ph, "w": w, "res": r, "acc": take_acc()})
}

/// Executes the protocol on the real code; returns the observed rounds.
/// `drop_early`: the factory is dropped as soon as `new_service` returned its future, and the service as soon as `call`
/// returned its future - the futures must be self-contained (a legal use the reference composition does not distinguish).
fn execute(t: &Value, req: &str, cfg: &str, drop_early: bool) -> Vec<Value> {
    reset_recorder();
    let mut log: Vec<Value> = vec![];
    macro_rules! guard {
        ($ph:expr, $w:expr, $e:expr) => {
            match catch(|| $e) {
                Ok(v) => v,
                Err(msg) => {
                    // a completed future that is polled again panics (scripted leaves, `async fn`, `Ready`): one message
                    let msg = if msg.contains("after completion") { "poll after completion".to_string() } else { msg };
                    log.push(round($ph, $w, res("panic", &msg)));
                    return log;
                }
            }
        };
    }

    let svc: Dyn = if is_factory(t) {
        let fac = guard!("new", 0, build_fac(t));
        let mut fut = guard!("new", 0, fac.new_service(Cfg(cfg.to_string())));
        let fac = if drop_early { drop(fac); None } else { Some(fac) };
        let _keep_factory = fac;
        log.push(round("new", 0, res("ok", "")));
        loop {
            if log.len() >= MAX_ROUNDS {
                return log;
            }
            let (w, waker) = fresh_waker();
            let mut cx = Context::from_waker(&waker);
            let p = guard!("init", w, fut.as_mut().poll(&mut cx));
            match p {
                Poll::Pending => log.push(round("init", w, res("pending", ""))),
                Poll::Ready(Ok(s)) => {
                    log.push(round("init", w, res("ok", "")));
                    break s;
                }
                Poll::Ready(Err(e)) => {
                    log.push(round("init", w, res("err", &e.0)));
                    return log;
                }
            }
        }
    } else {
        guard!("ready", 0, build_svc(t))
    };

    loop {
        if log.len() >= MAX_ROUNDS {
            return log;
        }
        let (w, waker) = fresh_waker();
        let mut cx = Context::from_waker(&waker);
        match guard!("ready", w, svc.poll_ready(&mut cx)) {
            Poll::Pending => log.push(round("ready", w, res("pending", ""))),
            Poll::Ready(Ok(())) => {
                log.push(round("ready", w, res("ok", "")));
                break;
            }
            Poll::Ready(Err(e)) => {
                log.push(round("ready", w, res("err", &e.0)));
                break;
            }
        }
    }

    let mut fut = guard!("call", 0, svc.call(Val(req.to_string())));
    let _keep_service = if drop_early { drop(svc); None } else { Some(svc) };
    log.push(round("call", 0, res("ok", "")));
    loop {
        if log.len() >= MAX_ROUNDS {
            return log;
        }
        let (w, waker) = fresh_waker();
        let mut cx = Context::from_waker(&waker);
        match guard!("fut", w, fut.as_mut().poll(&mut cx)) {
            Poll::Pending => log.push(round("fut", w, res("pending", ""))),
            Poll::Ready(Ok(v)) => {
                log.push(round("fut", w, res("ok", &v.0)));
                return log;
            }
            Poll::Ready(Err(e)) => {
                log.push(round("fut", w, res("err", &e.0)));
                return log;
            }
        }
    }
}

fn sorted_acc(r: &Value) -> Vec<String> {
    let mut v: Vec<String> = r["acc"]
        .as_array()
        .map(|a| a.iter().map(|e| e.to_string()).collect())
        .unwrap_or_default();
    v.sort();
    v
}

/// first round in which observation and expectation differ (multiset comparison of the accesses)
fn first_diff(exp: &[Value], obs: &[Value]) -> Option<usize> {
    for i in 0..exp.len().max(obs.len()) {
        match (exp.get(i), obs.get(i)) {
            (Some(e), Some(o)) => {
                if e["ph"] != o["ph"] || e["w"] != o["w"] || e["res"] != o["res"] || sorted_acc(e) != sorted_acc(o) {
                    return Some(i);
                }
            }
            _ => return Some(i),
        }
    }
    None
}

fn main() {
    quiet_panics();
    let mode = std::env::args().nth(1).expect("mode");
    assert_eq!(mode, "run", "unknown mode");
    let schedules = read_ndjson(&arg("--schedules").expect("--schedules"));
    let mut trace = Trace::create(&arg("--trace").expect("--trace"));
    let smod: usize = arg("--sample-mod").map(|s| s.parse().unwrap()).unwrap_or(1);
    let srem: usize = arg("--sample-rem").map(|s| s.parse().unwrap()).unwrap_or(0);
    let max_flagged: usize = arg("--max-flagged").map(|s| s.parse().unwrap()).unwrap_or(400);

    let mut mismatches: Vec<Value> = vec![];
    let mut nmis = 0usize;
    let mut steps = 0usize;
    let mut traced: Vec<usize> = vec![];
    for (run, sch) in schedules.iter().enumerate() {
        let t = &sch["t"];
        let req = sch["req"].as_str().unwrap_or("");
        let cfg = sch["cfg"].as_str().unwrap_or("");
        // every other vector is executed with the factory / service dropped as soon as its future exists
        let drop_early = run % 2 == 1;
        let obs = execute(t, req, cfg, drop_early);
        steps += obs.len();
        let empty = vec![];
        let exp = sch["log"].as_array().unwrap_or(&empty);
        let diff = if sch.get("log").is_some() {
            first_diff(exp, &obs)
        } else {
            None
        };
        if let Some(k) = diff {
            nmis += 1;
            if mismatches.len() < 20 {
                mismatches.push(json!({"run": run, "step": k, "expected": exp.get(k), "observed": obs.get(k)}));
            }
        }
        if (diff.is_some() && nmis <= max_flagged) || run % smod == srem {
            trace.emit(&json!({"ev": "reset", "run": run, "t": t, "req": req, "cfg": cfg,
                               "flagged": diff.is_some(), "dropEarly": drop_early}));
            for r in &obs {
                trace.emit(r);
            }
            traced.push(run);
        }
    }
    trace.finish();
    println!(
        "{}",
        json!({"runs": schedules.len(), "steps": steps, "mismatches": nmis, "traced": traced.len(),
               "first_mismatches": mismatches})
    );
}
