//! Scripted leaves, value types, the access recorder and the waker registry of the vservice driver.
//!
//! Everything a leaf does is recorded as one access event `{e,id,w,r,x}` (same shape as the events of
//! spec/service/Combinators.tla): `pr` poll_ready, `call`, `pf` poll of a call future, `new` creation
//! (new_service / apply_cfg closure / new_transform; x = config seen), `pi` poll of an init future.
//! `w` is the id of the waker the poll was made with, identified with `Waker::will_wake` against the
//! registry of every waker the executor has handed out (-1: a waker the executor never created).

use std::{
    cell::{Cell, RefCell},
    future::Future,
    pin::Pin,
    sync::Arc,
    task::{Context, Poll, Wake, Waker},
};

use actix_service::Service;
use vcore::{json, Value};

#[derive(Clone, Debug, PartialEq)]
pub struct Val(pub String);
#[derive(Clone, Debug, PartialEq)]
pub struct SErr(pub String);
#[derive(Clone, Debug, PartialEq)]
pub struct IErr(pub String);
#[derive(Clone, Debug, PartialEq)]
pub struct Cfg(pub String);

/// `apply_cfg_factory` converts a readiness error of the built service into an init error.
impl From<SErr> for IErr {
    fn from(e: SErr) -> Self {
        IErr(format!("from({})", e.0))
    }
}

pub fn tag(f: &str, v: &str) -> String {
    format!("{f}({v})")
}

pub type BoxFut<T> = Pin<Box<dyn Future<Output = T>>>;

// ------------------------------------------------------------------------------------------------
// recorder + waker registry (thread local: the driver is single threaded)
// ------------------------------------------------------------------------------------------------
struct IdWaker;
impl Wake for IdWaker {
    fn wake(self: Arc<Self>) {}
    fn wake_by_ref(self: &Arc<Self>) {}
}

#[derive(Default)]
pub struct Recorder {
    pub acc: Vec<Value>,
    wakers: Vec<Waker>, // index i holds waker id i+1
}

thread_local! {
    pub static REC: RefCell<Recorder> = RefCell::new(Recorder::default());
}

pub fn reset_recorder() {
    REC.with(|r| *r.borrow_mut() = Recorder::default());
}

/// A fresh waker with the next id (ids start at 1, one per root poll).
pub fn fresh_waker() -> (i64, Waker) {
    REC.with(|r| {
        let mut r = r.borrow_mut();
        let w = Waker::from(Arc::new(IdWaker));
        r.wakers.push(w.clone());
        (r.wakers.len() as i64, w)
    })
}

fn waker_id(cx: &Context<'_>) -> i64 {
    REC.with(|r| {
        let r = r.borrow();
        // newest first: the current waker is the common case
        for (i, w) in r.wakers.iter().enumerate().rev() {
            if w.will_wake(cx.waker()) {
                return i as i64 + 1;
            }
        }
        -1
    })
}

pub fn record(e: &str, id: i64, w: i64, r: &str, x: &str) {
    REC.with(|rec| {
        rec.borrow_mut()
            .acc
            .push(json!({"e": e, "id": id, "w": w, "r": r, "x": x}))
    });
}

pub fn take_acc() -> Vec<Value> {
    REC.with(|r| std::mem::take(&mut r.borrow_mut().acc))
}

// ------------------------------------------------------------------------------------------------
// scripted leaf service: readiness Pending^rk . (Ok | Err), call future Pending^ck . (Ok | Err)
// ------------------------------------------------------------------------------------------------
pub struct LeafSvc {
    pub id: i64,
    pub rk: usize,
    pub rr_ok: bool,
    pub ck: usize,
    pub cr_ok: bool,
    pub polls: Cell<usize>,
}

impl LeafSvc {
    pub fn from_term(t: &Value) -> Self {
        LeafSvc {
            id: t["id"].as_i64().unwrap(),
            rk: t["rk"].as_u64().unwrap() as usize,
            rr_ok: t["rr"] == "ok",
            ck: t["ck"].as_u64().unwrap() as usize,
            cr_ok: t["cr"] == "ok",
            polls: Cell::new(0),
        }
    }
}

impl Service<Val> for LeafSvc {
    type Response = Val;
    type Error = SErr;
    type Future = LeafFut;

    fn poll_ready(&self, cx: &mut Context<'_>) -> Poll<Result<(), SErr>> {
        let n = self.polls.get();
        self.polls.set(n + 1);
        let w = waker_id(cx);
        if n < self.rk {
            record("pr", self.id, w, "pending", "");
            Poll::Pending
        } else if self.rr_ok {
            record("pr", self.id, w, "ok", "");
            Poll::Ready(Ok(()))
        } else {
            record("pr", self.id, w, "err", "");
            Poll::Ready(Err(SErr(format!("RE{}", self.id))))
        }
    }

    fn call(&self, req: Val) -> LeafFut {
        record("call", self.id, 0, "", &req.0);
        LeafFut {
            id: self.id,
            n: 0,
            k: self.ck,
            ok: self.cr_ok,
            arg: req.0,
            done: false,
        }
    }
}

pub struct LeafFut {
    pub id: i64,
    pub n: usize,
    pub k: usize,
    pub ok: bool,
    pub arg: String,
    pub done: bool,
}

impl Future for LeafFut {
    type Output = Result<Val, SErr>;
    fn poll(mut self: Pin<&mut Self>, cx: &mut Context<'_>) -> Poll<Self::Output> {
        let w = waker_id(cx);
        if self.done {
            record("pf", self.id, w, "panic", "");
            panic!("leaf {} call future polled after completion", self.id);
        }
        if self.n < self.k {
            self.n += 1;
            record("pf", self.id, w, "pending", "");
            return Poll::Pending;
        }
        self.done = true;
        if self.ok {
            record("pf", self.id, w, "ok", "");
            Poll::Ready(Ok(Val(tag(&format!("L{}", self.id), &self.arg))))
        } else {
            record("pf", self.id, w, "err", "");
            Poll::Ready(Err(SErr(tag(&format!("E{}", self.id), &self.arg))))
        }
    }
}

// ------------------------------------------------------------------------------------------------
// scripted init future (factory leaf, apply_cfg closure, Transform::new_transform)
// ------------------------------------------------------------------------------------------------
pub struct ScrInit<S> {
    pub id: i64,
    pub n: usize,
    pub k: usize,
    pub ok: bool,
    pub err: String,
    pub svc: Option<S>,
    pub done: bool,
}

impl<S: Unpin> Future for ScrInit<S> {
    type Output = Result<S, IErr>;
    fn poll(mut self: Pin<&mut Self>, cx: &mut Context<'_>) -> Poll<Self::Output> {
        let w = waker_id(cx);
        if self.done {
            record("pi", self.id, w, "panic", "");
            panic!("init future {} polled after completion", self.id);
        }
        if self.n < self.k {
            self.n += 1;
            record("pi", self.id, w, "pending", "");
            return Poll::Pending;
        }
        self.done = true;
        if self.ok {
            record("pi", self.id, w, "ok", "");
            Poll::Ready(Ok(self.svc.take().unwrap()))
        } else {
            record("pi", self.id, w, "err", "");
            Poll::Ready(Err(IErr(self.err.clone())))
        }
    }
}

/// Records one "new" event every time it is cloned: fn_service(f).new_service(_) clones `f`, which is the
/// only observable trace of FnServiceFactory building a service.
pub struct CloneSpy(pub i64);
impl Clone for CloneSpy {
    fn clone(&self) -> Self {
        record("new", self.0, 0, "", "-");
        CloneSpy(self.0)
    }
}
