//! Term -> the REAL actix-service combinators.
//!
//! Children are type-erased by a harness-side adapter (`Dyn` / `DynFac`: an `Rc<dyn ..>` that only forwards and
//! boxes the future) so that every node of a term is the real generic combinator instantiated over `Dyn`:
//! `AndThenService<Dyn, Dyn, Val>`, `Map<Dyn, _, Val, Val>`, `MapErr<..>`, `Apply<..>` (apply_fn),
//! `boxed::service`, `boxed::rc_service`, `Rc<Dyn>`, `RefCell<Dyn>`, `&Dyn`, and for factories
//! `AndThenServiceFactory`, `MapServiceFactory`, `MapErrServiceFactory`, `MapInitErr`, `MapConfig`, `UnitConfig`,
//! `ApplyFactory` (apply_fn_factory), `boxed::factory`, `apply_cfg`, `apply_cfg_factory`, `ApplyTransform` (apply),
//! over `fn_factory_with_config` / `fn_factory` / `fn_service` leaves.
//! Mapper closures are the injective tagging functions of the spec ("f5(x)" = map closure of node 5).

use std::{
    cell::RefCell,
    rc::Rc,
    task::{Context, Poll},
};

use actix_service::{
    apply, apply_cfg, apply_cfg_factory, apply_fn, apply_fn_factory, boxed, fn_factory,
    fn_factory_with_config, fn_service, map_config, unit_config, Service, ServiceExt, ServiceFactory,
    ServiceFactoryExt, Transform,
};
use vcore::Value;

use crate::model::*;

// ------------------------------------------------------------------------------------------------
// erasure (harness code, transparent)
// ------------------------------------------------------------------------------------------------
pub trait ErasedSvc {
    fn e_poll_ready(&self, cx: &mut Context<'_>) -> Poll<Result<(), SErr>>;
    fn e_call(&self, req: Val) -> BoxFut<Result<Val, SErr>>;
}

impl<S> ErasedSvc for S
where
    S: Service<Val, Response = Val, Error = SErr>,
    S::Future: 'static,
{
    fn e_poll_ready(&self, cx: &mut Context<'_>) -> Poll<Result<(), SErr>> {
        Service::poll_ready(self, cx)
    }
    fn e_call(&self, req: Val) -> BoxFut<Result<Val, SErr>> {
        Box::pin(Service::call(self, req))
    }
}

#[derive(Clone)]
pub struct Dyn(Rc<dyn ErasedSvc>);

pub fn erase<S>(s: S) -> Dyn
where
    S: Service<Val, Response = Val, Error = SErr> + 'static,
    S::Future: 'static,
{
    Dyn(Rc::new(s))
}

impl Service<Val> for Dyn {
    type Response = Val;
    type Error = SErr;
    type Future = BoxFut<Result<Val, SErr>>;
    fn poll_ready(&self, cx: &mut Context<'_>) -> Poll<Result<(), SErr>> {
        self.0.e_poll_ready(cx)
    }
    fn call(&self, req: Val) -> Self::Future {
        self.0.e_call(req)
    }
}

pub trait ErasedFac {
    fn e_new_service(&self, cfg: Cfg) -> BoxFut<Result<Dyn, IErr>>;
}

impl<F> ErasedFac for F
where
    F: ServiceFactory<Val, Config = Cfg, Response = Val, Error = SErr, InitError = IErr>,
    F::Future: 'static,
    F::Service: 'static,
    <F::Service as Service<Val>>::Future: 'static,
{
    fn e_new_service(&self, cfg: Cfg) -> BoxFut<Result<Dyn, IErr>> {
        let fut = ServiceFactory::new_service(self, cfg);
        Box::pin(async move { fut.await.map(erase) })
    }
}

#[derive(Clone)]
pub struct DynFac(Rc<dyn ErasedFac>);

pub fn erasef<F>(f: F) -> DynFac
where
    F: ServiceFactory<Val, Config = Cfg, Response = Val, Error = SErr, InitError = IErr> + 'static,
    F::Future: 'static,
    F::Service: 'static,
    <F::Service as Service<Val>>::Future: 'static,
{
    DynFac(Rc::new(f))
}

impl ServiceFactory<Val> for DynFac {
    type Response = Val;
    type Error = SErr;
    type Config = Cfg;
    type Service = Dyn;
    type InitError = IErr;
    type Future = BoxFut<Result<Dyn, IErr>>;
    fn new_service(&self, cfg: Cfg) -> Self::Future {
        self.0.e_new_service(cfg)
    }
}

/// `Config = ()` view of a factory (harness code): unit_config / apply_cfg_factory need an inner factory whose
/// config type is `()`; the inner leaves then see the config "()".
pub struct UnitIn(DynFac);
impl ServiceFactory<Val> for UnitIn {
    type Response = Val;
    type Error = SErr;
    type Config = ();
    type Service = Dyn;
    type InitError = IErr;
    type Future = BoxFut<Result<Dyn, IErr>>;
    fn new_service(&self, _: ()) -> Self::Future {
        self.0.new_service(Cfg("()".into()))
    }
}

// ------------------------------------------------------------------------------------------------
// harness middleware: what a Transform / an apply_cfg closure builds around the service it is given
// ------------------------------------------------------------------------------------------------
pub struct Mw {
    inner: Dyn,
    tag: String,
}

fn wrap_call(tagname: &str, req: Val, svc: &Dyn) -> BoxFut<Result<Val, SErr>> {
    let fut = svc.call(Val(tag(&format!("{tagname}i"), &req.0)));
    let t = tagname.to_string();
    Box::pin(async move {
        match fut.await {
            Ok(v) => Ok(Val(tag(&format!("{t}o"), &v.0))),
            Err(e) => Err(SErr(tag(&format!("{t}e"), &e.0))),
        }
    })
}

impl Service<Val> for Mw {
    type Response = Val;
    type Error = SErr;
    type Future = BoxFut<Result<Val, SErr>>;
    fn poll_ready(&self, cx: &mut Context<'_>) -> Poll<Result<(), SErr>> {
        self.inner.poll_ready(cx)
    }
    fn call(&self, req: Val) -> Self::Future {
        wrap_call(&self.tag, req, &self.inner)
    }
}

struct Xf {
    id: i64,
    k: usize,
    ok: bool,
}

impl Transform<Dyn, Val> for Xf {
    type Response = Val;
    type Error = SErr;
    type Transform = Mw;
    type InitError = IErr;
    type Future = ScrInit<Mw>;
    fn new_transform(&self, service: Dyn) -> Self::Future {
        record("new", self.id, 0, "", "");
        ScrInit {
            id: self.id,
            n: 0,
            k: self.k,
            ok: self.ok,
            err: format!("TE{}", self.id),
            svc: Some(Mw {
                inner: service,
                tag: format!("t{}", self.id),
            }),
            done: false,
        }
    }
}

// ------------------------------------------------------------------------------------------------
// terms
// ------------------------------------------------------------------------------------------------
fn op(t: &Value) -> &str {
    t["o"].as_str().expect("term without operator")
}
fn id(t: &Value) -> i64 {
    t["id"].as_i64().expect("term without id")
}
fn fk(t: &Value) -> usize {
    t["fk"].as_u64().unwrap() as usize
}

pub fn is_factory(t: &Value) -> bool {
    op(t).starts_with('f')
}

pub fn build_svc(t: &Value) -> Dyn {
    let n = id(t);
    match op(t) {
        "leaf" => erase(LeafSvc::from_term(t)),
        "and_then" => erase(build_svc(&t["a"]).and_then(build_svc(&t["b"]))),
        "map" => erase(build_svc(&t["a"]).map(move |v: Val| Val(tag(&format!("f{n}"), &v.0)))),
        "map_err" => {
            erase(build_svc(&t["a"]).map_err(move |e: SErr| SErr(tag(&format!("g{n}"), &e.0))))
        }
        "apply_fn" => erase(apply_fn(build_svc(&t["a"]), move |req: Val, svc: &Dyn| {
            wrap_call(&format!("w{n}"), req, svc)
        })),
        "boxed" => erase(boxed::service(build_svc(&t["a"]))),
        "rc_boxed" => erase(boxed::rc_service(build_svc(&t["a"]))),
        "rc" => erase(Rc::new(build_svc(&t["a"]))),
        "refcell" => {
            if n % 2 == 0 {
                erase(RefCell::new(build_svc(&t["a"])))
            } else {
                // an observer holds a shared borrow of the cell for the whole run (legal: the wrapper only needs `&S`)
                let rc = Rc::new(RefCell::new(build_svc(&t["a"])));
                std::mem::forget(rc.borrow());
                erase(rc)
            }
        }
        "ref" => {
            // &'static Dyn: the reference wrapper needs a referent that outlives the combinator
            let r: &'static Dyn = Box::leak(Box::new(build_svc(&t["a"])));
            erase(r)
        }
        other => panic!("driver: unknown service operator {other}"),
    }
}

fn leaf_init(t: &Value, seen: &str) -> ScrInit<LeafSvc> {
    let n = id(t);
    ScrInit {
        id: n,
        n: 0,
        k: fk(t),
        ok: t["fr"] == "ok",
        err: tag(&format!("IE{n}"), seen),
        svc: Some(LeafSvc::from_term(t)),
        done: false,
    }
}

fn cfg_closure(
    t: &Value,
    pfx: &'static str,
) -> impl Fn(Cfg, &Dyn) -> ScrInit<Mw> + 'static {
    let n = id(t);
    let k = fk(t);
    let ok = t["fr"] == "ok";
    move |cfg: Cfg, srv: &Dyn| {
        record("new", n, 0, "", &cfg.0);
        ScrInit {
            id: n,
            n: 0,
            k,
            ok,
            err: tag(&format!("CE{n}"), &cfg.0),
            svc: Some(Mw {
                inner: srv.clone(),
                tag: format!("{pfx}{n}[{}]", cfg.0),
            }),
            done: false,
        }
    }
}

pub fn build_fac(t: &Value) -> DynFac {
    let n = id(t);
    match op(t) {
        "fleaf" => {
            let tt = t.clone();
            match t["kind"].as_str().unwrap() {
                "cfg" => erasef(fn_factory_with_config(move |cfg: Cfg| {
                    record("new", n, 0, "", &cfg.0);
                    leaf_init(&tt, &cfg.0)
                })),
                "nocfg" => erasef(fn_factory(move || {
                    record("new", n, 0, "", "-");
                    leaf_init(&tt, "-")
                })),
                "fnsvc" => {
                    // fn_service(f): FnServiceFactory; InitError = () is adapted with map_init_err (never fires)
                    let spy = CloneSpy(n);
                    let (ck, cr_ok) = (t["ck"].as_u64().unwrap() as usize, t["cr"] == "ok");
                    erasef(
                        fn_service(move |req: Val| {
                            let _ = &spy;
                            record("call", n, 0, "", &req.0);
                            LeafFut {
                                id: n,
                                n: 0,
                                k: ck,
                                ok: cr_ok,
                                arg: req.0,
                                done: false,
                            }
                        })
                        .map_init_err(|()| IErr("unreachable".into())),
                    )
                }
                other => panic!("driver: unknown leaf kind {other}"),
            }
        }
        "fand_then" => erasef(build_fac(&t["a"]).and_then(build_fac(&t["b"]))),
        "fmap" => erasef(build_fac(&t["a"]).map(move |v: Val| Val(tag(&format!("f{n}"), &v.0)))),
        "fmap_err" => {
            erasef(build_fac(&t["a"]).map_err(move |e: SErr| SErr(tag(&format!("g{n}"), &e.0))))
        }
        "fmap_init_err" => erasef(
            build_fac(&t["a"]).map_init_err(move |e: IErr| IErr(tag(&format!("h{n}"), &e.0))),
        ),
        "fmap_config" => erasef(map_config(build_fac(&t["a"]), move |c: Cfg| {
            Cfg(tag(&format!("c{n}"), &c.0))
        })),
        "funit_config" => erasef(unit_config(UnitIn(build_fac(&t["a"])))),
        "fapply_fn" => erasef(apply_fn_factory(
            build_fac(&t["a"]),
            move |req: Val, svc: &Dyn| wrap_call(&format!("w{n}"), req, svc),
        )),
        "fboxed" => erasef(boxed::factory(build_fac(&t["a"]))),
        "fapply_cfg" => erasef(apply_cfg(build_svc(&t["s"]), cfg_closure(t, "ac"))),
        "fapply_cfg_factory" => erasef(apply_cfg_factory(
            UnitIn(build_fac(&t["a"])),
            cfg_closure(t, "cf"),
        )),
        "ftransform" => erasef(apply(
            Xf {
                id: n,
                k: fk(t),
                ok: t["fr"] == "ok",
            },
            build_fac(&t["a"]),
        )),
        other => panic!("driver: unknown factory operator {other}"),
    }
}
