#!/usr/bin/env python3
"""Stores the round-8 seeded changes (all 20 properties; C02 delivered one change) under /verif/seeded/<id>/ (patch.diff,
demonstration, notes.md, meta.json).  Detection results are read from /tmp/r8/run-C*.log (first run) and
/tmp/r8/run-zrecheck*.log (after strengthening)."""
import glob, json, os, re, shutil
R4 = [('C01', 1, 'actix-server', "send_connection's error arm decides 'no workers, drop the connection' from the availability bits instead of from the handle list: a connection whose dispatch meets a dead worker is dropped although a live (saturated) worker exists", 'an unnoticed dead worker in turn while every survivor is at its limit'),
 ('C01', 2, 'actix-server', 'the Stop messages to the workers are produced by a lazy iterator that a forced stop never drives: no worker is told to stop; connections queued at a worker stay open and are served later', "stop(false) while connections wait in a worker's queue behind a pending service"),
 ('C02', 1, 'actix-server', 'accept_one steps over only ONE unavailable worker and sends to the next without looking at its bit', 'three workers, two adjacent ones at their limit'),
 ('C03', 1, 'actix-server', 'a connection guard dropped by an unwinding task does not notify: a worker whose handler panics at the limit is never marked available again', 'a handler future panicking while its worker is at the limit'),
 ('C03', 2, 'actix-server', "a second accept error inside a back-off window drops the listener's deadline: the listener is never registered again", 'two accept errors on one listener within 500 ms'),
 ('C04', 1, 'actix-server', "a restarted worker's handle is inserted at its index position without adjusting the rotation cursor: the worker that got the last connection gets the next one too", 'three workers, the lowest index replaced while the cursor is past it'),
 ('C04', 2, 'actix-server', "availability notifications are validated by looking at handles[idx] instead of scanning: after a removal a live worker's notification is discarded", 'a worker fault followed by a release on a worker whose slot moved'),
 ('C05', 1, 'actix-server', 'accept_all stops the sweep at the first listener that enters back-off: listeners behind it are not accepted from', 'two listeners with waiting clients, an accept error on the first during a sweep'),
 ('C05', 2, 'actix-server', 'a Pause with a Resume queued right behind it is dropped as a no-op pair also when the loop is already paused', 'pause, pause + resume issued back to back'),
 ('C06', 1, 'actix-server', 'the shutdown-timeout test becomes `now >= start + timeout`: with a huge timeout the addition overflows / saturates differently and the graceful wait ends at once', 'shutdown_timeout(u64::MAX) and a graceful stop with a connection in progress'),
 ('C06', 2, 'actix-server', 'the graceful wait is skipped when the caller of stop() has dropped the returned future', 'stop(true) whose future is dropped, a connection in progress'),
 ('C07', 1, 'actix-server', 'after a call only the called service is asked for readiness again', 'two services on one worker, the other one turning Pending'),
 ('C07', 2, 'actix-server', 'the worker takes the connection first and asks for readiness afterwards, with a forgotten case', 'a service that is not ready when a connection arrives'),
 ('C08', 1, 'actix-server', "ServerWorker's Drop is removed; the arbiter is stopped only at the orderly exits: a worker that dies saturated keeps its connections alive on a zombie arbiter, never notifies, is never found, never replaced", 'a worker at its limit dying in poll_ready while its clients keep their connections open'),
 ('C08', 2, 'actix-server', 'on WorkerFaulted the server purges every closed stop handle and pushes the new one: with two simultaneous faults the second command finds no handle and the Server future panics', 'two workers dead before the first replacement is installed'),
 ('C09', 1, 'actix-rt', 'dropping the Arbiter value deregisters a still-running arbiter: System::stop never sends it Stop', 'an arbiter kept only through its ArbiterHandle'),
 ('C09', 2, 'actix-rt', "the arbiter queue becomes bounded (1024, try_send): the system's Stop is dropped when the queue of a busy arbiter is full and join never returns", 'a busy arbiter with >= 1024 queued commands at System::stop'),
 ('C10', 1, 'actix-rt', 'ArbiterRunner handles at most 32 commands per poll and returns Pending without re-arming: the rest of a burst never starts', 'a burst of >= 32 commands queued while the arbiter is busy'),
 ('C10', 2, 'actix-rt', "SystemRunner::run_with_code clears the thread's current System unconditionally", 'two Systems on one thread with overlapping, non-LIFO lifetimes'),
 ('C11', 1, 'actix-service', 'and_then readiness short-circuits: the second stage is not polled while the first is pending (its error is masked)', 'first stage Pending and second stage Err in the same readiness round'),
 ('C11', 2, 'actix-service', "the and_then factory future polls the second init future first: when both fail in the same round the second stage's error is reported", 'both inner factories failing in the same poll round'),
 ('C12', 1, 'actix-service', 'the and_then factory future drops the init error of the second half', 'a failing second factory'),
 ('C12', 2, 'actix-service', "apply_cfg_factory treats 'polled again' as 'inner service is ready'", 'an inner service that needs more than one readiness poll'),
 ('C13', 1, 'actix-codec', 'the read buffer is given back on an idle transport', 'a partial frame followed by Pending'),
 ('C13', 2, 'actix-codec', "'bytes remaining on stream' check vs. LinesCodec's kept-back CR", 'a stream ending in CR'),
 ('C14', 1, 'actix-codec', 'a failed write discards the unwritten part of the write buffer', 'a write error after a partial write'),
 ('C14', 2, 'actix-codec', 'poll_ready drains with its own loop that has no zero-write check', 'a transport that writes 0 bytes'),
 ('C15', 1, 'actix-codec', 'ASCII fast path in decode; the validated path forgets the CR strip', 'a non-ASCII line ending in CR LF'),
 ('C15', 2, 'actix-codec', 'decode_eof no longer runs decode first: a buffer that still holds complete lines is returned as ONE line', 'decode_eof called on a buffer containing LF (last read arrives together with end of stream)'),
 ('C16', 1, 'local-channel', 'the burst wake-suppression flag goes stale through the drain path', 'send after the receiver drained a burst'),
 ('C16', 2, 'local-channel', 'close() on an already closed channel discards the buffered messages', 'a second close with messages buffered'),
 ('C17', 1, 'local-waker', 'LocalWaker on a RefCell with the borrow held across waker.wake(): a re-entrant register / wake panics', 'a waker whose wake (or drop) re-enters the same LocalWaker'),
 ('C17', 2, 'actix-utils', 'Counter keeps free slots saturating at zero: guards beyond the capacity are lost, total() underflows', 'more guards than the capacity'),
 ('C18', 1, 'actix-tls', "OpenSSL TlsStream::poll_read rewinds the caller's ReadBuf", 'a read into a partially filled buffer'),
 ('C18', 2, 'actix-tls', 'the rustls 0.23 acceptor arms the handshake timer at the first pending poll, not at call', 'a stalling client and a caller that polls the accept future late'),
 ('C19', 1, 'actix-tls', "the IP-literal shortcut dials the stored fallback port, not the request's port", 'an IP-literal host with set_port'),
 ('C19', 2, 'actix-tls', "Connector's ServiceFactory impl hands out services with the default resolver", 'a custom resolver, the service obtained through new_service, a host that needs resolution'),
 ('C20', 1, 'bytestring', 'slice_ref returns self.clone() whenever subset.len() == self.len(), without looking where subset lives', 'a foreign string of the same byte length'),
 ('C20', 2, 'bytestring', 'Hash skips the empty string', 'hashing an empty ByteString')]
STRENGTH = {('C01', 2): "builder flow event `stop`: the server is stopped (forced / graceful) while clients wait in the workers' queues behind a pending service; Builder.tla Stop / C01_QueuedReleasedAtStop, NEG StopServesQueued", ('C03', 1): 'e2e load scenarios with a handler future that panics at the limit',
 ('C04', 1): 'T_C04_NoImmediateRepeat (handles count at the inc yield point, bits at the last turn) + corpus schedules with replacements joining a three-worker rotation',
 ('C05', 2): 'T_C05_PausedAsCommanded (paused exactly when the last pause/resume command was a pause) + corpus command bursts',
 ('C06', 1): 'e2e scenario graceful-with-an-unlimited-shutdown-timeout',
 ('C08', 1): 'builder flow event `diehold` (scenario limit 2): a worker dies inside poll_ready at its limit while a silent client holds a connection on it',
 ('C08', 2): 'Builder.tla DieBoth / builder event `die2`: both workers dead before the next dispatch; both must be replaced (T_B_MadeAsSpec)',
 ('C09', 2): 'rt driver scenario with > 1024 commands queued on a busy arbiter at System::stop',
 ('C10', 1): 'rt driver bursts of 40-100 commands on a busy arbiter and on the System arbiter before run()',
 ('C10', 2): 'rt driver flavour with two Systems on one thread, the first run to completion before the second is driven; tasks record System::try_current()',
 ('C11', 1): "the clause is C12's (readiness): detected by check C12 (C12_PendingPolledAllWithCurrentWaker)", ('C11', 2): 'InitRef: a same-round tie goes to the first stage',
 ('C15', 2): 'EofOnly: the whole input drained with decode_eof alone (spec operator, ASSUME C15_EofOnly, trace field eofonly, NEG EofSkipsDecode)',
 ('C17', 1): 'driver: a panic while the wakers are dropped at the end of a run is an observation (teardown record) instead of a tool error',
 ('C17', 2): 'driver: a panic of total() is an observation',
 ('C18', 2): 'driver: the future of a stalling client may get its first poll 1..T-1 ticks after call',
 ('C19', 2): 'driver: services also obtained through ServiceFactory::new_service',
 ('C20', 1): 'slice_ref with a foreign subset of equal length and with the sibling half of a split: the result is the requested text or a panic'}
def results(files):
    res = {}
    for f in files:
        for l in open(f):
            m = re.match(r"\[(C\d\d)-q(\d)\] check (C\d\d): exit (\d)\s*(.*)", l)
            if m:
                res.setdefault((m.group(1), int(m.group(2))), {})[m.group(3)] = (int(m.group(4)), m.group(5))
    return res
first = results(sorted(glob.glob("/tmp/r8/run-C*.log")))
later = results(sorted(glob.glob("/tmp/r8/run-zrecheck*.log")))
nextn = {}
for d in sorted(glob.glob("/verif/seeded/C*-*")):
    m = json.load(open(d + "/meta.json"))
    if m.get("round") == 8:
        continue
    p, n = os.path.basename(d).split("-")
    nextn[p] = max(nextn.get(p, 0), int(n))
stored = 0
for (prop, n, crate, what, needs) in R4:
    src = "/tmp/r8-%s-out/%d" % (prop, n)
    if not os.path.exists(src + "/patch.diff"):
        continue
    sid = "%s-%d" % (prop, nextn.get(prop, 0) + n)
    d = "/verif/seeded/" + sid
    os.makedirs(d, exist_ok=True)
    shutil.copy(src + "/patch.diff", d + "/patch.diff")
    demos = [f for f in os.listdir(src) if f.startswith("demo_") and f.endswith(".rs")]
    for f in demos:
        shutil.copy(src + "/" + f, d + "/" + f.replace("_r%d" % n, "_v%d" % n))
    if os.path.exists(src + "/notes.md"):
        shutil.copy(src + "/notes.md", d + "/notes.md")
    r1 = first.get((prop, n), {})
    r2 = dict(r1)
    r2.update(later.get((prop, n), {}))
    det = ["%s (%s)" % (c, (msg.split("violation ")[1].split(":")[0] if "violation " in msg else "detected")) for c, (rc, msg) in r2.items() if rc == 1]
    missed = [c for c, (rc, msg) in r1.items() if rc != 1 and c == prop]
    files = sorted(set(re.findall(r"^\+\+\+ b/(\S+)", open(src + "/patch.diff").read(), flags=re.M)))
    demo = demos[0] if demos else None
    meta = {"id": sid, "property": prop, "round": 8, "crate": crate, "files": files, "what_it_breaks": what, "needs_to_manifest": needs,
            "origin": "fresh sub-agent that saw only the property text and the mechanisms of the changes already kept (tools/mutant_prep.py)",
            "demonstration": {"file": demo.replace("_r%d" % n, "_v%d" % n) if demo else None,
                              "placed_at": "%s/tests/%s" % (crate, demo) if demo else None,
                              "command": "cargo test --offline -p %s%s --test %s" % (crate, " --features accept,connect,rustls-0_23,openssl" if crate == "actix-tls" else "", demo[:-3]) if demo else None},
            "confirmed_by_coordinator": {"how": "tools/seeded_run.py in a scratch worktree", "demo_on_unchanged_tree": "pass",
                                         "existing_tests_with_patch": "pass", "demo_with_patch": "fail"},
            "detected_by": det, "first_run_missed_by": missed}
    if (prop, n) in STRENGTH and (missed or not det):
        meta["strengthening"] = STRENGTH[(prop, n)]
    json.dump(meta, open(d + "/meta.json", "w"), indent=1)
    stored += 1
print("stored", stored)
