#!/usr/bin/env python3
"""Stores the round-3 seeded changes under /verif/seeded/<id>/ (patch.diff, demonstration, notes.md, meta.json).
Detection results are read from /tmp/r3/run-*.log (tools/seeded_run.py output) and /tmp/r3/recheck.log."""
import glob, json, os, re, shutil
R3 = [
 # prop, n(1|2), crate, what, needs, first-run missed by, strengthening
 ("C01",1,"actix-server","ServerWorker::poll (Available arm) takes a Conn off the queue first and checks service readiness afterwards: the early returns of the readiness check (not ready / failed) drop the connection in hand",
  "a service whose poll_ready turns Pending or Err after having been ready, and a connection reaching the idle worker in that window",["C01","C07"],
  "T_C07_QueueMeasured: what was dispatched to a worker and is not yet called is exactly its measured queue; C01 also runs Worker.tla's readiness configs"),
 ("C01",2,"actix-server","ServerBuilder::bind allocates one token and one factory per bind() call instead of per resolved socket address: with a multi-address bind token and socket position diverge and a later listener's connections reach the wrong service",
  "a bind() resolving to more than one address plus at least one listener registered after it",[],""),
 ("C02",1,"actix-server","before giving up on a readable listener Accept::accept marks every worker whose counter is below the limit as available (refresh_availability): the bit gets two sources, a queued WorkerAvailable goes stale and re-arms a re-saturated worker",
  "accept() running after a worker's decrement at its limit but before the accept thread pops that notification, two clients waiting",[],""),
 ("C02",2,"actix-server","send_connection calls set_next() before the 'hit max' branch and clears the bit of self.next().idx(): the NEXT worker in the rotation loses its bit, the saturated one keeps it",
  ">= 2 workers and a worker reaching its limit while more clients arrive",[],""),
 ("C03",1,"actix-server","MAX_ACCEPT_PER_PASS = 64 bounds Accept::accept: with more pending clients the loop leaves without a readiness edge or notification that would bring it back",
  "more than 64 clients pending on one listener at the start of a pass (128 after a resume), workers not saturated, no later arrival",[],
  ""),
 ("C03",2,"actix-server","the late-notification check becomes `idx < handles.len()`: after a swap_remove the highest-index worker's one-shot WorkerAvailable is dropped",
  ">= 2 workers, a worker other than the highest-index one dies, the saturated highest-index worker crosses its limit before the replacement arrives",["C03"],
  "C03 replays the fault corpus and fault-flavoured random schedules (first run: caught by C08 only)"),
 ("C04",1,"actix-server","WorkerAvailable handler merged into `if !paused && handle exists { set bit; accept_all }`: a notification handled while paused is lost for good",
  "a worker reaches its limit, pause, the worker releases during the pause, resume",["C04"],
  "corpus schedules saturate / pause / release during the pause / resume / rotate (first run: caught by C03 only)"),
 ("C04",2,"actix-server","ServerWorker::poll also sends the availability notification on the Unavailable -> Available transition (notify_available ignores the counter): a saturated worker is marked available without a release",
  "a worker at its limit whose service readiness goes Pending and back (or restarts) while still saturated, a client waiting",[],""),
 ("C05",1,"actix-server","process_timeout rewritten as a for loop that clears the deadline only in the 'expired while paused' branch: a listener re-registered after its back-off keeps the expired deadline and the next Pause skips it",
  "EMFILE, the back-off ending while not paused, later a pause with a client connecting during it",[],""),
 ("C05",2,"actix-server","deregister_all keeps deadlines, Resume registers only sockets without one, process_timeout keeps a deadline that expires while paused: a deadline expiring during a pause strands the listener",
  "EMFILE on a listener, pause before the deadline, the pause outlasts it, resume; then a NEW client",[],""),
 ("C06",1,"actix-server","handle_cmd(Stop) awaits the workers' replies also for a forced stop (the `if graceful` is gone)",
  "a worker that has not processed Stop because its thread is inside a non-yielding connection handler",["C06"],
  "ServerStop.tla `busy` (worker threads blocked by a non-yielding handler) + e2e forced-stop scenarios with blocked worker threads"),
 ("C06",2,"actix-server","the completion is sent before the accept thread is joined",
  "the accept thread behind when the completion is sent (work queued ahead of Stop or descheduled), a client connecting right after completion",["C06"],
  "e2e scenarios that hold the accept thread (tracing subscriber on its own log line) and connect at the instant the stop future resolves: T_C06_NotListeningAfterCompletion"),
 ("C07",1,"actix-server","check_readiness flattened into a match on (status, poll): `(Unavailable, Ready(_))` treats an Err of a service still marked Unavailable as ready: no restart",
  "the failure on a poll where the service is Unavailable (first poll after creation, or right after Pending) and not repeating",[],""),
 ("C07",2,"actix-server","StreamService caches an unconsumed Ready(Ok) in a Cell: poll_ready returns early until the next call: a later Pending / Err of a service that is not being called is never seen",
  ">= 2 services on a worker; one answered Ready, was not called since and then goes Pending / Err while traffic goes to the other",[],""),
 ("C08",1,"actix-server","the late-notification check becomes handles.get(idx).map_or(false, |h| h.idx() == idx) (slot lookup): notifications of displaced workers are discarded",
  "a fault of a worker not in the last slot, replacement (slot != idx), then a displaced worker reaches its limit",[],""),
 ("C08",2,"actix-server","Drop for ServerWorker destroys the services first (mem::take) while conn_rx is still open: sends to the dying worker still succeed, no fault is reported, the client is lost",
  "a worker death by unwinding, a service whose destructor takes time, a client rotated onto the dying worker in that window",["C08","C01"],
  "end-to-end load scenario with a slow service destructor: clients arriving while the dying worker tears its services down must be served"),
 ("C11",1,"actix-service","apply_cfg_factory response future drops its 'hold the service and wait for ready' state: a Pending readiness drops the built service and re-polls the completed factory future",
  "the inner service not ready on its first poll_ready",[],""),
 ("C11",2,"actix-service","and_then factory response future loses the `if this.b.is_none()` guard: B's completed init future is polled again until A finishes",
  "B's factory finishing strictly before A's",[],""),
 ("C12",1,"actix-service","AndThenServiceResponse::poll state A adds `ready!(b.poll_ready(cx))?` before taking b: on Pending the first-stage response is dropped and the completed first-stage future is polled again",
  "the second service Pending at hand-over",[],""),
 ("C12",2,"actix-service","AndThenService::poll_ready De Morgan slip: Pending only if BOTH halves are pending",
  "exactly one half Pending while the other is Ready(Ok) in the same poll",[],""),
 ("C13",1,"actix-codec","LinesCodec keeps a `next_index` search offset that is not reset after an invalid-UTF-8 line: the following data is searched from a stale offset (lines glued / panic)",
  "an invalid-UTF-8 line that arrived in at least two reads followed by a shorter line",[],""),
 ("C13",2,"actix-codec","a transport read error sets Flags::EOF | READABLE: bytes behind the error are never read, a half-buffered frame is pushed through decode_eof",
  "a read error that is not the last event on the transport",["C13"],
  "an I/O error item no longer ends a run in FramedRead.tla / the driver: the frames behind it must still come, in order"),
 ("C14",1,"actix-codec","Framed::flush reports WriteZero only if nothing was written earlier in the same call; after progress a zero write breaks out and falls through to the transport flush",
  "a transport script 'accept k bytes, then zero' inside one flush / poll_ready / poll_close call",[],""),
 ("C14",2,"actix-codec","new Flags::SHUTDOWN: close runs the flush phase only until it succeeded once; items accepted while shutdown was Pending are never flushed",
  "poll_close whose flush completes but shutdown is Pending / fails, then start_send, then poll_close again",[],""),
 ("C15",1,"actix-codec","decode rewritten as a memchr2(CR, LF) scan; the lone-CR case forgets that the next LF may be preceded by a CR",
  "a CRLF-terminated line containing an earlier CR not directly followed by LF",[],""),
 ("C15",2,"actix-codec","ASCII fast path (from_utf8_unchecked) guarded by src.is_ascii() - the REMAINING buffer - instead of the line",
  "an invalid UTF-8 line with only ASCII (or nothing) buffered behind it",[],""),
 ("C16",1,"local-channel","receiver-side batching (poll_next swaps the shared buffer into a private batch) with the closed/no-sender early return above it: the rest of the batch is skipped when the channel ends",
  ">= 2 messages queued at a poll while a sender is alive, then close / last sender dropped before the batch is worked off",[],""),
 ("C16",2,"local-channel","poll_next rewritten pop-first / None if strong_count == 1 / park: the `|| !has_receiver` (closed marker) is gone",
  "close() with a sender still alive and a poll hitting the empty buffer",[],""),
 ("C17",1,"actix-utils","`parked` flag: available() registers the waker only on the first refusal since the last release: the FIRST refused task is woken, not the last",
  "two refusals with different wakers between two releases",[],""),
 ("C17",2,"local-waker","register(): will_wake fast path whose fall-through arm merges 'slot empty' with 'slot held a different waker' and returns false for both",
  "two different wakers registered back to back",[],""),
 ("C18",1,"actix-tls","impl Clone for the OpenSSL Acceptor drops the configured handshake_timeout (Self::new)",
  "a non-default set_handshake_timeout and the service created from a clone of the acceptor",["C18"],
  "every other acceptor service is built from a clone of a clone of the configured acceptor (a server clones its factories)"),
 ("C18",2,"actix-tls","rustls TlsStream::poll_write flushes after the inner write and returns Pending when the flush is Pending although bytes were accepted: the caller retries and the payload is duplicated",
  "transport back-pressure in the middle of a write, a reader that looks past the expected length",[],""),
 ("C19",1,"actix-tls","TcpConnectorFut::new keeps the remaining queue only `if addrs.len() > 1` (checked after the pop): with exactly one address left it is never dialled",
  "an address list of exactly two entries, the first refusing, the second live",[],""),
 ("C19",2,"actix-tls","the IP-literal shortcut moved inside the Default resolver arm: with a custom resolver an IP-literal host is handed to the resolver",
  "Resolver::custom, an IP-literal host without pre-set addresses",[],""),
 ("C20",1,"bytestring","hand-written Ord comparing only the common prefix (no length tie-break)",
  "two operands where the shorter is a strict prefix of the longer",[],""),
 ("C20",2,"bytestring","serde Deserialize via a dedicated visitor whose visit_byte_buf skips UTF-8 validation",
  "feature serde, a deserializer delivering an owned byte buffer, invalid UTF-8",["C20"],
  "serde Deserialize (visit_byte_buf / visit_bytes deserializers) among the fallible constructors of the C20 driver"),
]
res = {}
for f in sorted(glob.glob("/tmp/r3/run-*.log")) + sorted(glob.glob("/tmp/r4/run-zr3recheck*.log")):
    for l in open(f):
        m = re.match(r"\[(C\d\d)-q(\d)\] check (C\d\d): exit (\d)\s*(.*)", l)
        if m:
            res.setdefault((m.group(1), int(m.group(2))), {})[m.group(3)] = (int(m.group(4)), m.group(5))
nextn = {}
for d in sorted(glob.glob("/verif/seeded/C*-*")):
    m = json.load(open(d + "/meta.json"))
    if m.get("round") == 3:
        continue
    p, n = os.path.basename(d).split("-")
    nextn[p] = max(nextn.get(p, 0), int(n))
stored = 0
for (prop, n, crate, what, needs, missed, strength) in R3:
    src = "/tmp/r3-%s-out/%d" % (prop, n)
    if not os.path.exists(src + "/patch.diff"):
        continue
    sid = "%s-%d" % (prop, nextn.get(prop, 0) + n)
    d = "/verif/seeded/" + sid
    os.makedirs(d, exist_ok=True)
    shutil.copy(src + "/patch.diff", d + "/patch.diff")
    demos = [f for f in os.listdir(src) if f.startswith("demo_") and f.endswith(".rs")]
    for f in demos:
        shutil.copy(src + "/" + f, d + "/" + f.replace("_r%d" % n, "_q%d" % n))
    if os.path.exists(src + "/notes.md"):
        shutil.copy(src + "/notes.md", d + "/notes.md")
    r = res.get((prop, n), {})
    det = ["%s (%s)" % (c, (msg.split("violation ")[1].split(":")[0] if "violation " in msg else "detected")) for c, (rc, msg) in r.items() if rc == 1]
    files = sorted(set(re.findall(r"^\+\+\+ b/(\S+)", open(src + "/patch.diff").read(), flags=re.M)))
    feat = " --features rustls-0_23,openssl,accept,connect" if crate == "actix-tls" else (" --features serde" if sid.startswith("C20") and n == 2 else "")
    demo = demos[0] if demos else None
    meta = {"id": sid, "property": prop, "round": 3, "crate": crate, "files": files, "what_it_breaks": what, "needs_to_manifest": needs,
            "origin": "fresh sub-agent that saw only the property text and the mechanisms of the changes already kept (tools/mutant_prep.py)",
            "demonstration": {"file": demo.replace("_r%d" % n, "_q%d" % n) if demo else None,
                              "placed_at": "%s/tests/%s" % (crate, demo) if demo else None,
                              "command": "cargo test --offline -p %s%s --test %s" % (crate, feat, demo[:-3]) if demo else None},
            "confirmed_by_coordinator": {"how": "tools/seeded_run.py in a scratch worktree (/tmp/vs-s3)", "demo_on_unchanged_tree": "pass",
                                         "existing_tests_with_patch": "pass", "demo_with_patch": "fail"},
            "detected_by": det, "first_run_missed_by": missed}
    if strength:
        meta["strengthening"] = strength
    json.dump(meta, open(d + "/meta.json", "w"), indent=1)
    stored += 1
print("stored", stored)
