#!/usr/bin/env python3
"""Stores the round-4 seeded changes (C01..C10) under /verif/seeded/<id>/ (patch.diff, demonstration, notes.md, meta.json).
Detection results are read from /tmp/r4/run-C*.log (first run) and /tmp/r4/run-zr4recheck*.log (after strengthening)."""
import glob, json, os, re, shutil
R4 = [
 ("C01",1,"actix-server","Drop for ServerWorker drops the services explicitly before the arbiter stop and before the fields: while a dying worker tears its services down its connection queue stays open, sends still succeed and the queued connections are closed unserved",
  ">= 2 workers, a worker fault, a service whose destructor takes time, connections accepted in that window"),
 ("C01",2,"actix-server","Accept::accept checks availability AFTER the listener's accept call: when a dispatch saturates the last available worker the next client is accepted and dropped",
  "all workers at their limit while more clients are waiting in the backlog"),
 ("C02",1,"actix-server","the guard of the unconditional 'force send' loop in accept_one tests the NEXT worker's bit instead of 'nobody available': a connection is forced onto a saturated worker although another has a free slot",
  ">= 3 workers, the rotation pointer on a saturated worker whose successor is saturated too while a later worker is free"),
 ("C02",2,"actix-server","ServerWorker gains a `readiness_lost` flag: on Unavailable -> Available after a lost readiness it notifies WorkerAvailable without looking at the counter: a saturated worker is re-armed",
  "a saturated worker whose service goes Pending and Ready again before any connection finishes"),
 ("C03",1,"actix-server","handle_waker pops under a temporary guard and takes a SECOND guard for WakerQueue::reset in the None arm: a WorkerAvailable pushed in between is thrown away",
  "a worker's guard drop between the accept thread's empty pop and its re-lock (two completions close together under saturation, real threads)"),
 ("C03",2,"actix-server","accept_all becomes a for loop that breaks at the first listener whose accept() drained it (wrong polarity): later listeners are never looked at after a WorkerAvailable",
  ">= 2 listeners, all workers at the limit, the waiting connection on a non-first listener"),
 ("C04",1,"actix-server","accept_one skips an unavailable worker by jumping to the LOWEST available slot (iter().position) instead of continuing cyclically",
  ">= 3 workers, one saturated with available workers on both sides, the rotation pointer arriving at it"),
 ("C04",2,"actix-server","Counter::dec notifies when the old value is <= limit + 1 (every release below the limit): a stale notification handled after the accept thread saturated the worker sets its bit again",
  "a release below the limit not yet handled, the worker saturated meanwhile, then the stale notification, a client waiting"),
 ("C05",1,"actix-server","the WorkerAvailable arm returns early while paused BEFORE setting the bit: a release during a pause is lost, after Resume no worker is marked available",
  "every worker saturated, pause, the saturating connections close during the pause, resume"),
 ("C05",2,"actix-server","handle_waker handles exactly ONE queued interest per waker event (no drain loop): coalesced wake-ups leave interests queued, the accept loop lags behind the commands",
  "two or more interests queued within one poll return (pause(); resume() back to back)"),
 ("C06",1,"actix-server","handle_waker handles one interest per waker event: a Stop left in the queue is never handled, handle_cmd blocks in accept_handle.join()",
  "two interests pushed within the accept thread's wake-up latency with Stop second (pause() then stop())"),
 ("C06",2,"actix-server","handle_cmd(WorkerFaulted) stores the new handle by POSITION (swap_remove(idx); push): after a fault of a worker that is not last and a second fault the server holds a dead handle and has dropped a live one; stop(true) then cuts that worker's connections off",
  ">= 2 workers, two faults (the first not in the last position), a connection held on the worker whose handle was lost, graceful stop"),
 ("C07",1,"actix-server","check_readiness updates status / `ready` only when a service CHANGES state: a service that answers Pending while already Unavailable no longer clears `ready`",
  "a service Pending at its first poll, right after being re-created, or on two consecutive polls"),
 ("C07",2,"actix-server","StreamService holds the service in an Rc and calls it inside the spawned connection task: N queued connections get N poll_ready and then N calls back to back; calls dispatched before a failure keep the failed instance alive",
  ">= 2 connections queued on the worker when it polls, a service whose readiness depends on the calls it has taken"),
 ("C08",1,"actix-server","send_connection's fix-up after removing a dead handle tests `self.next > len` instead of `len <= self.next`: next == len is not wrapped, the retry indexes out of bounds and the accept thread panics",
  ">= 2 workers and the faulted worker in the LAST slot of Accept.handles"),
 ("C08",2,"actix-server","the Worker(handle) arm marks the replacement available only `if !self.paused`: a replacement that arrives during a pause is stored but never marked available",
  "the replacement handle reaches the accept thread while paused (a Pause queued ahead of it), then resume"),
 ("C09",1,"actix-rt","the arbiter thread signals `ready` before it sends RegisterArbiter: Arbiter::new() may return unregistered, an immediate stop puts Exit ahead of the registration and the arbiter is never stopped",
  "the creating thread wins a very short race against the arbiter thread (one CPU / oversubscription)"),
 ("C09",2,"actix-rt","SystemController stops the arbiters only inside `if let Some(stop_tx) = self.stop_tx.take()`: a second Exit is a no-op, an arbiter created between two stops is never stopped",
  "stop #1, Arbiter::new(), stop #2 while the controller is still polled (all before run(), or stop #1 inside block_on)"),
 ("C10",1,"actix-rt","the arbiter loop receives in batches (poll_recv_many) and consumes the batch with pop(): commands buffered together start in reverse order",
  "two or more commands in the channel when the runner polls (a burst while the arbiter is busy)"),
 ("C10",2,"actix-rt","the arbiter loop is an async fn borrowing the receiver, which is dropped only after runtime teardown: between loop end and thread exit spawn / spawn_fn still return true and the commands vanish",
  "a stop while a task is pending, and a spawn from a destructor run during runtime teardown"),
]
STRENGTH = {
 ("C02",2): "hooks tolerate a new ServerWorker field (the in-thread constructor's initializer is generated from ServerWorker::start): the first run ended in a tool error",
 ("C03",1): "end-to-end stress phase on real threads (12 clients x 1500 short connections, then every worker must be usable at once); NEG ResetSeparate in AcceptDispatch.tla",
 ("C04",1): "C04_CyclicStep / T_C04_SkipsOnlyUnavailable (the accept thread's bits at every dispatch), three-worker edge config, NEG JumpToFirstAvailable",
 ("C06",2): "ServerHandles.tla + hook srv_handles + e2e scenarios with worker deaths before the stop (T_C06_HandlesAfterReplacement)",
 ("C08",2): "MC_cmd_fault_w1 (commands and a fault in one edge config), NEG RejoinPausedNoAvail",
 ("C09",1): "see DESIGN 9.9 (rt round 4)", ("C09",2): "see DESIGN 9.9 (rt round 4)", ("C10",2): "see DESIGN 9.9 (rt round 4)",
}
def results(files):
    res = {}
    for f in files:
        for l in open(f):
            m = re.match(r"\[(C\d\d)-q(\d)\] check (C\d\d): exit (\d)\s*(.*)", l)
            if m:
                res.setdefault((m.group(1), int(m.group(2))), {})[m.group(3)] = (int(m.group(4)), m.group(5))
    return res
first = results(sorted(glob.glob("/tmp/r4/run-C*.log")))
later = results(sorted(glob.glob("/tmp/r4/run-zr4recheck*.log")))
nextn = {}
for d in sorted(glob.glob("/verif/seeded/C*-*")):
    m = json.load(open(d + "/meta.json"))
    if m.get("round") == 4:
        continue
    p, n = os.path.basename(d).split("-")
    nextn[p] = max(nextn.get(p, 0), int(n))
stored = 0
for (prop, n, crate, what, needs) in R4:
    src = "/tmp/r4-%s-out/%d" % (prop, n)
    if not os.path.exists(src + "/patch.diff"):
        continue
    sid = "%s-%d" % (prop, nextn.get(prop, 0) + n)
    d = "/verif/seeded/" + sid
    os.makedirs(d, exist_ok=True)
    shutil.copy(src + "/patch.diff", d + "/patch.diff")
    demos = [f for f in os.listdir(src) if f.startswith("demo_") and f.endswith(".rs")]
    for f in demos:
        shutil.copy(src + "/" + f, d + "/" + f.replace("_r%d" % n, "_s%d" % n))
    if os.path.exists(src + "/notes.md"):
        shutil.copy(src + "/notes.md", d + "/notes.md")
    r1 = first.get((prop, n), {})
    r2 = dict(r1)
    r2.update(later.get((prop, n), {}))
    det = ["%s (%s)" % (c, (msg.split("violation ")[1].split(":")[0] if "violation " in msg else "detected")) for c, (rc, msg) in r2.items() if rc == 1]
    missed = [c for c, (rc, msg) in r1.items() if rc != 1 and c == prop]
    files = sorted(set(re.findall(r"^\+\+\+ b/(\S+)", open(src + "/patch.diff").read(), flags=re.M)))
    demo = demos[0] if demos else None
    meta = {"id": sid, "property": prop, "round": 4, "crate": crate, "files": files, "what_it_breaks": what, "needs_to_manifest": needs,
            "origin": "fresh sub-agent that saw only the property text and the mechanisms of the changes already kept (tools/mutant_prep.py)",
            "demonstration": {"file": demo.replace("_r%d" % n, "_s%d" % n) if demo else None,
                              "placed_at": "%s/tests/%s" % (crate, demo) if demo else None,
                              "command": "cargo test --offline -p %s --test %s" % (crate, demo[:-3]) if demo else None},
            "confirmed_by_coordinator": {"how": "tools/seeded_run.py in a scratch worktree", "demo_on_unchanged_tree": "pass",
                                         "existing_tests_with_patch": "pass", "demo_with_patch": "fail"},
            "detected_by": det, "first_run_missed_by": missed}
    if (prop, n) in STRENGTH and missed:
        meta["strengthening"] = STRENGTH[(prop, n)]
    json.dump(meta, open(d + "/meta.json", "w"), indent=1)
    stored += 1
print("stored", stored)
