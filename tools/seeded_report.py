#!/usr/bin/env python3
"""Regenerates the detection matrix in DESIGN.md (between the SEEDED markers) from seeded/*/meta.json."""
import glob
import json
import os

ROOT = os.path.dirname(os.path.dirname(os.path.abspath(__file__)))
rows = []
for f in sorted(glob.glob(os.path.join(ROOT, "seeded", "*", "meta.json"))):
    m = json.load(open(f))
    rows.append("| %s | %s | %s | %s | %s | %s |" % (
        m["id"], m["property"], m["what_it_breaks"].replace("|", "\\|")[:230], m["needs_to_manifest"].replace("|", "\\|")[:170],
        "; ".join(m["detected_by"]) or "**not detected**",
        ("first run missed by %s: %s" % (", ".join(m["first_run_missed_by"]), m["strengthening"])) if m["first_run_missed_by"] else "detected on the first run"))
table = "\n".join(["<!-- SEEDED-BEGIN -->",
                   "| id | property | change | needs to manifest | caught by (quick tier) | history |",
                   "|----|----------|--------|-------------------|------------------------|---------|"] + rows + ["<!-- SEEDED-END -->"])
p = os.path.join(ROOT, "DESIGN.md")
s = open(p).read()
if "SEEDED_TABLE_PLACEHOLDER" in s:
    s = s.replace("SEEDED_TABLE_PLACEHOLDER", table)
else:
    i = s.index("<!-- SEEDED-BEGIN -->")
    j = s.index("<!-- SEEDED-END -->") + len("<!-- SEEDED-END -->")
    s = s[:i] + table + s[j:]
open(p, "w").write(s)
print("%d seeded changes in the matrix" % len(rows))
