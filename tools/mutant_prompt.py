#!/usr/bin/env python3
"""Prints the prompt given to a fresh fault-seeding sub-agent for one property (it sees the property text only)."""
import sys
p = sys.argv[1]
crate_hint = sys.argv[2] if len(sys.argv) > 2 else ""
prop = open('/tmp/mut-%s-out/PROPERTY.txt' % p).read()
print(f"""You are an experienced Rust engineer playing "fault seeder" for a robustness study of the open-source Rust workspace actix-net (low-level async networking crates). Your working copy is the git worktree /tmp/mut-{p} (a full checkout; build offline only). Do NOT read or use anything under /verif, /root/.claude or /root/.vp — your work must be independent of any existing verification machinery. Everything is offline: use `cargo ... --offline` and `export CARGO_TARGET_DIR=/tmp/mut-{p}/target`.

THE PROPERTY (a behavioural guarantee users rely on):
----
{prop}----

YOUR TASK: produce TWO different code changes (each on its own, not combined) to the crate(s) named in the code anchors{(' (' + crate_hint + ')') if crate_hint else ''} such that for each change:
 (a) the workspace still compiles and ALL existing tests of the affected crate(s) still pass (`cargo test --offline -p <crate>`; run them, do not assume);
 (b) the property above is violated by the changed code;
 (c) the violation needs something SPECIFIC to manifest — a particular interleaving or timing, a crash or fault at a particular point, a multi-step sequence of operations, an unusual input or configuration value, or two cooperating code sites that each look fine alone — NOT something that ordinary use or a smoke test would expose at once;
 (d) it looks like a plausible mistake a maintainer could make in a refactor or "optimisation" (wrong comparison, off-by-one, missing re-check after a state change, reordered statements, a forgotten case, a condition that is right in the common configuration only) — no sabotage: no randomness, no time bombs, no environment checks, no panics inserted for their own sake;
 (e) it does not touch tests, Cargo files, documentation-only lines, or any line guarded by `cfg(actix_net_verif)` (leave those hooks alone and do not rely on them).
Make the two changes different in kind (different mechanism / different clause of the property), and prefer subtle over blunt.

For each change n in {{1,2}} write into /tmp/mut-{p}-out/<n>/ :
  - patch.diff   (`git -C /tmp/mut-{p} diff` against HEAD, applies with `git apply`)
  - a demonstration: a Rust test file (say where it goes, e.g. <crate>/tests/demo_{p.lower()}_<n>.rs) or a small program, that FAILS (or hangs into its own timeout and then fails) with the change applied and PASSES on the unchanged code, plus the exact command to run it;
  - notes.md: which clause of the property it breaks, what exactly is needed for it to manifest, and why the existing tests do not catch it.
Verify all of it yourself: with the patch applied the existing tests of the crate pass and the demo fails; without the patch the demo passes. When finished, restore the worktree to a clean HEAD (`git -C /tmp/mut-{p} checkout -- .` and delete demo files you added there); only the -out directory keeps your results. Keep the total effort reasonable (aim for under ~40 minutes); if a second good change is not found, deliver one and say so.

FINAL MESSAGE: for each change a 3-line summary (files touched, what breaks, what it needs to manifest) and the verification results you observed.""")
