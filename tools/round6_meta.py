#!/usr/bin/env python3
"""Stores the round-6 seeded changes (C01..C08 (second pass)) under /verif/seeded/<id>/ (patch.diff, demonstration, notes.md, meta.json).
Detection results are read from /tmp/r6/run-C*.log (first run) and /tmp/r6/run-zrecheck*.log (after strengthening)."""
import glob, json, os, re, shutil
R4 = [
 ("C01",1,"actix-server","ServerWorker::poll, Available arm: after restart_service on a readiness error `return Poll::Pending` instead of polling on: the restart future is never polled, no waker is registered, the worker sits in Restarting",
  "a service whose poll_ready returns Err after the worker has become Available"),
 ("C01",2,"actix-server","a per-poll budget of 16 connections in the Available receive loop; when it is used up the loop returns Pending without waking itself: the rest of the queue is never served",
  "more than 16 connections taken from one worker's queue within a single poll (a burst)"),
 ("C02",1,"actix-server","a `busy()` guard taken during a service restart increments the counter and discards 'limit reached': when it is the increment that crosses the limit nobody clears the bit",
  "a service restart starting with exactly limit - 1 connections in progress and two more arriving before the counter drains"),
 ("C02",2,"actix-server","ServerWorkerConfig setters become by-value builders; max_blocking_threads ends in `..Self::default()`: the configured limit reverts to 25600",
  "`.max_concurrent_connections(k).worker_max_blocking_threads(n)` in that order, more than k concurrent connections"),
 ("C03",1,"actix-server","accept_one skips an unavailable worker through a helper that rotates FIRST and then clears the bit of the worker it rotated to: a worker below its limit is marked unavailable and never notifies",
  ">= 2 workers, limit >= 2, the rotation pointer resting on a saturated worker while another has two free slots"),
 ("C03",2,"actix-server","the Worker(handle) arm runs accept_all only if no handle was left before the push: a restarted worker is stored and marked available but the listeners are not re-scanned",
  "all workers at their limit, two connections waiting, then one worker crashing, no further traffic"),
 ("C04",1,"actix-server","send_connection advances the rotation only when the worker still has room: a worker that just hit its limit keeps the pointer and gets the next connection again after it released",
  ">= 2 workers, a limit that is reached, fill X, X releases, notification handled, next dispatch"),
 ("C04",2,"actix-server","the WorkerAvailable arm drains the whole run of queued notifications but sets the bit of the FIRST index each time: B's bit is never set",
  "two workers releasing across their limit within one wake-up latency of the accept thread"),
 ("C05",1,"actix-server","Accept::accept takes at most 64 connections per call: with more queued behind a pause / back-off nothing re-arms the edge-triggered listener",
  "more than 128 clients queued on one listener when accepting restarts and no further connect afterwards"),
 ("C05",2,"actix-server","process_timeout assigns `self.timeout = Some(inst - now)` per listener instead of set_timeout (minimum): the last listener wins, an earlier deadline is slept through",
  "two listeners in back-off with different deadlines, the earlier one bound first, no other wake-up"),
 ("C06",1,"actix-server","the graceful-shutdown tick gives up when elapsed + 1 s > shutdown_timeout: the worker quits one tick early and tears the connection down",
  "a graceful stop, shutdown_timeout >= 2, a connection alive at the tick one second before the deadline (real clock: elapsed is never exactly on the tick)"),
 ("C06",2,"actix-server","map_signal folded into `graceful = !matches!(signal, Int)`: SIGQUIT becomes a graceful stop",
  "a real SIGQUIT with a connection in progress"),
 ("C07",1,"actix-server","the Restarting arm takes the restart out with mem::take and polls a local: a Pending factory future is dropped, the state falls back to Unavailable with the failed slot marked Restarting (skipped by check_readiness)",
  "a readiness failure in a service whose factory future is Pending on its first poll"),
 ("C07",2,"actix-server","the Available loop handles at most 64 connections per poll and then returns Pending without waking itself",
  "a single wake-up that finds at least 64 connections queued on one worker"),
 ("C08",1,"actix-server","remove_next reports the fault (and clears the bit) only if the bit was still set: a dead worker found by forced dispatch is removed but never replaced",
  "two simultaneous faults, one worker idle and one saturated whose late notification has not arrived, a client in that window"),
 ("C08",2,"actix-server","forced dispatch gives up after ONE attempt (`let _ = self.send_connection(conn)`): the connection is dropped although a live saturated worker exists",
  ">= 3 workers at limit 1, an idle dead worker, a saturated dead worker, a saturated live worker, the forced target being the dead saturated one"),
]
STRENGTH = {
 ("C03",1): "the first run ended in a tool error (the stress phases waited out their socket time-outs on a server that had stopped serving): stress phases now end after 20 s, scenarios end after a failed stress phase, and a violation found before a later stage breaks down is reported",
 ("C08",1): "C08_NoLostIndex (every worker index is in the rotation, reported to the server, or on its way back in the waker queue), NEG ReportOnlyIfBitSet",
 ("C05",2): "T_C05_WakesForEarliestDeadline (the loop's next poll timeout vs the earliest pending back-off deadline, measured) + corpus with two listeners in back-off",
 ("C06",1): "end-to-end graceful stops that run into a 2 s / 3 s shutdown_timeout on the real clock",
 ("C07",2): "T_C07_QueuedMeansWoken + burst of 80 connections queued at one worker; C07 runs the server flow with back-pressure",
}
def results(files):
    res = {}
    for f in files:
        for l in open(f):
            m = re.match(r"\[(C\d\d)-q(\d)\] check (C\d\d): exit (\d)\s*(.*)", l)
            if m:
                res.setdefault((m.group(1), int(m.group(2))), {})[m.group(3)] = (int(m.group(4)), m.group(5))
    return res
first = results(sorted(glob.glob("/tmp/r6/run-C*.log")))
later = results(sorted(glob.glob("/tmp/r6/run-zrecheck*.log")))
nextn = {}
for d in sorted(glob.glob("/verif/seeded/C*-*")):
    m = json.load(open(d + "/meta.json"))
    if m.get("round") == 6:
        continue
    p, n = os.path.basename(d).split("-")
    nextn[p] = max(nextn.get(p, 0), int(n))
stored = 0
for (prop, n, crate, what, needs) in R4:
    src = "/tmp/r6-%s-out/%d" % (prop, n)
    if not os.path.exists(src + "/patch.diff"):
        continue
    sid = "%s-%d" % (prop, nextn.get(prop, 0) + n)
    d = "/verif/seeded/" + sid
    os.makedirs(d, exist_ok=True)
    shutil.copy(src + "/patch.diff", d + "/patch.diff")
    demos = [f for f in os.listdir(src) if f.startswith("demo_") and f.endswith(".rs")]
    for f in demos:
        shutil.copy(src + "/" + f, d + "/" + f.replace("_r%d" % n, "_u%d" % n))
    if os.path.exists(src + "/notes.md"):
        shutil.copy(src + "/notes.md", d + "/notes.md")
    r1 = first.get((prop, n), {})
    r2 = dict(r1)
    r2.update(later.get((prop, n), {}))
    det = ["%s (%s)" % (c, (msg.split("violation ")[1].split(":")[0] if "violation " in msg else "detected")) for c, (rc, msg) in r2.items() if rc == 1]
    missed = [c for c, (rc, msg) in r1.items() if rc != 1 and c == prop]
    files = sorted(set(re.findall(r"^\+\+\+ b/(\S+)", open(src + "/patch.diff").read(), flags=re.M)))
    demo = demos[0] if demos else None
    meta = {"id": sid, "property": prop, "round": 6, "crate": crate, "files": files, "what_it_breaks": what, "needs_to_manifest": needs,
            "origin": "fresh sub-agent that saw only the property text and the mechanisms of the changes already kept (tools/mutant_prep.py)",
            "demonstration": {"file": demo.replace("_r%d" % n, "_u%d" % n) if demo else None,
                              "placed_at": "%s/tests/%s" % (crate, demo) if demo else None,
                              "command": "cargo test --offline -p %s%s --test %s" % (crate, " --features accept,connect,rustls-0_23,openssl" if crate == "actix-tls" else "", demo[:-3]) if demo else None},
            "confirmed_by_coordinator": {"how": "tools/seeded_run.py in a scratch worktree", "demo_on_unchanged_tree": "pass",
                                         "existing_tests_with_patch": "pass", "demo_with_patch": "fail"},
            "detected_by": det, "first_run_missed_by": missed}
    if (prop, n) in STRENGTH and missed:
        meta["strengthening"] = STRENGTH[(prop, n)]
    json.dump(meta, open(d + "/meta.json", "w"), indent=1)
    stored += 1
print("stored", stored)
