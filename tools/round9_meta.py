#!/usr/bin/env python3
"""Stores the round-9 seeded changes (C01, C03, C05-C11, C15, C17-C20; three agents delivered one change) under
/verif/seeded/<id>/.  Detection results are read from /tmp/r9/run-C*.log (first run) and /tmp/r9/run-zrecheck*.log."""
import glob, json, os, re, shutil
R4 = [('C01', 1, 'actix-server', 'the Worker(handle) arm sets `self.next = idx` after the push (a worker index used as a position): with two overlapping faults and the higher index restarted first the next dispatch indexes out of bounds with a connection in hand', "both workers dead, worker 1's replacement registered before worker 0's, a connection in between"),
 ('C03', 1, 'actix-server', "remove_next clears the availability bit of the POSITION instead of the removed handle's worker index", 'two faults in an order that makes position and index differ'),
 ('C03', 2, 'actix-server', "Availability keeps a count of set bits; clearing an already clear bit still decrements: available() turns false while a worker's bit is set", 'two workers, limit >= 3, the rotation stepping over a saturated worker'),
 ('C05', 1, 'actix-server', 'process_timeout re-registers a listener only while some worker is available: a back-off that ends while every worker is saturated loses its deadline for good', 'an accept-error back-off expiring while all workers are at their limit'),
 ('C05', 2, 'actix-server', 'ServerInner keeps a shadow `paused` flag that Resume never clears: from the second pause/resume cycle on pause() is acknowledged but never reaches the accept loop', 'pause, resume, pause'),
 ('C06', 1, 'actix-server', 'once stopping, the server loop drains the commands queued behind the stop into handle_cmd: a second queued Stop re-enters the Stop arm and panics on `accept_handle.take().unwrap()`', 'two stop() calls with the second already queued when the first is handled'),
 ('C07', 1, 'actix-server', "the Available loop's Err branch restarts the service and returns Pending instead of polling again: the factory future is never polled", 'a readiness failure seen inside the Available loop (between connections)'),
 ('C07', 2, 'actix-server', 'check_readiness records the failure and breaks, but returns Ok(false) first when another service was Pending: the failed service is marked Failed and never restarted', 'two services, a lower-token one Pending and a higher-token one Err in the same pass'),
 ('C08', 1, 'actix-server', 'forced dispatch is decided by a lap counter compared with `==` against handles.len(), which remove_next shrinks meanwhile: accept_one loops for ever', 'the dead worker the only one marked available, every live worker saturated'),
 ('C08', 2, 'actix-server', 'a `registered` bitmap replaces the handle scan in the late-notification guard and the Worker(handle) arm never sets it: every WorkerAvailable of a replacement is discarded', 'a replacement reaching its limit and releasing'),
 ('C09', 1, 'actix-rt', 'System::construct keeps an already registered current System: a later System on the same thread is never current', 'two Systems one after the other on one thread'),
 ('C09', 2, 'actix-rt', "stop_with_code returns early when the system arbiter's queue is closed", 'the system arbiter stopped before the system stop'),
 ('C10', 1, 'actix-rt', 'ArbiterRunner::poll drains with try_recv and then registers with one poll_recv whose result is handled only if it is Execute: a Stop landing in that gap is dropped', 'stop() from another thread while the loop is actively polling (1-2 % of attempts)'),
 ('C11', 1, 'actix-service', 'the and_then factory future takes both built services out of their slots on every poll: when only one is ready it is dropped and its completed init future is polled again', 'the two init futures resolving in different polls'),
 ('C11', 2, 'actix-service', 'the boxed wrappers call the inner service on the first poll of the response future instead of in call()', 'two responses in flight polled out of call order, or a response dropped unpolled'),
 ('C15', 1, 'actix-codec', "decode_eof's emptiness guard becomes `len() <= 1`: a final unterminated line of one byte is never delivered", 'a stream ending with exactly one byte after the last LF'),
 ('C15', 2, 'actix-codec', 'the invalid-UTF-8 error message slices a lossy rendering at byte 32: a char boundary panic instead of an error', 'an invalid line longer than 32 bytes with a multi-byte character across byte 32'),
 ('C17', 1, 'actix-utils', 'the live-guard count is derived from Rc::strong_count: every clone of the Counter counts as a guard', 'a cloned Counter'),
 ('C17', 2, 'local-waker', 'wake() wakes by reference and keeps the waker registered', 'a second wake / take / register after a wake'),
 ('C18', 1, 'actix-tls', 'the rustls TlsStream asks the transport for read readiness before handing out plaintext: decrypted data is never delivered once the socket is drained', "a message larger than the reader's buffer followed by a peer that waits"),
 ('C18', 2, 'actix-utils', 'Counter::available registers the waker only if none is recorded: the wake-up goes to the first waiter, not the current one', 'poll_ready polled Pending with two different wakers before a handshake ends'),
 ('C19', 1, 'actix-tls', 'after the first failed dial the remaining address queue is dropped', 'three or more addresses with the first two closed'),
 ('C19', 2, 'actix-tls', 'a failed lookup of the built-in resolver comes back as ConnectError::Io', 'the default resolver and a name that does not resolve'),
 ('C20', 1, 'bytestring', 'the array constructors use a hand-written check that accepts overlong encodings', 'TryFrom<[u8; N]> with C0 80 and the like'),
 ('C20', 2, 'bytestring', 'hand-written Ord compares the length first (shortlex)', 'two strings of different length, the shorter one greater')]
STRENGTH = {('C05', 2): 'e2e load scenario with a second and a third pause cycle (must-not-dispatch phases)',
 ('C09', 1): 'sequential Systems on one thread (rounds) also in the C09 scenario set',
 ('C09', 2): 'as C09-q1 (more scenario shapes in the quick set); detection depends on the scenario mix',
 ('C10', 1): 'rt driver flavour c10-stoprace: several hundred stop() calls from a foreign thread against an arbiter that is actively polling',
 ('C11', 2): 'C11_WrappersTransparent also demands that the request reaches the first stage in the call round',
 ('C18', 1): "the harness transport's poll_read_ready is faithful and readers use buffers smaller than a TLS record", ('C19', 2): 'input family (f): default resolver and a name that does not resolve (C19_DefaultFails)'}
def results(files):
    res = {}
    for f in files:
        for l in open(f):
            m = re.match(r"\[(C\d\d)-q(\d)\] check (C\d\d): exit (\d)\s*(.*)", l)
            if m:
                res.setdefault((m.group(1), int(m.group(2))), {})[m.group(3)] = (int(m.group(4)), m.group(5))
    return res
first = results(sorted(glob.glob("/tmp/r9/run-C*.log")))
later = results(sorted(glob.glob("/tmp/r9/run-zrecheck*.log")))
nextn = {}
for d in sorted(glob.glob("/verif/seeded/C*-*")):
    m = json.load(open(d + "/meta.json"))
    if m.get("round") == 9:
        continue
    p, n = os.path.basename(d).split("-")
    nextn[p] = max(nextn.get(p, 0), int(n))
stored = 0
for (prop, n, crate, what, needs) in R4:
    src = "/tmp/r9-%s-out/%d" % (prop, n)
    if not os.path.exists(src + "/patch.diff"):
        continue
    sid = "%s-%d" % (prop, nextn.get(prop, 0) + n)
    d = "/verif/seeded/" + sid
    os.makedirs(d, exist_ok=True)
    shutil.copy(src + "/patch.diff", d + "/patch.diff")
    demos = [f for f in os.listdir(src) if f.startswith("demo_") and f.endswith(".rs")]
    for f in demos:
        shutil.copy(src + "/" + f, d + "/" + f.replace("_r%d" % n, "_v%d" % n))
    if os.path.exists(src + "/notes.md"):
        shutil.copy(src + "/notes.md", d + "/notes.md")
    r1 = first.get((prop, n), {})
    r2 = dict(r1)
    r2.update(later.get((prop, n), {}))
    det = ["%s (%s)" % (c, (msg.split("violation ")[1].split(":")[0] if "violation " in msg else "detected")) for c, (rc, msg) in r2.items() if rc == 1]
    missed = [c for c, (rc, msg) in r1.items() if rc != 1 and c == prop]
    files = sorted(set(re.findall(r"^\+\+\+ b/(\S+)", open(src + "/patch.diff").read(), flags=re.M)))
    demo = demos[0] if demos else None
    meta = {"id": sid, "property": prop, "round": 9, "crate": crate, "files": files, "what_it_breaks": what, "needs_to_manifest": needs,
            "origin": "fresh sub-agent that saw only the property text and the mechanisms of the changes already kept (tools/mutant_prep.py)",
            "demonstration": {"file": demo.replace("_r%d" % n, "_v%d" % n) if demo else None,
                              "placed_at": "%s/tests/%s" % (crate, demo) if demo else None,
                              "command": "cargo test --offline -p %s%s --test %s" % (crate, " --features accept,connect,rustls-0_23,openssl" if crate == "actix-tls" else "", demo[:-3]) if demo else None},
            "confirmed_by_coordinator": {"how": "tools/seeded_run.py in a scratch worktree", "demo_on_unchanged_tree": "pass",
                                         "existing_tests_with_patch": "pass", "demo_with_patch": "fail"},
            "detected_by": det, "first_run_missed_by": missed}
    if (prop, n) in STRENGTH and (missed or not det):
        meta["strengthening"] = STRENGTH[(prop, n)]
    json.dump(meta, open(d + "/meta.json", "w"), indent=1)
    stored += 1
print("stored", stored)
