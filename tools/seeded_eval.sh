#!/bin/sh
# tools/seeded_eval.sh <out-dir-with-patch.diff> <name> <check ids...>
#   creates a scratch copy, applies the patch, runs the affected crates' existing tests and the given checks (quick);
#   prints a summary and leaves logs in /tmp/vs-<name>/log. Remove with tools/scratch.sh rm <name>.
set -u
src=$1; name=$2; shift 2
base=/tmp/vs-$name
/verif/tools/scratch.sh new "$name" >/dev/null || exit 2
mkdir -p "$base/log"
cd "$base/repo" || exit 2
if ! git apply "$src/patch.diff" 2>"$base/log/apply.err"; then echo "PATCH-DOES-NOT-APPLY"; cat "$base/log/apply.err"; exit 2; fi
crates=$(git diff --name-only | cut -d/ -f1 | sort -u | tr '\n' ' ')
echo "crates touched: $crates"
for c in $crates; do
  CARGO_TARGET_DIR=$base/repo-target cargo test --offline -p "$c" >"$base/log/test-$c.log" 2>&1
  echo "existing tests of $c: exit $? ($(grep -c '^test result: ok' "$base/log/test-$c.log") ok groups, $(grep -c 'FAILED\|failed' "$base/log/test-$c.log") failure lines)"
done
cd "$base/verif" || exit 2
for chk in "$@"; do
  ./check "$chk" >"$base/log/check-$chk.log" 2>&1
  rc=$?
  echo "check $chk: exit $rc  $(grep -E '^VIOLATION|TOOL-ERROR|KNOWN-FINDING' "$base/log/check-$chk.log" | head -2 | tr '\n' ' ')"
  grep -E "violation " "$base/log/check-$chk.log" | head -2 | cut -c1-260
done
