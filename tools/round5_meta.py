#!/usr/bin/env python3
"""Stores the round-5 seeded changes (C11..C20) under /verif/seeded/<id>/ (patch.diff, demonstration, notes.md, meta.json).
Detection results are read from /tmp/r5/run-C*.log (first run) and /tmp/r5/run-zrecheck*.log (after strengthening)."""
import glob, json, os, re, shutil
R4 = [
 ("C11",1,"actix-service","MapErrServiceFuture::poll matches only `Poll::Ready(Ok(svc))`: an inner factory's init ERROR falls into the Pending arm, the init error is never reported (the completed init future is polled again)",
  "a factory whose init future resolves to Err underneath a map_err factory combinator"),
 ("C11",2,"actix-service","impl Service for RefCell<S>: `call` uses borrow_mut(): a call that overlaps another borrow of the same cell panics instead of returning the inner result",
  "a second borrow of the same cell overlapping the call (an observer holding borrow(), or a service re-entering itself through its own Rc<RefCell<_>>)"),
 ("C12",1,"actix-service","AndThenServiceFactoryResponse::poll ends with `match (this.a.take(), this.b.take())`: when only one half is built it is moved out and dropped, the completed new_service future is polled again",
  "the two new_service futures completing in different polls (either order)"),
 ("C12",2,"actix-service","AndThenService caches 'a was ready' in a Cell and skips a.poll_ready from then on; nothing clears the flag: after a call the first half may be pending again, yet the combinator reports Ready",
  "a readiness round that reaches Ready, a call, then another poll_ready with the first half Pending"),
 ("C13",1,"actix-codec","Framed clears READABLE when decode returns Err and LinesCodec::decode_eof takes the whole remainder as the last line: complete lines buffered behind an invalid line come out as one glued frame",
  "a decode error, at least one more newline behind it in the same batch, then only Pending and EOF from the transport"),
 ("C13",2,"actix-codec","the read step retries on io::ErrorKind::Interrupted (`continue`): such a transport error produces no stream item",
  "a transport error of exactly that kind"),
 ("C14",1,"actix-codec","Framed::flush hands the transport at most HW bytes per poll_write and clears the buffer when the whole chunk was accepted: everything past the first 8 KiB is dropped while flush / close report success",
  "more than 8 KiB buffered and a transport that accepts the entire 8192-byte chunk"),
 ("C14",2,"actix-codec","Framed::flush makes at most 16 writes per call and then falls through to the transport flush: flush / close report success with bytes left, poll_ready reports ready above the mark",
  "16 consecutive successful partial writes inside one call that still leave data (a trickling transport)"),
 ("C15",1,"actix-codec","LinesCodec::decode_eof rewritten: an unterminated final line keeps its trailing CR (only a buffer of exactly CR is special-cased)",
  "a stream ending in a non-empty tail that ends in CR"),
 ("C15",2,"actix-codec","the encoder appends LF only if the DESTINATION buffer does not already end in LF: an empty item behind an unflushed line emits nothing",
  "an empty item (or one ending in LF) encoded into a buffer that already holds a line"),
 ("C16",1,"local-channel","Receiver gains a `terminated` flag set when the drain path finds the buffer empty: afterwards poll_next returns None without looking, although Receiver::sender() can create a live sender whose send succeeds",
  "all senders dropped, a poll that reports None, then rx.sender(), send, poll"),
 ("C16",2,"local-channel","a hand-off slot in front of the VecDeque: push only checks whether the slot is free, pop does not refill it: messages overtake each other",
  "two or more buffered, one receive, then a send before the buffer is drained"),
 ("C17",1,"actix-utils","CounterInner::dec wakes when num >= capacity: a drop that leaves the count at or above the capacity already wakes (and empties the slot), the drop that really crosses below wakes nobody",
  "more live guards than the capacity (or capacity 0) with a task parked, then drops"),
 ("C17",2,"local-waker","register() takes the old waker out, then stores the new one: the displaced waker is dropped while the slot is EMPTY, a wake() issued from its destructor (a guard it owns is released) reaches nobody",
  "a parked waker that owns a CounterGuard of the same counter, displaced by another task's available()"),
 ("C18",1,"actix-tls","poll_ready of every acceptor tests `conns.total() < MAX_CONN && conns.available(cx)`: at the limit the && short-circuits and no waker is registered: no wake-up when a handshake ends",
  "the per-thread limit reached, a caller parked on poll_ready, then a handshake ends"),
 ("C18",2,"actix-tls","OpenSSL TlsStream::poll_write_vectored copies all slices, does ONE poll_write and reports the total length: beyond the first TLS record (16 KiB) the data is reported written but never sent",
  "a vectored write of two or more slices totalling more than 16 KiB through the OpenSSL acceptor's stream"),
 ("C19",1,"actix-tls","ConnectAddrs::is_resolved() is true only for the One variant: a request with two or more pre-set addresses is handed to the resolver and its list replaced",
  "set_addrs with two or more addresses through ResolverService / Connector"),
 ("C19",2,"actix-tls","the OpenSSL connector disables SNI for names OpenSSL refuses (empty / over-long) and goes on: for the empty name set_host clears the host check and the handshake succeeds against any trusted certificate",
  "the OpenSSL connector, an empty hostname with the address pre-set, a certificate from a trusted issuer"),
 ("C20",1,"bytestring","slice_ref gains a pre-check with the half-open Range::contains: a legitimate empty sub-slice at the end of the string panics",
  "an empty subset one past the last byte, or an empty receiver"),
 ("C20",2,"bytestring","split_at returns early for mid == 0 or an empty string: on an empty string with mid >= 1 str::split_at panics, ByteString returns two empty strings",
  "an empty ByteString and mid >= 1"),
]
STRENGTH = {
 ("C11",2): "every other RefCell wrapper is shared with an observer that holds a borrow() of the cell for the whole run",
 ("C12",1): "a round that ends in a 'polled after completion' panic of an async-fn wrapper counts as C12_NoPollAfterCompletion (first run: caught by C11 only)",
 ("C14",2): "trickling transport (5-64 small partial writes inside one flush / ready / close call) in the random scripts",
 ("C17",2): "re-entrant wakers in LocalWakerSpec.tla (the destructor of the displaced waker calls wake()): C17_WakeDuringRegisterStep, NEG DropOldBeforeStore; the driver registers hand-made Rc wakers",
 ("C18",2): "every other payload of the data runs goes through write_vectored (three slices)",
}
def results(files):
    res = {}
    for f in files:
        for l in open(f):
            m = re.match(r"\[(C\d\d)-q(\d)\] check (C\d\d): exit (\d)\s*(.*)", l)
            if m:
                res.setdefault((m.group(1), int(m.group(2))), {})[m.group(3)] = (int(m.group(4)), m.group(5))
    return res
first = results(sorted(glob.glob("/tmp/r5/run-C*.log")))
later = results(sorted(glob.glob("/tmp/r5/run-zrecheck*.log")))
nextn = {}
for d in sorted(glob.glob("/verif/seeded/C*-*")):
    m = json.load(open(d + "/meta.json"))
    if m.get("round") == 5:
        continue
    p, n = os.path.basename(d).split("-")
    nextn[p] = max(nextn.get(p, 0), int(n))
stored = 0
for (prop, n, crate, what, needs) in R4:
    src = "/tmp/r5-%s-out/%d" % (prop, n)
    if not os.path.exists(src + "/patch.diff"):
        continue
    sid = "%s-%d" % (prop, nextn.get(prop, 0) + n)
    d = "/verif/seeded/" + sid
    os.makedirs(d, exist_ok=True)
    shutil.copy(src + "/patch.diff", d + "/patch.diff")
    demos = [f for f in os.listdir(src) if f.startswith("demo_") and f.endswith(".rs")]
    for f in demos:
        shutil.copy(src + "/" + f, d + "/" + f.replace("_r%d" % n, "_t%d" % n))
    if os.path.exists(src + "/notes.md"):
        shutil.copy(src + "/notes.md", d + "/notes.md")
    r1 = first.get((prop, n), {})
    r2 = dict(r1)
    r2.update(later.get((prop, n), {}))
    det = ["%s (%s)" % (c, (msg.split("violation ")[1].split(":")[0] if "violation " in msg else "detected")) for c, (rc, msg) in r2.items() if rc == 1]
    missed = [c for c, (rc, msg) in r1.items() if rc != 1 and c == prop]
    files = sorted(set(re.findall(r"^\+\+\+ b/(\S+)", open(src + "/patch.diff").read(), flags=re.M)))
    demo = demos[0] if demos else None
    meta = {"id": sid, "property": prop, "round": 5, "crate": crate, "files": files, "what_it_breaks": what, "needs_to_manifest": needs,
            "origin": "fresh sub-agent that saw only the property text and the mechanisms of the changes already kept (tools/mutant_prep.py)",
            "demonstration": {"file": demo.replace("_r%d" % n, "_t%d" % n) if demo else None,
                              "placed_at": "%s/tests/%s" % (crate, demo) if demo else None,
                              "command": "cargo test --offline -p %s%s --test %s" % (crate, " --features accept,connect,rustls-0_23,openssl" if crate == "actix-tls" else "", demo[:-3]) if demo else None},
            "confirmed_by_coordinator": {"how": "tools/seeded_run.py in a scratch worktree", "demo_on_unchanged_tree": "pass",
                                         "existing_tests_with_patch": "pass", "demo_with_patch": "fail"},
            "detected_by": det, "first_run_missed_by": missed}
    if (prop, n) in STRENGTH and missed:
        meta["strengthening"] = STRENGTH[(prop, n)]
    json.dump(meta, open(d + "/meta.json", "w"), indent=1)
    stored += 1
print("stored", stored)
