#!/usr/bin/env python3
"""Stores the round-7 seeded changes (C01..C10 (third pass)) under /verif/seeded/<id>/ (patch.diff, demonstration, notes.md, meta.json).
Detection results are read from /tmp/r7/run-C*.log (first run) and /tmp/r7/run-zrecheck*.log (after strengthening)."""
import glob, json, os, re, shutil
R4 = [
 ("C01",1,"actix-server","socket.rs FromStream for TcpStream looks the peer address up (for a trace line) with `?` before the raw-fd hand-over: a connection reset while it sat in the backlog fails the conversion and never reaches its service",
  "a client that aborts with RST before the worker converts the stream (deterministic while the server is paused or saturated)"),
 ("C01",2,"actix-server","accept_one loses the `if !self.avail.available()` re-check after skipping an unavailable worker: when a failed send clears the last bit the loop spins over the saturated live workers with the connection in hand",
  "all live workers at their limit, the only worker still marked available has died, a new connection"),
 ("C02",1,"actix-server","Counter::dec is split into fetch_sub and a later load() == limit: an increment landing in between makes a release below the limit notify; the stale notification re-arms a refilled worker",
  "limit >= 2, short connections finishing while the accept thread dispatches to the same worker (real threads)"),
 ("C02",2,"actix-server","WorkerCounterGuard::drop: `if counter.limit == 1 || counter.dec()`: with limit 1 the decrement never runs",
  "max_concurrent_connections(1), one connection finishing with others waiting"),
 ("C03",1,"actix-server","process_timeout clears `self.timeout` at its END (after re-arming it): a listener in back-off is never registered again if the poll returns early",
  "an accept error, then any other wake-up of the accept poll inside the 500 ms"),
 ("C03",2,"actix-server","send_connection fix-up `self.next > self.handles.len()` (off by one): the accept thread indexes out of bounds and dies",
  ">= 2 workers, the dead worker's handle last in the rotation"),
 ("C04",1,"actix-server","the Err arm of send_connection calls itself again instead of returning the connection to the rotation: the handle swapped into the dead worker's slot gets the connection without an availability check",
  ">= 3 workers, an unnoticed fault, the worker in the last slot at its limit, another worker with room"),
 ("C04",2,"actix-server","handle_waker takes the whole queue with mem::take, handles the batch unlocked and then still resets the queue: interests pushed meanwhile are discarded",
  "a worker's release landing while the accept thread handles an earlier notification (real threads)"),
 ("C05",1,"actix-server","the Resume arm sets self.timeout = None after accept_all: an accept error met by the accept inside Resume arms a back-off whose poll timeout is wiped",
  "paused, a client waiting, EMFILE at the moment Resume is handled"),
 ("C05",2,"actix-server","the Resume arm clears the listeners' deadlines outside the `if self.paused` guard: a resume while not paused erases the deadline of a listener in back-off without registering it",
  "an accept-error back-off in progress and an unmatched resume() inside the window"),
 ("C06",1,"actix-server","the graceful-shutdown tick is re-armed at deadline() + 1 s instead of now + 1 s: after a stall of more than a second the timer is Ready at once, which the arm returns as the worker future's result",
  "a graceful stop with a connection in progress and the worker thread stalled across a tick"),
 ("C06",2,"actix-server","the final `System::try_current().map(System::stop)` becomes `System::current().stop()`: without an actix System the Server future panics",
  "the server on a plain Tokio runtime with system_exit() or a signal stop"),
 ("C07",1,"actix-server","the Available loop receives in batches and takes connections with swap_remove(0): a batch of three or more is served out of order",
  "three or more connections in the worker's channel at one receive"),
 ("C07",2,"actix-server","an idle worker (queue empty at the snapshot) stays Available when a service answers Pending and falls through to poll_recv: a connection enqueued in between is called right after a Pending answer",
  "a connection enqueued between the readiness sweep and the receive of ONE worker poll (race between the accept thread and the worker)"),
 ("C08",1,"actix-server","send_connection computes the wrap-around of `next` BEFORE remove_next: with the dead worker in the last slot a live worker's handle is removed and reported",
  ">= 2 workers, the dead worker discovered while it sits in the last slot"),
 ("C08",2,"actix-server","WorkerCounterGuard::drop skips the notification while the thread is panicking: a worker killed by a panic on the connection that filled it never notifies, is never dispatched to, never found, never replaced",
  "a worker dying saturated through a panic in Service::call (always with limit 1)"),
 ("C09",1,"actix-rt","System::construct resets the arbiter id counter: ids stop being unique inside one system's registry when another System is constructed in between",
  "two Systems in one process, an arbiter created in S before and after the other System appears"),
 ("C09",2,"actix-rt","the Exit fan-out becomes `arbiters.values().all(ArbiterHandle::stop)`: it stops at the first dead handle, live arbiters behind it get no Stop",
  "a dead handle still registered when Exit is handled (an arbiter that stops the system and then itself)"),
 ("C10",1,"actix-rt","the thread-local handle installation moves into a helper that with_tokio_rt calls on the CREATING thread: Arbiter::new() overwrites the creator's current-arbiter handle",
  "a thread hosting an arbiter creates another arbiter, then a command on the first calls Arbiter::current()"),
 ("C10",2,"actix-rt","the Execute arm uses tokio::spawn on a multi-thread runtime: commands run on runtime worker threads without arbiter / system identity",
  "an arbiter built via with_tokio_rt on a multi-threaded runtime"),
]
STRENGTH = {
 ("C01",1): "load scenario with clients that abort (RST) while the server is paused: every connection accept() hands out must begin a service call (counted inside the service)",
 ("C02",1): "stress phases with overlapping short connections; service futures alive at once per worker thread counted inside the services",
 ("C03",1): "C03 is also decided by the predicates that keep the accept thread alive and the listeners live (T_C05_*, T_C08_NoPanic / NoSpin); cmd-flavoured random schedules",
 ("C03",2): "as C03-13",
 ("C04",1): "C04_SendOnlyToMarkedStep / T_C04_SendOnlyToMarked (the target's bit at the last turn of the rotation), NEG ResendWithoutCheck",
 ("C06",1): "e2e: the worker thread stalled across one / two shutdown ticks",
 ("C06",2): "e2e: the server on a plain Tokio runtime, system_exit",
 ("C07",2): "builder flow event `pendrace`: the call itself makes the service pending and the readiness sweep that follows in the SAME worker poll is held for 300 ms while a second client connects (real threads): it must wait (T_C07_NoCallWhilePending)",
 ("C08",2): "load scenarios in which a worker dies exactly at its limit (limit 1)",
 ("C10",2): "the rt driver builds some arbiters on a multi-threaded Tokio runtime (with_tokio_rt)",
}
def results(files):
    res = {}
    for f in files:
        for l in open(f):
            m = re.match(r"\[(C\d\d)-q(\d)\] check (C\d\d): exit (\d)\s*(.*)", l)
            if m:
                res.setdefault((m.group(1), int(m.group(2))), {})[m.group(3)] = (int(m.group(4)), m.group(5))
    return res
first = results(sorted(glob.glob("/tmp/r7/run-C*.log")))
later = results(sorted(glob.glob("/tmp/r7/run-zrecheck*.log")))
nextn = {}
for d in sorted(glob.glob("/verif/seeded/C*-*")):
    m = json.load(open(d + "/meta.json"))
    if m.get("round") == 7:
        continue
    p, n = os.path.basename(d).split("-")
    nextn[p] = max(nextn.get(p, 0), int(n))
stored = 0
for (prop, n, crate, what, needs) in R4:
    src = "/tmp/r7-%s-out/%d" % (prop, n)
    if not os.path.exists(src + "/patch.diff"):
        continue
    sid = "%s-%d" % (prop, nextn.get(prop, 0) + n)
    d = "/verif/seeded/" + sid
    os.makedirs(d, exist_ok=True)
    shutil.copy(src + "/patch.diff", d + "/patch.diff")
    demos = [f for f in os.listdir(src) if f.startswith("demo_") and f.endswith(".rs")]
    for f in demos:
        shutil.copy(src + "/" + f, d + "/" + f.replace("_r%d" % n, "_v%d" % n))
    if os.path.exists(src + "/notes.md"):
        shutil.copy(src + "/notes.md", d + "/notes.md")
    r1 = first.get((prop, n), {})
    r2 = dict(r1)
    r2.update(later.get((prop, n), {}))
    det = ["%s (%s)" % (c, (msg.split("violation ")[1].split(":")[0] if "violation " in msg else "detected")) for c, (rc, msg) in r2.items() if rc == 1]
    missed = [c for c, (rc, msg) in r1.items() if rc != 1 and c == prop]
    files = sorted(set(re.findall(r"^\+\+\+ b/(\S+)", open(src + "/patch.diff").read(), flags=re.M)))
    demo = demos[0] if demos else None
    meta = {"id": sid, "property": prop, "round": 7, "crate": crate, "files": files, "what_it_breaks": what, "needs_to_manifest": needs,
            "origin": "fresh sub-agent that saw only the property text and the mechanisms of the changes already kept (tools/mutant_prep.py)",
            "demonstration": {"file": demo.replace("_r%d" % n, "_v%d" % n) if demo else None,
                              "placed_at": "%s/tests/%s" % (crate, demo) if demo else None,
                              "command": "cargo test --offline -p %s%s --test %s" % (crate, " --features accept,connect,rustls-0_23,openssl" if crate == "actix-tls" else "", demo[:-3]) if demo else None},
            "confirmed_by_coordinator": {"how": "tools/seeded_run.py in a scratch worktree", "demo_on_unchanged_tree": "pass",
                                         "existing_tests_with_patch": "pass", "demo_with_patch": "fail"},
            "detected_by": det, "first_run_missed_by": missed}
    if (prop, n) in STRENGTH and (missed or not det):
        meta["strengthening"] = STRENGTH[(prop, n)]
    json.dump(meta, open(d + "/meta.json", "w"), indent=1)
    stored += 1
print("stored", stored)
