#!/bin/sh
# tools/scratch.sh new <name>    create /tmp/vs-<name>/{repo,verif}: a git worktree of /repo HEAD and a copy of
#                                /verif whose harness depends on that worktree (own cargo target dir).
#                                Use it to try a change to actix-net against the checks without touching /repo:
#                                   cd /tmp/vs-<name>/repo && <edit>;  cd /tmp/vs-<name>/verif && ./check Cxx
# tools/scratch.sh rm <name>     remove both (and the build output)
set -e
cmd=$1; name=$2; base=/tmp/vs-$name
case "$cmd" in
 new)
  rm -rf "$base"; mkdir -p "$base"
  git -C /repo worktree prune
  git -C /repo worktree add -q --detach "$base/repo" HEAD
  mkdir -p "$base/verif"
  rsync -a --exclude harness/target --exclude out --exclude .git /verif/ "$base/verif/"
  sed -i "s#\"/repo/#\"$base/repo/#g" "$base/verif/harness/Cargo.toml"
  echo "$base" ;;
 sync)
  rsync -a --exclude harness/target --exclude harness/Cargo.toml --exclude out --exclude .git /verif/ "$base/verif/"
  git -C "$base/repo" checkout -q -- . && git -C "$base/repo" checkout -q --detach "$(git -C /repo rev-parse HEAD)" ;;
 rm)
  git -C /repo worktree remove --force "$base/repo" 2>/dev/null || true
  rm -rf "$base"; git -C /repo worktree prune ;;
 *) echo "usage: scratch.sh new|sync|rm <name>"; exit 2 ;;
esac
