#!/usr/bin/env python3
"""tools/seeded_run.py <table.json>: confirms and evaluates seeded changes in ONE reusable scratch copy (/tmp/vs-seed).
table entry: {"id","src","crates":[..],"features":"","demo_crate","demo","checks":[..]}"""
import json, os, subprocess, sys, shutil
BASE = "/tmp/vs-" + os.environ.get("SEED_SCRATCH", "seed")
def sh(cmd, cwd=None, env=None, timeout=1800, log=None):
    e = dict(os.environ); e.update(env or {})
    r = subprocess.run(cmd, shell=True, cwd=cwd, env=e, stdout=subprocess.PIPE, stderr=subprocess.STDOUT, text=True, timeout=timeout)
    if log: open(log, "w").write(r.stdout)
    return r.returncode, r.stdout
table = json.load(open(sys.argv[1]))
skip_demo = os.environ.get("SKIP_DEMO")
if not os.path.isdir(BASE + "/repo"):
    sh("/verif/tools/scratch.sh new " + os.environ.get("SEED_SCRATCH", "seed"))
sh("/verif/tools/scratch.sh sync " + os.environ.get("SEED_SCRATCH", "seed"))
os.makedirs(BASE + "/log", exist_ok=True)
results = {}
for t in table:
    sid, src = t["id"], t["src"]
    repo = BASE + "/repo"
    sh("git checkout -q -- . && git clean -fdq", cwd=repo)
    tenv = {"CARGO_TARGET_DIR": BASE + "/repo-target"}
    feat = (" --features " + t["features"]) if t.get("features") else ""
    demo_dst = "%s/%s/tests/%s.rs" % (repo, t["demo_crate"], t["demo"])
    res = {"id": sid}
    os.makedirs(os.path.dirname(demo_dst), exist_ok=True)
    if not skip_demo:
        shutil.copy("%s/%s.rs" % (src, t["demo"]), demo_dst)
        rc, _ = sh("cargo test --offline -p %s%s --test %s -- --test-threads=1" % (t["demo_crate"], feat, t["demo"]), cwd=repo, env=tenv, log="%s/log/%s-demo-clean.log" % (BASE, sid))
        res["demo_clean"] = rc
        os.remove(demo_dst)
    rc, out = sh("git apply %s/patch.diff" % src, cwd=repo)
    if rc != 0:
        print("[%s] PATCH-DOES-NOT-APPLY %s" % (sid, out)); continue
    if not skip_demo:
        rcs = []
        for c in t["crates"]:
            f2 = feat if c == "actix-tls" else ""
            rc, _ = sh("cargo test --offline -p %s%s" % (c, f2), cwd=repo, env=tenv, log="%s/log/%s-tests-%s.log" % (BASE, sid, c))
            rcs.append(rc)
        res["tests_patched"] = rcs
        shutil.copy("%s/%s.rs" % (src, t["demo"]), demo_dst)
        rc, _ = sh("cargo test --offline -p %s%s --test %s -- --test-threads=1" % (t["demo_crate"], feat, t["demo"]), cwd=repo, env=tenv, log="%s/log/%s-demo-patched.log" % (BASE, sid))
        res["demo_patched"] = rc
        os.remove(demo_dst)
        print("[%s] demo clean: %s | existing tests patched: %s | demo patched: %s" % (sid, res["demo_clean"], rcs, rc), flush=True)
    for chk in t["checks"]:
        env = {k: v for k, v in os.environ.items() if not k.startswith("CARGO_TARGET")}
        r = subprocess.run("./check %s" % chk, shell=True, cwd=BASE + "/verif", env=env, stdout=subprocess.PIPE, stderr=subprocess.STDOUT, text=True)
        open("%s/log/%s-check-%s.log" % (BASE, sid, chk), "w").write(r.stdout)
        viol = [l for l in r.stdout.splitlines() if "violation " in l][:1]
        print("[%s] check %s: exit %d %s" % (sid, chk, r.returncode, (viol[0][:230] if viol else "")), flush=True)
        res["check_" + chk] = r.returncode
    results[sid] = res
    sh("git checkout -q -- . && git clean -fdq", cwd=repo)
json.dump(results, open(BASE + "/log/results-%s.json" % os.path.basename(sys.argv[1]), "w"), indent=1)
