#!/usr/bin/env python3
"""tools/mutant_prep.py <round-tag> <Cxx> [crate-hint]: creates the scratch worktree /tmp/<tag>-<Cxx>, the result directory
/tmp/<tag>-<Cxx>-out with PROPERTY.txt (property text and code anchors only) and prints the prompt for a fresh fault-seeding
sub-agent.  The agent sees the property text and, so that rounds do not repeat themselves, one line per change already kept
for that property (mechanism only - nothing about what detects it)."""
import json, os, subprocess, sys, glob
tag, p = sys.argv[1], sys.argv[2]
crate_hint = sys.argv[3] if len(sys.argv) > 3 else ""
wt, out = "/tmp/%s-%s" % (tag, p), "/tmp/%s-%s-out" % (tag, p)
prop = [json.loads(l) for l in open("/verif/properties.jsonl") if json.loads(l)["id"] == p][0]
if not os.path.isdir(wt):
    subprocess.run(["git", "-C", "/repo", "worktree", "prune"], check=True)
    subprocess.run(["git", "-C", "/repo", "worktree", "add", "-q", "--detach", wt, "HEAD"], check=True)
os.makedirs(out, exist_ok=True)
a = prop["anchors"]
txt = "%s - %s\n\n%s\n\nQuantified over: %s\n\nWhy the existing tests cannot settle it: %s\n\nCode anchors:\n  files: %s\n" % (
    p, prop["title"], prop["statement"], prop["quantifier"]["text"], prop["why_tests_cant"], ", ".join(a["files"]))
for s in a.get("state", []):
    txt += "  state: %s (%s) at %s\n" % (s["name"], s["meaning"], s["where"])
for s in a.get("mechanism", []):
    txt += "  mechanism: %s at %s\n" % (s["name"], s["where"])
open(out + "/PROPERTY.txt", "w").write(txt)
done = []
for m in sorted(glob.glob("/verif/seeded/%s-*/meta.json" % p)):
    done.append("  - " + json.load(open(m))["what_it_breaks"])
already = ("\nALREADY STUDIED for this property (do NOT repeat these mechanisms or trivial variations of them; pick other code sites / other clauses):\n" + "\n".join(done) + "\n") if done else ""
lp = p.lower()
print(f"""You are an experienced Rust engineer playing "fault seeder" for a robustness study of the open-source Rust workspace actix-net (low-level async networking crates). Your working copy is the git worktree {wt} (a full checkout; build offline only). Do NOT read or use anything under /verif, /root/.claude or /root/.vp — your work must be independent of any existing verification machinery. Everything is offline: use `cargo ... --offline` and `export CARGO_TARGET_DIR={wt}/target`. Do not work in /repo itself.

THE PROPERTY (a behavioural guarantee users rely on):
----
{txt}----
{already}
YOUR TASK: produce TWO different code changes (each on its own, not combined) to the crate(s) named in the code anchors{(' (' + crate_hint + ')') if crate_hint else ''} such that for each change:
 (a) the workspace still compiles and ALL existing tests of the affected crate(s) still pass (`cargo test --offline -p <crate>`; run them, do not assume);
 (b) the property above is violated by the changed code;
 (c) the violation needs something SPECIFIC to manifest — a particular interleaving or timing, a crash or fault at a particular point, a multi-step sequence of operations, an unusual input or configuration value, or two cooperating code sites that each look fine alone — NOT something that ordinary use or a smoke test would expose at once;
 (d) it looks like a plausible mistake a maintainer could make in a refactor or "optimisation" (wrong comparison, off-by-one, missing re-check after a state change, reordered statements, a forgotten case, a condition that is right in the common configuration only) — no sabotage: no randomness, no time bombs, no environment checks, no panics inserted for their own sake;
 (e) it does not touch tests, Cargo files, documentation-only lines, or any line guarded by `cfg(actix_net_verif)` (leave those hooks alone and do not rely on them).
Make the two changes different in kind (different mechanism / different clause of the property), and prefer subtle over blunt.

For each change n in {{1,2}} write into {out}/<n>/ :
  - patch.diff   (`git -C {wt} diff` against HEAD, applies with `git apply`)
  - a demonstration: a Rust test file named demo_{lp}_r<n>.rs (say where it goes, e.g. <crate>/tests/demo_{lp}_r<n>.rs) or a small program, that FAILS (or hangs into its own timeout and then fails) with the change applied and PASSES on the unchanged code, plus the exact command to run it;
  - notes.md: which clause of the property it breaks, what exactly is needed for it to manifest, and why the existing tests do not catch it.
Verify all of it yourself: with the patch applied the existing tests of the crate pass and the demo fails; without the patch the demo passes. When finished, restore the worktree to a clean HEAD (`git -C {wt} checkout -- .` and delete demo files you added there) and delete {wt}/target; only the -out directory keeps your results. Keep the total effort reasonable (aim for under ~40 minutes); if a second good change is not found, deliver one and say so.

FINAL MESSAGE: for each change a 3-line summary (files touched, what breaks, what it needs to manifest) and the verification results you observed.""")
