import sys, random; sys.path.insert(0,'/verif/lib'); sys.path.insert(0,'/verif/lib/checks')
import vlib, srvflow
import c01, c03, c05, c08, c02, c04
ctx = vlib.Check("C05","quick",7); import os; ctx.workdir = vlib.ensure_dir("/verif/out/MIX-"+(sys.argv[3] if len(sys.argv)>3 else "mix"))
vlib.cargo_build(["vsrv"])
inv = []
for m in (c01,c03,c05,c08,c02,c04):
    for i in m.INV:
        if i not in inv: inv.append(i)
rng = random.Random(int(sys.argv[1]) if len(sys.argv)>1 else 7)
scheds = srvflow.random_schedules(rng, int(sys.argv[2]) if len(sys.argv)>2 else 400, sys.argv[3] if len(sys.argv)>3 else "mix")
for sch in scheds:
    sch["steps"] = list(sch["steps"]) + srvflow.probe_epilogue(sch); sch["probed"]=True
acc, bad, runs = srvflow.replay_and_validate(ctx, scheds, inv, "mix", strict_budget=0)
print("accepted", acc, "bad", len(bad))
bad = srvflow.confirm_rejections(ctx, scheds, bad, inv)
print("confirmed", len(bad))
for b in bad[:5]:
    print(b[:3] if isinstance(b,(list,tuple)) else b)
