#!/bin/sh
# tools/seeded_batch.sh <scratch-name> <crate> <out-dir> <demo-test-name> <checks...>
#  In ONE reusable scratch copy (/tmp/vs-<scratch-name>): confirms that the demonstration passes without the patch, that with
#  the patch the crate's existing tests still pass and the demonstration fails, then runs the given checks (quick).
set -u
name=$1; crate=$2; src=$3; demo=$4; shift 4
base=/tmp/vs-$name
[ -d "$base/repo" ] || /verif/tools/scratch.sh new "$name" >/dev/null
/verif/tools/scratch.sh sync "$name"
mkdir -p "$base/log"
cd "$base/repo" || exit 2
git checkout -q -- . ; git clean -fdq -- "$crate/tests" 2>/dev/null
export CARGO_TARGET_DIR=$base/repo-target
tag=$(basename "$(dirname "$src")" | sed "s/mut-//; s/-out//")-$(basename "$src")
if [ -z "${SKIP_DEMO:-}" ]; then
cp "$src/$demo.rs" "$crate/tests/$demo.rs"
timeout 600 cargo test --offline -p "$crate" --test "$demo" -- --test-threads=1 >"$base/log/$tag-demo-clean.log" 2>&1; d0=$?
fi
git apply "$src/patch.diff" || { echo "PATCH-DOES-NOT-APPLY"; exit 2; }
if [ -z "${SKIP_DEMO:-}" ]; then
rm -f "$crate/tests/$demo.rs"
timeout 900 cargo test --offline -p "$crate" >"$base/log/$tag-tests.log" 2>&1; t1=$?
cp "$src/$demo.rs" "$crate/tests/$demo.rs"
timeout 600 cargo test --offline -p "$crate" --test "$demo" -- --test-threads=1 >"$base/log/$tag-demo-patched.log" 2>&1; d1=$?
rm -f "$crate/tests/$demo.rs"
echo "[$tag] demo clean: exit $d0 | existing tests patched: exit $t1 | demo patched: exit $d1"
fi
unset CARGO_TARGET_DIR
cd "$base/verif" || exit 2
for chk in "$@"; do
  ./check "$chk" >"$base/log/$tag-check-$chk.log" 2>&1; rc=$?
  echo "[$tag] check $chk: exit $rc  $(grep -E '^VIOLATION|TOOL-ERROR' "$base/log/$tag-check-$chk.log" | head -1)"
  grep -E "violation " "$base/log/$tag-check-$chk.log" | head -1 | cut -c1-240
done
cd "$base/repo" && git checkout -q -- . 
