"""Second half of C04: independence of the 512 availability bits (server/Availability.tla). Filled in later."""


def run(ctx):
    pass
