"""Second half of C04: independence of the 512 availability bits (spec server/Availability.tla)."""
import json
import os

import vlib

MOD = "server/Availability.tla"


def signature(rec):
    return "avail:%s" % rec.get("ev")


def run(ctx):
    cfg = "MC_C04_avail_quick.cfg" if ctx.quick else "MC_C04_avail_thorough.cfg"
    if not ctx.quick:
        # the thorough config has no edge dump of its own: check it, then replay the quick graph
        res = ctx.model_check(MOD, cfg, workers=4)
        vlib.require_ok(res, cfg)
        ctx.add_tlc(cfg, res, "exhaustive over 12 boundary indices (4096 states), 512^2 offset pairs (ASSUME)")
    out = vlib.edge_replay_flow(
        ctx, module=MOD, cfg="MC_C04_avail_quick.cfg", negs={"NEG_C04_avail_SharedWord.cfg": ["assumption", "C04_BitsIndependent"]},
        tmodule="server/AvailabilityTrace.tla", tcfg="Trace_C04_avail.cfg", harness="vsrv", mode="avail",
        signature=signature, tag="c04avail", budget=6000 if ctx.quick else 40000)
    # offset table emitted by TLC (ASSUME PrintT) against the real Availability::offset + exhaustive pair check
    mc_out = open(os.path.join(ctx.workdir, "c04avail-mc.out")).read()
    tables = list(vlib.tagged_json(mc_out, "VEC"))
    if not tables:
        raise vlib.ToolError("Availability.tla did not emit the offset table")
    tfile = os.path.join(ctx.workdir, "avail-table.ndjson")
    vlib.write_ndjson(tfile, [tables[0]])
    r = vlib.run_harness("vsrv", ["avail-table", "--table", tfile])
    summ = json.loads(r.stdout.strip().splitlines()[-1])
    ctx.cov["availability_pairs_checked"] = summ["pairs"]
    ctx.cov["availability_offsets_checked"] = summ["indices"]
    ctx.cov["evaluations"] += summ["indices"]
    if summ["mismatches"]:
        ctx.violation("avail:table", "Availability disagrees with the specification: %s" % json.dumps(summ["first_mismatches"][:3]),
                      {"mode": "avail-table", "mismatches": summ["first_mismatches"]})
    return out
