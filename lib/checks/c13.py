"""C13 — Framed decoding does not depend on how the bytes arrive.
Spec: spec/codec/FramedRead.tla (next_item transcribed; the environment scripts every poll_read) for three
codecs (length-prefixed test codec, LinesCodec via LinesCodec.tla, BytesCodec).  TLC checks C13_Frames etc. on
every (input, script) of the bounded domain and dumps the transition graph; an init-rooted path cover of every
edge is replayed on the real Framed over a scripted AsyncRead.  A fourth codec "lpe" is the test codec made
stateful: its decode_eof yields one "end" frame on the EMPTY buffer, so end-of-stream frames that do not come
from buffered bytes are covered (streams ending exactly on a frame boundary, the empty stream).  Verdicts:
  * VIOLATION only if the items observed on the real code contradict the property (TLC, FramedReadTrace in
    predicate mode: C13_Frames / C13_Prefix / C13_ErrAfterFrames / C13_IoErrSurfaced / C13_NoPanic on the observed items);
  * a per-poll difference from the spec that keeps the property (strict mode rejects, predicate mode accepts)
    is printed as DRIFT and recorded, exit code unaffected.
Long streams (20-64 KiB, reads up to 9000 bytes) are judged by the driver's reference frames(), which is
cross-checked against the TLC-computed whole-stream frames of every schedule."""
import json
import os

import vlib

MOD = "codec/FramedRead.tla"
TMOD = "codec/FramedReadTrace.tla"
CODECS = ["lp", "lpe", "lines", "bytes"]
NEGS = {"NEG_C13_EofDecodes_lines.cfg": ["C13_Frames"], "NEG_C13_EofDecodes_lp.cfg": ["C13_Frames"],
        "NEG_C13_KeepBufOnPending_lp.cfg": ["C13_Frames", "C13_Prefix"],
        "NEG_C13_SurfaceIoErr_lines.cfg": ["C13_IoErrSurfaced"],
        "NEG_C13_EofFastPath_lpe.cfg": ["C13_Frames"]}


def signature(rec):
    res = rec.get("res") or {}
    return "read:%s" % (res.get("k") if isinstance(res, dict) else "run")


def nontrivial(s):
    """the script splits the stream inside a frame or interleaves Pending / an error: some poll needed two or
    more reads, or met Pending / an I/O error, and the stream has at least one frame"""
    return bool(s["want"]) and any(len(p["io"]) >= 2 or any(a["a"] in ("pending", "err") for a in p["io"])
                                   for p in s["polls"])


def build_schedules(ctx, codec):
    cfg = "MC_C13_%s_%s.cfg" % (codec, "quick" if ctx.quick else "thorough")
    res = ctx.model_check(MOD, cfg, workers=1, timeout=2400, xmx="8g")
    vlib.require_ok(res, cfg)
    ctx.add_tlc(cfg, res, "exhaustive, design variants, edge dump (%s codec)" % codec)
    g = vlib.graph_from_tlc(res.stdout)
    wants = {vlib.Graph.key(r["from"]): r["want"] for r in vlib.tagged_json(res.stdout, "INIT")}
    res.stdout = ""
    paths, covered, total = vlib.path_cover(g, ctx.rng)
    scheds = []
    for p in paths:
        init = g.edges[p[0]][0]
        scheds.append({"codec": codec, "input": json.loads(init)[0], "want": wants[init],
                       "polls": [g.edges[ei][1] for ei in p]})
    ctx.cov["model_edges"] = ctx.cov.get("model_edges", 0) + total
    ctx.cov["model_edges_replayed_on_impl"] = ctx.cov.get("model_edges_replayed_on_impl", 0) + covered
    ctx.cov.setdefault("inputs", {})[codec] = len(wants)
    return scheds


def replay_info(s):
    return {"mode": "read", "schedule": s}


def judge_runs(ctx, scheds, runs, summ, tag):
    """strict + predicate-mode TLC validation of recorded runs; returns (#strict accepted, #drift)"""
    flagged = {m["run"] for m in summ["first_mismatches"]} | {m["run"] for m in summ["first_prop_failures"]}
    budget = 12000 if ctx.quick else 120000
    drift = 0
    accepted_total = 0
    for codec in CODECS:
        idx = [i for i, s in enumerate(scheds) if s["codec"] == codec]
        if not idx:
            continue
        must = [i for i in idx if i in flagged]
        rest = [i for i in idx if i not in flagged]
        ctx.rng.shuffle(rest)
        pick, ev = [], 0
        for i in rest:
            if ev + len(runs[i]) > budget:
                break
            pick.append(i)
            ev += len(runs[i])
        chosen = must + pick
        rr = [runs[i] for i in chosen]
        acc, srej = vlib.validate_runs(TMOD, "Trace_C13_%s_strict.cfg" % codec, rr, ctx.workdir,
                                       tag="%s-%s-strict" % (tag, codec), max_rejects=5)
        accepted_total += acc
        pacc, prej = vlib.validate_runs(TMOD, "Trace_C13_%s_pred.cfg" % codec, rr, ctx.workdir,
                                        tag="%s-%s-pred" % (tag, codec), max_rejects=5)
        pbad = {ri for (ri, _, _) in prej}
        for (ri, pos, pred) in prej:
            rec = rr[ri][min(pos, len(rr[ri]) - 1)]
            ctx.violation(signature(rec), "TLC (predicate mode) rejects the items observed on the real Framed at record %d: "
                          "%s violated, observed %s" % (pos, pred, json.dumps(rec)),
                          dict(replay_info(scheds[chosen[ri]]), trace=rr[ri]))
        for (ri, pos, pred) in srej:
            if ri in pbad:
                continue
            drift += 1
            rec = rr[ri][min(pos, len(rr[ri]) - 1)]
            print("DRIFT spec=FramedRead codec=%s first-unmatched=%s" % (codec, json.dumps(rec)[:300]), flush=True)
        # every property failure the driver saw must have been confirmed by TLC
        for m in summ["first_prop_failures"]:
            if m["run"] in chosen and chosen.index(m["run"]) not in pbad and len(prej) < 5:
                raise vlib.ToolError("driver reports a C13 failure (%s) that TLC's predicate mode accepts: oracle "
                                     "disagreement" % m["why"])
    return accepted_total, drift


def run_read(ctx, scheds, tag):
    sfile = os.path.join(ctx.workdir, "%s-schedules.ndjson" % tag)
    tfile = os.path.join(ctx.workdir, "%s-trace.ndjson" % tag)
    vlib.write_ndjson(sfile, scheds)
    r = vlib.run_harness("vcodec", ["read", "--schedules", sfile, "--trace", tfile])
    summ = json.loads(r.stdout.strip().splitlines()[-1])
    runs = vlib.split_runs(vlib.read_ndjson(tfile))
    if len(runs) != len(scheds):
        raise vlib.ToolError("harness recorded %d runs for %d schedules" % (len(runs), len(scheds)))
    if summ["ref_mismatches"]:
        raise vlib.ToolError("the driver's reference frames() disagrees with TLC's WholeStreamFrames: %s" % json.dumps(
            summ["first_ref_mismatches"][:1]))
    return summ, runs


def run_long(ctx, n, only=None):
    tfile = os.path.join(ctx.workdir, "c13-long-trace.ndjson")
    r = vlib.run_harness("vcodec", ["readlong", "--random", n, "--seed", ctx.seed, "--trace", tfile], timeout=1800)
    summ = json.loads(r.stdout.strip().splitlines()[-1])
    for m in summ["first_mismatches"]:
        if only is not None and m["run"] != only:
            continue
        ctx.violation("readlong:%s" % m["summary"]["codec"], "long stream: %s (%s)" % (m["why"], json.dumps(m["summary"])),
                      {"mode": "readlong", "seed": ctx.seed, "run": m["run"]})
    return summ, vlib.read_ndjson(tfile)


def selftest(ctx):
    """Vacuity guard for C13_ErrAfterFrames (no model variant produces it): a synthetic history in which the error item
    overtakes two complete frames must be rejected by TLC in predicate mode with exactly that predicate."""
    run = [{"ev": "reset", "run": 0, "input": [1, 5, 1, 6]},
           {"ev": "poll", "run": 0, "io": [{"a": "data", "k": 4}, {"a": "err", "k": 0}], "res": {"k": "ioerr", "v": []}, "pos": 4}]
    _acc, rej = vlib.validate_runs(TMOD, "Trace_C13_lp_pred.cfg", [run], ctx.workdir, tag="c13-selftest", max_rejects=1)
    if not rej or rej[0][2] != "C13_ErrAfterFrames":
        raise vlib.ToolError("selftest: TLC did not reject an error item that overtakes complete frames (%s)" % (rej,))
    ctx.cov["neg_configs_rejected"].append({"cfg": "synthetic history (error item before two complete frames)", "violated": "C13_ErrAfterFrames"})


def run(ctx):
    vlib.cargo_build(["vcodec"])
    selftest(ctx)
    scheds = []
    for codec in CODECS:
        scheds += build_schedules(ctx, codec)
    for ncfg, exp in NEGS.items():
        ctx.expect_neg(MOD, ncfg, exp, workers=1)
    summ, runs = run_read(ctx, scheds, "c13")
    accepted, drift = judge_runs(ctx, scheds, runs, summ, "c13")
    if summ["prop_failures"] and not ctx.violations:
        raise vlib.ToolError("driver reports %d C13 failures but none was confirmed by TLC" % summ["prop_failures"])
    nlong = 60 if ctx.quick else 1200
    lsumm, lrecs = run_long(ctx, nlong)
    ctx.cov["traces_validated_against_impl"] += accepted
    ctx.cov["evaluations"] = len(scheds) + nlong
    ctx.cov["schedules_replayed"] = len(scheds)
    ctx.cov["schedules_ending_in_none"] = summ["terminated_with_none"]
    ctx.cov["distinct_nontrivial"] = sum(1 for s in scheds if nontrivial(s))
    ctx.cov["impl_steps"] = summ["steps"]
    ctx.cov["driver_per_poll_mismatches"] = summ["mismatches"]
    ctx.cov["driver_property_failures"] = summ["prop_failures"]
    ctx.cov["drift_runs"] = drift
    ctx.cov["reference_crosschecked_on_schedules"] = len(scheds)
    ctx.cov["long_streams"] = {"runs": lsumm["runs"], "bytes": lsumm["bytes"], "items": lsumm["items"],
                               "polls": lsumm["steps"], "max_read": lsumm["max_read"], "failures": lsumm["mismatches"]}
    ctx.cov["exhaustive"] = True
    ctx.cov["rule"] = ("schedules = init-rooted paths covering every edge of the TLC state graphs of FramedRead for the lp, lpe, lines "
                       "and bytes codecs (an edge = one poll_next with the read results it consumes: chunk of any length of "
                       "the rest, Pending, one I/O error, EOF; initial states = every input up to MaxLen); distinct by "
                       "construction; non-trivial = the stream has a frame and some poll needed >= 2 reads or met Pending / "
                       "the error; long_streams are seeded 20-64 KiB streams judged by the cross-checked Rust reference and "
                       "are counted in evaluations only")
    ctx.cov["samples"] += [{"schedule": scheds[0], "observed_trace": runs[0]},
                           {"schedule": scheds[-1], "observed_trace": runs[-1]}, {"long_stream_runs": lrecs[:4]}]
    ctx.assumptions += ["the scripted AsyncRead answers reads in script order whichever poll asks; items are compared per poll "
                        "(strict, DRIFT only) and as a sequence against WholeStreamFrames (predicate mode, VIOLATION)",
                        "BytesCodec frames are compared by concatenation (their boundaries depend on the chunking by design)",
                        "nothing is compared after None or after an I/O error item",
                        "the long-stream part is differential against frames(), bound to the spec by the cross-check"]


def replay(ctx, path):
    vlib.cargo_build(["vcodec"])
    rp = json.load(open(path))["replay"]
    if rp["mode"] == "readlong":
        ctx.seed = rp["seed"]
        lsumm, lrecs = run_long(ctx, rp["run"] + 1, only=rp["run"])
        ctx.cov.update({"evaluations": 1, "distinct_nontrivial": 1, "states": 1, "transitions": 1, "samples": lrecs[-1:]})
        return
    s = rp["schedule"]
    summ, runs = run_read(ctx, [s], "replay")
    accepted, drift = judge_runs(ctx, [s], runs, summ, "replay")
    ctx.cov.update({"evaluations": 1, "distinct_nontrivial": 1, "states": 1, "transitions": 1,
                    "traces_validated_against_impl": accepted, "samples": [runs[0][:20]]})
