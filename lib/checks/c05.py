"""C05 — pause, resume and accept-error back-off never strand a listener.
Spec: server/AcceptDispatch.tla with commands, injected accept errors, back-off deadlines, TCP and UDS listeners."""
import srvflow

INV = ["T_C05_PausedNoDispatch", "T_C05_PausedAsCommanded", "T_C05_UdsReachable", "T_C05_ListenerLive", "T_C05_BackoffExpires", "T_C05_WakesForEarliestDeadline", "T_C08_NoPanic", "T_C08_NoSpin"]
DESIGN = ["MC_cmd_quick.cfg", "MC_cmd_c3.cfg", "MC_err_c3.cfg", "MC_pause_2l.cfg"]
EDGES = ["MC_cmd_quick.cfg", "MC_err_c3.cfg", "MC_pause_2l.cfg"]
THOROUGH = ["MC_cmd_2l.cfg", "MC_cmd_w2.cfg", "MC_cmd_w2b.cfg", "MC_cmd_fault.cfg", "MC_cmd_w2l2e2.cfg"]
NEGS = {"NEG_UnlinkOnDeregister.cfg": ["C05_UdsReachable"], "NEG_BackoffNeverReregisters.cfg": ["C03_NoLostWake"],
        "NEG_ConnErrIsFatal.cfg": ["C05_ConnErrNoDelay"], "NEG_PauseKeepsRegistered.cfg": ["Steps"],
        "NEG_ResumeClearsBackoff.cfg": ["Steps"], "NEG_DropPausePair.cfg": ["StepCmdEffect"]}


def nontrivial(s, run):
    return any(r.get("do") in ("Cmd", "Inject") or any(a["step"]["do"] in ("Cmd", "Inject") for a in st.get("anchored", []))
               for r, st in zip(run[1:], s["steps"]))


def run(ctx):
    srvflow.run_check(
        ctx, design=DESIGN, edge_cfgs=EDGES, negs=NEGS, invariants=INV, corpus=["server_cmd.ndjson"],
        thorough_design=THOROUGH, nontrivial=nontrivial, random_flavour=('cmd', 'mix'), random_quick=240, max_paths_quick=700,
        rule="schedules = edge cover of the command/error config (pause/resume/stop, fatal and per-connection accept errors, "
             "deadline ticks; TCP + UDS) + NEG counterexamples + corpus; TLC checks on observed states: no dispatch in an "
             "iteration that starts and ends paused, UDS path present and connects succeed while running, and at quiescence "
             "no listener out of back-off keeps a waiting connection while a worker has capacity; non-trivial = the run "
             "contains a command or an injected error")
    import srvload
    srvload.run(ctx)


def replay(ctx, path):
    import json as _j
    if _j.load(open(path))["replay"].get("mode") == "e2e-load":
        import srvload
        return srvload.replay(ctx, path)
    srvflow.replay(ctx, path, INV)
